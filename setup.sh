#!/bin/bash
# Build the Lean model, the theorem modules and the model driver from files on disk only.
set -e
cd "$(dirname "$0")/lean"
lake build Astral astral-model
