"""Pinned witnesses of known / fixed findings (known_findings.txt).  Each function re-runs
one concrete input on the real code and returns (still_fails, detail)."""
import datetime


def c15_inverse_2020():
    from astral.julian import julianday, julianday_to_datetime
    t = datetime.datetime(2020, 1, 1, 12, 0, 0)
    r = julianday_to_datetime(julianday(t))
    return r != t, "julianday_to_datetime(julianday(2020-01-01 12:00)) = %s" % r


def c15_mjd_2020():
    from astral.julian import julianday_modified
    v = julianday_modified(datetime.datetime(2020, 1, 1, 12, 0, 0))
    return abs(v - 58849.5) > 1e-9, "julianday_modified(2020-01-01 12:00) = %r" % v


def c15_time_to_hours():
    from astral import time_to_hours
    v = time_to_hours(datetime.time(1, 30, 0, 500000))
    return abs(v - (1.5 + 0.5 / 3600)) > 1e-12, "time_to_hours(01:30:00.5) = %r" % v


# ---- fixed findings: each witness must PASS on the repaired tree ------------------------
def _tokyo():
    import zoneinfo
    from astral import Observer
    return Observer(35.68, 139.69, 0.0), zoneinfo.ZoneInfo("Asia/Tokyo"), datetime.date(2021, 6, 21)


def c03_tae_tokyo():
    from astral import sun, SunDirection
    o, tz, d = _tokyo()
    t = sun.time_at_elevation(o, 6.0, d, SunDirection.RISING, tz)
    return t.date() != d, "time_at_elevation(+6, rising, Tokyo 2021-06-21, JST) = %s" % t


def c07_twilight_tokyo():
    from astral import sun, SunDirection
    o, tz, d = _tokyo()
    s, e = sun.twilight(o, d, SunDirection.RISING, tz)
    bad = not (s < e) or (s, e) != (sun.dawn(o, d, 6, tz), sun.sunrise(o, d, tz))
    return bad, "twilight(Tokyo 2021-06-21 rising) = (%s, %s)" % (s, e)


def c05_noon_apia():
    import zoneinfo
    from astral import Observer, sun
    t = sun.noon(Observer(-13.83, -171.83), datetime.date(2021, 6, 21), zoneinfo.ZoneInfo("Pacific/Apia"))
    return t.date() != datetime.date(2021, 6, 21), "noon(Apia, 2021-06-21, Pacific/Apia) = %s" % t


def c05_midnight_180():
    from astral import Observer, sun
    d = datetime.date(2021, 11, 3)
    t = sun.midnight(Observer(0, 179.9), d)
    dist = abs((t - datetime.datetime(2021, 11, 3, tzinfo=datetime.timezone.utc)).total_seconds()) / 3600
    return dist > 12.02, "midnight(lon 179.9, 2021-11-03, UTC) = %s, %.2f h from 00:00" % (t, dist)


def c08_kiritimati():
    import zoneinfo
    from astral import Observer, sun
    o = Observer(1.87, -157.4)
    t = datetime.datetime(2021, 6, 21, 0, 30, tzinfo=zoneinfo.ZoneInfo("Pacific/Kiritimati"))
    a, b = sun.azimuth(o, t), sun.azimuth(o, t.astimezone(datetime.timezone.utc))
    return abs(a - b) > 1e-6, "azimuth at Kiritimati 2021-06-21 00:30+14: %r vs %r in UTC" % (a, b)


def c12_aware_moon():
    from astral import Observer, moon
    o = Observer(51.5, -0.12)
    t = datetime.datetime(2022, 10, 10, 20, 0, tzinfo=datetime.timezone(datetime.timedelta(hours=9)))
    a, b = moon.azimuth(o, t), moon.azimuth(o, t.astimezone(datetime.timezone.utc))
    return abs(a - b) > 1e-6, "moon.azimuth for 20:00+09:00: %r vs %r for the same instant in UTC" % (a, b)


def c12_azimuth_360():
    from astral import Observer, moon
    a = moon.azimuth(Observer(84.05580536191206, 141.516442547719), datetime.datetime(2072, 7, 12, 11, 34, 51))
    return not (0.0 <= a < 360.0), "moon.azimuth = %r" % a


def c14_hour_24():
    from astral import Observer, moon
    try:
        moon.moonset(Observer(32.24, 127.15), datetime.date(2019, 7, 6),
                     datetime.timezone(datetime.timedelta(hours=13)))
        return False, "returns"
    except ValueError as exc:
        return not str(exc).startswith("Moon never"), "moonset raised ValueError(%s)" % exc


def c14_utc_day_only():
    from astral import Observer, moon
    o = Observer(15.08762348125532, -114.59927932358266)
    try:
        t = moon.moonrise(o, datetime.date(2021, 5, 24), datetime.timezone(datetime.timedelta(hours=10)))
        return t is None, "moonrise = %s" % t
    except ValueError as exc:
        return True, "moonrise raised %s although the local date has a moonrise" % exc


def c19_cli():
    import subprocess
    import sys
    p = subprocess.run([sys.executable, "-m", "astral", "-d", "2021-06-21", "--", "51.5", "-0.12"],
                       stdout=subprocess.PIPE, stderr=subprocess.PIPE, timeout=60)
    return p.returncode != 0, "python -m astral exit status %d" % p.returncode


def c18_rows():
    import astral.geocoder as geo
    db = geo.database()
    bad = []
    for name, want_sign in (("Al Jubail", 1), ("Sana", 1), ("Sana'a", 1), ("Nouakchott", -1), ("Avarua", -1)):
        r = geo.lookup(name, db)
        if (r.longitude > 0) != (want_sign > 0):
            bad.append(name)
    av = geo.lookup("Avarua", db)
    if av.timezone == "Etc/GMT-10" or av.latitude > 0:
        bad.append("Avarua zone/latitude")
    return bool(bad), "rows still wrong: %s" % bad


def c20_tuple_overflow():
    from astral import Observer, sun
    for el in ((1e300, 1.0), (1e-200, 0.0)):
        try:
            sun.sunrise(Observer(10, 10, el), datetime.date(2020, 1, 1))
        except ValueError:
            pass
        except Exception as exc:  # noqa: BLE001
            return True, "sunrise with elevation %r raised %r" % (el, exc)
    return False, "no non-ValueError"


def c17_group_shadowed():
    import astral.geocoder as geo
    db = geo.database()
    geo.add_locations([("Europe", "X", "Africa/Lagos", "1", "1")], db)
    r = geo.lookup("Europe", db)
    return not isinstance(r, dict), "lookup('Europe') returned %s" % type(r).__name__


def c07_rahukaalam_dst():
    import zoneinfo
    from astral import Observer, sun
    ny, tz = Observer(40.71, -74.0), zoneinfo.ZoneInfo("America/New_York")
    d = datetime.date(2021, 11, 6)
    u = datetime.timezone.utc
    ss = sun.sunset(ny, d, tz).astimezone(u)
    sr = sun.sunrise(ny, d + datetime.timedelta(days=1), tz).astimezone(u)
    r = sun.rahukaalam(ny, d, False, tz)
    length = r[1].astimezone(u) - r[0].astimezone(u)
    return abs(length - (sr - ss) / 8) > datetime.timedelta(seconds=2), \
        "night rahukaalam on the DST night 2021-11-06 lasts %s, an eighth of the span is %s" % (length, (sr - ss) / 8)


# ---- known findings: each witness must still FAIL as recorded ---------------------------
def c04_n3_polar():
    from astral import Observer, sun
    try:
        sun.sunrise(Observer(89.0, 0.0, 20000.0), datetime.date(2021, 3, 12))
        return False, "returns a time"
    except ValueError as exc:
        return "always below" in str(exc), "sunrise(lat 89, 20 km, 2021-03-12): %s (the sun stays above the dipped horizon all day)" % exc


def c04_d11_dhaka():
    import zoneinfo
    from astral import Observer, sun
    try:
        sun.sunrise(Observer(23.7, 90.4), datetime.date(2021, 3, 23), zoneinfo.ZoneInfo("Asia/Dhaka"))
        return False, "returns a time"
    except ValueError as exc:
        return "Unable to find" in str(exc), "sunrise(Dhaka, 2021-03-23): %s (sunrise is at 05:59 that day)" % exc


def c10_feature():
    from astral import sun
    a = sun.adjust_to_obscuring_feature((0.001, 1000.0))
    return a > 45.0, "adjust_to_obscuring_feature((0.001, 1000)) = %r degrees (level: 0)" % a


def c10_kink():
    from astral import Observer, sun
    d = datetime.date(2000, 7, 23)
    a = sun.sunrise(Observer(-2.5345926091322895, -147.56391209404595, 92.0485), d)
    b = sun.sunrise(Observer(-2.5345926091322895, -147.56391209404595, 92.0560), d)
    return b > a, "sunrise at 92.0560 m is %s, at 92.0485 m %s" % (b, a)
