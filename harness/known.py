"""Pinned witnesses of known / fixed findings (known_findings.txt).  Each function re-runs
one concrete input on the real code and returns (still_fails, detail)."""
import datetime


def c15_inverse_2020():
    from astral.julian import julianday, julianday_to_datetime
    t = datetime.datetime(2020, 1, 1, 12, 0, 0)
    r = julianday_to_datetime(julianday(t))
    return r != t, "julianday_to_datetime(julianday(2020-01-01 12:00)) = %s" % r


def c15_mjd_2020():
    from astral.julian import julianday_modified
    v = julianday_modified(datetime.datetime(2020, 1, 1, 12, 0, 0))
    return abs(v - 58849.5) > 1e-9, "julianday_modified(2020-01-01 12:00) = %r" % v


def c15_time_to_hours():
    from astral import time_to_hours
    v = time_to_hours(datetime.time(1, 30, 0, 500000))
    return abs(v - (1.5 + 0.5 / 3600)) > 1e-12, "time_to_hours(01:30:00.5) = %r" % v
