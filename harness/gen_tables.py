"""Translator tie for data (DESIGN §4.2): regenerate lean/Astral/Gen/Locations.lean from the
text of astral.geocoder._LOCATION_INFO in /repo's current working tree.

Rows are split exactly as geocoder._add_locations_from_str does.  Per row the extractor adds
two facts that only the platform can supply: whether zoneinfo resolves the zone name, and the
zone's standard (non-DST) UTC offset in seconds.
"""
import datetime
import os
import sys
import zoneinfo

HERE = os.path.dirname(os.path.abspath(__file__))
OUT = os.path.join(os.path.dirname(HERE), "lean", "Astral", "Gen", "Locations.lean")


def std_offset(name):
    """(resolves, standard offset in seconds): utcoffset − dst at a mid-January and a mid-July
    instant of 2021; the two agree for every sane zone — take January's"""
    try:
        tz = zoneinfo.ZoneInfo(name)
    except Exception:  # noqa: BLE001
        return False, 0
    vals = []
    for m in (1, 7):
        dt = datetime.datetime(2021, m, 15, 12, tzinfo=tz)
        off = dt.utcoffset() - (dt.dst() or datetime.timedelta(0))
        vals.append(int(off.total_seconds()))
    return True, vals[0]


def lean_str(s):
    return "[" + ", ".join(str(ord(c)) for c in s) + "]"


def rows_from_source():
    import importlib
    import astral.geocoder as geo
    importlib.reload(geo)
    rows = []
    for line in geo._LOCATION_INFO.split("\n"):
        line = line.strip()
        if line != "" and line[0] != "#":
            rows.append(line.split(","))
    return rows


def generate():
    rows = rows_from_source()
    out = ["import Astral.Model.Dms",
           "/- GENERATED on every run by harness/gen_tables.py from astral.geocoder._LOCATION_INFO",
           "   (the text in /repo's working tree).  Do not edit. -/",
           "namespace Astral.Gen", "",
           "structure Row where",
           "  fields : List (List Nat)      -- the comma-separated fields of the line, as code points",
           "  tzResolves : Bool             -- zoneinfo.ZoneInfo(fields[2]) succeeds",
           "  stdOffset : Int               -- the zone's standard UTC offset, seconds",
           "  deriving Repr", ""]
    chunks = []
    CH = 48
    for ci in range(0, len(rows), CH):
        name = "locations%d" % (ci // CH)
        chunks.append(name)
        out.append("def %s : List Row := [" % name)
        body = []
        for f in rows[ci:ci + CH]:
            ok, off = std_offset(f[2]) if len(f) > 2 else (False, 0)
            body.append("  ⟨[%s], %s, %d⟩" % (", ".join(lean_str(x) for x in f),
                                              "true" if ok else "false", off))
        out.append(",\n".join(body))
        out.append("]")
        out.append("")
    out.append("def locations : List Row := " + " ++ ".join(chunks))
    out += ["", "end Astral.Gen", ""]
    text = "\n".join(out)
    os.makedirs(os.path.dirname(OUT), exist_ok=True)
    old = open(OUT, encoding="utf-8").read() if os.path.exists(OUT) else None
    if old != text:
        with open(OUT, "w", encoding="utf-8") as f:
            f.write(text)
    return {"rows": len(rows), "file": os.path.relpath(OUT, os.path.dirname(HERE)),
            "rewritten": old != text}


if __name__ == "__main__":
    sys.path.insert(0, HERE)
    print(generate())
