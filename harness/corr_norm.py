"""Correspondence for the argument-normalising preambles (property C09): the real public
functions are called with every spelling of the same request; the model receives the spelled
arguments and normalises them itself."""
import datetime

import astral
import astral.moon as moon
import astral.sun as sun
from astral import Depression, Observer, SunDirection
from common import F, I, T, TZD, B, E, N, Case, call, wall_us, instant_us, td_us
import gens
import zones
from gens import obs_tok, obs_descr, dir_tok

UTC = datetime.timezone.utc
DEP_ENUM = {"civil": Depression.CIVIL, "nautical": Depression.NAUTICAL,
            "astronomical": Depression.ASTRONOMICAL}


class FrozenClock:
    """freeze the clock *below* astral.now()/today(): the name `datetime` inside astral/__init__.py
    is replaced by a shim whose `datetime.now()` returns the frozen instant, so the real now() and
    today() run (and any state they keep is exercised)"""

    def __init__(self, now_utc, tick=None):
        """`tick`: a timedelta by which the clock advances at every reading after the first (a
        running clock: a call that reads it once sees `now_utc`; one that reads it again sees a
        later instant — possibly on the other side of a midnight)"""
        self.now_utc = now_utc
        self.tick = tick
        self.reads = 0
        self.saved = None

    def __enter__(self):
        import types
        clock = self

        def reading():
            t = clock.now_utc if not clock.tick else clock.now_utc + clock.reads * clock.tick
            clock.reads += 1
            return t

        class _FrozenDT(datetime.datetime):
            @classmethod
            def now(cls, tz=None):
                frozen = reading()
                return frozen.astimezone(tz) if tz is not None else frozen.replace(tzinfo=None)

            @classmethod
            def utcnow(cls):
                return reading().replace(tzinfo=None)

            @classmethod
            def today(cls):
                return reading().replace(tzinfo=None)
        shim = types.ModuleType("datetime")
        for k in dir(datetime):
            if not k.startswith("__"):
                setattr(shim, k, getattr(datetime, k))
        shim.datetime = _FrozenDT
        self.saved = astral.datetime
        astral.datetime = shim
        return self

    def __exit__(self, *exc):
        astral.datetime = self.saved
        return False


def inst_off(v, want_tz):
    """instant + the offset the result is labelled with"""
    if type(v) is not datetime.datetime or v.tzinfo is None:
        return "X%s" % type(v).__name__
    if want_tz is not None and not (v.tzinfo is want_tz or v.tzinfo == want_tz):
        # the same offset is not enough: the result is to be expressed in THAT zone (the requested
        # one, or the zone of the aware datetime that was given as the date)
        return "Xothertzinfo:%r %s" % (v.tzinfo, I(td_us(v.utcoffset())))
    return "%s %s" % (T(instant_us(v)), I(td_us(v.utcoffset())))


def gen_norm(rng, n, tier="quick"):
    prev = None
    for i in range(n):
        d = gens.rand_date(rng, wide=False)
        z = zones.rand_zone(rng, d)
        if rng.random() < 0.5 and not z.iana:
            z = zones.iana(rng.choice(zones.IANA_NAMES))
        if prev is not None and rng.random() < 0.3:
            d, z = prev        # same UTC day, same zone, another clock reading: stale "today"
        prev = (d, z)
        o = gens.rand_observer(rng, tuples=False)
        # the frozen clock: often an instant at which the zone's date differs from the UTC date
        hh = rng.choice([0, 1, 11, 12, 13, 22, 23, rng.randint(0, 23)])
        now = datetime.datetime(d.year, d.month, d.day, hh, rng.randint(0, 59), rng.randint(0, 59),
                                tzinfo=UTC)
        p_omit = None
        if z.iana is not None and len(z.utc_table) > 1 and rng.random() < 0.25:
            # a clock reading within 75 minutes of the local midnight before or after one of the
            # zone's offset changes: "today in the zone" must be read off the instant, not off the
            # UTC reading shifted by some offset
            t_us, _ = rng.choice(z.utc_table[1:])
            tr = datetime.datetime(1, 1, 1, tzinfo=UTC) + datetime.timedelta(microseconds=t_us - 864 * 10**8)
            ld = tr.astimezone(z.tzinfo).date() + datetime.timedelta(days=rng.choice([0, 1]))
            if zones.in_span(ld):
                mid = datetime.datetime(ld.year, ld.month, ld.day, tzinfo=z.tzinfo).astimezone(UTC)
                now = (mid + datetime.timedelta(seconds=rng.randint(-4500, 4500))).replace(microsecond=0)
                d = now.date()
                prev = (d, z)
                p_omit = 0.75
        tick = None
        if p_omit is None and rng.random() < 0.12:
            # a running clock that shows one second before a midnight of the zone at the first
            # reading and three seconds more at each later one: the date is "today" at the moment
            # of the call — one date for the whole answer
            ld = d + datetime.timedelta(days=1)
            if zones.in_span(ld) and zones.in_span(d):
                mid = datetime.datetime(ld.year, ld.month, ld.day, tzinfo=z.tzinfo).astimezone(UTC)
                now = (mid - datetime.timedelta(seconds=1)).replace(microsecond=0)
                tick = datetime.timedelta(seconds=3)
                p_omit = 1.0
                prev = None
        by_name = z.iana is not None and rng.random() < 0.5
        tzarg = z.iana if by_name else z.tzinfo
        if not by_name and z.iana is not None and rng.random() < 0.2:
            tzarg = zones.docs(z)         # the same zone as a user-defined tzinfo object
        ztz = z.tzinfo if by_name else tzarg
        tz_tok = ("Zname:%d" if by_name else "Zobj:%d") % z.id
        k = i % 14
        if k in (0, 1, 2, 3) and z.iana is not None and rng.random() < 0.3 and not isinstance(o.elevation, tuple):
            # slide the observer along the parallel until this very event reads about 00:00 in the
            # (named) zone: the date re-matching then runs with the zone in whatever form it was
            # given
            fn0 = (sun.dawn, sun.dusk, sun.sunrise, sun.sunset)[k]
            st0, t0 = call(fn0, o, d)
            if st0 == "ok":
                loc0 = t0.astimezone(z.tzinfo)
                mins = loc0.hour * 60 + loc0.minute + rng.uniform(-3, 3)
                if mins > 720:
                    mins -= 1440                      # minutes past the nearest local midnight
                from astral import Observer as _Obs
                lon2 = (o.longitude + mins / 4.0 + 180.0) % 360.0 - 180.0   # east = earlier
                o = _Obs(o.latitude, lon2, o.elevation)
        k = {9: 7, 10: 7}.get(k, k)       # the period functions three times as often
        if rng.random() < 0.2:
            # the zone left at its documented default (UTC): the call is then sometimes spelled
            # without any tzinfo argument at all (see common.respell)
            z = zones.fixed(0)
            by_name, tzarg, ztz, tz_tok = False, z.tzinfo, z.tzinfo, "Zobj:%d" % z.id
        descr = {"observer": obs_descr(o), "zone": z.describe(), "tz_by_name": by_name,
                 "now": now.isoformat()}
        if tick:
            descr["clock"] = "running: +3 s at every reading after the first"
        if k in (0, 1, 2, 3):
            fn = ("dawn", "dusk", "sunrise", "sunset")[k]
            sp = rng.random()
            if sp < (p_omit or 0.25):
                darg, dtok = None, N
            elif sp < 0.5:
                darg, dtok = d, I(d.toordinal())
            elif sp < 0.75:
                darg = datetime.datetime(d.year, d.month, d.day, rng.randint(0, 23), rng.randint(0, 59))
                dtok = "W%d" % wall_us(darg)
            else:
                z2 = zones.rand_zone(rng, d)
                naive = datetime.datetime(d.year, d.month, d.day, rng.randint(0, 23), rng.randint(0, 59))
                darg = naive.replace(tzinfo=zones.docs(z2) if z2.iana and rng.random() < 0.3 else z2.tzinfo)
                dtok = "A%d:%d" % (wall_us(naive), z2.id)
                descr["date_zone"] = z2.describe()
            out_tz = darg.tzinfo if isinstance(darg, datetime.datetime) and darg.tzinfo is not None else ztz
            descr["date"] = repr(darg)
            if fn in ("dawn", "dusk"):
                dn = rng.choice(["civil", "nautical", "astronomical", "num"])
                if dn == "num":
                    depv = rng.choice([6, 12.0, 18, rng.uniform(0, 25)])
                    dep_tok, dep_arg = F(depv), depv
                else:
                    dep_tok, dep_arg = dn, DEP_ENUM[dn]
                descr["depression"] = repr(dep_arg)
                with FrozenClock(now, tick):
                    st, v = call(getattr(sun, fn), o, darg, dep_arg, tzarg)
            else:
                dep_tok = "civil"
                with FrozenClock(now, tick):
                    st, v = call(getattr(sun, fn), o, darg, tzarg)
            yield Case(fn, "pub_event %s %s %s %s %s %s" % (fn, obs_tok(o), dtok, dep_tok, tz_tok,
                                                            I(instant_us(now))),
                       inst_off(v, out_tz) if st == "ok" else E(v), descr)
        elif k == 4:
            el = rng.choice([6.0, -4.0, rng.uniform(-10, 60), rng.uniform(91, 175), 90.0, 90.5])
            di = rng.choice([SunDirection.RISING, SunDirection.SETTING])
            darg = d if rng.random() < (1 - p_omit if p_omit else 0.6) else None
            wr = rng.random() < 0.7
            with FrozenClock(now, tick):
                st, v = call(sun.time_at_elevation, o, el, darg, di, tzarg, wr)
            descr.update({"elevation": el, "dir": di.name, "date": repr(darg)})
            yield Case("time_at_elevation", "pub_tae %s %s %s %s %s %s %s" % (
                obs_tok(o), F(el), I(darg.toordinal()) if darg else N, dir_tok(di), tz_tok, B(wr),
                I(instant_us(now))), TZD(v, ztz) if st == "ok" else E(v), descr)
        elif k == 5 and rng.random() < 0.3:
            # solar midnight with the date spelled as a datetime (naive or aware, any time of day):
            # it means that datetime's calendar date; the zone argument stays the output zone
            if rng.random() < 0.5:
                darg = datetime.datetime(d.year, d.month, d.day, rng.choice([0, 12, 20, 23, rng.randint(0, 23)]),
                                         rng.randint(0, 59))
                dtok = "W%d" % wall_us(darg)
            else:
                z2 = zones.rand_zone(rng, d)
                naive = datetime.datetime(d.year, d.month, d.day, rng.choice([0, 12, 20, 23, rng.randint(0, 23)]),
                                          rng.randint(0, 59))
                darg = naive.replace(tzinfo=z2.tzinfo)
                dtok = "A%d:%d" % (wall_us(naive), z2.id)
                descr["date_zone"] = z2.describe()
            with FrozenClock(now, tick):
                st, v = call(sun.midnight, o, darg, tzarg)
            descr["date"] = repr(darg)
            yield Case("midnight", "pub_midnight_dt %s %s %s %s" % (obs_tok(o), dtok, tz_tok, I(instant_us(now))),
                       TZD(v, ztz) if st == "ok" else E(v), descr)
        elif k == 5:
            fn = rng.choice(["noon", "midnight"])
            darg = d if rng.random() < (1 - p_omit if p_omit else 0.5) else None
            with FrozenClock(now, tick):
                st, v = call(getattr(sun, fn), o, darg, tzarg)
            descr["date"] = repr(darg)
            yield Case(fn, "pub_%s %s %s %s %s" % (fn, obs_tok(o), I(darg.toordinal()) if darg else N,
                                                   tz_tok, I(instant_us(now))),
                       TZD(v, ztz) if st == "ok" else E(v), descr)
        elif k == 7:
            # the period functions: date omitted / given, zone by name / object
            fn = rng.choice(["daylight", "night", "twilight", "golden_hour", "blue_hour", "rahu_day",
                             "rahu_night"])
            darg = d if rng.random() < (1 - p_omit if p_omit else 0.45) else None
            di = rng.choice([SunDirection.RISING, SunDirection.SETTING])
            descr.update({"function": fn, "date": repr(darg), "dir": di.name})
            with FrozenClock(now, tick):
                if fn in ("daylight", "night"):
                    st, v = call(getattr(sun, fn), o, darg, tzarg)
                elif fn in ("twilight", "golden_hour", "blue_hour"):
                    st, v = call(getattr(sun, fn), o, darg, di, tzarg)
                else:
                    st, v = call(sun.rahukaalam, o, darg, fn == "rahu_day", tzarg)
            if st == "ok":
                exp = ("%s %s" % (TZD(v[0], ztz), TZD(v[1], ztz))
                       if type(v) is tuple and len(v) == 2 else "X%s" % type(v).__name__)
            else:
                exp = E(v)
            yield Case(fn, "pub_period %s %s %s %s %s %s" % (
                fn, obs_tok(o), I(darg.toordinal()) if darg else N, dir_tok(di), tz_tok,
                I(instant_us(now))), exp, descr)
        elif k == 12:
            # daylight / night with the date spelled as a date, a naive or an aware datetime
            is_night = rng.random() < 0.5
            sp = rng.random()
            if sp < (p_omit or 0.15):
                darg, dtok = None, N
            elif sp < 0.3:
                darg, dtok = d, I(d.toordinal())
            elif sp < 0.55:
                darg = datetime.datetime(d.year, d.month, d.day, rng.choice([0, 23, rng.randint(0, 23)]),
                                         rng.randint(0, 59))
                dtok = "W%d" % wall_us(darg)
            else:
                z2 = zones.rand_zone(rng, d)
                naive = datetime.datetime(d.year, d.month, d.day, rng.choice([0, 23, rng.randint(0, 23)]),
                                          rng.randint(0, 59))
                darg = naive.replace(tzinfo=zones.docs(z2) if z2.iana and rng.random() < 0.3 else z2.tzinfo)
                dtok = "A%d:%d" % (wall_us(naive), z2.id)
                descr["date_zone"] = z2.describe()
            out_tz2 = darg.tzinfo if isinstance(darg, datetime.datetime) and darg.tzinfo is not None else ztz
            descr.update({"function": "night" if is_night else "daylight", "date": repr(darg)})
            with FrozenClock(now, tick):
                st, v = call(sun.night if is_night else sun.daylight, o, darg, tzarg)
            if st == "ok":
                exp = ("%s %s" % (inst_off(v[0], out_tz2), inst_off(v[1], out_tz2))
                       if type(v) is tuple and len(v) == 2 else "X%s" % type(v).__name__)
            else:
                exp = E(v)
            yield Case("night" if is_night else "daylight", "pub_daynight %s %s %s %s %s" % (
                B(is_night), obs_tok(o), dtok, tz_tok, I(instant_us(now))), exp, descr)
        elif k == 13:
            # moon angles with the instant omitted (now, UTC) and the phase with the date omitted
            which = rng.choice(["azimuth", "elevation", "zenith", "phase"])
            if which == "phase" and rng.random() < 0.4:
                # the phase with no argument is today's (UTC) phase: a running clock that is one
                # second before 00:00 UTC at the first reading
                now = datetime.datetime(d.year, d.month, d.day, 23, 59, 59, tzinfo=UTC)
                tick = datetime.timedelta(seconds=3)
                descr["now"] = now.isoformat()
                descr["clock"] = "running: +3 s at every reading after the first"
            descr.update({"function": "moon." + which, "instant": "omitted"})
            with FrozenClock(now, tick):
                if which == "phase":
                    st, v = call(moon.phase)
                else:
                    st, v = call(getattr(moon, which), o)
            from common import FS as _FS2
            if which == "phase":
                req = "phase %s" % I(now.date().toordinal())
            else:
                req = "moon_%s %s %s %s" % (which, F(o.latitude), F(o.longitude),
                                            I(wall_us(now.replace(tzinfo=None))))
            yield Case("moon." + which, req, (_FS2(v) if st == "ok" else E(v)), descr)
        elif k == 11:
            # solar angles with the instant omitted: "now", read from the clock as UTC; the
            # refraction switch must still be honoured
            wr = rng.random() < 0.5
            which = rng.choice(["elevation", "zenith", "azimuth", "elevation"])
            # put the sun low for this observer half the time (refraction matters there)
            descr.update({"function": which, "with_refraction": wr, "instant": "omitted"})
            with FrozenClock(now, tick):
                if which == "azimuth":
                    st, v = call(sun.azimuth, o)
                elif rng.random() < 0.5:
                    st, v = call(getattr(sun, which), o, with_refraction=wr)
                else:
                    st, v = call(getattr(sun, which), o, None, wr)
            base = "%s %s %s" % (obs_tok(o), I(wall_us(now.replace(tzinfo=None))), I(0))
            req = ("azimuth %s" % base) if which == "azimuth" else ("%s %s %s" % (which, base, B(wr)))
            from common import FS as _FS
            yield Case(which, req, (_FS(v) if st == "ok" else E(v)), descr)
        elif k == 8:
            darg = d if rng.random() < (1 - p_omit if p_omit else 0.45) else None
            dn = rng.choice(["civil", "nautical", "astronomical", "num"])
            if dn == "num":
                depv = rng.choice([6, 12.0, 18, rng.uniform(0, 25)])
                dep_tok, dep_arg = F(depv), depv
            else:
                dep_tok, dep_arg = dn, DEP_ENUM[dn]
            descr.update({"function": "sun", "date": repr(darg), "depression": repr(dep_arg)})
            with FrozenClock(now, tick):
                st, v = call(sun.sun, o, darg, dep_arg, tzarg)
            if st == "ok":
                exp = (" ".join(TZD(v[key], ztz) for key in ("dawn", "sunrise", "noon", "sunset", "dusk"))
                       if type(v) is dict and list(v) == ["dawn", "sunrise", "noon", "sunset", "dusk"] else "Xkeys")
            else:
                exp = E(v)
            yield Case("sun", "pub_sun %s %s %s %s %s" % (
                obs_tok(o), I(darg.toordinal()) if darg else N, dep_tok, tz_tok, I(instant_us(now))),
                exp, descr)
        else:
            rise = rng.random() < 0.5
            sp = rng.random()
            if sp < (p_omit or 0.3):
                darg, dtok = None, N
            elif sp < 0.6:
                darg, dtok = d, I(d.toordinal())
            elif sp < 0.8:
                darg = datetime.datetime(d.year, d.month, d.day, rng.choice([0, 23, rng.randint(0, 23)]), 30)
                dtok = "W%d" % wall_us(darg)
            else:
                z2 = zones.rand_zone(rng, d)
                naive = datetime.datetime(d.year, d.month, d.day, rng.choice([0, 23, rng.randint(0, 23)]), 30)
                darg = naive.replace(tzinfo=zones.docs(z2) if z2.iana and rng.random() < 0.3 else z2.tzinfo)
                dtok = "A%d:%d" % (wall_us(naive), z2.id)
            descr["date"] = repr(darg)
            if isinstance(darg, datetime.datetime) and darg.tzinfo is not None and rng.random() < 0.5:
                # an aware datetime as the date and NO zone argument: the documented default (UTC)
                # is the output zone — for the moon the datetime's own zone plays no part
                z = zones.fixed(0)
                ztz, tz_tok = z.tzinfo, "Zobj:%d" % z.id
                descr["zone"] = "omitted (default UTC)"
                with FrozenClock(now, tick):
                    st, v = call(moon.moonrise if rise else moon.moonset, o, darg)
            else:
                with FrozenClock(now, tick):
                    st, v = call(moon.moonrise if rise else moon.moonset, o, darg, tzarg)
            if st == "ok":
                exp = N if v is None else TZD(v, ztz)
            else:
                exp = E(v)
            yield Case("moonrise" if rise else "moonset", "pub_moon %s %s %s %s %s %s" % (
                B(rise), F(o.latitude), F(o.longitude), dtok, tz_tok, I(instant_us(now))), exp, descr)


GROUPS = {"norm": gen_norm}
