"""Correspondence cases for julian.py and the time-unit helpers."""
import datetime

import astral
import astral.julian as J
import astral.sun as sun
from common import F, FS, I, T, E, Case, call, wall_us, td_us

MAXORD = 3652059


def rand_ordinal(rng):
    k = rng.random()
    if k < 0.55:
        return rng.randint(datetime.date(1900, 1, 1).toordinal(),
                           datetime.date(2100, 12, 31).toordinal())
    if k < 0.75:
        return rng.randint(1, MAXORD)
    if k < 0.85:   # around the Gregorian switch
        return rng.randint(datetime.date(1582, 9, 1).toordinal(),
                           datetime.date(1582, 11, 30).toordinal())
    if k < 0.95:   # month / year / century boundaries
        y = rng.choice([1, 2, 4, 100, 400, 1000, 1582, 1600, 1700, 1899, 1900, 1999, 2000,
                        2001, 2020, 2024, 2100, 2400, 9998, 9999])
        m = rng.choice([1, 2, 3, 12])
        d = rng.choice([1, 28, 29, 30, 31])
        try:
            return datetime.date(y, m, d).toordinal()
        except ValueError:
            return datetime.date(y, m, 1).toordinal()
    return rng.choice([1, 2, MAXORD, MAXORD - 1])


def rand_tod(rng):
    k = rng.random()
    if k < 0.6:
        return (rng.randint(0, 23), rng.randint(0, 59), rng.randint(0, 59),
                rng.choice([0, 0, rng.randint(0, 999999)]))
    return rng.choice([(0, 0, 0, 0), (23, 59, 59, 0), (23, 59, 59, 999999), (12, 0, 0, 0),
                       (0, 0, 1, 0), (11, 59, 59, 500000), (1, 30, 0, 500000)])


def tok_time(t):
    return "%s %s %s" % (I(t.hour), I(t.minute), I(t.second))


def specials():
    """boundaries that sampling would hit too rarely: the 1582 calendar switch, day-number
    boundaries of the inverse, month/century turns"""
    for (y, m, d) in [(1582, 10, 4), (1582, 10, 5), (1582, 10, 14), (1582, 10, 15), (1582, 10, 16),
                      (1582, 12, 31), (1583, 1, 1), (1600, 2, 29), (1700, 2, 28), (1700, 3, 1),
                      (1900, 1, 1), (1900, 2, 28), (1900, 3, 1), (2000, 2, 29), (2000, 3, 1),
                      (1, 1, 1), (1, 3, 1), (9999, 12, 31), (4, 2, 29), (100, 3, 1)]:
        date = datetime.date(y, m, d)
        for (h, mi, sec) in [(0, 0, 0), (12, 0, 0), (23, 59, 59), (6, 30, 15)]:
            dt = datetime.datetime(y, m, d, h, mi, sec)
            for cal in (1, 2):
                calv = J.Calendar.GREGORIAN if cal == 1 else J.Calendar.JULIAN
                yield Case("julianday", "julianday_dt %s %s" % (I(wall_us(dt)), I(cal)),
                           FS(J.julianday(dt, calv)), {"datetime": str(dt), "calendar": cal})
            jd = J.julianday(dt)
            st, v = call(J.julianday_to_datetime, jd)
            yield Case("julianday_to_datetime", "julianday_to_datetime %s" % F(jd),
                       I(wall_us(v)) if st == "ok" else E(v), {"jd": jd, "from": str(dt)})
            st, v = call(J.julianday_modified, dt)
            yield Case("julianday_modified", "julianday_modified %s" % I(wall_us(dt)),
                       FS(v) if st == "ok" else E(v), {"datetime": str(dt)})
        yield Case("julianday", "julianday_date %s %s" % (I(date.toordinal()), I(1)),
                   FS(J.julianday(date)), {"date": str(date), "calendar": 1})
    for z in (2299159, 2299160, 2299161, 2299162, 1867216, 1867217, 2451545, 1721426):
        for fr in (-0.5, -0.25, 0.0, 0.25, 0.499999):
            jd = z + fr
            st, v = call(J.julianday_to_datetime, jd)
            yield Case("julianday_to_datetime", "julianday_to_datetime %s" % F(jd),
                       I(wall_us(v)) if st == "ok" else E(v), {"jd": jd})


def gen(rng, n, tier="quick"):
    for c in specials():
        yield c
    for i in range(n):
        o = rand_ordinal(rng)
        d = datetime.date.fromordinal(o)
        h, mi, s, us = rand_tod(rng)
        dt = datetime.datetime(d.year, d.month, d.day, h, mi, s, us)
        cal = rng.choice([1, 1, 1, 2])
        calv = J.Calendar.GREGORIAN if cal == 1 else J.Calendar.JULIAN
        k = i % 12
        if k == 0:
            st, v = call(J.julianday, d, calv)
            yield Case("julianday", "julianday_date %s %s" % (I(o), I(cal)),
                       FS(v) if st == "ok" else E(v), {"date": str(d), "calendar": cal})
        elif k == 1:
            st, v = call(J.julianday, dt, calv)
            yield Case("julianday", "julianday_dt %s %s" % (I(wall_us(dt)), I(cal)),
                       FS(v) if st == "ok" else E(v), {"datetime": str(dt), "calendar": cal})
            if 3 < d.year < 9997 and rng.random() < 0.6:
                # the same instant spelled in two zones, one after the other: the Julian day is
                # read from the wall-clock fields of each spelling (equal instants compare and
                # hash equal, so a memo keyed on the argument would confuse them)
                tz1 = datetime.timezone(datetime.timedelta(minutes=rng.randrange(-720, 841, 15)))
                tz2 = datetime.timezone(datetime.timedelta(minutes=rng.randrange(-720, 841, 15)))
                a = dt.replace(tzinfo=tz1)
                for sp in (a, a.astimezone(tz2), a.astimezone(datetime.timezone.utc)):
                    st, v = call(J.julianday, sp, calv)
                    yield Case("julianday", "julianday_dt %s %s" % (I(wall_us(sp)), I(cal)),
                               FS(v) if st == "ok" else E(v), {"datetime": str(sp), "calendar": cal})
                    st, v = call(J.julianday_modified, sp)
                    yield Case("julianday_modified", "julianday_modified %s" % I(wall_us(sp)),
                               FS(v) if st == "ok" else E(v), {"datetime": str(sp)})
        elif k == 2:
            st, v = call(J.julianday_modified, dt)
            yield Case("julianday_modified", "julianday_modified %s" % I(wall_us(dt)),
                       FS(v) if st == "ok" else E(v), {"datetime": str(dt)})
            # instances of user subclasses of datetime / date mean what their fields say
            import gens as _g
            sdt, sd = _g.as_sub(dt), _g.as_sub(d)
            st, v = call(J.julianday, sdt, calv)
            yield Case("julianday", "julianday_dt %s %s" % (I(wall_us(dt)), I(cal)),
                       FS(v) if st == "ok" else E(v), {"datetime": str(dt), "calendar": cal,
                                                       "type": "datetime subclass"})
            st, v = call(J.julianday, sd, calv)
            yield Case("julianday", "julianday_date %s %s" % (I(o), I(cal)),
                       FS(v) if st == "ok" else E(v), {"date": str(d), "calendar": cal, "type": "date subclass"})
            st, v = call(J.julianday_modified, sdt)
            yield Case("julianday_modified", "julianday_modified %s" % I(wall_us(dt)),
                       FS(v) if st == "ok" else E(v), {"datetime": str(dt), "type": "datetime subclass"})
        elif k == 3:
            # inverse: feed the forward value (property C15's round trip) or a raw float
            if rng.random() < 0.7:
                jd = J.julianday(dt.replace(microsecond=0))
            else:
                jd = rng.uniform(1721425.5, 5373484.4)
            st, v = call(J.julianday_to_datetime, jd)
            yield Case("julianday_to_datetime", "julianday_to_datetime %s" % F(jd),
                       I(wall_us(v)) if st == "ok" else E(v), {"jd": jd})
        elif k == 4:
            jd = J.julianday(dt)
            yield Case("julianday_to_juliancentury", "jd_to_jc %s" % F(jd),
                       FS(J.julianday_to_juliancentury(jd)), {"jd": jd})
        elif k == 5:
            jc = rng.uniform(-20, 80)
            yield Case("juliancentury_to_julianday", "jc_to_jd %s" % F(jc),
                       FS(J.juliancentury_to_julianday(jc)), {"jc": jc})
        elif k == 6:
            yield Case("julianday_2000", "jd2000_date %s" % I(o), FS(J.julianday_2000(d)),
                       {"date": str(d)})
        elif k == 7:
            fr = rng.choice([rng.random(), (h * 3600 + mi * 60 + s) / 86400.0, 0.0,
                             0.999999999, 1.0, 1.5, -0.25])
            st, v = call(J.day_fraction_to_time, fr)
            yield Case("day_fraction_to_time", "day_fraction_to_time %s" % F(fr),
                       tok_time(v) if st == "ok" else E(v), {"fraction": fr})
        elif k == 8:
            hv = rng.choice([rng.uniform(0, 24), rng.uniform(-1, 25),
                             astral.time_to_hours(datetime.time(h, mi, s, us)), 24.0, 0.0])
            st, v = call(astral.hours_to_time, hv)
            yield Case("hours_to_time", "hours_to_time %s" % F(hv),
                       ("%s %s %s %s" % (I(v.hour), I(v.minute), I(v.second), I(v.microsecond)))
                       if st == "ok" else E(v), {"hours": hv})
        elif k == 9:
            t = datetime.time(h, mi, s, us)
            yield Case("time_to_hours", "time_to_hours %s %s %s %s" % (I(h), I(mi), I(s), I(us)),
                       FS(astral.time_to_hours(t)), {"time": str(t)})
        elif k == 10:
            t = datetime.time(h, mi, s, us)
            yield Case("time_to_seconds",
                       "time_to_seconds %s %s %s %s" % (I(h), I(mi), I(s), I(us)),
                       FS(astral.time_to_seconds(t)), {"time": str(t)})
        else:
            mv = rng.choice([rng.uniform(0, 1440), rng.uniform(-1440, 2880),
                             rng.uniform(-1e4, 1e4), 720.0, 1440.0, 0.0, -0.5])
            st, v = call(sun.minutes_to_timedelta, mv)
            yield Case("minutes_to_timedelta", "minutes_to_timedelta %s" % F(mv),
                       T(td_us(v)) if st == "ok" else E(v), {"minutes": mv})
        # calendar primitives the model re-implements (CPython is the reference)
        if i % 6 == 0:
            yield Case("date.fromordinal", "ord_to_ymd %s" % I(o),
                       "%s %s %s" % (I(d.year), I(d.month), I(d.day)), {"ordinal": o})
            yield Case("date.weekday", "weekday %s" % I(o), I(d.weekday()), {"ordinal": o})
            y, m, dd = d.year, d.month, rng.choice([d.day, 29, 30, 31, 0, 32])
            st, v = call(datetime.date, y, m, dd)
            yield Case("date()", "ymd_to_ord %s %s %s" % (I(y), I(m), I(dd)),
                       I(v.toordinal()) if st == "ok" else E(v), {"ymd": [y, m, dd]})

GROUPS = {"julian": gen}

def _roundtrip_chunk(rng_):
    """julianday → julianday_to_datetime for 00:00:00 of every date in the chunk"""
    import struct as _st
    lo, hi = rng_
    fromord = datetime.date.fromordinal
    out = []
    for o in range(lo, hi):
        d = fromord(o)
        try:
            jd = J.julianday(datetime.datetime(d.year, d.month, d.day))
            v = J.julianday_to_datetime(jd)
            out.append(("F%016x" % _st.unpack("<Q", _st.pack("<d", jd))[0], "I%d" % wall_us(v)))
        except Exception as exc:  # noqa: BLE001
            out.append(("F%016x" % _st.unpack("<Q", _st.pack("<d", float(o) + 1721424.5))[0], E(exc)))
    return out


def roundtrip_all_dates_bulk():
    """every date 1582-10-15 … 9999-12-31 at 00:00:00 (the property quantifies over all of them):
    julianday_to_datetime(julianday(d)) on all cores, against the model; returns
    (function, requests, expected, describe)"""
    import multiprocessing
    lo0 = datetime.date(1582, 10, 15).toordinal()
    N = 3652059
    step = 60000
    chunks = [(lo, min(lo + step, N + 1)) for lo in range(lo0, N + 1, step)]
    with multiprocessing.Pool(min(16, multiprocessing.cpu_count())) as pool:
        parts = pool.map(_roundtrip_chunk, chunks)
    flat = [x for part in parts for x in part]
    requests = ["julianday_to_datetime %s" % jd for jd, _ in flat]
    expected = [e for _, e in flat]
    return "julianday_to_datetime", requests, expected, (
        lambda i: {"date": str(datetime.date.fromordinal(lo0 + i)), "time": "00:00:00"})
