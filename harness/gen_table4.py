"""One-off: emit the pinned Lean copy of astral/table4.py (Astral/Model/MoonTable.lean).

The copy is deliberately NOT regenerated on every run: property C12 is numerical
agreement with the published series, so a changed coefficient in /repo must show up as
a correspondence failure, not flow silently into the model."""
import math
import re
import sys

sys.path.insert(0, "/repo/src")
src = open("/repo/src/astral/table4.py").read()
import astral.table4 as t4  # noqa: E402

# recover the literal text of each coefficient, in order, so the Lean literal is the same decimal
coef_text = re.findall(r"Table4Row\(\s*(-?[0-9.]+)\s*,", src)
rows_all = list(t4.table4_v) + list(t4.table4_u) + list(t4.table4_w)
assert len(coef_text) == len(rows_all), (len(coef_text), len(rows_all))
for txt, row in zip(coef_text, rows_all):
    assert float(txt) == row.coefficient

out = ["import Astral.Model.Num",
       "/- GENERATED ONCE by harness/gen_table4.py from astral/table4.py at the pinned commit; pinned on purpose. -/",
       "namespace Astral", "",
       "inductive SinCos | sin | cos deriving Repr, DecidableEq", "",
       "structure T4Row (α : Type) where",
       "  coef : α", "  t : Bool", "  fn : SinCos",
       "  /-- (argument number 1..12, multiplier) in the dict order of the source -/",
       "  mults : List (Nat × Int)", "",
       "section", "variable {α : Type} [Neg α] [OfScientific α]", ""]
i = 0
for name, tab in (("table4V", t4.table4_v), ("table4U", t4.table4_u), ("table4W", t4.table4_w)):
    out.append("def %s : List (T4Row α) := [" % name)
    lines = []
    for row in tab:
        txt = coef_text[i]
        i += 1
        lit = txt if not txt.startswith("-") else "-%s" % txt[1:]
        if "." not in lit:
            lit += ".0"
        fn = ".sin" if row.sincos is math.sin else ".cos"
        mults = ", ".join("(%d, %d)" % (k, v) for k, v in row.argument_multiplers.items())
        lines.append("  ⟨%s, %s, %s, [%s]⟩" % (lit, "true" if row.t else "false", fn, mults))
    out.append(",\n".join(lines))
    out.append("]")
    out.append("")
out += ["end", "end Astral", ""]
open("/verif/lean/Astral/Model/MoonTable.lean", "w").write("\n".join(out))
print("rows", len(rows_all))
