#!/venv/bin/python
"""Import a validated seeded defect from an agent's output dir into /verif/seeded/<id>/."""
import json
import os
import shutil
import sys

VERIF = os.path.dirname(os.path.dirname(os.path.abspath(__file__)))
src, k, prop = sys.argv[1], sys.argv[2], sys.argv[3]
sid = "%s-%s" % (prop, sys.argv[4] if len(sys.argv) > 4 else k)
dst = os.path.join(VERIF, "seeded", sid)
os.makedirs(dst, exist_ok=True)
shutil.copy(os.path.join(src, "patch%s.diff" % k), os.path.join(dst, "patch.diff"))
shutil.copy(os.path.join(src, "demo%s.py" % k), os.path.join(dst, "demo.py"))
meta = json.load(open(os.path.join(src, "meta%s.json" % k)))
out = {
    "id": sid,
    "property": prop,
    "summary": meta.get("summary"),
    "files": meta.get("files"),
    "needs_to_manifest": meta.get("needs_to_manifest"),
    "author": "independent sub-agent given only the property text and a scratch worktree",
    "validated_by": "harness/seeded.py validate: 334 tests pass with the patch, demo exits 1 with "
                    "it and 0 without it (scratch worktree /tmp/seedval, removed afterwards)",
    "agent_notes": meta.get("how_verified"),
}
json.dump(out, open(os.path.join(dst, "meta.json"), "w"), indent=1)
print("imported", sid)
