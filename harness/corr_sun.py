"""Correspondence cases for sun.py and refraction_at_zenith."""
import datetime
import math

import astral
from astral import Depression, SunDirection
import astral.sun as sun
from common import F, FS, I, T, TZD, B, E, N, Case, call, invoke, wall_us, instant_us, td_us
import zones
import gens
from gens import obs_tok, obs_descr, dir_tok

RISING, SETTING = SunDirection.RISING, SunDirection.SETTING


def tok_res(st, v, f):
    return f(v) if st == "ok" else E(v)


UTC = datetime.timezone.utc


def tinst(v, tz=UTC):
    return TZD(v, tz)


def tpair(v, tz=UTC):
    if type(v) is not tuple or len(v) != 2:
        return "X%s" % type(v).__name__
    return "%s %s" % (TZD(v[0], tz), TZD(v[1], tz))


def rematch_tag(v, date, z):
    """which UTC date the answer lies on relative to the request (branch coverage)"""
    u = v.astimezone(datetime.timezone.utc).date()
    return "utc%+d" % (u - date).days


# ------------------------------------------------------------------ NOAA chain
CHAIN = ["geom_mean_long_sun", "geom_mean_anomaly_sun", "eccentric_location_earth_orbit",
         "sun_eq_of_center", "sun_true_long", "sun_true_anomoly", "sun_rad_vector",
         "sun_apparent_long", "mean_obliquity_of_ecliptic", "obliquity_correction",
         "sun_rt_ascension", "sun_declination", "var_y", "eq_of_time"]


def gen_chain(rng, n, tier="quick"):
    for i in range(n):
        jc = rng.uniform(-1.0, 1.01) if rng.random() < 0.8 else rng.uniform(-20, 80)
        name = CHAIN[i % len(CHAIN)]
        v = getattr(sun, name)(jc)
        yield Case(name, "%s %s" % (name, F(jc)), FS(v), {"jc": jc})


def gen_refraction(rng, n, tier="quick"):
    for i in range(n):
        k = rng.random()
        if k < 0.5:
            z = rng.uniform(0, 180)
        elif k < 0.8:
            z = rng.choice([5.0, 85.0, 90.575, 90.0, 4.999, 84.9, 90.5751]) + rng.uniform(-0.01, 0.01)
        elif k < 0.9:
            z = rng.choice([5.0, 85.0, 90.575, 90.0, 0.0, 180.0, 90.833, 96.0, 102.0, 108.0])
        else:
            z = rng.uniform(-100, 370)
        st, v = call(astral.refraction_at_zenith, z)
        if st == "ok" and type(v) is int:
            v = float(v)      # the function returns the int 0 above 85°; callers only add it
        yield Case("refraction_at_zenith", "refraction_at_zenith %s" % F(z),
                   tok_res(st, v, FS), {"zenith": z})


def gen_hour_angle(rng, n, tier="quick"):
    for i in range(n):
        lat = min(max(gens.rand_lat(rng), -89.8), 89.8)
        dec = rng.uniform(-23.5, 23.5)
        zen = rng.choice([90.833, 96.0, 102.0, 108.0, 84.0, 94.0, rng.uniform(0, 180),
                          rng.uniform(60, 120)])
        d = rng.choice([RISING, SETTING])
        if rng.random() < 0.3:
            # knife edge: the acos argument within ±1e-3 … ±1e-9 of ±1 (event barely exists / barely not)
            h = rng.choice([-1, 1]) * (1 + rng.choice([-1, 1]) * 10 ** rng.uniform(-9, -3))
            c = h * math.cos(math.radians(lat)) * math.cos(math.radians(dec)) \
                + math.sin(math.radians(lat)) * math.sin(math.radians(dec))
            if -1 <= c <= 1:
                zen = math.degrees(math.acos(c))
        st, v = call(sun.hour_angle, lat, dec, zen, d)
        yield Case("hour_angle", "hour_angle %s %s %s %s" % (F(lat), F(dec), F(zen), dir_tok(d)),
                   tok_res(st, v, FS), {"lat": lat, "dec": dec, "zenith": zen, "dir": d.name})
        if i % 3 == 0:
            h = rng.choice([0.0, -5.0, 10 ** rng.uniform(-3, 5.6), 1e300, 5e-324])
            yield Case("adjust_to_horizon", "adjust_to_horizon %s" % F(h),
                       FS(float(sun.adjust_to_horizon(h))), {"elevation": h})
            e = (rng.choice([-1, 1]) * 10 ** rng.uniform(-3, 4), 10 ** rng.uniform(0, 5))
            if rng.random() < 0.1:
                e = rng.choice([(0.0, 10.0), (1e300, 1.0), (1e-200, 0.0), (5.0, 0.0), (-3.0, 4.0),
                                (0.0, 0.0), (1e200, 1e200)])
            st, v = call(sun.adjust_to_obscuring_feature, e)
            yield Case("adjust_to_obscuring_feature",
                       "adjust_to_obscuring_feature %s %s" % (F(e[0]), F(e[1])),
                       tok_res(st, v, FS), {"elevation": list(e)})


# ------------------------------------------------------------------ transit and events
def lon_for_utc_midnight(rng, o, t_utc):
    """move the observer along its parallel so that the event `t_utc` (computed at o) falls
    within a few minutes of 00:00 UTC — the UTC-day wrap in time_of_transit"""
    from astral import Observer
    tod = t_utc.hour * 60 + t_utc.minute + t_utc.second / 60.0
    shift = tod / 4.0 if tod < 720 else -(1440 - tod) / 4.0     # degrees east
    lon = o.longitude + shift + rng.choice([0.0, rng.uniform(-1.5, 1.5), rng.uniform(-0.3, 0.3)])
    lon = (lon + 180.0) % 360.0 - 180.0
    return Observer(o.latitude, lon, o.elevation)


def directed_transit(rng, o, d, zen, di, wr):
    """steer a share of the transit cases onto the two knife edges of time_of_transit"""
    k = rng.random()
    if k < 0.15:
        st, t = call(sun.time_of_transit, o, d, zen, di, wr)
        if st == "ok":
            return lon_for_utc_midnight(rng, o, t), zen
    elif k < 0.30 and isinstance(o.elevation, float) and o.elevation <= 0 and not wr:
        # zenith at which the event barely exists for this latitude and this date's declination
        from astral.julian import julianday, julianday_to_juliancentury
        dec = sun.sun_declination(julianday_to_juliancentury(julianday(d) + 0.5))
        lat = max(-89.8, min(89.8, o.latitude))
        h = rng.choice([-1, 1]) * (1 + rng.choice([-1, 1]) * 10 ** rng.uniform(-8, -3))
        c = h * math.cos(math.radians(lat)) * math.cos(math.radians(dec)) \
            + math.sin(math.radians(lat)) * math.sin(math.radians(dec))
        if -1 <= c <= 1:
            return o, math.degrees(math.acos(c))
    return o, zen


def gen_transit(rng, n, tier="quick"):
    for i in range(n):
        o = gens.rand_observer(rng)
        d = gens.rand_date(rng)
        zen = rng.choice([90.0 + 32.0 / 120.0, 96.0, 102.0, 108.0, 84.0, 94.0,
                          rng.uniform(60, 120), rng.uniform(0, 180)])
        di = rng.choice([RISING, SETTING])
        wr = rng.random() < 0.7
        o, zen = directed_transit(rng, o, d, zen, di, wr)
        st, v = call(sun.time_of_transit, o, d, zen, di, wr)
        yield Case("time_of_transit", "time_of_transit %s %s %s %s %s" % (
            obs_tok(o), I(d.toordinal()), F(zen), dir_tok(di), B(wr)),
            tok_res(st, v, tinst),
            {"observer": obs_descr(o), "date": str(d), "zenith": zen, "dir": di.name,
             "with_refraction": wr})


def _event_case(rng, name, o, d, z, extra_req, call_fn, descr, fmt=tinst):
    st, v = call(call_fn)
    tags = ()
    if st == "ok" and fmt is tinst and type(v) is datetime.datetime and v.tzinfo is not None:
        tags = (rematch_tag(v, d, z),)
    descr = dict(descr)
    descr.update({"observer": obs_descr(o), "date": str(d), "zone": z.describe()})
    return Case(name, "%s %s %s%s %s" % (name, obs_tok(o), I(d.toordinal()), extra_req, z.tok),
                fmt(v, z.tzinfo) if st == "ok" else E(v), descr, tags,
                live={"observer": o, "result": (st, v)})


def gap_zone(rng, f, d):
    """(zone, date) such that the events of the UTC dates d and d+1 (f(date) -> aware UTC datetime)
    fall on either side of the requested local date: successive events step across local
    midnight, so the date holds no event at all (or two, when they get earlier) — the
    double-miss branch of the date re-matching.  Second-resolution fixed offset."""
    try:
        t0, t1 = f(d), f(d + datetime.timedelta(days=1))
    except (ValueError, OverflowError):
        return None
    drift = (t1 - t0).total_seconds() - 86400.0
    if abs(drift) < 2.0 or abs(drift) > 1800.0:
        return None
    a = rng.uniform(0.15, 0.85) * abs(drift)
    tod = t0.hour * 3600 + t0.minute * 60 + t0.second + t0.microsecond / 1e6
    if drift > 0:
        off = (-tod - a) % 86400.0        # t0 reads 24:00 − a, t1 reads 00:00 + (drift − a) two days on
    else:
        off = (-tod + a) % 86400.0        # t0 reads 00:00 + a, t1 reads 24:00 − (|drift| − a) that same day
    if off > 50400:
        off -= 86400
    off = int(off)
    if not -43200 <= off <= 50400:
        return None
    z = zones.fixed_seconds(off)
    local0 = (t0 + datetime.timedelta(seconds=off)).replace(tzinfo=None)
    want = local0.date() + datetime.timedelta(days=1) if drift > 0 else local0.date()
    return z, want


def reach_edge(rng, which):
    """(observer, depression, zone, date): the last (or first) day of the season on which the
    twilight depression is still reached, shown in a zone in which that day's event reads about
    00:00 — the date re-matching then has to try the neighbouring day, on which the depression
    is NOT reached any more: the error path inside the retry"""
    from astral import Observer as _O
    north = rng.random() < 0.5
    lat = rng.uniform(48.6, 65.0) * (1 if north else -1)
    o = _O(lat, gens.rand_lon(rng), 0.0)
    dep = float(rng.choice([6, 12, 18, 18, 12]))
    f = sun.dusk if which == "dusk" else sun.dawn
    year = rng.randint(1902, 2098)
    forward = rng.random() < 0.5            # the edge going into the white nights, or coming out
    if north:
        start = datetime.date(year, 3, 10) if forward else datetime.date(year, 10, 1)
    else:
        start = datetime.date(year, 9, 10) if forward else datetime.date(year + 1, 4, 1)
    step = datetime.timedelta(days=1 if forward else -1)
    last = None
    d = start
    for _ in range(140):
        st, t = call(f, o, d, dep)
        if st == "ok":
            last = (d, t)
        elif last is not None:
            break
        d = d + step
    else:
        return None
    if last is None:
        return None
    # look for a (zone, date) whose first candidate exists but reads another local date while
    # the neighbouring day the retry turns to has no event at all
    one = datetime.timedelta(days=1)
    for _ in range(6):
        z = zones.midnight_zone(rng, last[1])
        for dd in (0, -1, 1, -2, 2):
            D = last[0] + dd * one
            st, t = call(f, o, D, dep)
            if st != "ok":
                continue
            Dl = t.astimezone(z.tzinfo).date()
            if Dl == D:
                continue
            nd = D + (one if Dl < D else -one)
            st2, _t2 = call(f, o, nd, dep)
            if st2 != "ok":
                return o, dep, z, D
    local = last[1].astimezone(z.tzinfo).date()
    return o, dep, z, local + datetime.timedelta(days=rng.choice([-1, 0, 0, 1]))


def repeated_hour(rng, k):
    """(observer, zone, date): the event (kind k of gen_events) placed inside the repeated wall-clock
    hour at the end of a daylight-saving period of an IANA zone — there `fold` tells two instants
    apart, and anything that rebuilds the datetime from its fields or does arithmetic on it loses
    that"""
    from astral import Observer as _O
    zamb, naive_utc = zones.ambiguous_instant(rng)
    if zamb is None:
        return None
    target = naive_utc.replace(tzinfo=UTC) + datetime.timedelta(minutes=rng.uniform(-25, 25))
    d = target.astimezone(zamb.tzinfo).date()
    lat = rng.uniform(-50, 50) if k in (6, 7) else rng.uniform(-45, 45)
    lon = rng.uniform(-180, 180)
    f = {0: lambda o, dd: sun.dawn(o, dd, 6), 1: lambda o, dd: sun.dusk(o, dd, 6),
         2: sun.sunrise, 3: sun.sunset,
         4: lambda o, dd: sun.time_at_elevation(o, 6.0, dd, RISING),
         5: lambda o, dd: sun.time_at_elevation(o, 6.0, dd, SETTING),
         6: sun.noon, 7: sun.midnight}[k]
    for _ in range(4):
        best = None
        for du in (-1, 0, 1):
            st, t = call(f, _O(lat, lon, 0.0), d + datetime.timedelta(days=du))
            if st == "ok":
                gap = (target - t).total_seconds() / 60.0
                if best is None or abs(gap) < abs(best):
                    best = gap
        if best is None:
            return None
        if abs(best) < 3:
            break
        lon = (lon - best / 4.0 + 180.0) % 360.0 - 180.0       # west = later
    return _O(lat, lon, 0.0), zamb, d


def gen_events(rng, n, tier="quick"):
    """dawn sunrise sunset dusk time_at_elevation noon midnight"""
    prev = None
    from astral import Observer as _Obs
    shared = _Obs(10.0, 20.0, 0.0)     # ONE object, re-used and re-assigned between calls
    polar_dep = None
    for i in range(n):
        d0 = gens.rand_date(rng)
        z = zones.rand_zone(rng, d0)
        d = gens.rand_date(rng, z) if z.iana else d0
        o = gens.rand_observer(rng)
        if rng.random() < 0.2:
            # the same Observer object with some attributes assigned anew: anything memoised on
            # the object (or keyed by its identity) goes stale
            for attr in rng.sample(["latitude", "longitude", "elevation"], rng.randint(1, 3)):
                setattr(shared, attr, getattr(o, attr))
            o = shared
        k = i % 9
        if prev is not None and rng.random() < 0.3:
            # same place, same date, same function as an earlier call, asked again in another
            # zone: results must be a function of the arguments alone (caches, shared state)
            o, d, k = prev
            z = zones.rand_zone(rng, d) if zones.in_span(d) else zones.fixed(60 * rng.randint(-12, 14))
        else:
            prev = (o, d, k) if rng.random() < 0.5 else prev
        if rng.random() < 0.12 and k < 6:
            base0 = {0: lambda: invoke(sun.dawn, o, d), 1: lambda: invoke(sun.dusk, o, d),
                     2: lambda: invoke(sun.sunrise, o, d), 3: lambda: invoke(sun.sunset, o, d),
                     4: lambda: invoke(sun.time_at_elevation, o, 6.0, d, RISING),
                     5: lambda: invoke(sun.time_at_elevation, o, -6.0, d, SETTING)}[k]
            st0, t0 = call(base0)
            if st0 == "ok":
                o = lon_for_utc_midnight(rng, o, t0)
        if rng.random() < 0.3 and k < 6:
            # a zone in which this very event reads ~00:00: retry / "Unable to find" branches
            base = {0: lambda: invoke(sun.dawn, o, d), 1: lambda: invoke(sun.dusk, o, d),
                    2: lambda: invoke(sun.sunrise, o, d), 3: lambda: invoke(sun.sunset, o, d),
                    4: lambda: invoke(sun.time_at_elevation, o, 6.0, d, RISING),
                    5: lambda: invoke(sun.time_at_elevation, o, -6.0, d, SETTING)}[k]
            st0, t0 = call(base)
            if st0 == "ok":
                z = zones.midnight_zone(rng, t0)
        if rng.random() < 0.07:
            # beyond the ±89.8° latitude limit, around an equinox — the only days on which the sun
            # rises or sets there at all, and the only place where the sign of the limit matters
            from astral import Observer as _O5
            la = rng.choice([-1, 1]) * rng.choice([rng.uniform(89.8, 90.0), 90.0, 89.80000000000001, 89.9])
            o = _O5(la, gens.rand_lon(rng), rng.choice([0.0, 0.0, rng.uniform(0, 3000)]))
            y = rng.randint(1901, 2099)
            span = 40 if k in (0, 1, 8) else 4          # twilight lasts weeks there, sunrise days
            d = datetime.date(y, *rng.choice([(3, 20), (9, 22)])) + datetime.timedelta(days=rng.randint(-span, span))
            z = zones.fixed(60 * rng.randint(-12, 14)) if rng.random() < 0.5 else zones.fixed(0)
            if k < 4:
                # the few days on which the event exists at this latitude or at its mirror image
                fk = {0: lambda oo, dd: sun.dawn(oo, dd, 6.0), 1: lambda oo, dd: sun.dusk(oo, dd, 6.0),
                      2: sun.sunrise, 3: sun.sunset}[k]
                om = _O5(-o.latitude, o.longitude, o.elevation)
                base = datetime.date(y, 3, 20) if d.month < 6 else datetime.date(y, 9, 22)
                days = [base + datetime.timedelta(days=dd) for dd in range(-45, 46)
                        if call(fk, o, base + datetime.timedelta(days=dd))[0] == "ok"
                        or call(fk, om, base + datetime.timedelta(days=dd))[0] == "ok"]
                if days:
                    d = rng.choice(days)
                    polar_dep = 6.0
        dep = gens.rand_depression(rng)
        if k < 2 and polar_dep is not None:
            dep, polar_dep = 6.0, None
        fold_case = None
        if k < 8 and rng.random() < 0.05:
            fold_case = repeated_hour(rng, k)
            if fold_case is not None:
                o, z, d = fold_case
                if k < 2:
                    dep = 6.0
        if fold_case is None and k < 4 and rng.random() < 0.08 and not isinstance(o.elevation, tuple):
            # a date that holds no such event in the zone (events step across local midnight)
            from astral import Observer as _O2
            o2 = _O2(rng.uniform(35.0, 64.0) * rng.choice([1, -1]), o.longitude, o.elevation) \
                if rng.random() < 0.7 else o
            fdep = float(dep) if isinstance(dep, (int, float)) else 6.0
            fz = {0: lambda dd: sun.dawn(o2, dd, fdep), 1: lambda dd: sun.dusk(o2, dd, fdep),
                  2: lambda dd: sun.sunrise(o2, dd), 3: lambda dd: sun.sunset(o2, dd)}[k]
            g = gap_zone(rng, fz, d)
            if g is not None:
                o, (z, d) = o2, g
                if k < 2:
                    dep = fdep
        if k in (0, 1, 8) and rng.random() < 0.15:
            e = reach_edge(rng, "dusk" if (k == 1 or (k == 8 and rng.random() < 0.5)) else "dawn")
            if e is not None:
                o, dep, z, d = e
        tz = z.tzinfo
        if k == 0:
            yield _event_case(rng, "dawn", o, d, z, " " + F(dep),
                              lambda: invoke(sun.dawn, o, d, dep, tz), {"depression": dep})
        elif k == 1:
            yield _event_case(rng, "dusk", o, d, z, " " + F(dep),
                              lambda: invoke(sun.dusk, o, d, dep, tz), {"depression": dep})
        elif k == 2:
            yield _event_case(rng, "sunrise", o, d, z, "", lambda: invoke(sun.sunrise, o, d, tz), {})
        elif k == 3:
            yield _event_case(rng, "sunset", o, d, z, "", lambda: invoke(sun.sunset, o, d, tz), {})
        elif k in (4, 5):
            el = rng.choice([6.0, -6.0, -4.0, 0.0, rng.uniform(-20, 90), rng.uniform(-20, 30),
                             rng.uniform(90, 200)])
            di = rng.choice([RISING, SETTING])
            if fold_case is not None:
                el, di = 6.0, (RISING if k == 4 else SETTING)
            wr = rng.random() < 0.7
            st, v = call(sun.time_at_elevation, o, el, d, di, tz, wr)
            tags = (rematch_tag(v, d, z),) if st == "ok" and type(v) is datetime.datetime \
                and v.tzinfo is not None else ()
            yield Case("time_at_elevation", "time_at_elevation %s %s %s %s %s %s" % (
                obs_tok(o), F(el), I(d.toordinal()), dir_tok(di), z.tok, B(wr)),
                tinst(v, tz) if st == "ok" else E(v),
                {"observer": obs_descr(o), "date": str(d), "zone": z.describe(),
                 "elevation": el, "dir": di.name, "with_refraction": wr}, tags)
        elif k == 6:
            yield _event_case(rng, "noon", o, d, z, "", lambda: invoke(sun.noon, o, d, tz), {})
        elif k == 7:
            yield _event_case(rng, "midnight", o, d, z, "", lambda: invoke(sun.midnight, o, d, tz), {})
        else:
            def fmt(v, tzi):
                if type(v) is not dict or list(v.keys()) != ["dawn", "sunrise", "noon", "sunset", "dusk"]:
                    return "Xkeys:%s" % (",".join(map(str, v.keys())) if type(v) is dict else type(v).__name__)
                return " ".join(TZD(v[key], tzi) for key in
                                ("dawn", "sunrise", "noon", "sunset", "dusk"))
            yield _event_case(rng, "sun", o, d, z, " " + F(dep),
                              lambda: invoke(sun.sun, o, d, dep, tz), {"depression": dep}, fmt)


def gen_periods(rng, n, tier="quick"):
    for i in range(n):
        d0 = gens.rand_date(rng)
        z = zones.rand_zone(rng, d0)
        d = gens.rand_date(rng, z) if z.iana else d0
        o = gens.rand_observer(rng)
        if rng.random() < 0.2:
            st0, t0 = call(rng.choice([lambda: invoke(sun.dusk, o, d), lambda: invoke(sun.dawn, o, d),
                                       lambda: invoke(sun.sunrise, o, d), lambda: invoke(sun.sunset, o, d)]))
            if st0 == "ok":
                z = zones.midnight_zone(rng, t0)
        if rng.random() < 0.08 and not isinstance(o.elevation, tuple):
            g = gap_zone(rng, rng.choice([lambda dd: sun.dusk(o, dd), lambda dd: sun.dawn(o, dd),
                                          lambda dd: sun.sunset(o, dd), lambda dd: sun.sunrise(o, dd)]), d)
            if g is not None:
                z, d = g
        if i % 6 in (1, 2) and rng.random() < 0.12:
            e = reach_edge(rng, rng.choice(["dusk", "dawn"]))
            if e is not None:
                o, _dep, z, d = e
        tz = z.tzinfo
        k = i % 6
        di = rng.choice([RISING, SETTING])
        if k == 0:
            yield _event_case(rng, "daylight", o, d, z, "", lambda: invoke(sun.daylight, o, d, tz), {}, tpair)
        elif k == 1:
            yield _event_case(rng, "night", o, d, z, "", lambda: invoke(sun.night, o, d, tz), {}, tpair)
        elif k == 2:
            yield _event_case(rng, "twilight", o, d, z, " " + dir_tok(di),
                              lambda: invoke(sun.twilight, o, d, di, tz), {"dir": di.name}, tpair)
        elif k == 3:
            yield _event_case(rng, "golden_hour", o, d, z, " " + dir_tok(di),
                              lambda: invoke(sun.golden_hour, o, d, di, tz), {"dir": di.name}, tpair)
        elif k == 4:
            yield _event_case(rng, "blue_hour", o, d, z, " " + dir_tok(di),
                              lambda: invoke(sun.blue_hour, o, d, di, tz), {"dir": di.name}, tpair)
        else:
            day = rng.random() < 0.5
            yield _event_case(rng, "rahukaalam", o, d, z, " " + B(day),
                              lambda: invoke(sun.rahukaalam, o, d, day, tz), {"daytime": day}, tpair)


def subsolar(rng, naive):
    """an observer with the sun (almost exactly) at the zenith, or at the antipode the nadir, at
    the instant: the azimuth is degenerate there and the code takes a branch of its own"""
    import math
    from astral import Observer as _O
    lat, lon = rng.uniform(-20, 20), rng.uniform(-180, 180)
    for _ in range(4):
        st, el = call(sun.elevation, _O(lat, lon), naive, False)
        st2, az = call(sun.azimuth, _O(lat, lon), naive)
        if st != "ok" or st2 != "ok":
            return None
        dist = math.radians(90.0 - el)
        b = math.radians(az)
        p1 = math.radians(lat)
        s2 = math.sin(p1) * math.cos(dist) + math.cos(p1) * math.sin(dist) * math.cos(b)
        p2 = math.asin(max(-1.0, min(1.0, s2)))
        l2 = math.radians(lon) + math.atan2(math.sin(b) * math.sin(dist) * math.cos(p1),
                                            math.cos(dist) - math.sin(p1) * math.sin(p2))
        lat, lon = math.degrees(p2), (math.degrees(l2) + 180.0) % 360.0 - 180.0
    if rng.random() < 0.4:
        lat, lon = -lat, (lon + 360.0) % 360.0 - 180.0
    return lat, lon


def rand_instant(rng, z=None):
    o = rng.randint(gens.D1900, gens.D2100)
    secs = rng.choice([rng.randint(0, 86399), 0, 86399, 43200, 1800])
    return datetime.datetime.fromordinal(o) + datetime.timedelta(seconds=secs)


def gen_angles(rng, n, tier="quick"):
    """zenith_and_azimuth / zenith / azimuth / elevation: every instant is presented in several
    spellings one after the other (naive UTC, aware UTC, two zones; both folds of an ambiguous
    wall time when there is one) — a cache keyed on an equal-comparing datetime shows up"""
    i = 0
    while i < n:
        o = gens.rand_observer(rng, tuples=False)
        naive = rand_instant(rng)
        corner = None
        if rng.random() < 0.12:
            # the corners of (offset, longitude, clock reading): a far-east clock showing the
            # first hour and a half of its day at a far-west longitude, and the reverse — where
            # "true solar time" lies more than a day outside 0…1440 before it is normalised
            from astral import Observer as _O3
            east = rng.random() < 0.6
            o = _O3(o.latitude, rng.uniform(-180.0, -150.0) if east else rng.uniform(150.0, 180.0), o.elevation)
            offm = rng.choice([720, 765, 780, 840, 825]) if east else rng.choice([-720, -660, -600, -570])
            mins = rng.uniform(0, 90) if east else rng.uniform(1350, 1439.9)
            local = datetime.datetime(naive.year, naive.month, naive.day) + datetime.timedelta(minutes=mins)
            try:
                naive = (local - datetime.timedelta(minutes=offm)).replace(microsecond=0)
                corner = offm
            except OverflowError:
                corner = None
        if corner is None and rng.random() < 0.05:
            sl = subsolar(rng, naive)
            if sl is not None:
                from astral import Observer as _O4
                for dlat, dlon in ((0.0, 0.0), (1e-7, 0.0), (0.0, 1e-7), (0.01, 0.01), (-0.03, 0.02)):
                    o = _O4(sl[0] + dlat, sl[1] + dlon, 0.0)
                    for which in ("azimuth", "zenith", "zenith_and_azimuth"):
                        base = "%s %s %s" % (obs_tok(o), I(wall_us(naive)), N)
                        descr = {"observer": obs_descr(o), "datetime": naive.isoformat(), "zone": "naive",
                                 "with_refraction": True, "fold": 0, "sub-solar": True}
                        i += 1
                        if which == "azimuth":
                            st, v = call(sun.azimuth, o, naive)
                            yield Case("azimuth", "azimuth %s" % base, tok_res(st, v, FS), descr)
                        elif which == "zenith":
                            st, v = call(sun.zenith, o, naive, True)
                            yield Case("zenith", "zenith %s %s" % (base, B(True)), tok_res(st, v, FS), descr)
                        else:
                            st, v = call(sun.zenith_and_azimuth, o, naive, True)
                            yield Case("zenith_and_azimuth", "zenith_and_azimuth %s %s" % (base, B(True)),
                                       ("%s %s" % (FS(v[0]), FS(v[1]))) if st == "ok" and type(v) is tuple
                                       and len(v) == 2 else (E(v) if st != "ok" else "X%s" % type(v).__name__),
                                       descr)
                continue
        zamb = None
        if corner is None and rng.random() < 0.08:
            zamb, n_ = zones.ambiguous_instant(rng)
            if zamb is not None:
                naive = n_
        spell = [(naive, N, "naive")]
        u = naive.replace(tzinfo=datetime.timezone.utc)
        if zamb is not None:
            dta = u.astimezone(zamb.tzinfo)
            dtb = dta.replace(fold=1 - dta.fold)
            spell.append((dta, I(td_us(dta.utcoffset())), zamb.describe()))
            spell.append((dtb, I(td_us(dtb.utcoffset())), zamb.describe() + " fold"))
        if rng.random() < 0.5:
            spell.append((u, I(0), "UTC"))
        if corner is not None:
            zc = zones.fixed(corner)
            dtc = u.astimezone(zc.tzinfo)
            spell.append((dtc, I(td_us(dtc.utcoffset())), zc.describe()))
        for _ in range(rng.randint(1, 2)):
            z = zones.rand_zone(rng, naive.date())
            dt = u.astimezone(z.tzinfo)
            spell.append((dt, I(td_us(dt.utcoffset())), z.describe()))
            if z.iana and rng.random() < 0.3:
                # the same wall clock with the other fold (a different instant if ambiguous)
                dt2 = dt.replace(fold=1 - dt.fold)
                spell.append((dt2, I(td_us(dt2.utcoffset())), z.describe() + " fold"))
            if z.iana and rng.random() < 0.35:
                # the same zone as a user-defined tzinfo (documentation style: only answers for
                # datetimes that carry it)
                dt3 = u.astimezone(zones.docs(z))
                spell.append((dt3, I(td_us(dt3.utcoffset())), z.describe() + " user-tzinfo"))
        if rng.random() < 0.3:
            # an instance of a datetime subclass means the same as the plain datetime
            dts, offs, zls = rng.choice(spell)
            spell.append((gens.as_sub(dts), offs, zls + " (datetime subclass)"))
        rng.shuffle(spell)
        wr = rng.random() < 0.6
        for dt, off_tok, zl in spell:
            descr = {"observer": obs_descr(o), "datetime": dt.isoformat(), "zone": zl,
                     "with_refraction": wr, "fold": dt.fold}
            base = "%s %s %s" % (obs_tok(o), I(wall_us(dt)), off_tok)
            k = i % 4
            i += 1
            if k == 0:
                st, v = call(sun.zenith_and_azimuth, o, dt, wr)
                yield Case("zenith_and_azimuth", "zenith_and_azimuth %s %s" % (base, B(wr)),
                           ("%s %s" % (FS(v[0]), FS(v[1]))) if st == "ok" else E(v), descr)
            elif k == 1:
                st, v = call(sun.zenith, o, dt, wr)
                yield Case("zenith", "zenith %s %s" % (base, B(wr)), tok_res(st, v, FS), descr)
            elif k == 2:
                st, v = call(sun.azimuth, o, dt)
                yield Case("azimuth", "azimuth %s" % base, tok_res(st, v, FS), descr)
            else:
                st, v = call(sun.elevation, o, dt, wr)
                yield Case("elevation", "elevation %s %s" % (base, B(wr)), tok_res(st, v, FS), descr)


def gen_extreme(rng, n, tier="quick"):
    """C20: finite but extreme arguments — results must be of the documented type or one of the
    documented ValueErrors; model and implementation must agree on the error *kind*"""
    from astral import Observer
    lats = [90.0, -90.0, 89.8, -89.8, 89.80000000000001, 0.0, 66.56, -66.56, 75.0]
    lons = [180.0, -180.0, 0.0, 179.999, -179.999, 90.0]
    elevs = [-500.0, 0.0, 5e-324, 1e-320, 1e-200, 1e300, 8849.0, 4e5, (1e300, 1.0), (1e-200, 0.0),
             (0.0, 0.0), (0.0, 10.0), (-1e300, 1e300), (5.0, 0.0), (1e-320, 1e-320), (3.0, 4.0)]
    years = [2, 3, 9997, 9998, 1900, 2100, 1582]
    for i in range(n):
        o = Observer(rng.choice(lats + [gens.rand_lat(rng)]), rng.choice(lons + [gens.rand_lon(rng)]),
                     rng.choice(elevs))
        y = rng.choice(years)
        d = datetime.date(y, rng.choice([1, 6, 12]), rng.choice([1, 15, 28]))
        if y in (2, 9998) and rng.random() < 0.3:
            d = datetime.date(y, 1, 1) if y == 2 else datetime.date(y, 12, 31)
        z = zones.fixed(rng.choice([0, 0, 60 * rng.randint(-12, 14), 345, -210]))
        tz = z.tzinfo
        k = i % 10
        if k == 0:
            dep = rng.choice([0.0, 180.0, 90.0, rng.uniform(0, 180)])
            yield _event_case(rng, "dawn", o, d, z, " " + F(dep), lambda: invoke(sun.dawn, o, d, dep, tz),
                              {"depression": dep})
        elif k == 1:
            dep = rng.choice([0.0, 180.0, 90.0, rng.uniform(0, 180)])
            yield _event_case(rng, "dusk", o, d, z, " " + F(dep), lambda: invoke(sun.dusk, o, d, dep, tz),
                              {"depression": dep})
        elif k == 2:
            yield _event_case(rng, "sunrise", o, d, z, "", lambda: invoke(sun.sunrise, o, d, tz), {})
        elif k == 3:
            yield _event_case(rng, "sunset", o, d, z, "", lambda: invoke(sun.sunset, o, d, tz), {})
        elif k == 4:
            el = rng.choice([-91.0, 270.0, 90.0, 180.0, 0.0, rng.uniform(-91, 270)])
            di = rng.choice([RISING, SETTING])
            wr = rng.random() < 0.7
            st, v = call(sun.time_at_elevation, o, el, d, di, tz, wr)
            yield Case("time_at_elevation", "time_at_elevation %s %s %s %s %s %s" % (
                obs_tok(o), F(el), I(d.toordinal()), dir_tok(di), z.tok, B(wr)),
                tinst(v, tz) if st == "ok" else E(v),
                {"observer": obs_descr(o), "date": str(d), "zone": z.describe(), "elevation": el,
                 "dir": di.name, "with_refraction": wr})
        elif k == 5:
            yield _event_case(rng, "noon", o, d, z, "", lambda: invoke(sun.noon, o, d, tz), {})
        elif k == 6:
            yield _event_case(rng, "midnight", o, d, z, "", lambda: invoke(sun.midnight, o, d, tz), {})
        elif k == 7:
            di = rng.choice([RISING, SETTING])
            fn = rng.choice(["twilight", "golden_hour", "blue_hour"])
            yield _event_case(rng, fn, o, d, z, " " + dir_tok(di),
                              lambda: getattr(sun, fn)(o, d, di, tz), {"dir": di.name}, tpair)
        elif k == 8:
            fn = rng.choice(["daylight", "night"])
            yield _event_case(rng, fn, o, d, z, "", lambda: getattr(sun, fn)(o, d, tz), {}, tpair)
        else:
            day = rng.random() < 0.5
            yield _event_case(rng, "rahukaalam", o, d, z, " " + B(day),
                              lambda: invoke(sun.rahukaalam, o, d, day, tz), {"daytime": day}, tpair)


def gen_builtin_noon(rng, n, tier="quick"):
    """solar noon (and midnight) for every built-in location on dates spread over 1900-2100: the
    property speaks of the noon computed for each record, and some records sit where the
    hour/minute/second carries of the noon computation are taken (longitudes next to ±180)"""
    import astral.geocoder as geo
    from astral import Observer as _O
    recs = list(geo.all_locations(geo.database()))
    per = max(1, n // max(1, len(recs)))
    z = zones.fixed(0)
    for r in recs:
        o = _O(r.latitude, r.longitude, 0.0)
        for j in range(per * (10 if abs(r.longitude) > 170.0 else 1)):
            d = datetime.date.fromordinal(rng.randint(gens.D1900, gens.D2100))
            fn = "midnight" if j % 5 == 4 else "noon"
            if j % 3 == 1 and 1905 < d.year < 2095:
                # the record's own zone, given by NAME (`rec.timezone`) — the natural way to ask for
                # "noon at this location".  Where the zone keeps one offset for the days around,
                # the model is given that fixed offset; the result must carry the named zone.
                import zoneinfo as _zi
                try:
                    tzo = _zi.ZoneInfo(r.timezone)
                except Exception:  # noqa: BLE001
                    tzo = None
                if tzo is not None:
                    offs = {datetime.datetime(d.year, d.month, d.day, 12, tzinfo=tzo).__add__(
                        datetime.timedelta(days=k)).astimezone(tzo).utcoffset() for k in (-2, -1, 0, 1, 2)}
                    offs |= {(datetime.datetime(d.year, d.month, d.day, hh, tzinfo=tzo)).utcoffset()
                             for hh in (0, 23)}
                    if len(offs) == 1:
                        sec = int(offs.pop().total_seconds())
                        zf = zones.fixed(sec // 60) if sec % 60 == 0 else zones.fixed_seconds(sec)
                        yield _event_case(rng, fn, o, d, zf, "",
                                          (lambda fn=fn, o=o, d=d, nm=r.timezone: getattr(sun, fn)(o, d, nm)),
                                          {"record": "%s,%s" % (r.name, r.region), "zone_by_name": r.timezone},
                                          fmt=(lambda v, _tz, tzo=tzo: TZD(v, tzo)))
                        continue
            yield _event_case(rng, fn, o, d, z, "", (lambda fn=fn, o=o, d=d: getattr(sun, fn)(o, d, z.tzinfo)),
                              {"record": "%s,%s" % (r.name, r.region)})


GROUPS = {
    "builtin_noon": gen_builtin_noon,
    "sun_extreme": gen_extreme,
    "sun_chain": gen_chain,
    "refraction": gen_refraction,
    "hour_angle": gen_hour_angle,
    "transit": gen_transit,
    "sun_events": gen_events,
    "sun_periods": gen_periods,
    "sun_angles": gen_angles,
}
