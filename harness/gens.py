"""Structured input generators shared by the correspondence groups (DESIGN §4.1)."""
import datetime
import math

from astral import Observer
from common import F, I

D1900 = datetime.date(1900, 1, 1).toordinal()
D2100 = datetime.date(2100, 12, 31).toordinal()

CITIES = [(51.4733, -0.0008333), (28.61, 77.22), (35.68, 139.69), (-13.83, -171.83),
          (1.87, -157.4), (-41.29, 174.78), (64.15, -21.94), (69.65, 18.96),
          (-33.87, 151.21), (23.7, 90.4), (21.3, -157.86), (-54.8, -68.3),
          (78.22, 15.65), (0.0, 0.0), (40.71, -74.0), (24.47, 39.61)]


def rand_lat(rng, polar=True):
    k = rng.random()
    if k < 0.55:
        return rng.uniform(-66, 66)
    if k < 0.65:
        return rng.choice([-1, 1]) * (66.56 + rng.uniform(-1, 1))
    if k < 0.77:
        return rng.choice([-1, 1]) * (rng.choice([48.5, 54.5, 60.5]) + rng.uniform(-0.5, 0.5))
    if k < 0.84:
        return rng.choice([-1, 1]) * rng.uniform(66, 85)
    if not polar:
        return rng.uniform(-70, 70)
    if k < 0.91:
        return rng.choice([-1, 1]) * rng.uniform(85, 89.8)
    if k < 0.96:
        return rng.choice([-1, 1]) * rng.uniform(89.8, 90)
    return rng.choice([0.0, 90.0, -90.0, 89.8, -89.8, 89.80000000000001])


def rand_lon(rng):
    k = rng.random()
    if k < 0.6:
        return rng.uniform(-180, 180)
    if k < 0.8:
        return rng.choice([-1, 1]) * rng.uniform(150, 180)
    return rng.choice([0.0, 90.0, -90.0, 180.0, -180.0, 179.999, -179.999, 179.9, -179.9])


def rand_elev(rng, tuples=True):
    k = rng.random()
    if k < 0.45:
        return 0.0
    if k < 0.55:
        return -rng.uniform(0, 500)
    if k < 0.85 or not tuples:
        return 10 ** rng.uniform(-3, 5.6)
    sign = rng.choice([-1, 1, 1])
    return (sign * 10 ** rng.uniform(-3, 4), 10 ** rng.uniform(0, 5))


def rand_observer(rng, polar=True, tuples=True):
    if rng.random() < 0.15:
        lat, lon = rng.choice(CITIES)
    else:
        lat, lon = rand_lat(rng, polar), rand_lon(rng)
    return Observer(lat, lon, rand_elev(rng, tuples))


def obs_tok(o):
    if isinstance(o.elevation, tuple):
        return "%s %s I1 %s %s" % (F(o.latitude), F(o.longitude), F(o.elevation[0]),
                                   F(o.elevation[1]))
    return "%s %s I0 %s %s" % (F(o.latitude), F(o.longitude), F(o.elevation), F(0.0))


def obs_descr(o):
    return {"latitude": o.latitude, "longitude": o.longitude,
            "elevation": list(o.elevation) if isinstance(o.elevation, tuple) else o.elevation}


def rand_date(rng, zone=None, wide=True):
    k = rng.random()
    if zone is not None and zone.iana and k < 0.12 and len(zone.utc_table) > 1:
        t = rng.choice(zone.utc_table[1:])[0] // 86400_000_000
        o = min(max(t + rng.randint(-1, 1), D1900), D2100)
        return datetime.date.fromordinal(o)
    if k < 0.80 or not wide:
        return datetime.date.fromordinal(rng.randint(D1900, D2100))
    if k < 0.90:
        y = rng.randint(1900, 2100)
        m, d = rng.choice([(2, 28), (2, 29), (12, 31), (1, 1), (3, 20), (6, 21), (9, 22), (12, 21)])
        try:
            return datetime.date(y, m, d)
        except ValueError:
            return datetime.date(y, 3, 1)
    if zone is None or not zone.iana:
        y = rng.choice([2, 1000, 1582, 9998, 1850, 2300])
        return datetime.date(y, rng.randint(1, 12), rng.randint(1, 28))
    return datetime.date.fromordinal(rng.randint(D1900, D2100))


def rand_depression(rng):
    k = rng.random()
    if k < 0.12:
        return rng.choice([0.0, 0, 0.0, 0, 0.5, 90.0])       # falsy / boundary values
    if k < 0.6:
        return float(rng.choice([6, 12, 18]))
    if k < 0.7:
        return 32.0 / 120.0
    return rng.uniform(0, 30)


def dir_tok(d):
    return I(1 if d.value == 1 else -1)


class SubDT(datetime.datetime):
    """an instance of a user subclass of datetime (what pandas / freezegun / pendulum hand out):
    everywhere a datetime is accepted, it means the same as the plain datetime with its fields"""


class SubDate(datetime.date):
    """a user subclass of date"""


def as_sub(dt):
    if isinstance(dt, datetime.datetime):
        return SubDT(dt.year, dt.month, dt.day, dt.hour, dt.minute, dt.second, dt.microsecond,
                     tzinfo=dt.tzinfo, fold=dt.fold)
    return SubDate(dt.year, dt.month, dt.day)
