"""Correspondence cases for dms_to_float, the normalising setters and the geocoder."""
import itertools

import astral
from astral import Observer, LocationInfo
from astral.location import Location
import astral.geocoder as geo
from common import F, FS, I, S, E, N, Case, call, invoke

DEG, PRIME, DPRIME = "°", "′", "″"
DMS_ALPHABET = list("0123456789") + [DEG, PRIME, "'", DPRIME, '"', "N", "S", "E", "W",
                                     "n", "s", "e", "w", ".", "-", "+", " "]


def arg_tok(v):
    if isinstance(v, str):
        return S(v)
    if isinstance(v, (int, float)) and not isinstance(v, bool):
        return F(v)
    return "O"


def rand_dms_string(rng):
    k = rng.random()
    if k < 0.45:   # well-formed DMS
        deg = rng.choice([rng.randint(0, 999), rng.randint(0, 180), rng.randint(0, 90)])
        s = ("%d" if rng.random() < 0.7 else "%02d") % deg + DEG
        if rng.random() < 0.7:
            s += ("%d" if rng.random() < 0.5 else "%02d") % rng.randint(0, 99) + rng.choice([PRIME, "'"])
        if rng.random() < 0.4:
            s += ("%d" if rng.random() < 0.5 else "%02d") % rng.randint(0, 99) + rng.choice([DPRIME, '"'])
        if rng.random() < 0.85:
            s += rng.choice("NSEWnsew")
        if rng.random() < 0.1:
            s += rng.choice(["x", " ", "N", "12", DEG])
        return s
    if k < 0.70:   # numerals
        x = rng.choice([rng.uniform(-200, 200), rng.uniform(-1e6, 1e6), float(rng.randint(-400, 400))])
        fmt = rng.choice(["%r", "%.3f", "%.0f", "%e", " %r ", "+%r", "%.10g", "%g\n"])
        s = fmt % x
        if fmt == "+%r" and x < 0:
            s = "%r" % x
        return s
    if k < 0.80:
        return rng.choice(["", " ", ".", "-", "+", "e5", "1e", "1e+", "1.", ".5", "-.5", "1.e3",
                           "1 2", "--1", "1..2", "0x10", "12" + DEG + "x", DEG, "1234" + DEG,
                           "12" + DEG + "345'", "12" + DEG + "34'56\"7", "5" + PRIME,
                           "12" + DEG + "\"", "12" + DEG + "5\"S", "  12" + DEG, "12 " + DEG,
                           "1e400", "1e-400", "00012" + DEG, "12" + DEG + "7'8'", "9" + DEG + "W0"])
    return "".join(rng.choice(DMS_ALPHABET) for _ in range(rng.randint(1, 8)))


def rand_coord_arg(rng):
    k = rng.random()
    if k < 0.45:
        return rand_dms_string(rng)
    if k < 0.85:
        return rng.choice([rng.uniform(-100, 100), rng.uniform(-400, 400), rng.uniform(-1e300, 1e300),
                           90.0, -90.0, 180.0, -180.0, 0.0, -0.0, 5e-324, 1e308])
    if k < 0.93:
        return rng.randint(-400, 400)
    return rng.choice([None, (1.0, 2.0)])


def rand_elev_arg(rng):
    k = rng.random()
    if k < 0.5:
        return rng.choice([rng.uniform(-500, 1e5), 0.0, rng.randint(-10, 5000), "12.5", " 3 ", "x",
                           "1e3", None])
    a = rng.choice([rng.uniform(-1e4, 1e4), rng.randint(-5, 5), "7", "1.5e2", "bad"])
    b = rng.choice([rng.uniform(0, 1e5), rng.randint(0, 100), "100", ""])
    return (a, b)


def elev_tok(v):
    if isinstance(v, tuple):
        return "pair:%s;%s" % (arg_tok(v[0]), arg_tok(v[1]))
    return "one:" + arg_tok(v)


def elev_state_tok(e):
    if type(e) is tuple and len(e) == 2:
        return "I1 %s %s" % (FS(e[0]), FS(e[1]))
    return "I0 %s %s" % (FS(e), F(0.0))


def gen_dms(rng, n, tier="quick"):
    for i in range(n):
        v = rand_coord_arg(rng)
        lim = rng.choice([None, 90.0, 180.0, 90.0, 180.0, 0.0, 45.5])
        st, r = call(astral.dms_to_float, v, lim)
        yield Case("dms_to_float", "dms_to_float %s %s" % (arg_tok(v), N if lim is None else F(lim)),
                   FS(r) if st == "ok" else E(r), {"dms": repr(v), "limit": lim})


def dms_exhaustive(chunk=None):
    """all (deg, min, sec, dir) combinations with one- and two-digit fields (thorough tier)"""
    degs = ["0", "7", "07", "51", "90", "180", "999", "000"]
    mins = [None, "0", "5", "05", "31", "59", "60", "99"]
    secs = [None, "0", "9", "09", "30", "59", "99"]
    dirs = [None] + list("NSEWnsew")
    for d, m, s, r in itertools.product(degs, mins, secs, dirs):
        for pm, ps in ((PRIME, DPRIME), ("'", '"')):
            txt = d + DEG + (m + pm if m is not None else "") + (s + ps if s is not None else "") + (r or "")
            for lim in (None, 90.0, 180.0):
                st, v = call(astral.dms_to_float, txt, lim)
                yield Case("dms_to_float", "dms_to_float %s %s" % (S(txt), N if lim is None else F(lim)),
                           FS(v) if st == "ok" else E(v), {"dms": txt, "limit": lim})


def dms_short_strings(maxlen=3):
    """every string up to `maxlen` over a 14-symbol alphabet: ties the recogniser and the
    numeral grammar to `re` and `float()`"""
    alpha = ["1", "0", "9", DEG, "'", PRIME, '"', "N", "s", ".", "-", "e", " ", "+"]
    for L in range(0, maxlen + 1):
        for tup in itertools.product(alpha, repeat=L):
            txt = "".join(tup)
            st, v = call(astral.dms_to_float, txt, 90.0)
            yield Case("dms_to_float", "dms_to_float %s %s" % (S(txt), F(90.0)),
                       F(v) if st == "ok" else E(v), {"dms": txt, "limit": 90.0})


def gen_observer(rng, n, tier="quick"):
    """Observer / LocationInfo / Location: constructor then a history of assignments"""
    for i in range(n):
        kind = i % 3
        la, lo = rand_coord_arg(rng), rand_coord_arg(rng)
        if rng.random() < 0.6:
            la = rng.choice([rng.uniform(-90, 90), "51" + DEG + "28'N", 12])
            lo = rng.choice([rng.uniform(-180, 180), "0" + DEG + "5'W", -3])
        k = rng.randint(0, 6)
        if kind == 0:
            el = rand_elev_arg(rng) if rng.random() < 0.5 else 0.0
            st, o = call(Observer, la, lo, el)
            ops, outs = [], []
            for _ in range(k):
                f = rng.choice(["lat", "lon", "elev"])
                v = rand_elev_arg(rng) if f == "elev" else rand_coord_arg(rng)
                if f != "elev" and isinstance(v, tuple):
                    v = None
                ops.append((f, v))
            req = "obs_run %s %s %s %s" % (arg_tok(la), arg_tok(lo), elev_tok(el), I(len(ops)))
            for f, v in ops:
                req += " %s %s" % (f, elev_tok(v) if f == "elev" else arg_tok(v))
            if st == "err":
                exp = E(o)
            else:
                for f, v in ops:
                    s2, r2 = call(setattr, o, {"lat": "latitude", "lon": "longitude",
                                               "elev": "elevation"}[f], v)
                    outs.append(N if s2 == "ok" else E(r2))
                exp = "%s %s %s %s" % (FS(o.latitude), FS(o.longitude), elev_state_tok(o.elevation),
                                       " ".join(outs))
            yield Case("Observer", req, exp.strip(),
                       {"init": [repr(la), repr(lo), repr(el)], "ops": [[f, repr(v)] for f, v in ops]})
        else:
            if isinstance(la, tuple):
                la = None
            if isinstance(lo, tuple):
                lo = None
            if kind == 1:
                st, o = call(LocationInfo, "n", "r", "Europe/London", la, lo)
            else:
                st, o = call(lambda: Location(LocationInfo("n", "r", "Europe/London", la, lo)))
            ops, outs = [], []
            for _ in range(k):
                f = rng.choice(["lat", "lon"])
                v = rand_coord_arg(rng)
                if isinstance(v, tuple):
                    v = None
                ops.append((f, v))
            req = "coords_run %s %s %s" % (arg_tok(la), arg_tok(lo), I(len(ops)))
            for f, v in ops:
                req += " %s %s" % (f, arg_tok(v))
            if st == "err":
                exp = E(o)
            else:
                for f, v in ops:
                    s2, r2 = call(setattr, o, {"lat": "latitude", "lon": "longitude"}[f], v)
                    outs.append(N if s2 == "ok" else E(r2))
                exp = "%s %s %s" % (FS(o.latitude), FS(o.longitude), " ".join(outs))
            yield Case("LocationInfo" if kind == 1 else "Location", req, exp.strip(),
                       {"init": [repr(la), repr(lo)], "ops": [[f, repr(v)] for f, v in ops]})


# ------------------------------------------------------------------ geocoder
NAMES = ["London", "london", "New York", "new_york", "Europe", "europe", "X", "Abu Dhabi", "a b",
         "\"q\"", "Sana'a", "Asia", "Paris", "PARIS", "#x", " lead", "A,B", "a  b", "Fort  Ross"]
REGIONS = ["England", "england", "USA", "United Kingdom", "united_kingdom", "R", "", "r r"]
TZS = ["Europe/London", "America/New_York", "Asia/Dubai", "europe/x", "Europe", "Etc/UTC", "X/Y/Z",
       "asia/aden", "A B/c"]
COORDS = ["51" + DEG + "30'N", "0" + DEG + "7'W", "24" + DEG + "28'N", "54" + DEG + "22'E", "12.5",
          "-100", "200", "1", "bad", ""]


def rec_tok(r):
    return "%s %s %s %s %s" % (S(r.name), S(r.region), S(r.timezone), FS(r.latitude), FS(r.longitude))


def group_tok(g):
    parts = []
    for k, l in g.items():
        parts.append("%s %s %s" % (S(k), I(len(l)), " ".join(rec_tok(r) for r in l)))
    return ("G %s %s" % (I(len(g)), " ".join(parts))).rstrip() if parts else "G %s " % I(0)


def norm(s):
    return " ".join(s.split())


def rand_item(rng, small):
    names = small["names"] if small else NAMES
    regions = small["regions"] if small else REGIONS
    tzs = small["tzs"] if small else TZS
    coords = COORDS[:4] if small else COORDS
    n, r, t = rng.choice(names), rng.choice(regions), rng.choice(tzs)
    la, lo = rng.choice(coords), rng.choice(coords)
    return n, r, t, la, lo


def item_forms(rng, fields):
    """one record in one of the three input forms → (python value, model token)"""
    n, r, t, la, lo = fields
    form = rng.randint(0, 3)
    if form == 0:
        line = ",".join(fields)
        if rng.random() < 0.3:
            line = rng.choice([" ", "\t", ""]) + line + rng.choice(["", " ", "\n"])
        if rng.random() < 0.35:
            # a string ITEM of a list may itself hold several lines, comments and blanks
            more = [",".join(rand_item(rng, None)) for _ in range(rng.randint(1, 2))]
            line = "\n".join([line] + rng.sample(["# note", "", "  "], rng.randint(0, 2)) + more)
        return line, "L:" + S(line)
    if form == 1:
        fs = list(fields)
        if rng.random() < 0.1:
            fs = fs[:rng.randint(0, 4)]
        elif rng.random() < 0.1:
            fs = fs + ["extra"]
        return (tuple(fs) if rng.random() < 0.5 else fs), "F:" + "|".join(S(x) for x in fs)
    if form == 2:
        la2 = rng.choice([la, rng.uniform(-100, 100), rng.randint(-90, 90)])
        lo2 = rng.choice([lo, rng.uniform(-200, 200)])
        return (n, r, t, la2, lo2), "T:%s|%s|%s|%s|%s" % (S(n), S(r), S(t), arg_tok(la2), arg_tok(lo2))
    return ",".join(fields), "L:" + S(",".join(fields))


def gen_geocoder(rng, n, tier="quick"):
    """operation histories on several database handles, with lookups interleaved.
    Each yielded Case is one operation; handles persist across the whole stream."""
    handles = {}
    next_h = [1]

    def new_db(builtin):
        h = next_h[0]
        next_h[0] += 1
        db = geo.database() if builtin else {}
        handles[h] = db
        cases = [Case("database", "db_new %s" % I(h), "ok", {"handle": h, "builtin": builtin})]
        if builtin:
            cases.append(Case("database", "db_add_text %s %s" % (I(h), S(geo._LOCATION_INFO)), N,
                              {"handle": h, "op": "builtin text"}))
        return h, cases

    produced = 0
    while produced < n:
        # a fresh episode: 1-3 handles
        episode = []
        for _ in range(rng.randint(1, 3)):
            h, cs = new_db(rng.random() < 0.35)
            for c in cs:
                yield c
            episode.append(h)
        small = None
        if rng.random() < 0.5:
            small = {"names": rng.sample(NAMES, 3), "regions": rng.sample(REGIONS, 2),
                     "tzs": rng.sample(TZS, 2)}
        for step in range(rng.randint(3, 40)):
            h = rng.choice(episode)
            db = handles[h]
            k = rng.random()
            produced += 1
            if k < 0.40:
                nitems = rng.randint(1, 3)
                vals, toks = [], []
                for _ in range(nitems):
                    v, t = item_forms(rng, rand_item(rng, small))
                    vals.append(v)
                    toks.append(t)
                if nitems == 1 and isinstance(vals[0], str) and rng.random() < 0.5:
                    text = vals[0]
                    if rng.random() < 0.3:
                        text = "# comment\n" + text + "\n\n" + ",".join(rand_item(rng, small))
                    st, r = call(geo.add_locations, text, db)
                    yield Case("add_locations", "db_add_text %s %s" % (I(h), S(text)),
                               N if st == "ok" else E(r), {"handle": h, "text": text})
                else:
                    st, r = call(geo.add_locations, vals, db)
                    yield Case("add_locations", "db_add_list %s %s %s" % (I(h), I(nitems), " ".join(toks)),
                               N if st == "ok" else E(r), {"handle": h, "items": repr(vals)})
            elif k < 0.75:
                names = (small["names"] if small else NAMES) + ["London", "Abu Dhabi", "nowhere",
                                                                "europe", "Asia", "africa"]
                q = rng.choice(names)
                if rng.random() < 0.5:
                    q = q + "," + rng.choice((small["regions"] if small else REGIONS)
                                             + ["England", "UAE", "United Arab Emirates"])
                if rng.random() < 0.2:
                    q = rng.choice([q.upper(), q.lower(), q.replace(" ", "_"), '"' + q + '"', q.title()])
                st, r = call(geo.lookup, q, db)
                if st == "err":
                    exp = E(r)
                elif isinstance(r, dict):
                    exp = group_tok(r)
                else:
                    exp = "R " + rec_tok(r)
                    if not any(r is x for x in geo.all_locations(db)):
                        exp += " Xnot-the-stored-object"      # "returns a stored record", not a copy
                yield Case("lookup", "db_lookup %s %s" % (I(h), S(q)), norm(exp), {"handle": h, "name": q})
            elif k < 0.82:
                g = rng.choice(["Europe", "europe", "EUROPE", "asia", "X", "a b", "nope", "America"])
                st, r = call(geo.group, g, db)
                yield Case("group", "db_group %s %s" % (I(h), S(g)),
                           norm(group_tok(r)) if st == "ok" else E(r), {"handle": h, "group": g})
            elif k < 0.90:
                g = rng.choice(["Europe", "asia", "america", "x"])
                q = rng.choice(NAMES + ["London,England", "london,", "Abu Dhabi,UAE"])

                def f():
                    return invoke(geo.lookup_in_group, q, invoke(geo.group, g, db))
                st, r = call(f)
                yield Case("lookup_in_group", "db_lookup_in_group %s %s %s" % (I(h), S(g), S(q)),
                           ("R " + rec_tok(r)) if st == "ok" else E(r), {"handle": h, "group": g, "name": q})
            else:
                allr = list(geo.all_locations(db))
                yield Case("all_locations", "db_all %s" % I(h),
                           norm("%s %s" % (I(len(allr)), " ".join(rec_tok(r) for r in allr))),
                           {"handle": h})
        # records handed out by a database that is about to be discarded are edited in place:
        # the next database() must not see those edits (no shared record objects)
        edited = False
        for h in episode:
            if rng.random() < 0.5:
                for rec in list(geo.all_locations(handles[h]))[: rng.randint(1, 400)]:
                    try:
                        rec.timezone = "UTC"
                        rec.longitude = 77.05
                        rec.latitude = -1.5
                        rec.region = rec.region + " (edited)"
                        edited = True
                    except Exception:  # noqa: BLE001
                        pass
                handles[h] = None
        # independence probe: a brand-new database() must equal the pristine built-in
        if edited or rng.random() < 0.5:
            h, cs = new_db(True)
            for c in cs:
                yield c
            allr = list(geo.all_locations(handles[h]))
            yield Case("all_locations", "db_all %s" % I(h),
                       norm("%s %s" % (I(len(allr)), " ".join(rec_tok(r) for r in allr))),
                       {"handle": h, "fresh": True})
        for h in episode:
            handles.pop(h, None)


GROUPS = {
    "dms": gen_dms,
    "setters": gen_observer,
    "geocoder": gen_geocoder,
}
