"""Per-property configuration of the checks: which Lean modules/theorems are the proof
obligations, which correspondence groups tie the model functions those theorems mention
to the implementation, and what is left unproved (DESIGN §7)."""

TRUSTED_BASE = [
    "Lean 4.33.0 kernel and elaborator (leanchecker re-checks the .olean files in the thorough tier)",
    "axioms: propext, Classical.choice, Quot.sound only (audited with #print axioms on every run)",
    "Mathlib v4.33.0 as compiled in the image",
    "hand-written model lean/Astral/Model/*.lean — tied to /repo by the correspondence harness "
    "(harness/*.py, generators' reach), not verified",
    "CPython 3.12, glibc libm, tzdata",
    "theorems are over exact real arithmetic (α := ℝ); IEEE rounding is covered only by the "
    "Float-instance correspondence",
]

COMMON_ASSUMPTIONS = [
    "the implementation behaves on all inputs as it does on the generated inputs on which it "
    "agrees with the model (sampling tie)",
]


# The model treats every sun/moon function as a pure function of its arguments.  That is itself
# an obligation on the implementation: each of these properties also carries the purity theorem
# over the effect table regenerated from /repo's AST (a cache, a module-level memo, an attribute
# stored on an argument breaks it statically, whatever the sampled call order).
PURITY = {"generators": ["effects"], "modules": ["Astral.Props.C20"],
          "theorems": ["Astral.C20.pure_by_effects"]}
PURE_PROPS = ["C01", "C02", "C03", "C04", "C05", "C06", "C07", "C08", "C09", "C10", "C11", "C12",
              "C13", "C14"]


def G(module, group, quick, thorough, **kw):
    d = {"module": module, "group": group, "quick": quick, "thorough": thorough}
    d.update(kw)
    return d


# properties whose check is not built yet (kept current; see MANIFEST.not_applicable)
NOT_YET = {}

PROPS = {
    "C15": {
        "level_text": "Kernel-checked theorems (exact arithmetic) for the Julian-day formula, its "
                      "inverse (round trip for every whole-second instant from 1582-10-15 on) and the "
                      "time-unit helpers, about a Lean model that is compared with the implementation on "
                      "generated inputs and, for the inverse, on EVERY date 1582-10-15 … 9999-12-31 "
                      "(3 074 324 round trips) on every run.",
        "level_note": "Theorems are about the model at α := ℝ; the tie to /repo is the sampled "
                      "correspondence (bit-exact on Float). Trusted: Lean kernel, Mathlib, harness.",
        "lean_modules": ["Astral.Props.C15", "Astral.Props.C15Inv", "Astral.Props.C15Ord",
                         "Astral.Props.C15Date"],
        "theorems": [
            "Astral.C15.jd_gregorian", "Astral.C15.meeusInt_eq_ord", "Astral.C15.jd_time",
            "Astral.C15.jd_julian_offset", "Astral.C15.century_inverse",
            "Astral.C15.century_inverse'", "Astral.C15.mjd_eq",
            "Astral.C15Inv.inverse_core", "Astral.C15Inv.time_split", "Astral.C15Inv.jd_roundtrip",
            "Astral.C15Inv.jd_roundtrip_from_1582", "Astral.C15Ord.monthDay_table",
            "Astral.C15Ord.ordToYMD_spec", "Astral.C15Date.jd_date", "Astral.C15Date.jd_step",
            "Astral.C15Date.jd_wall", "Astral.C15Date.jd_roundtrip_wall",
        ],
        "groups": [G("corr_julian", "julian", 6000, 300000, bulk_quick=["roundtrip_all_dates_bulk"],
                     bulk_thorough=["roundtrip_all_dates_bulk"])],
        "unproved": [],
        "assumes": [],
    },
    "C03": {
        "level_text": "Kernel-checked theorems that every time returned by dawn, sunrise, sunset, dusk, "
                      "time_at_elevation, daylight, night, twilight, golden_hour, blue_hour, the sun "
                      "bundle, moonrise and moonset lies on the requested date — for every zone "
                      "function and with the ephemeris uninterpreted — about a model compared with "
                      "the implementation on every run.",
        "level_note": "Zones are arbitrary functions instant→offset; the astronomy is a parameter. "
                      "Tie to /repo: sampled correspondence of all event functions across zones "
                      "−12:00…+14:00 and IANA zones incl. DST days.",
        "lean_modules": ["Astral.Props.C03"],
        "theorems": [
            "Astral.C03.rematch_on_date", "Astral.C03.dawn_on_date", "Astral.C03.dusk_on_date",
            "Astral.C03.sunrise_on_date", "Astral.C03.sunset_on_date",
            "Astral.C03.timeAtElevation_on_date", "Astral.C03.daylight_on_date",
            "Astral.C03.night_dates", "Astral.C03.twilight_on_date",
            "Astral.C03.goldenHour_on_date", "Astral.C03.blueHour_on_date",
            "Astral.C03.sunBundle_on_date", "Astral.C03.moonWrapper_on_date",
            "Astral.C03.moonrise_on_date", "Astral.C03.moonset_on_date",
        ],
        "groups": [G("corr_loc", "location", 2500, 15000), G("corr_norm", "norm", 1500, 30000), G("corr_sun", "sun_events", 2500, 60000), G("corr_sun", "sun_periods", 1500, 40000),
                   G("corr_moon", "moon_riseset", 1200, 30000)],
        "unproved": [],
        "assumes": ["astimezone near year 1/9999 (OverflowError) is outside the modelled range"],
    },
    "C07": {
        "level_text": "Kernel-checked theorems that each derived period is exactly the pair of primitive "
                      "events that defines it (iff, any numeric type), that night always starts before "
                      "it ends (any zone whose calendar date never goes backwards), and that rahukaalam "
                      "is the pinned traditional eighth of the span.",
        "level_note": "night_ordered assumes DateMono (dates never go backwards in the zone; proved for "
                      "fixed offsets, checked on the extracted IANA tables by the harness). Ordering of "
                      "the other periods within one solar day is C06's theorem.",
        "lean_modules": ["Astral.Props.C07"],
        "theorems": [
            "Astral.C07.daylight_eq", "Astral.C07.night_eq", "Astral.C07.twilight_rising_eq",
            "Astral.C07.twilight_setting_eq", "Astral.C07.blueHour_eq", "Astral.C07.goldenHour_eq",
            "Astral.C07.sunBundle_eq", "Astral.C07.dateMono_fixed", "Astral.C07.night_ordered",
            "Astral.C07.octantIndex_traditional", "Astral.C07.rahukaalam_spec",
            "Astral.C07.octant_close",
        ],
        "groups": [G("corr_loc", "location", 2500, 15000), G("corr_norm", "norm", 1500, 40000), G("corr_sun", "sun_periods", 3000, 80000), G("corr_sun", "sun_events", 1500, 30000)],
        "unproved": ["period start < end within one solar day: see C06 (shared-declination theorem)"],
        "assumes": ["DateMono for the output zone (night_ordered)"],
    },
    "C16": {
        "level_text": "Kernel-checked theorems: the degree pattern recogniser returns exactly the fields "
                      "of well-formed DMS text, the value is ±(deg+min/60+sec/3600), numbers parse to "
                      "themselves, clamping keeps latitude/longitude in range after every assignment "
                      "history (induction over the history), and unrecognised text is rejected.",
        "level_note": "The recogniser is a hand-written equivalent of the regular expression on the "
                      "alphabet ASCII ∪ {°,′,″}; `float(str)` is modelled on a stated numeral grammar. "
                      "Both are tied to `re`/`float` by correspondence (exhaustive short strings in the "
                      "thorough tier). NaN/inf strings are outside the grammar (property quantifies "
                      "over finite floats).",
        "lean_modules": ["Astral.Props.C16"],
        "theorems": [
            "Astral.C16.clamp_range", "Astral.C16.dmsToFloat_range", "Astral.C16.obs_mk_inv",
            "Astral.C16.obs_set_inv", "Astral.C16.observer_inv", "Astral.C16.coords_set_inv",
            "Astral.C16.coords_inv", "Astral.C16.dms_number_identity", "Astral.C16.dms_number_clamped",
            "Astral.C16.dmsMatch_value", "Astral.C16.recognise_deg_min_sec",
            "Astral.C16.recognise_deg_min", "Astral.C16.recognise_deg_sec", "Astral.C16.optField_wrong_mark", "Astral.C16.recognise_deg", "Astral.C16.reject",
            "Astral.C16.accept_cases", "Astral.C16.recognise_none_of_no_digit",
        ],
        "groups": [G("corr_geo", "dms", 4000, 60000,
                     exhaustive_thorough=["dms_exhaustive", "dms_short_strings"],
                     exhaustive_quick=["dms_short_strings"]),
                   G("corr_geo", "setters", 3000, 60000)],
        "unproved": [],
        "assumes": ["recogniser ≡ re.match and parseNumeral ≡ float() on the modelled alphabet"],
    },
    "C17": {
        "level_text": "Kernel-checked refinement theorems over insertion-ordered association lists: "
                      "well-formedness is preserved by every addition (induction over the history); "
                      "listing = previous records + added ones (permutation); lookup is sound and "
                      "complete w.r.t. the stored records up to sanitising; bare names return the head "
                      "of the name's list; group names return the group; unknown names raise KeyError.",
        "level_note": "Strings are code-point lists with ASCII lower-casing. Independence of databases "
                      "is carried by the tie: the correspondence drives several handles (including "
                      "fresh database() calls) through one interleaved history while the model treats "
                      "them as separate values.",
        "lean_modules": ["Astral.Props.C17", "Astral.Props.C17Parse", "Astral.Props.C18"],
        "generators": ["gen_tables"],
        "theorems": [
            "Astral.C17.all_after_addRec", "Astral.C17.all_after_addMany", "Astral.C17.wf_addRec",
            "Astral.C17.wf_addMany", "Astral.C17.lookupInGroup_sound", "Astral.C17.lookupInGroup_bare",
            "Astral.C17.lookupInGroup_complete", "Astral.C17.lookupInGroup_error",
            "Astral.C17.lookup_group", "Astral.C17.lookup_sound", "Astral.C17.lookup_complete",
            "Astral.C17.lookup_unknown", "Astral.C17.sanitize_idem", "Astral.C17.parseQuery_spelling",
            "Astral.C17Parse.join_split", "Astral.C17Parse.split_pieces_free", "Astral.C17Parse.split_join",
            "Astral.C17Parse.blank_line_skipped", "Astral.C17Parse.comment_line_skipped",
            "Astral.C17Parse.fields_record", "Astral.C17Parse.too_few_fields",
            "Astral.C17Parse.line_adds_record", "Astral.C18.builtin_names_not_groups",
        ],
        "groups": [G("corr_geo", "geocoder", 2500, 60000)],
        "unproved": ["str.strip (white-space class) and the error precedence for exactly four fields are tied "
                     "by correspondence only; split/join inverse laws, comment and blank lines and the "
                     "well-formed-line theorem are proved (C17Parse)"],
        "assumes": ["ASCII alphabet for case folding"],
    },
    "C02": {
        "level_text": "partial: kernel-checked theorems (exact reals) that zenith ∈ [0,180], azimuth ∈ "
                      "[0,360), zenith = 90 − elevation, apparent = true − refraction(true), and that the "
                      "published refraction model is ≥ 0, < 0.6° and zero from 85° up on the whole range, "
                      "and that substituting latitude ±89.8° beyond it moves the zenith by at most 0.2° "
                      "(spherical triangle inequality), and that off the degenerate branch the returned "
                      "(zenith, azimuth) are the horizontal coordinates of (declination, hour angle): "
                      "cos z = up, sin z·cos A = north, sin z·sin A = east; about a model compared bit-for-bit with the implementation. The 0.03° agreement "
                      "with an independent ephemeris is not a theorem (DESIGN §9).",
        "level_note": "Numerical agreement with an independent ephemeris is explored only by the "
                      "failing-input search (Astronomical-Almanac oracle, measured headroom 0.013°).",
        "lean_modules": ["Astral.Props.C02", "Astral.Props.C02Clamp", "Astral.Props.C02Horiz"],
        "theorems": [
            "Astral.C02Horiz.core", "Astral.C02Horiz.sun_horizontal", "Astral.C02Horiz.sunDeclination_range",
            "Astral.C02Horiz.sun_api_horizontal", "Astral.C02Horiz.sun_side_of_meridian",
            "Astral.C02Clamp.zenith_lipschitz_in_latitude", "Astral.C02Clamp.clamp_cost",
            "Astral.C02Clamp.clamp_cost_model",
            "Astral.C02.zenithOfCos_range", "Astral.C02.azimuthRaw_range", "Astral.C02.normAzimuth_range",
            "Astral.C02.zenithAzimuthOf_range", "Astral.C02.sun_angle_ranges", "Astral.C02.elevation_def",
            "Astral.C02.apparent_is_true_minus_model", "Astral.C02.apparent_elevation",
            "Astral.C02.quartic_bounds", "Astral.C02.refraction_high", "Astral.C02.refraction_low",
            "Astral.C02.refraction_bounds", "Astral.C02.apparent_minus_true",
        ],
        "groups": [G("corr_loc", "location", 2500, 15000), G("corr_norm", "norm", 1500, 30000), G("corr_sun", "sun_angles", 4000, 150000), G("corr_sun", "sun_chain", 2800, 60000),
                   G("corr_sun", "refraction", 2000, 40000), G("corr_julian", "julian", 1200, 20000)],
        "unproved": ["agreement with an independent almanac-grade ephemeris to 0.03° (0.26° at the poles)"],
        "assumes": ["IEEE rounding stays below the tolerances (bit-exact Float correspondence observed)"],
    },
    "C06": {
        "level_text": "partial: kernel-checked theorems (exact reals, one declination and equation of "
                      "time for the day) that the hour angle is strictly increasing in the target zenith, "
                      "that effective zeniths are ordered like the depressions (refraction on or off, any "
                      "elevation adjustment), hence the whole dawn…dusk chain is ordered around the "
                      "transit; the UTC-day wrap moves an event by exactly 1440 minutes.",
        "level_note": "The implementation evaluates declination/eqtime at each event's own first-pass "
                      "time; the two-pass drift is not bounded by a theorem (chain_order_two_pass is "
                      "left unproved) — the correspondence and the direct search cover it.",
        "lean_modules": ["Astral.Props.C06", "Astral.Props.EoTStep", "Astral.Props.DeclStep"],
        "theorems": ["Astral.DeclStep.declination_step", "Astral.DeclStep.lam_step", "Astral.DeclStep.center_step", "Astral.DeclStep.arcsin_lip", "Astral.EoTStep.eqOfTime_step",
            
            "Astral.C06.hourAngle_ok", "Astral.C06.hourAngle_strictMono", "Astral.C06.hourAngle_setting_neg",
            "Astral.C06.hourAngle_sign", "Astral.C06.event_order", "Astral.C06.wrap_is_one_day",
            "Astral.C06.zEff_lt", "Astral.C06.chain_gaps",
        ],
        "groups": [G("corr_norm", "norm", 1000, 30000), G("corr_loc", "location", 2500, 15000), G("corr_sun", "hour_angle", 3000, 60000), G("corr_sun", "transit", 2500, 60000),
                   G("corr_sun", "sun_events", 2500, 60000), G("corr_sun", "refraction", 1000, 20000)],
        "unproved": ["order of events computed with per-event declination (two-pass drift): the inputs of the drift are bounded — declination ≤ 0.46°/day (DeclStep.declination_step), equation of time ≤ 0.53 min/day (EoTStep.eqOfTime_step) — but turning them into a bound on the event times needs ∂H/∂δ, which is unbounded at the polar circles"],
        "assumes": ["shared declination and equation of time for one solar day",
                    "cos(lat)·cos(decl) > 0 (latitude clamped to ±89.8°)"],
    },
    "C01": {
        "level_text": "partial: kernel-checked theorems (exact reals) that the hour angle solves the "
                      "altitude equation with the right sign, that the library's own position kernel "
                      "returns exactly the target zenith at the event (with the second pass's "
                      "declination), that the zenith handed in is request + dip + published refraction, "
                      "and that the sun climbs at rising events and descends at setting ones. Agreement "
                      "with an independent ephemeris (0.04°…) is not a theorem (DESIGN §9).",
        "level_note": "Fixed-point residual of the two-pass scheme and the D11 wrap tier are not bounded "
                      "by a theorem. Oracle search (stage C only): Astronomical-Almanac formulae.",
        "lean_modules": ["Astral.Props.C01", "Astral.Props.C05Real"],
        "theorems": [
            "Astral.C01.hourAngle_sound", "Astral.C01.cosZenith_of_degrees",
            "Astral.C01.zenith_at_hourAngle", "Astral.C01.target_zenith", "Astral.C01.upper_limb",
            "Astral.C01.fold_elevation", "Astral.C01.direction_sign",
            "Astral.C05Real.transit_hourangle_consistent",
        ],
        "groups": [G("corr_norm", "norm", 1500, 30000), G("corr_sun", "hour_angle", 2500, 60000), G("corr_sun", "transit", 3000, 80000),
                   G("corr_sun", "sun_events", 3000, 80000), G("corr_sun", "sun_chain", 1400, 30000),
                   G("corr_sun", "refraction", 1000, 20000),
                   G("corr_loc", "location", 1200, 20000)],
        "unproved": ["agreement with an independent ephemeris within 0.04/0.08/0.3/0.5°",
                     "two-pass fixed-point residual"],
        "assumes": ["cos(lat)·cos(decl) ≠ 0 (latitude clamped to ±89.8°)"],
    },
    "C04": {
        "level_text": "partial: kernel-checked theorems (exact reals, the day's declination) that "
                      "hour_angle succeeds iff the target altitude lies between the day's extreme "
                      "altitudes, that the domain error occurs exactly when the sun stays on one side "
                      "all day (and which side), and that date re-matching never discards an event one "
                      "of its candidates places on the date. The ephemeris margins are not theorems.",
        "level_note": "Known finding on the unchanged tree: D11 (UTC-day wrap hides one rising event "
                      "per year). N3 (verdict side for elevated polar observers) was repaired "
                      "(/repo b2d07cf) and is re-checked by its witness on every run.",
        "lean_modules": ["Astral.Props.C01", "Astral.Props.C20Total"],
        "theorems": [
            "Astral.C01.hourAngle_defined_iff", "Astral.C01.never_reaches_side",
            "Astral.C01.hourAngle_error_iff", "Astral.C01.rematch_complete",
            "Astral.C20Total.alwaysVerdict_outcomes", "Astral.C20Total.sunrise_outcomes",
            "Astral.C20Total.sunset_outcomes",
        ],
        "groups": [G("corr_norm", "norm", 1500, 30000), G("corr_loc", "location", 2500, 15000), G("corr_sun", "hour_angle", 2500, 60000), G("corr_sun", "sun_events", 3500, 90000),
                   G("corr_sun", "transit", 1500, 40000)],
        "unproved": ["two-sided agreement with the ephemeris inside the 30-minute / 0.6° margins",
                     "that the verdict's side (noon zenith against the horizon's zenith) coincides with the "
                     "side of the domain error — both are decided by the same altitude range, at different "
                     "declinations (noon vs. 00:00 UTC); checked by the search, not proved"],
        "assumes": ["one declination for the day"],
    },
    "C10": {
        "level_text": "partial: kernel-checked theorems (exact reals) that the dip is 0 for h ≤ 0, "
                      "strictly increasing and continuous at 0, that non-positive elevations give "
                      "exactly the sea-level zenith, that a higher observer's events are earlier/later "
                      "(refraction off; with refraction whenever the dips differ by ≥ 0.6°), and the "
                      "sign of the obscuring-feature adjustment; plus the theorem that the feature "
                      "adjustment is ≥ 45° for 0 < dh ≤ dist (KF-FEATURE).",
        "level_note": "Known findings: N2 (refraction model non-monotone for dip+16' in "
                      "[0.575°, 0.57502°]), KF-FEATURE (tuple form is the complement angle).",
        "lean_modules": ["Astral.Props.C10"],
        "theorems": [
            "Astral.C10.dip_nonpos", "Astral.C10.dip_strictMono", "Astral.C10.dip_mono",
            "Astral.C10.dip_continuousAt_zero", "Astral.C10.sea_level", "Astral.C10.effectiveZenith_flt",
            "Astral.C10.higher_is_earlier", "Astral.C10.higher_is_earlier_refr",
            "Astral.C10.feature_zero", "Astral.C10.feature_sign",
            "Astral.C10.feature_discontinuous_witness",
        ],
        "groups": [G("corr_norm", "norm", 1000, 30000), G("corr_loc", "location", 2500, 15000), G("corr_sun", "hour_angle", 3000, 60000), G("corr_sun", "transit", 3000, 80000),
                   G("corr_geo", "setters", 1500, 30000), G("corr_sun", "sun_events", 1500, 40000)],
        "unproved": ["monotonicity with refraction inside the 0.6° margin (false at the N2 kink)",
                     "continuity of the tuple form (false: KF-FEATURE)"],
        "assumes": ["shared declination"],
    },
    "C05": {
        "level_text": "partial: kernel-checked theorems, for every zone function: the h/m/s carry block "
                      "and the date roll of noon and midnight are exact (no lost second, no field out "
                      "of range); the model's equation of time is within 18.7 min of zero over "
                      "1899-2101 (interval arithmetic over the NOAA series), hence — end to end, for "
                      "every longitude in [-180, 180], every date of 1900-2100 and every zone function "
                      "within six hours of the place's mean solar time — noon is on the requested date, "
                      "and midnight is within 12 h 0 min 33 s of 00:00 of the requested date in the "
                      "zone (one day's change of the equation of time is at most 0.53 min, so consecutive "
                      "solar midnights are 24 h apart to within 33 s). The 0.25° agreement with an "
                      "independent ephemeris is not a theorem.",
        "level_note": "noon and midnight are also proved total over the whole calendar (C20).",
        "lean_modules": ["Astral.Props.C05", "Astral.Props.C05Real", "Astral.Props.EoT",
                         "Astral.Props.EoTStep", "Astral.Props.C05Noon"],
        "theorems": [
            "Astral.C05.carrySM_spec", "Astral.C05.carrySM_minute_range", "Astral.C05.mkNoon_spec",
            "Astral.C05.mkMidnight_spec", "Astral.C05.noon_on_date", "Astral.C05.noon_on_date_of_aligned",
            "Astral.C05.midnight_nearest", "Astral.C05Real.noon_is_transit",
            "Astral.C05Real.midnight_is_antitransit", "Astral.C05Real.noon_formula",
            "Astral.C05Real.noon_is_highest", "Astral.EoT.eqOfTime_bound",
            "Astral.C05Noon.splitHours_spec", "Astral.C05Noon.noonUtc_value",
            "Astral.C05Noon.noon_on_requested_date", "Astral.C05Noon.midnightUtc_value",
            "Astral.C05Noon.midnight_near_zone_midnight", "Astral.EoTStep.eqOfTime_step",
            "Astral.C05Noon.midnight_spacing", "Astral.C05Noon.midnight_nearest_tight",
            "Astral.C05Noon.noon_total",
            "Astral.C05Noon.midnight_total",
        ],
        "groups": [G("corr_loc", "location", 2500, 15000), G("corr_norm", "norm", 1200, 30000), G("corr_sun", "sun_events", 4500, 100000), G("corr_sun", "sun_chain", 1400, 30000)],
        "unproved": ["hour angle within 0.25° of 0 / 180 by an independent ephemeris",
                     ],
        "assumes": [],
    },
    "C08": {
        "level_text": "Kernel-checked theorems (exact reals): Python's float modulo is 1440-periodic, the "
                      "true solar time of an aware datetime equals that of its UTC instant for every "
                      "offset, hence zenith, azimuth and elevation depend on the instant only; a naive "
                      "datetime is read as UTC; the hour angle is always in [−180°, 180°).",
        "level_note": "For whole-second datetimes and offsets (microseconds are ignored by the code). "
                      "IEEE rounding of the modulo is covered by the Float correspondence (1e-9).",
        "lean_modules": ["Astral.Props.C08"],
        "theorems": [
            "Astral.C08.pymod_add_mul", "Astral.C08.pymod_range", "Astral.C08.fieldSeconds_shift",
            "Astral.C08.trueSolarTime_invariant", "Astral.C08.naive_is_utc",
            "Astral.C08.angles_instant_only", "Astral.C08.elevation_instant_only",
            "Astral.C08.hourAngle_normalised",
        ],
        "groups": [G("corr_loc", "location", 2500, 15000), G("corr_norm", "norm", 1200, 30000), G("corr_sun", "sun_angles", 6000, 200000), G("corr_julian", "julian", 1200, 20000)],
        "unproved": [],
        "assumes": ["whole-second datetimes"],
    },
    "C11": {
        "level_text": "partial: kernel-checked theorems (exact reals) that for every date the phase is in "
                      "[0, 28) and that it advances, circularly, by between 0.71 and 1.19 per calendar day "
                      "for every pair of consecutive dates 0001-9999 (Lipschitz bound on the truncated "
                      "elongation series, the exact one-per-day step of the Julian day, truncation to whole "
                      "degrees); the last stage is also checked in IEEE binary64 for all 360 integer "
                      "elongations by kernel evaluation (decide +kernel, no native_decide); the model is "
                      "compared with the implementation on ALL 3 652 059 dates on every run. Agreement "
                      "with an independent elongation is not a theorem.",
        "level_note": "The exhaustive date sweep is correspondence (sampling of a finite domain, complete), "
                      "not a proof.",
        "lean_modules": ["Astral.Props.C11", "Astral.Props.C11Float", "Astral.Props.C11Advance"],
        "theorems": [
            "Astral.C11.elongation_range", "Astral.C11.last_stage", "Astral.C11.phase_range",
            "Astral.C11Float.phase_table", "Astral.C11Advance.elongation_eq",
            "Astral.C11Advance.Eraw_step", "Astral.C11Advance.phase_daily_advance",
        ],
        "groups": [G("corr_norm", "norm", 1200, 30000), G("corr_loc", "location", 2500, 15000), G("corr_moon", "moon_phase", 3000, 20000, bulk_quick=["phase_all_dates_bulk"],
                     bulk_thorough=["phase_all_dates_bulk"]),
                   G("corr_julian", "julian", 1200, 20000)],
        "unproved": ["agreement with an independent lunar/solar elongation to 0.25"],
        "assumes": [],
    },
    "C12": {
        "level_text": "partial: kernel-checked theorems (exact reals) that lunar elevation ∈ [−90, 90], "
                      "zenith = 90 − elevation ∈ [0, 180], azimuth ∈ [0, 360), and that the returned pair is "
                      "the horizontal-coordinate transform of (declination, LST − RA): sin e = z, "
                      "cos e·cos A = north, cos e·sin A = east on the unit sphere; dependence on the instant "
                      "only is carried by the tie (the model takes the UTC instant; the harness feeds "
                      "naive, UTC-aware and zoned spellings). 0.05° agreement with an independent lunar "
                      "theory is not a theorem and no such ephemeris is available offline.",
        "level_note": "The pinned copy of the Van Flandern–Pulkkinen table (MoonTable.lean) is the "
                      "reference for the numerical clause: any coefficient change breaks correspondence.",
        "lean_modules": ["Astral.Props.C12", "Astral.Props.C12Horiz"],
        "theorems": [
            "Astral.C12Horiz.unit", "Astral.C12Horiz.moonXYZ_components", "Astral.C12Horiz.moon_horizontal",
            "Astral.C12Horiz.moon_altitude_formula", "Astral.C12Horiz.moon_side_of_meridian",
            "Astral.C12.moon_elevation_range", "Astral.C12.moon_zenith_def",
            "Astral.C12.moon_azimuth_range", "Astral.C12.wrap_identity", "Astral.C12.moon_zenith_range",
        ],
        "groups": [G("corr_norm", "norm", 1400, 30000), G("corr_loc", "location", 2500, 15000), G("corr_moon", "moon_angles", 4000, 100000), G("corr_moon", "moon_position", 3000, 60000)],
        "unproved": ["agreement with an independent lunar ephemeris to 0.05°"],
        "assumes": ["IEEE: the modulo can round to exactly 360.0 — handled by the code's final wrap"],
    },
    "C13": {
        "level_text": "partial: kernel-checked theorems (exact reals): a sign change over the hour puts "
                      "exactly the selected root of the interpolating parabola in [0,1] and it is a zero "
                      "of the interpolant; the interpolant passes through the three samples; the event's "
                      "hour/minute fields are in range and within the scanned hour; the zero level is "
                      "the stated semi-diameter/parallax altitude. Agreement to 0.45° with lunar "
                      "positions is not a theorem.",
        "level_note": "assumes a ≠ 0 (three collinear samples raise ZeroDivisionError; measure zero).",
        "lean_modules": ["Astral.Props.C13"],
        "theorems": [
            "Astral.C13.quad_root_in_unit", "Astral.C13.interpolant_samples",
            "Astral.C13.event_time_fields", "Astral.C13.threshold_def",
        ],
        "groups": [G("corr_loc", "location", 2500, 15000), G("corr_norm", "norm", 1200, 30000), G("corr_moon", "moon_riseset", 3000, 60000), G("corr_moon", "moon_position", 1500, 30000)],
        "unproved": ["0.45° agreement of the crossing altitude", "hourly interpolation error"],
        "assumes": ["a ≠ 0 in the quadratic"],
    },
    "C14": {
        "level_text": "partial: kernel-checked theorems about the date logic around an uninterpreted "
                      "scan, for every zone function: the only outcomes are a time, None, or 'Moon never "
                      "rises/sets'; an event the scan offers on the requested date (on the UTC day or, "
                      "when that day is empty, on either neighbour) is returned; the choice among "
                      "several events keeps one of them. Completeness of the hourly scan itself is not "
                      "a theorem.",
        "level_note": "Scan errors (ZeroDivisionError for a degenerate quadratic, bare ValueError for a "
                      "zero argument) are assumed absent in moonWrapper_outcomes.",
        "lean_modules": ["Astral.Props.C13", "Astral.Props.C03"],
        "theorems": [
            "Astral.C13.moonWrapper_outcomes", "Astral.C13.moonWrapper_complete", "Astral.C13.moon_choice",
            "Astral.C03.moonWrapper_on_date",
        ],
        "groups": [G("corr_loc", "location", 2500, 15000), G("corr_norm", "norm", 1200, 30000), G("corr_moon", "moon_riseset", 4000, 80000)],
        "unproved": ["every real crossing produces an hourly sign change (scan completeness, 8 minutes)"],
        "assumes": ["the scan does not raise"],
    },
    "C18": {
        "level_text": "Kernel-checked (decide +kernel, exact integer arithmetic) over the location table "
                      "REGENERATED from /repo's source text on every run: every record has a non-empty "
                      "name, coordinates that parse and lie in range, a zone the platform resolves and a "
                      "standard offset within 2.5 h of mean solar time; no (name, region) pair twice; "
                      "and the lemma that such an offset puts mean-time noon within 2.5 h of 12:00.",
        "level_note": "Translator tie: harness/gen_tables.py (splits the text as the module does; adds "
                      "zoneinfo resolution and the standard offset per zone — tzdata is trusted). The "
                      "parser the theorem uses is the model's recogniser, tied to re/float by the dms "
                      "correspondence; database() is tied by the geocoder correspondence.",
        "lean_modules": ["Astral.Props.C18", "Astral.Props.EoT"],
        "generators": ["gen_tables"],
        "theorems": ["Astral.C18.builtin_ok", "Astral.C18.builtin_nodup", "Astral.C18.builtin_names_not_groups",
                     "Astral.C18.noon_window",
                     "Astral.EoT.eqOfTime_bound"],
        "groups": [G("corr_sun", "builtin_noon", 15000, 150000), G("corr_geo", "dms", 3000, 40000, exhaustive_thorough=["dms_exhaustive"]),
                   G("corr_geo", "geocoder", 1500, 40000)],
        "unproved": ["the computed (NOAA) noon in [09:30, 14:30]: noon_window plus the proved "
                     "|eq_of_time| ≤ 18.7 min (Astral.EoT.eqOfTime_bound) bound it to [09:11, 14:49] for a "
                     "record at the 2.5 h limit; the property's window is checked per record by the scan"],
        "assumes": ["tzdata as installed", "gen_tables.py extracts the rows the module would parse"],
        "trusted_extra": ["harness/gen_tables.py (data translator) and tzdata"],
    },
    "C19": {
        "level_text": "Kernel-checked theorems: every Location method's call (a first-order description: "
                      "target function, coordinates, observer elevation, date, depression, zone, "
                      "direction) equals a specification written by rule from the property text, for "
                      "every state and argument combination; the depression setter agrees across names, "
                      "enum and numbers; the command line makes the one sun.sun call for the parsed "
                      "arguments with the right labels. The model is tied to location.py/__main__.py by "
                      "recorders that capture the real calls and return values.",
        "level_note": "Delegation only: what the delegated functions compute is C01–C14. Naive datetimes "
                      "of the solar-angle methods are converted by the harness's own expectation.",
        "lean_modules": ["Astral.Props.C19"],
        "theorems": ["Astral.C19.location_delegates", "Astral.C19.depression_setter",
                     "Astral.C19.cli_output", "Astral.C19.setTimezone_rejected", "Astral.C19.setTimezone_accepted"],
        "groups": [G("corr_loc", "location", 3000, 60000), G("corr_loc", "cli", 300, 5000),
                   G("corr_geo", "setters", 1200, 20000)],
        "unproved": [],
        "assumes": ["argparse and strftime behave as documented"],
    },
    "C09": {
        "level_text": "Kernel-checked theorems about the normalising preamble (written once in the model, "
                      "tied to each public function by calling the real code with every spelling): zone "
                      "by name ≡ by object; named depression ≡ degrees; datetime-as-date means its "
                      "calendar date in its own zone, which becomes the output zone; omitted date = "
                      "today in the requested zone; two zones agreeing at the candidate instants give "
                      "the same result (any transit function); elevation > 90 ≡ setting at 180 − it.",
        "level_note": "The zone database is an uninterpreted `resolve`; the clock is a parameter `now` "
                      "(the harness freezes now/today as seen by sun.py and moon.py). Coordinates: C16.",
        "lean_modules": ["Astral.Props.C09"],
        "theorems": [
            "Astral.C09.name_or_object", "Astral.C09.event_name_or_object", "Astral.C09.tae_name_or_object", "Astral.C09.period_name_or_object", "Astral.C09.sunBundle_name_or_object", "Astral.C09.period_omitted_is_today", "Astral.C09.sunBundle_omitted_is_today", "Astral.C09.sunBundle_named_depression", "Astral.C09.midnight_datetime_is_its_date",
            "Astral.C09.moon_name_or_object", "Astral.C09.named_depression", "Astral.C09.datetime_as_date",
            "Astral.C09.default_date", "Astral.C09.event_zone", "Astral.C09.rematch_congr",
            "Astral.C09.dawn_same_offsets", "Astral.C09.sunrise_same_offsets",
            "Astral.C09.sunset_same_offsets", "Astral.C09.dusk_same_offsets", "Astral.C09.elevation_fold",
        ],
        "groups": [G("corr_moon", "moon_riseset", 1500, 30000), G("corr_loc", "location", 2500, 15000), G("corr_norm", "norm", 3500, 80000), G("corr_geo", "dms", 1500, 20000),
                   G("corr_sun", "sun_events", 1500, 30000)],
        "unproved": [],
        "assumes": ["zoneinfo resolves a name to the zone the harness tabulated"],
    },
    "C20": {
        "level_text": "partial: (1) kernel-checked (decide +kernel) purity theorem over an effect table "
                      "REGENERATED from the AST of /repo/src/astral on every run: no public sun/moon "
                      "function, nor anything it calls in the package, writes module state, mutates an "
                      "argument, keeps hidden state (functools caches, mutable defaults), reads the "
                      "environment or does I/O — only the clock, through now(). (2) theorems that a raw "
                      "'math domain error' never escapes dawn/dusk/time_at_elevation and that the moon "
                      "date logic has only the documented outcomes. (3) the model's Float instance and "
                      "the code agree on results and error kinds on an extreme-argument stream.",
        "level_note": "The effect extractor (harness/effects.py) is a hand-written over-approximation and "
                      "is trusted; thread interleavings and the TZ variable cannot be expressed in a pure "
                      "model and are covered by the effect theorem plus perturbation runs in the search. "
                      "Overflow cannot be exhibited at α := ℝ; it is covered by the Float correspondence.",
        "lean_modules": ["Astral.Props.C20", "Astral.Props.EoT", "Astral.Props.C05Noon",
                         "Astral.Props.C20Total"],
        "generators": ["effects"],
        "theorems": ["Astral.C20.pure_by_effects", "Astral.C20.public_nonempty",
                     "Astral.C20.no_raw_domain_error", "Astral.C20.dawn_no_domain_error",
                     "Astral.C20.dusk_no_domain_error", "Astral.C20.tae_no_domain_error",
                     "Astral.C13.moonWrapper_outcomes", "Astral.EoT.eqOfTime_bound_wide",
                     "Astral.C05Noon.noonUtc_total", "Astral.C05Noon.noon_total",
                     "Astral.C05Noon.midnight_total", "Astral.C20Total.elevationAdjustment_ok",
                     "Astral.C20Total.minutesToTimedelta_range", "Astral.C20Total.timeOfTransit_cases",
                     "Astral.C20Total.rematch_cases", "Astral.C20Total.dawn_outcomes",
                     "Astral.C20Total.dusk_outcomes", "Astral.C20Total.timeAtElevation_outcomes",
                     "Astral.C20Total.alwaysVerdict_outcomes", "Astral.C20Total.sunrise_outcomes",
                     "Astral.C20Total.sunset_outcomes"],
        "groups": [G("corr_norm", "norm", 2500, 40000), G("corr_sun", "sun_extreme", 4000, 100000), G("corr_sun", "sun_events", 2500, 50000),
                   G("corr_sun", "sun_angles", 2500, 50000), G("corr_moon", "moon_riseset", 1500, 30000),
                   G("corr_moon", "moon_angles", 1500, 30000)],
        "unproved": ["totality of the float chain at extreme magnitudes (ℝ cannot overflow)",
                     "the 'only documented ValueErrors' theorems (C20Total) are over exact reals: dawn, dusk, "
                     "time_at_elevation, sunrise, sunset, noon and midnight, for every date 0001-01-03 … "
                     "9999-12-28, every longitude in [-180, 180], float or tuple elevation and every zone; "
                     "the periods (daylight, night, twilight, golden/blue hour, rahukaalam, sun) compose "
                     "them and are not restated; the moon functions are covered by C13.moonWrapper_outcomes"],
        "assumes": ["soundness of the effect extraction for the Python subset astral uses"],
        "trusted_extra": ["harness/effects.py (static effect summary, over-approximation)"],
    },
}

_c = PROPS["C15"]
_c.setdefault("generators", []).append("effects")
_c["lean_modules"].append("Astral.Props.JulianPure")
_c["theorems"].append("Astral.JulianPure.julian_pure")
_c.setdefault("trusted_extra", []).append("harness/effects.py (static effect summary, over-approximation)")

for _p, _t in (("C19", "Astral.FrontPure.location_queries_pure"), ("C16", "Astral.FrontPure.coords_pure")):
    _c = PROPS[_p]
    _c.setdefault("generators", [])
    if "effects" not in _c["generators"]:
        _c["generators"].append("effects")
    _c["lean_modules"].append("Astral.Props.FrontPure")
    _c["theorems"].append(_t)
    _c.setdefault("trusted_extra", []).append("harness/effects.py (static effect summary, over-approximation)")

for _p in ["C17", "C18"]:
    _c = PROPS[_p]
    _c.setdefault("generators", [])
    if "effects" not in _c["generators"]:
        _c["generators"].append("effects")
    _c["lean_modules"].append("Astral.Props.GeoPure")
    _c["theorems"].append("Astral.GeoPure.geo_no_hidden_state")
    _c.setdefault("trusted_extra", [])
    _c["trusted_extra"].append("harness/effects.py (static effect summary, over-approximation)")

for _p in PURE_PROPS:
    _c = PROPS[_p]
    _c.setdefault("generators", [])
    for _g in PURITY["generators"]:
        if _g not in _c["generators"]:
            _c["generators"].append(_g)
    for _m in PURITY["modules"]:
        if _m not in _c["lean_modules"]:
            _c["lean_modules"].append(_m)
    for _t in PURITY["theorems"]:
        if _t not in _c["theorems"]:
            _c["theorems"].append(_t)
    _c.setdefault("trusted_extra", [])
    if "harness/effects.py (static effect summary, over-approximation)" not in _c["trusted_extra"]:
        _c["trusted_extra"].append("harness/effects.py (static effect summary, over-approximation)")
