"""Per-property configuration of the checks: which Lean modules/theorems are the proof
obligations, which correspondence groups tie the model functions those theorems mention
to the implementation, and what is left unproved (DESIGN §7)."""

TRUSTED_BASE = [
    "Lean 4.33.0 kernel and elaborator (leanchecker re-checks the .olean files in the thorough tier)",
    "axioms: propext, Classical.choice, Quot.sound only (audited with #print axioms on every run)",
    "Mathlib v4.33.0 as compiled in the image",
    "hand-written model lean/Astral/Model/*.lean — tied to /repo by the correspondence harness "
    "(harness/*.py, generators' reach), not verified",
    "CPython 3.12, glibc libm, tzdata",
    "theorems are over exact real arithmetic (α := ℝ); IEEE rounding is covered only by the "
    "Float-instance correspondence",
]

COMMON_ASSUMPTIONS = [
    "the implementation behaves on all inputs as it does on the generated inputs on which it "
    "agrees with the model (sampling tie)",
]


def G(module, group, quick, thorough, **kw):
    d = {"module": module, "group": group, "quick": quick, "thorough": thorough}
    d.update(kw)
    return d


# properties whose check is not built yet (kept current; see MANIFEST.not_applicable)
NOT_YET = {}

PROPS = {
    "C15": {
        "level_text": "Kernel-checked theorems (exact arithmetic) for the Julian-day formula, its "
                      "inverse and the time-unit helpers, about a Lean model that is compared with "
                      "the implementation on generated inputs on every run.",
        "level_note": "Theorems are about the model at α := ℝ; the tie to /repo is the sampled "
                      "correspondence (bit-exact on Float). Trusted: Lean kernel, Mathlib, harness.",
        "lean_modules": ["Astral.Props.C15"],
        "theorems": [
            "Astral.C15.jd_gregorian",
        ],
        "groups": [G("corr_julian", "julian", 6000, 300000)],
        "unproved": [],
        "assumes": [],
    },
}
