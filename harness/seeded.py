#!/venv/bin/python
"""Seeded-defect utilities (DESIGN: validation of the checks against realistic breakage).

  seeded.py validate <patch.diff> <demo.py>   scratch worktree: tests pass with the patch,
                                              demo fails with it and passes without it
  seeded.py run <patch.diff> <Cxx> [Cyy…]     apply to /repo, run ./check for each property,
                                              revert /repo straight afterwards
"""
import os
import shutil
import subprocess
import sys

REPO = os.environ.get("VERIF_REPO", "/repo")
VERIF = os.path.dirname(os.path.dirname(os.path.abspath(__file__)))


def sh(cmd, cwd=None, env=None, timeout=3600):
    p = subprocess.run(cmd, cwd=cwd, env=env, stdout=subprocess.PIPE, stderr=subprocess.STDOUT,
                       timeout=timeout)
    return p.returncode, p.stdout.decode(errors="replace")


def validate(patch, demo):
    wt = "/tmp/seedval"
    sh(["git", "-C", REPO, "worktree", "remove", "--force", wt])
    shutil.rmtree(wt, ignore_errors=True)
    rc, out = sh(["git", "-C", REPO, "worktree", "add", "-q", wt, "HEAD"])
    if rc:
        print(out)
        return 2
    env = dict(os.environ, PYTHONPATH=wt + "/src")
    try:
        rc0, out0 = sh(["/venv/bin/python", demo], cwd=wt, env=env)
        rc, out = sh(["git", "apply", os.path.abspath(patch)], cwd=wt)
        if rc:
            print("patch does not apply:", out)
            return 2
        rct, outt = sh(["/venv/bin/python", "-m", "pytest", "-q", "-p", "no:cacheprovider", "src/test"],
                       cwd=wt, env=env)
        rc1, out1 = sh(["/venv/bin/python", demo], cwd=wt, env=env)
        print("demo on clean tree: exit %d | tests with patch: %s | demo with patch: exit %d" % (
            rc0, outt.strip().split("\n")[-1], rc1))
        print("  demo says:", out1.strip().split("\n")[-1][:300])
        ok = rc0 == 0 and rct == 0 and rc1 != 0
        print("VALID" if ok else "INVALID")
        return 0 if ok else 1
    finally:
        sh(["git", "-C", REPO, "worktree", "remove", "--force", wt])
        shutil.rmtree(wt, ignore_errors=True)


def run(patch, props):
    rc, out = sh(["git", "-C", REPO, "status", "--porcelain"])
    if out.strip():
        print("/repo is not clean; refusing")
        return 2
    rc, out = sh(["git", "-C", REPO, "apply", os.path.abspath(patch)])
    if rc:
        print("patch does not apply:", out)
        return 2
    results = {}
    try:
        for p in props:
            rc, out = sh([os.path.join(VERIF, "check"), p], cwd=VERIF)
            lines = [l for l in out.split("\n") if l.startswith("VIOLATION") or l.startswith(p)]
            results[p] = rc
            print("%s: exit %d  %s" % (p, rc, " | ".join(lines)[:400]))
    finally:
        sh(["git", "-C", REPO, "checkout", "--", "."])
    return 0 if any(v == 1 for v in results.values()) else 1


if __name__ == "__main__":
    if sys.argv[1] == "validate":
        sys.exit(validate(sys.argv[2], sys.argv[3]))
    sys.exit(run(sys.argv[2], sys.argv[3:]))
