#!/venv/bin/python
"""./check Cxx [--tier quick|thorough] [--replay file]

Stages (DESIGN §5):
  A  proof obligations: regenerate generated tables, `lake build` the property's theorem
     modules, audit the axioms of every registered theorem, scan for sorry/native_decide/…
  B  correspondence: the model's executable definitions and the implementation on the
     same generated inputs
  K  known findings / fixed findings: pinned witnesses replayed on the real code
  C  only if A or B failed: search for a concrete failing input of the *property* on the
     implementation; report it (or `no-failing-input-found`) as the replay
Exit 0 = held on everything explored; 1 = VIOLATION line printed; 2 = infrastructure.
"""
import argparse
import importlib
import json
import os
import random
import re
import signal
import subprocess
import sys
import time
import traceback

HERE = os.path.dirname(os.path.abspath(__file__))
sys.path.insert(0, HERE)
import common  # noqa: E402
from common import VERIF, LEAN_DIR  # noqa: E402
import registry  # noqa: E402

ALLOWED_AXIOMS = {"propext", "Classical.choice", "Quot.sound"}
FORBIDDEN = re.compile(r"\bsorry\b|\badmit\b|^\s*axiom\s|native_decide|bv_decide|implemented_by|"
                       r"\bunsafe\s|maxHeartbeats\s+0\b")


def sh(cmd, cwd=None, timeout=3600):
    p = subprocess.run(cmd, cwd=cwd, stdout=subprocess.PIPE, stderr=subprocess.STDOUT,
                       timeout=timeout)
    return p.returncode, p.stdout.decode(errors="replace")


def strip_comments(text):
    text = re.sub(r"/-.*?-/", lambda m: "\n" * m.group(0).count("\n"), text, flags=re.S)
    return re.sub(r"--.*", "", text)


def scan_forbidden():
    hits = []
    for root, _, files in os.walk(LEAN_DIR):
        if ".lake" in root:
            continue
        for f in files:
            if not f.endswith(".lean"):
                continue
            path = os.path.join(root, f)
            src = strip_comments(open(path, encoding="utf-8").read())
            for i, line in enumerate(src.split("\n"), 1):
                if FORBIDDEN.search(line):
                    hits.append("%s:%d: %s" % (os.path.relpath(path, VERIF), i, line.strip()[:120]))
    return hits


def stage_a(prop, cfg, tier, log):
    """returns dict(ok, obligations, discharged, failures[list of str], theorems[list])"""
    res = {"ok": True, "obligations": 0, "discharged": 0, "failures": [], "theorems": [],
           "generated": {}}
    for g in cfg.get("generators", []):
        try:
            mod = importlib.import_module(g)
            res["generated"][g] = mod.generate()
        except Exception as exc:  # noqa: BLE001
            res["ok"] = False
            res["failures"].append("generator %s failed: %r" % (g, exc))
            log(traceback.format_exc())
    # build each theorem module on its own, so that one broken obligation does not hide the rest
    rc, out = sh(["lake", "build", "astral-model"], cwd=LEAN_DIR, timeout=7200)
    log(out[-3000:])
    if rc != 0:
        res["ok"] = False
        res["failures"].append("model driver does not build: " + out[-600:])
    built = []
    for m in cfg.get("lean_modules", []):
        rcm, outm = sh(["lake", "build", m], cwd=LEAN_DIR, timeout=7200)
        log(outm[-4000:])
        if rcm == 0:
            built.append(m)
        else:
            res["ok"] = False
            errs = [l for l in outm.split("\n") if "error" in l][:6]
            res["failures"].append("lake build %s failed: %s" % (m, " | ".join(errs)[:1200]))
    rc = 0 if built else 1
    theorems = cfg.get("theorems", [])
    res["obligations"] = len(theorems)
    if theorems and rc == 0:
        audit_dir = os.path.join(LEAN_DIR, ".lake", "audit")
        os.makedirs(audit_dir, exist_ok=True)
        path = os.path.join(audit_dir, prop + ".lean")
        with open(path, "w") as f:
            for m in built:
                f.write("import %s\n" % m)
            for t in theorems:
                f.write("#print axioms %s\n" % t)
        rc2, out2 = sh(["lake", "env", "lean", path], cwd=LEAN_DIR, timeout=3600)
        log(out2[-6000:])
        text = " ".join(out2.split())
        for t in theorems:
            m = re.search(r"'%s' depends on axioms: \[([^\]]*)\]" % re.escape(t), text)
            entry = {"name": t}
            if m:
                ax = [a.strip() for a in m.group(1).split(",") if a.strip()]
                entry["axioms"] = ax
                if set(ax) <= ALLOWED_AXIOMS:
                    res["discharged"] += 1
                else:
                    res["ok"] = False
                    res["failures"].append("theorem %s uses axioms %s" % (t, ax))
            elif re.search(r"'%s' does not depend on any axioms" % re.escape(t), text):
                entry["axioms"] = []
                res["discharged"] += 1
            else:
                res["ok"] = False
                entry["axioms"] = None
                if not any(t.startswith(m.replace("Astral.Props.", "Astral.") + ".") or
                           t.startswith(m.replace("Props.", "") + ".") for m in cfg["lean_modules"]
                           if m not in built):
                    res["failures"].append("theorem %s does not check (missing or broken)" % t)
                else:
                    res["failures"].append("theorem %s: its module no longer builds" % t)
            res["theorems"].append(entry)
    elif theorems:
        res["theorems"] = [{"name": t, "axioms": None} for t in theorems]
    hits = scan_forbidden()
    if hits:
        res["ok"] = False
        res["failures"].append("forbidden constructs: " + "; ".join(hits[:5]))
    if tier == "thorough" and built:
        rc3, out3 = sh(["lake", "env", "leanchecker"] + built, cwd=LEAN_DIR,
                       timeout=7200)
        log(out3[-3000:])
        res["leanchecker"] = "ok" if rc3 == 0 else "failed"
        if rc3 != 0:
            res["ok"] = False
            res["failures"].append("leanchecker rejected the compiled modules")
    return res


def norm(s):
    return " ".join(s.split())


# process time zones the checks run under — never UTC (a result that leaks the process zone is
# invisible there); most have daylight-saving rules, two are far from UTC on either side
PROCESS_ZONES = ["America/New_York", "Asia/Tokyo", "America/Adak", "Pacific/Kiritimati", "Europe/London",
                 "Australia/Lord_Howe", "America/Sao_Paulo"]


def stage_b(prop, cfg, tier, seed, log):
    """correspondence for the groups the property's theorems rest on"""
    import zones
    res = {"ok": True, "groups": {}, "cases": 0, "distinct": 0, "max_ulp": 0,
           "mismatches": [], "special": [], "samples": [], "error_kinds": {}, "tags": {}, "functions": {}}
    for gi, spec in enumerate(cfg.get("groups", [])):
        modname, gname = spec["module"], spec["group"]
        n = spec["thorough"] if tier == "thorough" else spec["quick"]
        # every group under another process zone
        os.environ["TZ"] = PROCESS_ZONES[(seed + gi) % len(PROCESS_ZONES)]
        time.tzset()
        res.setdefault("process_zones", []).append(os.environ["TZ"])
        mod = importlib.import_module(modname)
        gen = mod.GROUPS[gname]
        rng = random.Random((seed * 1000003) ^ hash_str(gname))
        common.set_convention_rng(random.Random((seed * 7919) ^ hash_str(gname) ^ 0xC0117))
        t0 = time.time()
        cases = []
        # watchdog: a call of the implementation that does not return is a behavioural difference
        # (the model returns), not a reason for the check to hang
        limit = int(os.environ.get("VERIF_WATCHDOG", 5400 if tier == "thorough" else 300))

        def _hang(signum, frame):
            raise TimeoutError("the implementation did not return within %d s while the cases of "
                               "group %r were being generated" % (limit, gname))
        signal.signal(signal.SIGALRM, _hang)
        signal.alarm(limit)
        try:
            for c in gen(rng, n, tier):
                cases.append(c)
            for extra in spec.get("exhaustive_" + tier, []):
                for c in getattr(mod, extra)():
                    cases.append(c)
            signal.alarm(0)
        except Exception as exc:  # noqa: BLE001
            signal.alarm(0)
            # the harness could not even canonicalise what the implementation returned
            # (wrong type, missing attribute, …): that is a behavioural difference
            log(traceback.format_exc())
            res["ok"] = False
            res["mismatches"].append({"group": gname, "function": "(case generation)",
                                      "request": "", "implementation": "raised %r" % (exc,),
                                      "model": "", "input": {"after_cases": len(cases)}})
        for bulk in spec.get("bulk_" + tier, []):
            # large exhaustive domains: plain lists instead of Case objects
            try:
                fn_, reqs, exps, describe = getattr(mod, bulk)()
                outs = common.run_model(reqs)
                nbad = 0
                for i_, (e_, o_) in enumerate(zip(exps, outs)):
                    if e_ != o_ and not common.tokens_agree(e_, o_):
                        nbad += 1
                        if len(res["mismatches"]) < 20:
                            res["mismatches"].append({"group": gname, "function": fn_, "request": reqs[i_],
                                                      "implementation": e_, "model": o_,
                                                      "input": describe(i_)})
                res["functions"][fn_] = res["functions"].get(fn_, 0) + len(reqs)
                res["groups"][gname + ":" + bulk] = {"cases": len(reqs), "distinct": len(reqs),
                                                     "mismatches": nbad, "exhaustive": True}
                res["cases"] += len(reqs)
                res["distinct"] += len(reqs)
                if nbad:
                    res["ok"] = False
                log("bulk %s: %d cases, %d mismatches" % (bulk, len(reqs), nbad))
            except Exception as exc:  # noqa: BLE001
                log(traceback.format_exc())
                res["ok"] = False
                res["mismatches"].append({"group": gname, "function": bulk, "request": "",
                                          "implementation": "raised %r" % (exc,), "model": "",
                                          "input": {}})
        pre = [z.line() for z in zones.all_used()]
        out = common.run_model([c.request for c in cases], pre)
        stats = {}
        bad = 0
        seen = set()
        for c, o in zip(cases, out):
            seen.add(c.request)
            res["functions"][c.fn] = res["functions"].get(c.fn, 0) + 1
            for t in c.tags:
                key = c.fn + ":" + t
                res["tags"][key] = res["tags"].get(key, 0) + 1
            if c.expected.startswith("E"):
                k = c.expected.split()[0][1:]
                res["error_kinds"][k] = res["error_kinds"].get(k, 0) + 1
            if not common.tokens_agree(norm(c.expected), norm(o), stats):
                bad += 1
                rec = {"group": gname, "function": c.fn, "request": c.request[:400],
                       "implementation": c.expected[:400], "model": o[:400], "input": c.descr}
                if len(res["mismatches"]) < 20:
                    res["mismatches"].append(rec)
                elif (c.expected[:1] in "EX" or o[:1] in "EX") and len(res["special"]) < 10:
                    # an exception / wrongly typed value on one side only: the most telling kind,
                    # kept even when ordinary numeric mismatches have filled the list
                    res["special"].append(rec)
        res["groups"][gname] = {"cases": len(cases), "distinct": len(seen), "mismatches": bad,
                                "wall_s": round(time.time() - t0, 2)}
        res["cases"] += len(cases)
        res["distinct"] += len(seen)
        res["max_ulp"] = max(res["max_ulp"], stats.get("max_ulp", 0))
        for c, o in list(zip(cases, out))[:2]:
            res["samples"].append({"request": c.request[:300], "implementation": c.expected[:200],
                                   "model": o[:200], "input": c.descr})
        if bad:
            res["ok"] = False
        log("corr %s: %d cases, %d mismatches" % (gname, len(cases), bad))
    return res


def hash_str(s):
    h = 0
    for ch in s:
        h = (h * 131 + ord(ch)) & 0x7FFFFFFF
    return h


def stage_k(prop, log):
    """known / fixed findings for this property"""
    import known
    lines = []
    violations = []
    replayed = []
    path = os.path.join(VERIF, "known_findings.txt")
    if not os.path.exists(path):
        return lines, violations, replayed
    for raw in open(path, encoding="utf-8"):
        raw = raw.strip()
        if not raw or raw.startswith("#"):
            continue
        kind = raw.split(":", 1)[0]
        fields = dict(re.findall(r"(\w+)=(\S+)", raw.split("::")[0]))
        if fields.get("property") != prop:
            continue
        what = raw.split("::", 1)[1].strip() if "::" in raw else ""
        wname = fields.get("witness")
        fn = getattr(known, wname, None) if wname else None
        if fn is None:
            continue
        try:
            still_fails, detail = fn()
        except Exception as exc:  # noqa: BLE001
            still_fails, detail = True, "witness raised %r" % (exc,)
        replayed.append({"kind": kind, "id": fields.get("id"), "witness": wname,
                         "still_fails": still_fails, "detail": detail})
        if kind == "known":
            if still_fails:
                lines.append("KNOWN-FINDING: property=%s %s" % (prop, what))
            else:
                log("known finding %s no longer reproduces (%s)" % (fields.get("id"), detail))
        elif kind == "fixed":
            if still_fails:
                violations.append({"kind": "regression-of-fixed-finding", "id": fields.get("id"),
                                   "what": what, "detail": detail, "witness": wname})
    return lines, violations, replayed


def main():
    ap = argparse.ArgumentParser()
    ap.add_argument("prop")
    ap.add_argument("--tier", default=os.environ.get("VERIF_TIER", "quick"))
    ap.add_argument("--replay")
    args = ap.parse_args()
    prop = args.prop
    tier = args.tier if args.tier in ("quick", "thorough") else "quick"
    seed = common.seed_from_env()
    cfg = registry.PROPS.get(prop)
    if cfg is None:
        print("unknown property", prop)
        return 2
    if args.replay:
        import search
        return search.replay(prop, args.replay)

    # the process time zone must not matter to any answer: run under a non-UTC TZ chosen by the seed
    tz_env = PROCESS_ZONES[seed % len(PROCESS_ZONES)]
    os.environ["TZ"] = tz_env
    time.tzset()
    t0 = time.time()
    logbuf = []

    def log(s):
        logbuf.append(s)

    os.makedirs(os.path.join(VERIF, "evidence"), exist_ok=True)
    os.makedirs(os.path.join(VERIF, "replays"), exist_ok=True)
    violations = []
    try:
        a = stage_a(prop, cfg, tier, log)
        b = stage_b(prop, cfg, tier, seed, log) if a["ok"] or os.path.exists(common.MODEL_EXE) else \
            {"ok": False, "groups": {}, "cases": 0, "distinct": 0, "max_ulp": 0, "mismatches": [],
             "special": [], "samples": [], "error_kinds": {}, "tags": {}, "functions": {}}
        klines, kviol, kreplayed = stage_k(prop, log)
    except subprocess.TimeoutExpired as exc:
        print("TIMEOUT", exc)
        return 2
    except Exception:  # noqa: BLE001
        traceback.print_exc()
        print("\n".join(logbuf)[-4000:])
        return 2

    for l in klines:
        print(l)

    search_info = None
    replay_path = None
    if not a["ok"] or not b["ok"] or kviol:
        import search
        replay_path = os.path.join("replays", "%s-%d.json" % (prop, seed))
        budget = 600 if tier == "thorough" else 120
        ms = sorted(b["mismatches"], key=lambda m_: 0 if (m_["implementation"][:1] in "EX"
                                                            or m_["model"][:1] in "EX") else 1)
        broken = {"proof_failures": a["failures"],
                  "correspondence_mismatches": (b.get("special", []) + ms)[:30],
                  "fixed_finding_regressions": kviol, "tier": tier,
                  "groups": cfg.get("groups", [])}
        def _hang2(signum, frame):
            raise TimeoutError("failing-input search exceeded its budget")
        signal.signal(signal.SIGALRM, _hang2)
        signal.alarm(budget * 2 + 60)
        try:
            found = search.run(prop, seed, budget, broken)
        except Exception:  # noqa: BLE001
            log(traceback.format_exc())
            found = None
        signal.alarm(0)
        if found is None and kviol:
            found = {"kind": "regression-of-fixed-finding", **kviol[0]}
        search_info = {"ran": True, "found": found is not None}
        doc = {"property": prop, "seed": seed, "tier": tier, "broken": broken}
        if found is not None:
            doc["failing_input"] = found
        else:
            doc["failing_input"] = None
            doc["note"] = ("no failing input of the property was found within the budget; the "
                           "named theorem(s)/correspondence no longer check, so the property is "
                           "no longer shown to hold")
        with open(os.path.join(VERIF, replay_path), "w") as f:
            json.dump(doc, f, indent=1, default=str)
        violations.append((replay_path, found is not None))

    wall = time.time() - t0
    ev = {
        "property_id": prop, "tier": tier, "seed": seed, "level": "proof",
        "coverage": {
            "obligations": a["obligations"], "discharged": a["discharged"],
            "checker_cmd": "cd lean && lake build %s && lake env lean .lake/audit/%s.lean  "
                           "(#print axioms of every listed theorem)" %
                           (" ".join(cfg.get("lean_modules", [])), prop),
            "trusted_base": registry.TRUSTED_BASE + cfg.get("trusted_extra", []),
            "theorems": a["theorems"],
            "proof_failures": a["failures"],
            "generated_tables": a.get("generated", {}),
            "leanchecker": a.get("leanchecker", "not run (thorough tier only)"),
            "correspondence": {
                "explanation": "model (Lean, α := Float) vs implementation on generated inputs; "
                               "sampling, not proof — it ties the model to /repo's current source",
                "groups": b["groups"], "cases": b["cases"], "distinct_inputs": b["distinct"],
                "mismatches": len(b["mismatches"]), "max_ulp_distance": b["max_ulp"],
                "functions": b["functions"], "error_kinds": b["error_kinds"],
                "branch_tags": b["tags"],
            },
            "evaluations": b["cases"], "distinct_nontrivial": b["distinct"],
            "rule": "one correspondence case = one call of the real function with generated "
                    "arguments; distinct = distinct request lines",
            "samples": b["samples"][:4] or [{"theorem": t} for t in cfg.get("theorems", [])[:3]],
            "known_findings_replayed": kreplayed,
            "search": search_info,
            "unproved_clauses": cfg.get("unproved", []),
        },
        "assumptions": cfg.get("assumes", []) + registry.COMMON_ASSUMPTIONS
        + ["process TZ, one per correspondence group: " + ", ".join(b.get("process_zones", [tz_env]))]
        + ["calls of the public functions were spelled %(positional)d arguments positionally, %(keyword)d by "
           "documented keyword, %(default_omitted)d left at their documented default" % common._CONV["stats"]],
        "wall_s": round(wall, 2),
        "violations": len(violations),
    }
    with open(os.path.join(VERIF, "evidence", prop + ".json"), "w") as f:
        json.dump(ev, f, indent=1, default=str)

    print("%s tier=%s seed=%d: theorems %d/%d, correspondence %d cases / %d mismatches, %.1fs" % (
        prop, tier, seed, a["discharged"], a["obligations"], b["cases"], len(b["mismatches"]), wall))
    if violations:
        for f_ in a["failures"][:5]:
            print("  proof stage:", f_[:300])
        for m in b["mismatches"][:3]:
            print("  mismatch:", json.dumps(m, default=str)[:400])
        for path, found in violations:
            print("VIOLATION property=%s replay=%s%s" % (prop, path,
                                                          "" if found else " no-failing-input-found"))
        return 1
    return 0


if __name__ == "__main__":
    sys.exit(main())
