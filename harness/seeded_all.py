#!/venv/bin/python
"""Run every seeded defect under seeded/ against the check of its property and write
seeded/RESULTS.json (+ a markdown table).  Uses $VERIF_REPO (default /repo): the patch is
applied there, the check runs, and the tree is restored straight afterwards."""
import json
import os
import re
import subprocess
import sys
import time

VERIF = os.path.dirname(os.path.dirname(os.path.abspath(__file__)))
REPO = os.environ.get("VERIF_REPO", "/repo")


def sh(cmd, cwd=None, timeout=3600):
    p = subprocess.run(cmd, cwd=cwd, stdout=subprocess.PIPE, stderr=subprocess.STDOUT, timeout=timeout)
    return p.returncode, p.stdout.decode(errors="replace")


def main():
    only = [a for a in sys.argv[1:] if not a.startswith("--")]
    harmless_only = "--harmless-only" in sys.argv
    ids = sorted(d for d in os.listdir(os.path.join(VERIF, "seeded"))
                 if os.path.isfile(os.path.join(VERIF, "seeded", d, "meta.json")))
    if only:
        ids = [i for i in ids if i in only or i.split("-")[0] in only]
    results = {}
    path = os.path.join(VERIF, "seeded", "RESULTS.json")
    if os.path.exists(path) and only:
        results = json.load(open(path))
    rc, out = sh(["git", "-C", REPO, "status", "--porcelain"])
    if out.strip():
        print("repository not clean:", out)
        return 2
    if harmless_only:
        ids = []
        results = json.load(open(path)) if os.path.exists(path) else {}
    for sid in ids:
        meta = json.load(open(os.path.join(VERIF, "seeded", sid, "meta.json")))
        prop = meta["property"]
        patch = os.path.join(VERIF, "seeded", sid, "patch.diff")
        rc, out = sh(["git", "-C", REPO, "apply", patch])
        if rc:
            results[sid] = {"property": prop, "error": "patch does not apply"}
            continue
        t0 = time.time()
        try:
            rc, out = sh([os.path.join(VERIF, "check"), prop], cwd=VERIF)
        finally:
            sh(["git", "-C", REPO, "checkout", "--", "."])
        line = [l for l in out.split("\n") if l.startswith("VIOLATION")]
        summ = [l for l in out.split("\n") if l.startswith(prop + " tier=")]
        m = re.search(r"theorems (\d+)/(\d+), correspondence (\d+) cases / (\d+) mismatches", out)
        rep = None
        if line:
            mm = re.search(r"replay=(\S+)", line[0])
            if mm and os.path.exists(os.path.join(VERIF, mm.group(1))):
                doc = json.load(open(os.path.join(VERIF, mm.group(1))))
                fi = doc.get("failing_input")
                rep = (fi.get("clause") if isinstance(fi, dict) else str(fi)) if fi else None
        results[sid] = {
            "property": prop, "exit": rc, "detected": rc == 1, "expected": meta.get("expected", "violation"),
            "proof_stage_broken": bool(m and m.group(1) != m.group(2)),
            "correspondence_mismatches": int(m.group(4)) if m else None,
            "failing_input_found": bool(line) and "no-failing-input-found" not in line[0],
            "failing_input_clause": (str(rep)[:300] if rep else None),
            "summary": meta.get("summary", "")[:300], "wall_s": round(time.time() - t0, 1),
        }
        print(sid, results[sid]["detected"], results[sid]["failing_input_found"], summ[:1])
        json.dump(results, open(path, "w"), indent=1)
    lines = ["| seeded defect | property | detected | by | concrete failing input | what the replay says |",
             "|---|---|---|---|---|---|"]
    for sid in sorted(results):
        r = results[sid]
        if r.get("proof_stage_broken") and r.get("correspondence_mismatches"):
            by = "proof obligation + correspondence"
        elif r.get("proof_stage_broken"):
            by = "proof obligation"
        else:
            by = "correspondence"
        det = "yes" if r.get("detected") else "NO"
        if r.get("expected") == "not-a-violation-on-this-platform":
            det = "quiet (holds on this platform)" if not r.get("detected") else "ALARM on a change under which the property holds here"
        lines.append("| %s | %s | %s | %s | %s | %s |" % (
            sid, r["property"], det, by,
            "yes" if r.get("failing_input_found") else "no",
            (r.get("failing_input_clause") or "").replace("|", "/")[:140]))
    # behaviour-preserving rewrites: every check must stay quiet
    hdir = os.path.join(VERIF, "seeded", "harmless")
    harmless = {}
    if not only and os.path.isdir(hdir):
        man = json.load(open(os.path.join(VERIF, "MANIFEST.json")))
        pids = sorted(c["property_id"] for c in man["checks"])
        for f in sorted(os.listdir(hdir)):
            if not f.endswith(".diff"):
                continue
            rc, out = sh(["git", "-C", REPO, "apply", os.path.join(hdir, f)])
            if rc:
                harmless[f] = {"error": "patch does not apply"}
                continue
            alarms = []
            try:
                for pid in pids:
                    rc, out = sh([os.path.join(VERIF, "check"), pid], cwd=VERIF)
                    if rc != 0:
                        alarms.append(pid)
            finally:
                sh(["git", "-C", REPO, "checkout", "--", "."])
            harmless[f] = {"checks_run": len(pids), "alarms": alarms}
            print("harmless", f, harmless[f])
        lines += ["", "| behaviour-preserving rewrite | checks run | alarms |", "|---|---|---|"]
        for f, r in harmless.items():
            lines.append("| %s | %s | %s |" % (f, r.get("checks_run"), ", ".join(r.get("alarms", [])) or "none"))
        json.dump(harmless, open(os.path.join(VERIF, "seeded", "HARMLESS.json"), "w"), indent=1)
    open(os.path.join(VERIF, "seeded", "RESULTS.md"), "w").write("\n".join(lines) + "\n")
    return 0


if __name__ == "__main__":
    sys.exit(main())
