"""Write MANIFEST.json from the registry (so that the two never drift apart)."""
import json
import os
import sys

HERE = os.path.dirname(os.path.abspath(__file__))
sys.path.insert(0, HERE)
import registry  # noqa: E402

ALL = ["C%02d" % i for i in range(1, 21)]
checks = []
for pid in ALL:
    cfg = registry.PROPS.get(pid)
    if not cfg or not cfg.get("claimed", True):
        continue
    checks.append({
        "property_id": pid,
        "quick_cmd": "./check %s --tier quick" % pid,
        "thorough_cmd": "./check %s --tier thorough" % pid,
        "evidence_file": "evidence/%s.json" % pid,
        "replay_cmd_template": "./check %s --replay {path}" % pid,
        "engine": "lean4-proof+correspondence",
        "level_claimed": {
            "category": "proof",
            "text": cfg["level_text"],
            "design_ref": "DESIGN.md §7 " + pid,
        },
        "level_note": cfg["level_note"],
        "technique": cfg.get("technique", "Lean 4 theorems about a hand-written model (kernel-checked, "
                                          "axioms audited) + behavioural correspondence model vs code"),
    })
na = []
for pid in ALL:
    cfg = registry.PROPS.get(pid)
    if cfg and cfg.get("claimed", True):
        continue
    na.append({"property_id": pid,
               "reason": (cfg or {}).get("na_reason", registry.NOT_YET.get(pid, "not yet built"))})
manifest = {
    "version": 1,
    "setup_cmd": "./setup.sh",
    "hooks": {
        "guard": "ASTRAL_VERIF",
        "enable": "none needed: the harness patches names in-process (recorders, frozen clock); "
                  "no source hooks were added to /repo",
        "baseline_off_cmd": "cd /repo && /venv/bin/python -m pytest -ra -q -p no:cacheprovider "
                            "--timeout=900 --continue-on-collection-errors",
        "source_commits": [],
        "add_only": True,
    },
    "engines": [{
        "name": "lean4-proof+correspondence",
        "path": "lean/ (model, theorems), harness/ (correspondence, search), check",
        "serves_properties": [c["property_id"] for c in checks],
        "kind_free_text": "machine-checked proof in Lean 4 about a model tied to the code by a "
                          "differential correspondence check",
    }],
    "checks": checks,
    "not_applicable": na,
    "notes": "See DESIGN.md. Every check: (A) lake build + #print axioms audit of the property's "
             "theorems, (B) model-vs-implementation correspondence on generated inputs, (K) pinned "
             "witnesses of known/fixed findings, (C) failing-input search only when A or B broke.",
}
json.dump(manifest, open(os.path.join(os.path.dirname(HERE), "MANIFEST.json"), "w"), indent=1)
print("claimed:", [c["property_id"] for c in checks])
print("not_applicable:", [n["property_id"] for n in na])
