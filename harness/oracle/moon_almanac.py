"""Independent low-precision lunar ephemeris (Astronomical Almanac formulae, DESIGN App. B.2).
Accuracy ≈ 0.3° in longitude, 0.2° in latitude: a sanity bound for the search only."""
import datetime
import math

from . import sun_almanac as S


def moon_ecliptic(dt):
    T = S._n(dt) / 36525.0
    sin = lambda d: math.sin(math.radians(d))  # noqa: E731
    cos = lambda d: math.cos(math.radians(d))  # noqa: E731
    lam = (218.32 + 481267.881 * T + 6.29 * sin(135.0 + 477198.87 * T) - 1.27 * sin(259.3 - 413335.36 * T)
           + 0.66 * sin(235.7 + 890534.22 * T) + 0.21 * sin(269.9 + 954397.74 * T)
           - 0.19 * sin(357.5 + 35999.05 * T) - 0.11 * sin(186.5 + 966404.03 * T))
    beta = (5.13 * sin(93.3 + 483202.02 * T) + 0.28 * sin(228.2 + 960400.89 * T)
            - 0.28 * sin(318.3 + 6003.15 * T) - 0.17 * sin(217.6 - 407332.21 * T))
    par = (0.9508 + 0.0518 * cos(135.0 + 477198.87 * T) + 0.0095 * cos(259.3 - 413335.36 * T)
           + 0.0078 * cos(235.7 + 890534.22 * T) + 0.0028 * cos(269.9 + 954397.74 * T))
    return lam % 360.0, beta, par


def sun_longitude(dt):
    n = S._n(dt)
    L = (280.460 + 0.9856474 * n) % 360.0
    g = math.radians((357.528 + 0.9856003 * n) % 360.0)
    return (L + 1.915 * math.sin(g) + 0.020 * math.sin(2 * g)) % 360.0


def elongation(dt):
    lam, _, _ = moon_ecliptic(dt)
    return (lam - sun_longitude(dt)) % 360.0


def alt_az(lat, lon, dt):
    """geocentric altitude/azimuth of the moon's centre (no parallax)"""
    lam, beta, _ = moon_ecliptic(dt)
    eps = math.radians(23.439 - 0.0000004 * S._n(dt))
    l, b = math.radians(lam), math.radians(beta)
    x = math.cos(b) * math.cos(l)
    y = math.cos(eps) * math.cos(b) * math.sin(l) - math.sin(eps) * math.sin(b)
    zz = math.sin(eps) * math.cos(b) * math.sin(l) + math.cos(eps) * math.sin(b)
    ra = math.degrees(math.atan2(y, x)) % 360.0
    dec = math.degrees(math.asin(max(-1.0, min(1.0, zz))))
    H = math.radians((S.gmst_deg(dt) + lon - ra + 180.0) % 360.0 - 180.0)
    p, d = math.radians(lat), math.radians(dec)
    s = math.sin(p) * math.sin(d) + math.cos(p) * math.cos(d) * math.cos(H)
    alt = math.degrees(math.asin(max(-1.0, min(1.0, s))))
    yy = -math.cos(d) * math.sin(H)
    xx = math.sin(d) * math.cos(p) - math.cos(d) * math.sin(p) * math.cos(H)
    return alt, math.degrees(math.atan2(yy, xx)) % 360.0
