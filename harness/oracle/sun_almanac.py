"""Independent low-precision solar ephemeris (Astronomical Almanac formulae, DESIGN App. B.1).

Deliberately NOT the NOAA chain the library uses: different constants, GMST-based hour
angle, atan2 spherical triangle.  Used only in the failing-input search (stage C) and to
measure its own headroom; never as a proof.
"""
import datetime
import math

UTC = datetime.timezone.utc
J2000 = datetime.datetime(2000, 1, 1, 12, 0, 0, tzinfo=UTC)
R_EARTH = 6356900.0


def _n(dt):
    """days since J2000.0 of an aware datetime"""
    return (dt - J2000).total_seconds() / 86400.0


def sun_coords(dt):
    """(right ascension deg, declination deg, equation of time minutes)"""
    n = _n(dt)
    L = (280.460 + 0.9856474 * n) % 360.0
    g = math.radians((357.528 + 0.9856003 * n) % 360.0)
    lam = math.radians(L + 1.915 * math.sin(g) + 0.020 * math.sin(2 * g))
    eps = math.radians(23.439 - 0.0000004 * n)
    ra = math.degrees(math.atan2(math.cos(eps) * math.sin(lam), math.cos(lam))) % 360.0
    dec = math.degrees(math.asin(math.sin(eps) * math.sin(lam)))
    e = (L - ra + 180.0) % 360.0 - 180.0
    return ra, dec, e * 4.0


def gmst_deg(dt):
    n = _n(dt)
    return (280.46061837 + 360.98564736629 * n) % 360.0


def hour_angle(dt, lon):
    """local hour angle of the sun in degrees, in (-180, 180]"""
    ra, _, _ = sun_coords(dt)
    h = (gmst_deg(dt) + lon - ra + 180.0) % 360.0 - 180.0
    return h


def alt_az(lat, lon, dt):
    """true (unrefracted) altitude and azimuth (clockwise from north) of the sun's centre"""
    _, dec, _ = sun_coords(dt)
    H = math.radians(hour_angle(dt, lon))
    p = math.radians(lat)
    d = math.radians(dec)
    s = math.sin(p) * math.sin(d) + math.cos(p) * math.cos(d) * math.cos(H)
    s = max(-1.0, min(1.0, s))
    alt = math.degrees(math.asin(s))
    y = -math.cos(d) * math.sin(H)
    x = math.sin(d) * math.cos(p) - math.cos(d) * math.sin(p) * math.cos(H)
    az = math.degrees(math.atan2(y, x)) % 360.0
    return alt, az


def dip(elevation):
    """horizon dip in degrees for an observer `elevation` metres up (published formula)"""
    if elevation <= 0:
        return 0.0
    return math.degrees(math.acos(R_EARTH / (R_EARTH + elevation)))


def refraction(zenith):
    """the published piecewise refraction model (pinned copy), degrees"""
    e = 90.0 - zenith
    if e >= 85.0:
        return 0.0
    te = math.tan(math.radians(e))
    if e > 5.0:
        r = 58.1 / te - 0.07 / te ** 3 + 0.000086 / te ** 5
    elif e > -0.575:
        r = 1735.0 + e * (-518.2 + e * (103.4 + e * (-12.79 + e * 0.711)))
    else:
        r = -20.774 / te
    return r / 3600.0


def altitude_extremes(lat, lon, local_start, step_s=120):
    """(min, max) true altitude over 24 h from `local_start` (aware)"""
    lo, hi = 90.0, -90.0
    t = local_start
    for _ in range(int(86400 / step_s) + 1):
        a, _ = alt_az(lat, lon, t)
        lo, hi = min(lo, a), max(hi, a)
        t += datetime.timedelta(seconds=step_s)
    return lo, hi


def crossings(lat, lon, target_alt, start, end, rising, step_s=120):
    """instants in [start, end) where the true altitude crosses `target_alt` in the given
    direction, refined by bisection to ~1 s"""
    out = []
    t = start
    a0 = alt_az(lat, lon, t)[0] - target_alt
    step = datetime.timedelta(seconds=step_s)
    while t < end:
        t1 = min(t + step, end)
        a1 = alt_az(lat, lon, t1)[0] - target_alt
        if (a0 < 0 <= a1) if rising else (a0 > 0 >= a1):
            lo, hi = t, t1
            for _ in range(12):
                mid = lo + (hi - lo) / 2
                am = alt_az(lat, lon, mid)[0] - target_alt
                if (am < 0) == rising:
                    lo = mid
                else:
                    hi = mid
            out.append(lo + (hi - lo) / 2)
        t, a0 = t1, a1
    return out
