"""Independent lunar ephemeris for the failing-input search (never for a verdict on its own):
Meeus, "Astronomical Algorithms" ch. 47 — the ELP-2000/82 series truncated to its 60 + 60 largest
periodic terms in longitude and latitude — with the mean obliquity and GMST of ch. 12/22.
Geocentric, mean equinox of date (astral's own moon angles are geocentric too).  A different
lunar theory from the one astral.moon transcribes; the two agree to about 0.02°.
The coefficient tables are the published ones."""
import datetime
from math import asin, atan2, cos, degrees, radians, sin

_LR = [  # D, M, M', F, coefficient of sin (1e-6 deg) for longitude
 (0,0,1,0,6288774),(2,0,-1,0,1274027),(2,0,0,0,658314),(0,0,2,0,213618),(0,1,0,0,-185116),
 (0,0,0,2,-114332),(2,0,-2,0,58793),(2,-1,-1,0,57066),(2,0,1,0,53322),(2,-1,0,0,45758),
 (0,1,-1,0,-40923),(1,0,0,0,-34720),(0,1,1,0,-30383),(2,0,0,-2,15327),(0,0,1,2,-12528),
 (0,0,1,-2,10980),(4,0,-1,0,10675),(0,0,3,0,10034),(4,0,-2,0,8548),(2,1,-1,0,-7888),
 (2,1,0,0,-6766),(1,0,-1,0,-5163),(1,1,0,0,4987),(2,-1,1,0,4036),(2,0,2,0,3994),
 (4,0,0,0,3861),(2,0,-3,0,3665),(0,1,-2,0,-2689),(2,0,-1,2,-2602),(2,-1,-2,0,2390),
 (1,0,1,0,-2348),(2,-2,0,0,2236),(0,1,2,0,-2120),(0,2,0,0,-2069),(2,-2,-1,0,2048),
 (2,0,1,-2,-1773),(2,0,0,2,-1595),(4,-1,-1,0,1215),(0,0,2,2,-1110),(3,0,-1,0,-892),
 (2,1,1,0,-810),(4,-1,-2,0,759),(0,2,-1,0,-713),(2,2,-1,0,-700),(2,1,-2,0,691),
 (2,-1,0,-2,596),(4,0,1,0,549),(0,0,4,0,537),(4,-1,0,0,520),(1,0,-2,0,-487),
 (2,1,0,-2,-399),(0,0,2,-2,-381),(1,1,1,0,351),(3,0,-2,0,-340),(4,0,-3,0,330),
 (2,-1,2,0,327),(0,2,1,0,-323),(1,1,-1,0,299),(2,0,3,0,294),
]
_B = [  # D, M, M', F, coefficient of sin (1e-6 deg) for latitude
 (0,0,0,1,5128122),(0,0,1,1,280602),(0,0,1,-1,277693),(2,0,0,-1,173237),(2,0,-1,1,55413),
 (2,0,-1,-1,46271),(2,0,0,1,32573),(0,0,2,1,17198),(2,0,1,-1,9266),(0,0,2,-1,8822),
 (2,-1,0,-1,8216),(2,0,-2,-1,4324),(2,0,1,1,4200),(2,1,0,-1,-3359),(2,-1,-1,1,2463),
 (2,-1,0,1,2211),(2,-1,-1,-1,2065),(0,1,-1,-1,-1870),(4,0,-1,-1,1828),(0,1,0,1,-1794),
 (0,0,0,3,-1749),(0,1,-1,1,-1565),(1,0,0,1,-1491),(0,1,1,1,-1475),(0,1,1,-1,-1410),
 (0,1,0,-1,-1344),(1,0,0,-1,-1335),(0,0,3,1,1107),(4,0,0,-1,1021),(4,0,-1,1,833),
 (0,0,1,-3,777),(4,0,-2,1,671),(2,0,0,-3,607),(2,0,2,-1,596),(2,-1,1,-1,491),
 (2,0,-2,1,-451),(0,0,3,-1,439),(2,0,2,1,422),(2,0,-3,-1,421),(2,1,-1,1,-366),
 (2,1,0,1,-351),(4,0,0,1,331),(2,-1,1,1,315),(2,-2,0,-1,302),(0,0,1,3,-283),
 (2,1,1,-1,-229),(1,1,0,-1,223),(1,1,0,1,223),(0,1,-2,-1,-220),(2,1,-1,-1,-220),
 (1,0,1,1,-185),(2,-1,-2,-1,181),(0,1,2,1,-177),(4,0,-2,-1,176),(4,-1,-1,-1,166),
 (1,0,1,-1,-164),(4,0,1,-1,132),(1,0,-1,-1,-119),(4,-1,0,-1,115),(2,-2,0,1,107),
]


def _jd(dt):
    """Julian Day of a UTC datetime (naive = UTC), Fliegel & Van Flandern integer algorithm"""
    if dt.tzinfo is not None:
        dt = dt.astimezone(datetime.timezone.utc).replace(tzinfo=None)
    a = (14 - dt.month) // 12
    yy = dt.year + 4800 - a
    mm = dt.month + 12 * a - 3
    jdn = dt.day + (153 * mm + 2) // 5 + 365 * yy + yy // 4 - yy // 100 + yy // 400 - 32045
    return jdn - 0.5 + (dt.hour * 3600 + dt.minute * 60 + dt.second + dt.microsecond / 1e6) / 86400.0


def ecliptic(dt):
    """geocentric ecliptic longitude and latitude of the moon in degrees"""
    T = (_jd(dt) - 2451545.0) / 36525.0
    Lp = 218.3164477 + 481267.88123421 * T - 0.0015786 * T * T + T ** 3 / 538841 - T ** 4 / 65194000
    D = 297.8501921 + 445267.1114034 * T - 0.0018819 * T * T + T ** 3 / 545868 - T ** 4 / 113065000
    M = 357.5291092 + 35999.0502909 * T - 0.0001536 * T * T + T ** 3 / 24490000
    Mp = 134.9633964 + 477198.8675055 * T + 0.0087414 * T * T + T ** 3 / 69699 - T ** 4 / 14712000
    F = 93.2720950 + 483202.0175233 * T - 0.0036539 * T * T - T ** 3 / 3526000 + T ** 4 / 863310000
    A1 = 119.75 + 131.849 * T
    A2 = 53.09 + 479264.290 * T
    A3 = 313.45 + 481266.484 * T
    E = 1 - 0.002516 * T - 0.0000074 * T * T
    sl = 0.0
    for d_, m_, mp_, f_, c in _LR:
        sl += c * (E ** abs(m_)) * sin(radians(d_ * D + m_ * M + mp_ * Mp + f_ * F))
    sb = 0.0
    for d_, m_, mp_, f_, c in _B:
        sb += c * (E ** abs(m_)) * sin(radians(d_ * D + m_ * M + mp_ * Mp + f_ * F))
    sl += 3958 * sin(radians(A1)) + 1962 * sin(radians(Lp - F)) + 318 * sin(radians(A2))
    sb += (-2235 * sin(radians(Lp)) + 382 * sin(radians(A3)) + 175 * sin(radians(A1 - F))
           + 175 * sin(radians(A1 + F)) + 127 * sin(radians(Lp - Mp)) - 115 * sin(radians(Lp + Mp)))
    return (Lp + sl / 1e6) % 360.0, sb / 1e6, T


def ra_dec(dt):
    """geocentric right ascension and declination in radians"""
    lam, bet, T = ecliptic(dt)
    lam, bet = radians(lam), radians(bet)
    eps = radians(23.4392911 - 0.0130042 * T - 1.64e-7 * T * T)
    ra = atan2(sin(lam) * cos(eps) - (sin(bet) / cos(bet)) * sin(eps), cos(lam))
    dec = asin(sin(bet) * cos(eps) + cos(bet) * sin(eps) * sin(lam))
    return ra, dec


def gmst_deg(dt):
    jd = _jd(dt)
    T = (jd - 2451545.0) / 36525.0
    return (280.46061837 + 360.98564736629 * (jd - 2451545.0) + 0.000387933 * T * T
            - T ** 3 / 38710000.0) % 360.0


def alt_az(lat, lon, dt):
    """geocentric altitude and azimuth (from north, clockwise) of the moon's centre, degrees"""
    ra, dec = ra_dec(dt)
    H = radians(gmst_deg(dt) + lon) - ra
    phi = radians(lat)
    s = sin(phi) * sin(dec) + cos(phi) * cos(dec) * cos(H)
    el = asin(max(-1.0, min(1.0, s)))
    az = atan2(sin(H), cos(H) * sin(phi) - (sin(dec) / cos(dec)) * cos(phi))
    return degrees(el), (degrees(az) + 180.0) % 360.0
