"""Run a fixed set of public sun/moon calls in a given order (optionally from 16 threads) and
print their results keyed by call id.  Used by the C20 failing-input search: the outputs of
different orders / thread interleavings / TZ environments must be identical."""
import datetime
import json
import random
import sys
import threading
import zoneinfo


def call_set():
    from astral import Observer, SunDirection
    import astral.sun as sun
    import astral.moon as moon
    utc = datetime.timezone.utc
    ldn, ny, tok = (zoneinfo.ZoneInfo("Europe/London"), zoneinfo.ZoneInfo("America/New_York"),
                    zoneinfo.ZoneInfo("Asia/Tokyo"))
    obs = [Observer(51.5, -0.12), Observer(-13.83, -171.75), Observer(35.68, 139.69, 100.0),
           Observer(64.1, -21.9), Observer(0.0, 179.9)]
    days = [datetime.date(2024, 6, 21), datetime.date(2024, 10, 27), datetime.date(2021, 11, 3)]
    calls = []
    for oi, o in enumerate(obs):
        for di, d in enumerate(days):
            for zi, z in enumerate((utc, ldn, ny, tok)):
                for name, f in (("noon", lambda o=o, d=d, z=z: sun.noon(o, d, z)),
                                ("midnight", lambda o=o, d=d, z=z: sun.midnight(o, d, z)),
                                ("sunrise", lambda o=o, d=d, z=z: sun.sunrise(o, d, z)),
                                ("dusk", lambda o=o, d=d, z=z: sun.dusk(o, d, 6, z)),
                                ("sun", lambda o=o, d=d, z=z: sorted(sun.sun(o, d, tzinfo=z).items())),
                                ("moonrise", lambda o=o, d=d, z=z: moon.moonrise(o, d, z)),
                                ("moonset", lambda o=o, d=d, z=z: moon.moonset(o, d, z)),
                                ("tae", lambda o=o, d=d, z=z: sun.time_at_elevation(o, 10.0, d, SunDirection.SETTING, z))):
                    calls.append(("%s/%d/%d/%d" % (name, oi, di, zi), f))
    # one instant in several spellings, both folds of an ambiguous wall time
    base = datetime.datetime(2024, 10, 27, 0, 30, tzinfo=utc)
    for oi, o in enumerate(obs[:3]):
        for k, dt in enumerate([base.replace(tzinfo=None), base, base.astimezone(ldn),
                                base.astimezone(ldn).replace(fold=1), base.astimezone(tok),
                                (base + datetime.timedelta(hours=1)).astimezone(ldn),
                                datetime.datetime(2024, 11, 3, 1, 30, tzinfo=ny),
                                datetime.datetime(2024, 11, 3, 1, 30, tzinfo=ny, fold=1)]):
            for name, f in (("elevation", lambda o=o, dt=dt: sun.elevation(o, dt)),
                            ("azimuth", lambda o=o, dt=dt: sun.azimuth(o, dt)),
                            ("zenith", lambda o=o, dt=dt: sun.zenith(o, dt)),
                            ("moon_az", lambda o=o, dt=dt: moon.azimuth(o, dt)),
                            ("moon_el", lambda o=o, dt=dt: moon.elevation(o, dt))):
                calls.append(("%s/%d/%d" % (name, oi, k), f))
    for di, d in enumerate(days):
        calls.append(("phase/%d" % di, lambda d=d: moon.phase(d)))
    # near-duplicates: calls that differ from one another in exactly one argument — a memo whose
    # key leaves that argument out answers the second with the first one's result, and which one
    # is "first" depends on the order
    same_place = [Observer(51.5, -0.12, 0.0), Observer(51.5, -0.12, 3000.0), Observer(51.5, -0.12, 35000.0),
                  Observer(51.5, -0.12, (200.0, 500.0))]
    d = days[0]
    for oi, o in enumerate(same_place):
        for wr in (True, False):
            for el in (2.0, 10.0):
                for dn, dr in (("R", SunDirection.RISING), ("S", SunDirection.SETTING)):
                    calls.append(("tae2/%d/%s/%s/%s" % (oi, wr, el, dn),
                                  lambda o=o, wr=wr, el=el, dr=dr: sun.time_at_elevation(o, el, d, dr, utc, wr)))
        for dep in (6, 12, 18, 0, 3.5):
            calls.append(("dawn2/%d/%s" % (oi, dep), lambda o=o, dep=dep: sun.dawn(o, d, dep, utc)))
            calls.append(("dusk2/%d/%s" % (oi, dep), lambda o=o, dep=dep: sun.dusk(o, d, dep, tok)))
            calls.append(("sun2/%d/%s" % (oi, dep), lambda o=o, dep=dep: sorted(sun.sun(o, d, dep, ldn).items())))
        for name in ("sunrise", "sunset", "noon", "midnight", "daylight", "night"):
            calls.append(("%s2/%d" % (name, oi), lambda o=o, name=name: getattr(sun, name)(o, d, tzinfo=ny)))
        for dn, dr in (("R", SunDirection.RISING), ("S", SunDirection.SETTING)):
            for name in ("twilight", "golden_hour", "blue_hour"):
                calls.append(("%s2/%d/%s" % (name, oi, dn),
                              lambda o=o, name=name, dr=dr: getattr(sun, name)(o, d, dr, utc)))
        for daytime in (True, False):
            calls.append(("rahu2/%d/%s" % (oi, daytime), lambda o=o, daytime=daytime: sun.rahukaalam(o, d, daytime, tok)))
    return calls


def run(order, threads):
    calls = call_set()
    idx = list(range(len(calls)))
    if order == "reverse":
        idx.reverse()
    elif order.startswith("shuffle"):
        random.Random(int(order[7:] or 1)).shuffle(idx)
    out = {}

    def work(part):
        for i in part:
            key, f = calls[i]
            try:
                out[key] = repr(f())
            except Exception as exc:  # noqa: BLE001
                out[key] = "%s:%s" % (type(exc).__name__, exc)
    if threads > 1:
        parts = [idx[k::threads] for k in range(threads)]
        ts = [threading.Thread(target=work, args=(p,)) for p in parts]
        for t in ts:
            t.start()
        for t in ts:
            t.join()
    else:
        work(idx)
    return out


if __name__ == "__main__":
    order = sys.argv[1] if len(sys.argv) > 1 else "listed"
    threads = int(sys.argv[2]) if len(sys.argv) > 2 else 1
    json.dump(run(order, threads), sys.stdout)
