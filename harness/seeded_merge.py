#!/venv/bin/python
"""Merge the seeded/RESULTS.json files of several partial sweeps (one `seeded_all.py Cxx …` per
`vp run`) into /verif/seeded/RESULTS.json + RESULTS.md, and take HARMLESS.json from the
`--harmless-only` run.

usage: seeded_merge.py <run-verif-dir>:<Cxx,Cyy,…> … [harmless=<run-verif-dir>]"""
import json
import os
import sys

VERIF = os.path.dirname(os.path.dirname(os.path.abspath(__file__)))


def main():
    merged, harmless = {}, None
    for a in sys.argv[1:]:
        if a.startswith("harmless="):
            harmless = json.load(open(os.path.join(a.split("=", 1)[1], "seeded", "HARMLESS.json")))
            continue
        d, props = a.split(":")
        props = props.split(",")
        res = json.load(open(os.path.join(d, "seeded", "RESULTS.json")))
        for k, v in res.items():
            if v.get("property") in props and os.path.isfile(os.path.join(VERIF, "seeded", k, "meta.json")):
                merged[k] = v
    have = {d for d in os.listdir(os.path.join(VERIF, "seeded"))
            if os.path.isfile(os.path.join(VERIF, "seeded", d, "meta.json"))}
    missing = sorted(have - set(merged))
    json.dump(merged, open(os.path.join(VERIF, "seeded", "RESULTS.json"), "w"), indent=1)
    lines = ["| seeded defect | property | detected | by | concrete failing input | what the replay says |",
             "|---|---|---|---|---|---|"]
    for sid in sorted(merged):
        r = merged[sid]
        if r.get("proof_stage_broken") and r.get("correspondence_mismatches"):
            by = "proof obligation + correspondence"
        elif r.get("proof_stage_broken"):
            by = "proof obligation"
        else:
            by = "correspondence"
        det = "yes" if r.get("detected") else "NO"
        if r.get("expected") == "not-a-violation-on-this-platform":
            det = "quiet (holds on this platform)" if not r.get("detected") else \
                "ALARM on a change under which the property holds here"
        lines.append("| %s | %s | %s | %s | %s | %s |" % (
            sid, r["property"], det, by, "yes" if r.get("failing_input_found") else "no",
            (r.get("failing_input_clause") or "").replace("|", "/")[:140]))
    if harmless is not None:
        json.dump(harmless, open(os.path.join(VERIF, "seeded", "HARMLESS.json"), "w"), indent=1)
        lines += ["", "| behaviour-preserving rewrite | checks run | alarms |", "|---|---|---|"]
        for f, r in harmless.items():
            lines.append("| %s | %s | %s |" % (f, r.get("checks_run"), ", ".join(r.get("alarms", [])) or "none"))
    open(os.path.join(VERIF, "seeded", "RESULTS.md"), "w").write("\n".join(lines) + "\n")
    det = sum(1 for v in merged.values() if v.get("detected"))
    conc = sum(1 for v in merged.values() if v.get("failing_input_found"))
    print("merged %d results: %d detected, %d with a concrete failing input; not swept: %s" % (
        len(merged), det, conc, missing))
    print("undetected:", sorted(k for k, v in merged.items() if not v.get("detected")))
    return 0


if __name__ == "__main__":
    sys.exit(main())
