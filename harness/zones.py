"""Time zones as step-function tables for the model (DESIGN Appendix C.1)."""
import datetime
import zoneinfo

from common import I, wall_us, US_DAY

UTC = datetime.timezone.utc
SPAN_START = datetime.date(1899, 1, 1)
SPAN_END = datetime.date(2101, 12, 31)

IANA_NAMES = [
    "Pacific/Kiritimati", "Pacific/Apia", "Pacific/Chatham", "Pacific/Tongatapu",
    "Asia/Kolkata", "Asia/Kathmandu", "Australia/Lord_Howe", "America/St_Johns",
    "Europe/London", "Africa/Casablanca", "Asia/Tokyo", "America/New_York",
    "America/Los_Angeles", "Pacific/Honolulu", "America/Adak", "Pacific/Auckland",
    "Australia/Adelaide", "Asia/Dhaka", "America/Sao_Paulo", "Pacific/Pago_Pago",
    "Europe/Moscow", "Asia/Riyadh",
]


def _off_us(td):
    return (td.days * 86400 + td.seconds) * 1_000_000 + td.microseconds


class ZoneSpec:
    _next_id = [1]
    _cache = {}

    def __init__(self, tzinfo, label, utc_table, loc_table, iana=None):
        self.id = ZoneSpec._next_id[0]
        ZoneSpec._next_id[0] += 1
        self.tzinfo = tzinfo
        self.label = label
        self.utc_table = utc_table
        self.loc_table = loc_table
        self.iana = iana

    @property
    def tok(self):
        return I(self.id)

    def line(self):
        parts = ["zone", I(self.id), I(len(self.utc_table))]
        for t, o in self.utc_table:
            parts += [I(t), I(o)]
        parts.append(I(len(self.loc_table)))
        for t, o in self.loc_table:
            parts += [I(t), I(o)]
        return " ".join(parts)

    def describe(self):
        return self.label


def fixed(minutes):
    key = ("fixed", minutes)
    if key not in ZoneSpec._cache:
        tz = datetime.timezone(datetime.timedelta(minutes=minutes)) if minutes else UTC
        off = minutes * 60_000_000
        ZoneSpec._cache[key] = ZoneSpec(tz, "fixed%+d" % minutes, [(0, off)], [(0, off)])
    return ZoneSpec._cache[key]


def fixed_seconds(seconds):
    """a fixed offset with a seconds part (pre-standard-time local mean times are like this)"""
    key = ("fixed_s", seconds)
    if key not in ZoneSpec._cache:
        tz = datetime.timezone(datetime.timedelta(seconds=seconds))
        off = seconds * 1_000_000
        ZoneSpec._cache[key] = ZoneSpec(tz, "fixeds%+d" % seconds, [(0, off)], [(0, off)])
    return ZoneSpec._cache[key]


def _bisect(f, lo, hi, vlo):
    """lo, hi: datetimes (naive) with f(lo) == vlo != f(hi); returns first second where f != vlo"""
    one = datetime.timedelta(seconds=1)
    while hi - lo > one:
        mid = lo + (hi - lo) // 2
        mid = mid.replace(microsecond=0)
        if mid <= lo:
            mid = lo + one
        if f(mid) == vlo:
            lo = mid
        else:
            hi = mid
    return hi


def iana(name):
    key = ("iana", name)
    if key in ZoneSpec._cache:
        return ZoneSpec._cache[key]
    tz = zoneinfo.ZoneInfo(name)

    def f_utc(naive_utc):
        return _off_us(naive_utc.replace(tzinfo=UTC).astimezone(tz).utcoffset())

    def f_loc(naive):
        return _off_us(naive.replace(tzinfo=tz).utcoffset())

    tables = []
    for f in (f_utc, f_loc):
        day = datetime.datetime.combine(SPAN_START, datetime.time())
        end = datetime.datetime.combine(SPAN_END, datetime.time())
        one = datetime.timedelta(days=1)
        cur = f(day)
        table = [(0, cur)]
        while day < end:
            nxt = day + one
            v = f(nxt)
            if v != cur:
                # there may be more than one change inside the day: walk them all
                lo, vlo = day, cur
                while vlo != v or f(nxt) != vlo:
                    t = _bisect(f, lo, nxt, vlo)
                    vlo = f(t)
                    table.append((wall_us(t), vlo))
                    lo = t
                    if vlo == v and f(nxt) == vlo:
                        break
                cur = v
            day = nxt
        tables.append(table)
    z = ZoneSpec(tz, name, tables[0], tables[1], iana=name)
    ZoneSpec._cache[key] = z
    return z


class DocsZone(datetime.tzinfo):
    """a user-defined tzinfo written the way the `USTimeZone` example in the datetime documentation
    is: it answers for datetimes that carry *this* tzinfo object; asked about None, a naive
    datetime or a datetime of another zone it reports its standard offset.  The offsets are those
    of the IANA zone it wraps, so the model sees the same zone."""

    def __init__(self, z, name):
        self._z = z
        self._name = name
        jan = datetime.datetime(2001, 1, 15, 12, tzinfo=z)
        jul = datetime.datetime(2001, 7, 15, 12, tzinfo=z)
        self._std = min(jan.utcoffset(), jul.utcoffset())

    def utcoffset(self, dt):
        if dt is None or dt.tzinfo is not self:
            return self._std
        return dt.replace(tzinfo=self._z).utcoffset()

    def dst(self, dt):
        if dt is None or dt.tzinfo is not self:
            return datetime.timedelta(0)
        return dt.replace(tzinfo=self._z).dst() or datetime.timedelta(0)

    def tzname(self, dt):
        return "Docs(%s)" % self._name

    def fromutc(self, dt):
        loc = dt.replace(tzinfo=UTC).astimezone(self._z)
        return loc.replace(tzinfo=self)

    def __repr__(self):
        return "DocsZone(%r)" % self._name


def docs(z):
    """the DocsZone twin of an IANA ZoneSpec (same offsets, same model zone id)"""
    if getattr(z, "_docs", None) is None:
        z._docs = DocsZone(z.tzinfo, z.iana or z.label)
    return z._docs


def in_span(d):
    return datetime.date(1900, 1, 1) <= d <= datetime.date(2100, 12, 31)


def all_used():
    return list(ZoneSpec._cache.values())


def rand_zone(rng, date=None):
    """fixed offsets −12:00…+14:00 in 15-minute steps, or an IANA zone (only for dates
    inside the tabulated span)"""
    if date is not None and in_span(date) and rng.random() < 0.45:
        return iana(rng.choice(IANA_NAMES))
    k = rng.random()
    if k < 0.12:
        return fixed(0)
    if k < 0.2:
        return fixed_seconds(rng.choice([1172, -2670, -1521, 19 * 60 + 32, 21208, -17762,
                                         rng.randint(-43200, 50400)]))
    if k < 0.5:
        return fixed(60 * rng.randint(-12, 14))
    if k < 0.8:
        return fixed(15 * rng.randint(-48, 56))
    return fixed(rng.choice([-720, -660, 720, 765, 780, 825, 840, 330, 345, 570, -210]))


def transition_dates(z):
    """local dates on which an IANA zone changes offset (DST days), for date generators"""
    out = []
    for t, _ in z.utc_table[1:]:
        out.append(datetime.date.fromordinal(t // US_DAY))
    return out


def midnight_zone(rng, t_utc):
    """a fixed-offset zone in which the UTC datetime `t_utc` reads (almost) 00:00 — drives the
    date re-matching into its retry and 'Unable to find' branches"""
    tod = t_utc.hour * 60 + t_utc.minute
    off = (-tod) % 1440                      # 0 … 1439 minutes east
    if off > 840:
        off -= 1440                          # −599 … 840
    if rng.random() < 0.4:
        off = int(round(off / 15.0)) * 15 + rng.choice([0, 0, 0, 15, -15])
    else:
        off = off + rng.choice([-1, -1, -2, -2, -3, 0, 1, 2, -4])    # minute resolution: a real straddle
    off = max(-720, min(840, off))
    return fixed(off)


def ambiguous_wall(rng, z):
    """a naive wall-clock reading inside a repeated hour of the IANA ZoneSpec `z` (the end of a DST
    period), or None: there `fold` alone says which of the two instants is meant"""
    back = [(t, o1, o2) for (t, o2), (_, o1) in zip(z.utc_table[1:], z.utc_table[:-1])
            if o1 > o2 and t > wall_us(datetime.datetime(1905, 1, 1))]
    if not back:
        return None
    t, o_old, o_new = rng.choice(back)
    w = t + o_new + rng.randrange(0, o_old - o_new, 1_000_000)
    dd, r = divmod(w, US_DAY)
    return datetime.datetime.combine(datetime.date.fromordinal(dd), datetime.time()) + \
        datetime.timedelta(microseconds=r)


def ambiguous_instant(rng):
    """(zone, naive UTC datetime) inside or right next to the repeated wall-clock hour at the end
    of a DST period: there `fold` distinguishes two instants that compare equal as aware datetimes"""
    for _ in range(20):
        z = iana(rng.choice(["Europe/London", "America/New_York", "America/Los_Angeles",
                              "Pacific/Auckland", "Australia/Lord_Howe", "America/St_Johns",
                              "Africa/Casablanca", "America/Sao_Paulo", "Pacific/Chatham"]))
        back = [(t, o1 - o2) for (t, o2), (_, o1) in zip(z.utc_table[1:], z.utc_table[:-1])
                if o1 > o2 and t > wall_us(datetime.datetime(1905, 1, 1))]
        if not back:
            continue
        t, gap = rng.choice(back)
        u = t + rng.randint(-gap, gap - 1)
        u -= u % 1_000_000
        d, r = divmod(u, US_DAY)
        naive = datetime.datetime.combine(datetime.date.fromordinal(d), datetime.time()) + \
            datetime.timedelta(microseconds=r)
        return z, naive
    return None, None
