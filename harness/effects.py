"""Translator tie for purity (DESIGN App. C.2): a static effect summary of every function under
/repo/src/astral, regenerated on every run into lean/Astral/Gen/Effects.lean.

Per function the summary lists the effects that reach outside its own frame, and its callees
inside the package.  It is an over-approximation for the Python subset astral uses:
  writesGlobal   store / del / augmented assignment / mutating method call on a module-level
                 name (or something reachable from one); `global x` + store; passing a
                 module-level object to a callee that mutates that parameter
  mutatesParam   the same on a parameter (or something reachable from one), propagated through
                 calls by argument position; objects created inside the function are local
  hiddenState    functools caches, unknown decorators, mutable default arguments
  readsEnv / readsClock / io     os.environ, time.*, random.*, datetime.now/today/utcnow, open, print …
  unknownCall    a call through a parameter/attribute that cannot be resolved and is not in the
                 allow-list of pure builtins / math / datetime / zoneinfo / re / dataclasses
"""
import ast
import os
import sys

HERE = os.path.dirname(os.path.abspath(__file__))
OUT = os.path.join(os.path.dirname(HERE), "lean", "Astral", "Gen", "Effects.lean")
SRC = os.path.join(os.environ.get("VERIF_REPO", "/repo"), "src", "astral")

MUTATORS = {"append", "extend", "insert", "pop", "remove", "clear", "update", "setdefault", "sort",
            "reverse", "add", "discard", "__setitem__", "__delitem__", "popitem", "__setattr__"}
PURE_BUILTINS = {"float", "int", "str", "abs", "pow", "len", "range", "isinstance", "getattr", "tuple",
                 "list", "dict", "set", "min", "max", "round", "sorted", "enumerate", "zip", "bool",
                 "type", "repr", "super", "ValueError", "KeyError", "TypeError", "NotImplemented",
                 "hasattr", "any", "all", "sum", "iter", "next", "map", "filter", "divmod", "format",
                 "object", "property", "print_function", "NamedTuple", "Exception"}
# stdlib modules whose functions compute values (or, for logging/warnings, report without
# influencing any result); caches are recognised separately, by decorator
PURE_MODULE_CALLS = {"math", "re", "dataclasses", "zoneinfo", "typing", "enum", "json", "argparse",
                     "itertools", "functools", "operator", "collections", "bisect", "string", "decimal",
                     "fractions", "numbers", "calendar", "copy", "textwrap", "unicodedata", "cmath",
                     "statistics", "heapq", "abc", "contextlib", "logging", "warnings"}
PURE_METHODS = {"astimezone", "date", "replace", "utcoffset", "total_seconds", "split", "strip",
                "lower", "upper", "items", "values", "keys", "get", "group", "weekday", "time",
                "strftime", "strptime", "combine", "timedelta", "datetime", "timezone", "ZoneInfo",
                "toordinal", "fromordinal", "isoformat", "startswith", "endswith", "join", "format",
                "match", "sincos", "available_timezones", "tzname", "dst", "title", "find", "index",
                "count", "copy", "parse_args", "add_argument", "ArgumentParser", "dumps", "field",
                "fromisoformat", "today_", "lstrip", "rstrip", "encode", "decode", "radians",
                "degrees", "sin", "cos", "tan", "asin", "acos", "atan2", "sqrt", "fabs", "hypot",
                "floor", "ceil"}
def _builtin_pure_methods():
    """every public method of the built-in value types and of the stdlib value types astral uses,
    minus the mutators of list/dict/set: calling one of them has no effect outside its receiver's
    own (immutable) value"""
    import datetime as _d
    import re as _re
    import zoneinfo as _z
    names = set()
    for t in (str, bytes, int, float, complex, bool, tuple, frozenset, range, list, dict, set,
              _d.datetime, _d.date, _d.time, _d.timedelta, _d.timezone, _z.ZoneInfo,
              type(_re.compile("x")), type(_re.match("x", "x"))):
        names.update(n for n in dir(t) if not n.startswith("_"))
    return names - MUTATORS


PURE_METHODS = PURE_METHODS | _builtin_pure_methods()
OK_DECORATORS = {"property", "staticmethod", "classmethod", "dataclass", "setter", "getter"}
CLOCK_ATTRS = {"now", "today", "utcnow"}
EFFECTS = ["writesGlobal", "mutatesParam", "hiddenState", "readsEnv", "readsClock", "io", "unknownCall"]


def root_name(node):
    while isinstance(node, (ast.Attribute, ast.Subscript, ast.Call)):
        node = node.value if not isinstance(node, ast.Call) else node.func
    return node.id if isinstance(node, ast.Name) else None


class FnInfo:
    def __init__(self, qual, module, node, params):
        self.qual = qual
        self.module = module
        self.node = node
        self.params = params
        self.effects = set()
        self.mut_params = set()      # parameter names mutated (directly or through callees)
        self.calls = []              # (callee qual, [arg root names or None])
        self.notes = []


def analyse():
    mods = {}
    for fn in sorted(os.listdir(SRC)):
        if fn.endswith(".py"):
            name = "astral" if fn == "__init__.py" else "astral." + fn[:-3]
            mods[name] = ast.parse(open(os.path.join(SRC, fn), encoding="utf-8").read())
    # module-level names
    globals_of = {}
    imported = {}          # (module, local name) -> qualified function/module
    for mname, tree in mods.items():
        g = set()
        for st in tree.body:
            if isinstance(st, (ast.Assign, ast.AnnAssign)):
                tg = st.targets if isinstance(st, ast.Assign) else [st.target]
                for t in tg:
                    if isinstance(t, ast.Name):
                        g.add(t.id)
            elif isinstance(st, (ast.FunctionDef, ast.ClassDef)):
                g.add(st.name)
            elif isinstance(st, ast.Import):
                for a in st.names:
                    loc = (a.asname or a.name).split(".")[0]
                    g.add(loc)
                    imported[(mname, a.asname or a.name)] = a.name
            elif isinstance(st, ast.ImportFrom) and st.module:
                for a in st.names:
                    g.add(a.asname or a.name)
                    imported[(mname, a.asname or a.name)] = st.module + "." + a.name
            elif isinstance(st, ast.Try):
                for s2 in st.body + [h for hd in st.handlers for h in hd.body]:
                    if isinstance(s2, ast.Import):
                        for a in s2.names:
                            g.add((a.asname or a.name).split(".")[0])
                    elif isinstance(s2, ast.ImportFrom):
                        for a in s2.names:
                            g.add(a.asname or a.name)
        globals_of[mname] = g
    fns = {}
    class_of = {}          # function qual -> qualified class name (methods only)
    props = set()          # property getters

    def add_fn(qual, mname, node, params):
        fns[qual] = FnInfo(qual, mname, node, params)

    def collect(mname, body, prefix, cls=None):
        for st in body:
            if isinstance(st, (ast.FunctionDef, ast.AsyncFunctionDef)):
                params = [a.arg for a in st.args.posonlyargs + st.args.args + st.args.kwonlyargs]
                if st.args.vararg:
                    params.append(st.args.vararg.arg)
                if st.args.kwarg:
                    params.append(st.args.kwarg.arg)
                qual = prefix + st.name
                decs = [(d.attr if isinstance(d, ast.Attribute) else getattr(d, "id", "?"))
                        for d in [(x.func if isinstance(x, ast.Call) else x) for x in st.decorator_list]]
                if "setter" in decs:
                    qual += ".setter"
                elif "property" in decs and cls:
                    props.add(qual)
                add_fn(qual, mname, st, params)
                if cls:
                    class_of[qual] = cls
                collect(mname, st.body, qual + ".", None)
            elif isinstance(st, ast.ClassDef):
                collect(mname, st.body, prefix + st.name + ".", prefix + st.name)
            elif isinstance(st, (ast.If, ast.Try, ast.With, ast.For, ast.While)):
                for fld in ("body", "orelse", "finalbody"):
                    collect(mname, getattr(st, fld, []) or [], prefix, cls)
    for mname, tree in mods.items():
        collect(mname, tree.body, mname + ".")
        # module-level code as a pseudo function
        pseudo = ast.FunctionDef(name="<module>", args=ast.arguments(posonlyargs=[], args=[], kwonlyargs=[],
                                 kw_defaults=[], defaults=[]), body=[s for s in tree.body if not isinstance(
                                     s, (ast.FunctionDef, ast.ClassDef, ast.Import, ast.ImportFrom))],
                                 decorator_list=[])
        add_fn(mname + ".<module>", mname, pseudo, [])

    def resolve(mname, func_node, local_fns, cls=None):
        """qualified name of a package function a call refers to, or None"""
        if (cls and isinstance(func_node, ast.Attribute) and isinstance(func_node.value, ast.Name)
                and func_node.value.id == "self" and cls + "." + func_node.attr in fns
                and cls + "." + func_node.attr not in props):
            return cls + "." + func_node.attr
        if isinstance(func_node, ast.Name):
            n = func_node.id
            if n in local_fns:
                return local_fns[n]
            if mname + "." + n in fns:
                return mname + "." + n
            q = imported.get((mname, n))
            if q and q in fns:
                return q
            return None
        if isinstance(func_node, ast.Attribute):
            parts = []
            node = func_node
            while isinstance(node, ast.Attribute):
                parts.append(node.attr)
                node = node.value
            if isinstance(node, ast.Name):
                parts.append(node.id)
                dotted = ".".join(reversed(parts))
                if dotted in fns:
                    return dotted
                modp, _, leaf = dotted.rpartition(".")
                q = imported.get((modp, leaf))          # a name re-exported by another module
                if q and q in fns:
                    return q
                head = imported.get((mname, parts[-1]))
                if head:
                    cand = head + "." + ".".join(reversed(parts[:-1]))
                    if cand in fns:
                        return cand
        return None

    for info in fns.values():
        node, mname = info.node, info.module
        gl = globals_of[mname]
        is_module = info.qual.endswith(".<module>")
        params = set(info.params)
        local_fns = {}
        for st in ast.walk(node):
            if isinstance(st, ast.FunctionDef) and st is not node:
                local_fns[st.name] = info.qual + "." + st.name if not is_module else mname + "." + st.name
        # locals assigned in this frame; aliases of params/globals
        alias = {}
        declared_global = set()
        assigned = set()
        own_nodes = []

        def own_walk(n):
            for ch in ast.iter_child_nodes(n):
                if isinstance(ch, (ast.FunctionDef, ast.AsyncFunctionDef, ast.ClassDef, ast.Lambda)):
                    continue
                own_nodes.append(ch)
                own_walk(ch)
        own_walk(node)
        for n in own_nodes:
            if isinstance(n, (ast.Global, ast.Nonlocal)):
                declared_global.update(n.names)
        for n in own_nodes:
            if isinstance(n, ast.Assign):
                for t in n.targets:
                    if isinstance(t, ast.Name):
                        assigned.add(t.id)
                        r = root_name(n.value) if isinstance(n.value, (ast.Name, ast.Attribute, ast.Subscript)) else None
                        if r is not None and isinstance(n.value, (ast.Name, ast.Attribute, ast.Subscript)):
                            alias.setdefault(t.id, r)
            elif isinstance(n, (ast.For, ast.comprehension)):
                t = n.target
                for nm in ast.walk(t):
                    if isinstance(nm, ast.Name):
                        assigned.add(nm.id)
                        r = root_name(n.iter)
                        if r:
                            alias.setdefault(nm.id, r)
            elif isinstance(n, (ast.AugAssign, ast.AnnAssign)) and isinstance(n.target, ast.Name):
                assigned.add(n.target.id)
            elif isinstance(n, ast.withitem) and n.optional_vars is not None:
                for nm in ast.walk(n.optional_vars):
                    if isinstance(nm, ast.Name):
                        assigned.add(nm.id)

        def classify(name, depth=0):
            """'param:<p>' | 'global' | 'local'"""
            if name is None:
                return "local"
            if name in declared_global:
                return "global"
            if name in params:
                return "param:" + name
            if name in assigned:
                a = alias.get(name)
                if a is not None and a != name and depth < 5:
                    return classify(a, depth + 1)
                return "local"
            if is_module:
                return "local"       # names bound at module level are this pseudo-frame's own
            if name in gl:
                return "global"
            return "local"

        def mark(kind, why):
            if kind == "global":
                info.effects.add("writesGlobal")
                info.notes.append(why)
            elif kind.startswith("param:"):
                info.mut_params.add(kind[6:])
                info.notes.append(why)

        # decorators / defaults
        for dec in getattr(node, "decorator_list", []):
            d = dec.func if isinstance(dec, ast.Call) else dec
            nm = d.attr if isinstance(d, ast.Attribute) else (d.id if isinstance(d, ast.Name) else "?")
            if nm not in OK_DECORATORS:
                info.effects.add("hiddenState")
                info.notes.append("decorator %s" % nm)
        for dflt in list(node.args.defaults) + [d for d in node.args.kw_defaults if d is not None]:
            if isinstance(dflt, (ast.List, ast.Dict, ast.Set)) or (
                    isinstance(dflt, ast.Call) and isinstance(dflt.func, ast.Name)
                    and dflt.func.id in ("list", "dict", "set")):
                info.effects.add("hiddenState")
                info.notes.append("mutable default argument")
        for n in own_nodes:
            if isinstance(n, (ast.Assign, ast.AugAssign, ast.AnnAssign, ast.Delete)):
                tg = n.targets if isinstance(n, (ast.Assign, ast.Delete)) else [n.target]
                for t in tg:
                    for sub in (t.elts if isinstance(t, (ast.Tuple, ast.List)) else [t]):
                        if isinstance(sub, ast.Name):
                            if sub.id in declared_global:
                                mark("global", "store to global %s" % sub.id)
                        elif isinstance(sub, (ast.Attribute, ast.Subscript)):
                            mark(classify(root_name(sub)), "store through %s" % root_name(sub))
            elif isinstance(n, ast.Call):
                f = n.func
                callee = resolve(mname, f, local_fns, class_of.get(info.qual))
                if callee is not None:
                    args = [root_name(a) if isinstance(a, (ast.Name, ast.Attribute, ast.Subscript)) else None
                            for a in n.args]
                    if (isinstance(f, ast.Attribute) and isinstance(f.value, ast.Name) and f.value.id == "self"
                            and class_of.get(callee) and fns[callee].params[:1] == ["self"]):
                        args = ["self"] + args          # the receiver is the callee's first parameter
                    kw = {k.arg: (root_name(k.value) if isinstance(k.value, (ast.Name, ast.Attribute,
                                                                               ast.Subscript)) else None)
                          for k in n.keywords if k.arg}
                    info.calls.append((callee, [classify(a) if a else "local" for a in args],
                                       {k: (classify(v) if v else "local") for k, v in kw.items()}))
                    continue
                if isinstance(f, ast.Attribute):
                    r = root_name(f.value)
                    if f.attr in MUTATORS:
                        mark(classify(r), "%s.%s(...)" % (r, f.attr))
                        continue
                    base = f.value
                    dotted_root = r
                    if dotted_root in ("os", "sys", "time", "random", "subprocess", "socket"):
                        info.effects.add("readsEnv" if dotted_root in ("os", "time", "random") else "io")
                        continue
                    if f.attr in CLOCK_ATTRS and dotted_root in ("datetime",):
                        info.effects.add("readsClock")
                        continue
                    if dotted_root in PURE_MODULE_CALLS or dotted_root == "datetime":
                        continue
                    if f.attr in PURE_METHODS:
                        continue
                    info.effects.add("unknownCall")
                    info.notes.append("call .%s on %s" % (f.attr, r))
                elif isinstance(f, ast.Name):
                    if f.id in ("open", "print", "input"):
                        info.effects.add("io")
                    elif f.id in PURE_BUILTINS or f.id in ("sin", "cos", "tan", "asin", "acos", "atan2",
                                                           "sqrt", "radians", "degrees", "fabs", "hypot",
                                                           "replace", "field", "dataclass"):
                        pass
                    elif classify(f.id) == "local" and f.id in assigned:
                        info.effects.add("unknownCall")
                        info.notes.append("call through local %s" % f.id)
                    elif f.id[:1].isupper():
                        pass      # class constructors (Observer, LocationInfo, TransitEvent, …)
                    else:
                        info.effects.add("unknownCall")
                        info.notes.append("call %s" % f.id)
            elif isinstance(n, ast.Name) and n.id in ("lru_cache", "cache", "cached_property"):
                info.effects.add("hiddenState")
                info.notes.append("uses functools.%s" % n.id)
            elif isinstance(n, ast.Attribute):
                if n.attr in ("lru_cache", "cache", "cached_property"):
                    info.effects.add("hiddenState")
                    info.notes.append("uses functools.%s" % n.attr)
                r = root_name(n)
                cls_ = class_of.get(info.qual)
                if (cls_ and isinstance(n.value, ast.Name) and n.value.id == "self"
                        and isinstance(n.ctx, ast.Load) and cls_ + "." + n.attr in props
                        and cls_ + "." + n.attr != info.qual):
                    info.calls.append((cls_ + "." + n.attr, [classify("self")], {}))   # property read
                if r == "os" and n.attr in ("environ", "getenv"):
                    info.effects.add("readsEnv")
                if r == "sys" and n.attr.startswith("std"):
                    info.effects.add("io")
    # propagate parameter mutation through calls, by argument position / keyword
    changed = True
    while changed:
        changed = False
        for info in fns.values():
            for callee, args, kw in info.calls:
                g = fns[callee]
                gp = g.params
                for p in g.mut_params:
                    kinds = []
                    if p in kw:
                        kinds.append(kw[p])
                    if p in gp:
                        idx = gp.index(p)
                        if gp and gp[0] in ("self", "cls") and "." in callee and idx > 0 and False:
                            pass
                        if idx < len(args):
                            kinds.append(args[idx])
                    for kd in kinds:
                        if kd == "global" and "writesGlobal" not in info.effects:
                            info.effects.add("writesGlobal")
                            info.notes.append("passes a module-level object to %s, which mutates %s" % (callee, p))
                            changed = True
                        elif kd.startswith("param:") and kd[6:] not in info.mut_params:
                            info.mut_params.add(kd[6:])
                            changed = True
    for info in fns.values():
        if info.mut_params:
            info.effects.add("mutatesParam")
    return mods, fns


def public_functions(mods):
    pub = []
    for mname in ("astral.sun", "astral.moon"):
        for st in mods[mname].body:
            if isinstance(st, ast.Assign) and any(isinstance(t, ast.Name) and t.id == "__all__" for t in st.targets):
                pub += [mname + "." + e.value for e in st.value.elts]
    pub += ["astral.moon.azimuth", "astral.moon.elevation", "astral.moon.zenith"]
    return [p for p in dict.fromkeys(pub)]


def generate():
    mods, fns = analyse()
    names = sorted(fns)
    idx = {n: i for i, n in enumerate(names)}
    pub = [p for p in public_functions(mods) if p in idx]
    out = ["/- GENERATED on every run by harness/effects.py from the AST of /repo/src/astral/*.py.",
           "   Do not edit.  Row i describes function `names[i]`. -/",
           "namespace Astral.Gen", "",
           "inductive Eff | writesGlobal | mutatesParam | hiddenState | readsEnv | readsClock | io | unknownCall",
           "  deriving DecidableEq, Repr", "",
           "structure FnRow where",
           "  effects : List Eff",
           "  calls : List Nat",
           "  deriving Repr", "",
           "def effectTable : List FnRow := ["]
    rows = []
    for n in names:
        f = fns[n]
        effs = ", ".join("." + e for e in EFFECTS if e in f.effects)
        calls = ", ".join(str(idx[c]) for c in sorted({c for c, _, _ in f.calls}))
        rows.append("  ⟨[%s], [%s]⟩  -- %d %s%s" % (effs, calls, idx[n], n,
                                                  ("  (" + "; ".join(f.notes[:3]) + ")") if f.notes else ""))
    # commas must precede the comments
    fixed = []
    for i, r in enumerate(rows):
        body, _, comment = r.partition("  -- ")
        fixed.append(body + ("," if i < len(rows) - 1 else "") + "  -- " + comment)
    out += fixed
    out += ["]", "",
            "/-- the public sun and moon functions (sun.__all__, moon.__all__, moon angles) -/",
            "def publicFns : List Nat := [%s]" % ", ".join(
                [str(idx[p]) for p in pub] + [str(idx[m + ".<module>"]) for m in (
                    "astral", "astral.sun", "astral.moon", "astral.julian", "astral.sidereal")
                    if m + ".<module>" in idx]),
            "",
            "/-- the public geocoder functions (module-level, not underscore-prefixed) -/",
            "def geoFns : List Nat := [%s]" % ", ".join(
                str(idx[n]) for n in names
                if (n.startswith("astral.geocoder.") and not n.split(".")[-1].startswith("_")
                    and not n.endswith("<module>")) or n in ("astral.geocoder.<module>", "astral.<module>")),
            "",
            "/-- the functions of astral.julian and the time-unit helpers of astral/__init__ -/",
            "def julianFns : List Nat := [%s]" % ", ".join(
                str(idx[n]) for n in names
                if (n.startswith("astral.julian.") or n in (
                    "astral.hours_to_time", "astral.time_to_hours", "astral.time_to_seconds",
                    "astral.minutes_to_timedelta", "astral.now", "astral.today"))
                and not n.endswith("<module>") and n not in ("astral.now", "astral.today")
                or n in ("astral.julian.<module>", "astral.<module>")),
            "",
            "/-- every method of `Location` that is a query: not `__init__`, not a property setter -/",
            "def locationQueryFns : List Nat := [%s]" % ", ".join(
                str(idx[n]) for n in names
                if (n.startswith("astral.location.Location.") and not n.endswith(".setter")
                    and not n.endswith(".__init__")) or n == "astral.location.<module>"),
            "",
            "/-- the coordinate front end: dms_to_float and the validating `__setattr__`s -/",
            "def coordFns : List Nat := [%s]" % ", ".join(
                str(idx[n]) for n in names
                if n in ("astral.dms_to_float", "astral.Observer.__setattr__", "astral.LocationInfo.__setattr__",
                         "astral.LocationInfo.observer", "astral.LocationInfo.tzinfo",
                         "astral.LocationInfo.timezone_group", "astral.<module>")),
            "", "end Astral.Gen", ""]
    text = "\n".join(out)
    os.makedirs(os.path.dirname(OUT), exist_ok=True)
    old = open(OUT, encoding="utf-8").read() if os.path.exists(OUT) else None
    if old != text:
        open(OUT, "w", encoding="utf-8").write(text)
    return {"functions": len(names), "public": len(pub), "rewritten": old != text,
            "with_effects": {n: sorted(fns[n].effects) for n in names if fns[n].effects}}


if __name__ == "__main__":
    import json
    print(json.dumps(generate(), indent=1))
