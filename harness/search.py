"""Stage C: failing-input search.  Only runs after a proof obligation or a correspondence
has broken.  Each `search_Cxx(rng, deadline, broken)` evaluates the *property itself* on
the implementation and returns a JSON-able description of the first failing input, or None.
"""
import datetime
import json
import math
import os
import random
import sys
import time

import common


def run(prop, seed, budget_s, broken):
    fn = globals().get("search_" + prop)
    if fn is None:
        return None
    rng = random.Random(seed ^ 0x5EA4C4)
    # first: is the property itself violated on the very inputs on which model and code differ?
    seed_fn = globals().get("seed_" + prop)
    if seed_fn is not None:
        # state-dependent defects: replay the very sequence of calls the correspondence made, up
        # to the first disagreement, and evaluate the property there, in that state
        try:
            r = _replay_sequence(prop, seed, broken, seed_fn)
        except Exception:  # noqa: BLE001
            r = None
        if r:
            return r
        for m in broken.get("correspondence_mismatches", []):
            try:
                r = seed_fn(m)
            except Exception:  # noqa: BLE001
                r = None
            if r:
                r["from_correspondence_mismatch"] = True
                return r
    return fn(rng, time.time() + budget_s, broken)


def _replay_sequence(prop, seed, broken, seed_fn):
    """in a fresh interpreter: regenerate the correspondence groups exactly as stage B did, and at
    the first disagreeing call evaluate the property there, in that state, on the live objects"""
    import subprocess
    import tempfile
    ms = broken.get("correspondence_mismatches", [])
    if not ms or not ms[0].get("request"):
        return None
    with tempfile.NamedTemporaryFile("w", suffix=".json", delete=False) as f:
        json.dump({"prop": prop, "seed": seed, "tier": broken.get("tier", "quick"),
                   "groups": broken.get("groups", []), "request": ms[0]["request"],
                   "group": ms[0].get("group")}, f)
        path = f.name
    try:
        p = subprocess.run([sys.executable, os.path.abspath(__file__), "--sequence", path],
                           stdout=subprocess.PIPE, stderr=subprocess.PIPE, timeout=900,
                           env=dict(os.environ))
        out = p.stdout.decode().strip().split("\n")[-1] if p.stdout else ""
        return json.loads(out) if out.startswith("{") else None
    finally:
        os.unlink(path)


def _sequence_main(path):
    import importlib
    import check as _check
    spec_all = json.load(open(path))
    prop, seed, tier = spec_all["prop"], spec_all["seed"], spec_all["tier"]
    seed_fn = globals().get("seed_" + prop)
    for gi, spec in enumerate(spec_all["groups"]):
        mod = importlib.import_module(spec["module"])
        gen = mod.GROUPS[spec["group"]]
        n = spec["thorough"] if tier == "thorough" else spec["quick"]
        os.environ["TZ"] = _check.PROCESS_ZONES[(seed + gi) % len(_check.PROCESS_ZONES)]   # as stage B did
        time.tzset()
        rng = random.Random((seed * 1000003) ^ _check.hash_str(spec["group"]))
        common.set_convention_rng(random.Random((seed * 7919) ^ _check.hash_str(spec["group"]) ^ 0xC0117))
        count = 0
        for c in gen(rng, n, tier):
            count += 1
            if spec["group"] == spec_all["group"] and c.request[:400] == spec_all["request"]:
                m = {"function": c.fn, "input": c.descr, "request": c.request, "live": c.live}
                r = seed_fn(m) if seed_fn else None
                if r:
                    r["sequence"] = ("a fresh interpreter makes the calls of the correspondence groups "
                                     "in order (VERIF_SEED=%d); this is call %d of group %r, process "
                                     "TZ=%s" % (seed, count, spec["group"], os.environ["TZ"]))
                    print(json.dumps(r, default=str))
                return
    return


def replay(prop, path):
    doc = json.load(open(path))
    print(json.dumps(doc, indent=1)[:4000])
    fi = doc.get("failing_input")
    if not fi:
        print("no failing input recorded; the replay names what no longer checks")
        return 1
    fn = globals().get("replay_" + prop)
    if fn is None:
        return 1
    ok = fn(fi)
    print("replay:", "property holds on this input now" if ok else "property still fails on this input")
    return 0 if ok else 1


# ------------------------------------------------------------------ C15
def _c15_checks(d, h, mi, s):
    import astral
    from astral import julian as J
    from astral import sun
    o = d.toordinal()
    jd = J.julianday(d)
    if jd != o + 1721424.5:
        return {"clause": "JD = ordinal + 1721424.5", "date": str(d), "got": jd,
                "want": o + 1721424.5}
    if o < 3652059:
        jd1 = J.julianday(d + datetime.timedelta(days=1))
        if jd1 - jd != 1:
            return {"clause": "JD rises by exactly 1 per day", "date": str(d), "got": jd1 - jd}
    dt = datetime.datetime(d.year, d.month, d.day, h, mi, s)
    jdt = J.julianday(dt)
    if abs(jdt - (jd + (h * 3600 + mi * 60 + s) / 86400)) > 1e-8:
        return {"clause": "time of day adds seconds/86400", "datetime": str(dt), "got": jdt}
    import gens as _g
    jds = J.julianday(_g.as_sub(dt))
    if jds != jdt:
        return {"clause": "an instance of a datetime subclass means the same as the plain datetime",
                "datetime": str(dt), "got": jds, "want": jdt}
    if J.julianday(_g.as_sub(d)) != jd:
        return {"clause": "an instance of a date subclass means the same as the plain date",
                "date": str(d), "got": J.julianday(_g.as_sub(d)), "want": jd}
    # Julian-calendar variant: offset 2 - A + A//4
    yy = d.year - 1 if d.month <= 2 else d.year
    a = yy // 100
    if J.julianday(d, J.Calendar.JULIAN) - jd != -(2 - a + a // 4):
        return {"clause": "Julian-calendar offset", "date": str(d),
                "got": J.julianday(d, J.Calendar.JULIAN) - jd, "want": -(2 - a + a // 4)}
    if d >= datetime.date(1582, 10, 15):
        m = J.julianday_modified(dt)
        want = jd - 2400000.5 + h / 24
        if abs(m - want) > 1e-8:
            return {"clause": "MJD = JD - 2400000.5 at the whole hour", "datetime": str(dt),
                    "got": m, "want": want}
        back = J.julianday_to_datetime(jdt)
        if abs((back - dt).total_seconds()) > 1.0:
            return {"clause": "julianday_to_datetime(julianday(t)) = t within 1 s",
                    "datetime": str(dt), "got": str(back)}
    jc = J.julianday_to_juliancentury(jdt)
    if abs(J.juliancentury_to_julianday(jc) - jdt) > 1e-6:
        return {"clause": "day<->century inverse", "jd": jdt}
    t = datetime.time(h, mi, s, (o * 7919) % 1000000)
    back = astral.hours_to_time(astral.time_to_hours(t))
    us = lambda x: ((x.hour * 60 + x.minute) * 60 + x.second) * 10**6 + x.microsecond  # noqa: E731
    if abs(us(back) - us(t)) > 1:
        return {"clause": "hours helpers round-trip within 1 µs", "time": str(t), "got": str(back)}
    mins = us(t) / 6e7
    td = sun.minutes_to_timedelta(mins)
    if abs(common.td_us(td) - us(t)) > 1:
        return {"clause": "minutes_to_timedelta exact to 1 µs", "time": str(t), "got": str(td)}
    frac = (h * 3600 + mi * 60 + s) / 86400
    ft = J.day_fraction_to_time(frac + 1e-9)
    if abs(us(ft) - us(t.replace(microsecond=0))) > 10**6:
        return {"clause": "day_fraction_to_time round trip within 1 s", "time": str(t),
                "got": str(ft)}
    return None


def _c15_safe(d, h, mi, s):
    try:
        r = _c15_checks(d, h, mi, s)
    except Exception as exc:  # noqa: BLE001
        r = {"clause": "a conversion raised %r" % (exc,), "datetime": "%s %02d:%02d:%02d" % (d, h, mi, s)}
    if r is not None:
        r["args"] = {"date": d.isoformat(), "h": h, "m": mi, "s": s}
    return r


def seed_C15(m):
    """the date/time a mismatching conversion was asked about, and its neighbours"""
    import re
    inp = m.get("input") or {}
    txt = " ".join(str(inp.get(k, "")) for k in ("from", "datetime", "date"))
    mm = re.search(r"(\d{4})-(\d{2})-(\d{2})(?:[ T](\d{2}):(\d{2}):(\d{2}))?", txt)
    if not mm:
        return None
    d = datetime.date(int(mm.group(1)), int(mm.group(2)), int(mm.group(3)))
    h, mi, s = (int(mm.group(4)), int(mm.group(5)), int(mm.group(6))) if mm.group(4) else (12, 0, 0)
    off = re.search(r"([+-])(\d{2}):(\d{2})\s*$", str(inp.get("datetime", "")))
    if off and mm.group(4):
        # an aware spelling: the Julian day is read from its own wall-clock fields, whatever
        # was asked before (evaluated in the state the sequence of calls has produced)
        from astral import julian as J
        mins = (int(off.group(2)) * 60 + int(off.group(3))) * (1 if off.group(1) == "+" else -1)
        sp = datetime.datetime(d.year, d.month, d.day, h, mi, s,
                               tzinfo=datetime.timezone(datetime.timedelta(minutes=mins)))
        want = d.toordinal() + 1721424.5 + (h * 3600 + mi * 60 + s) / 86400
        try:
            got = J.julianday(sp)
        except Exception as exc:  # noqa: BLE001
            got = repr(exc)
        if not (isinstance(got, float) and abs(got - want) < 1e-8):
            return {"clause": "JD = day count + 1721424.5 + seconds/86400 of the datetime's own fields",
                    "datetime": sp.isoformat(), "got": got, "want": want,
                    "args": {"date": d.isoformat(), "h": h, "m": mi, "s": s, "offset_minutes": mins}}
    for dd in (0, -1, 1):
        o = d.toordinal() + dd
        if 1 <= o <= 3652059:
            for t in ((h, mi, s), (0, 0, 0), (23, 59, 59)):
                r = _c15_safe(datetime.date.fromordinal(o), *t)
                if r:
                    return r
    return None


def search_C15(rng, deadline, broken):
    specials = [datetime.date(1582, 1, 1) + datetime.timedelta(days=k) for k in range(365)] + \
               [datetime.date(2020, 1, 1), datetime.date(1582, 10, 15), datetime.date(1, 1, 1),
                datetime.date(9999, 12, 31), datetime.date(2000, 2, 29), datetime.date(1900, 3, 1),
                datetime.date(1600, 12, 31), datetime.date(2100, 1, 1)]
    i = 0
    while time.time() < deadline:
        if i < len(specials):
            d = specials[i]
        else:
            d = datetime.date.fromordinal(rng.randint(1, 3652059))
        i += 1
        h, mi, s = rng.choice([(12, 0, 0), (0, 0, 0), (23, 59, 59),
                               (rng.randint(0, 23), rng.randint(0, 59), rng.randint(0, 59))])
        r = _c15_safe(d, h, mi, s)
        if r is not None:
            return r
        if i > 400000:
            break
    return None


def replay_C15(fi):
    a = fi["args"]
    if "offset_minutes" in a:
        # state-dependent: spell the same instant in other zones first, then ask again
        from astral import julian as J
        d = datetime.date.fromisoformat(a["date"])
        sp = datetime.datetime(d.year, d.month, d.day, a["h"], a["m"], a["s"],
                               tzinfo=datetime.timezone(datetime.timedelta(minutes=a["offset_minutes"])))
        want = d.toordinal() + 1721424.5 + (a["h"] * 3600 + a["m"] * 60 + a["s"]) / 86400
        for other in (0, 330, -480, 765, -210):
            try:
                J.julianday(sp.astimezone(datetime.timezone(datetime.timedelta(minutes=other))))
                if abs(J.julianday(sp) - want) >= 1e-8:
                    return False
            except Exception:  # noqa: BLE001
                return False
        return True
    return _c15_safe(datetime.date.fromisoformat(a["date"]), a["h"], a["m"], a["s"]) is None


# ------------------------------------------------------------------ shared helpers
def _sun_inputs(rng):
    import gens
    import zones
    d0 = gens.rand_date(rng, wide=False)
    z = zones.rand_zone(rng, d0)
    d = gens.rand_date(rng, z, wide=False) if z.iana else d0
    o = gens.rand_observer(rng)
    return o, d, z


def _descr(o, d, z, **kw):
    import gens
    r = {"observer": gens.obs_descr(o), "date": d.isoformat(), "zone": z.describe()}
    r.update(kw)
    return r


def _zone_from_descr(s):
    import zones
    if s.startswith("fixeds"):
        return zones.fixed_seconds(int(s[6:]))
    if s.startswith("fixed"):
        return zones.fixed(int(s[5:]))
    return zones.iana(s)


def _obs_from_descr(dd):
    from astral import Observer
    e = dd["elevation"]
    return Observer(dd["latitude"], dd["longitude"], tuple(e) if isinstance(e, list) else e)


# ------------------------------------------------------------------ C03
def _c03_one(o, d, z, fn, extra):
    """returns None if the property holds for this call, else a description"""
    import astral.sun as sun
    import astral.moon as moon
    from astral import SunDirection
    tz = z.tzinfo
    di = SunDirection.RISING if extra.get("dir", 1) == 1 else SunDirection.SETTING
    try:
        if fn in ("dawn", "dusk"):
            v = [getattr(sun, fn)(o, d, extra["dep"], tz)]
        elif fn in ("sunrise", "sunset"):
            v = [getattr(sun, fn)(o, d, tz)]
        elif fn == "time_at_elevation":
            v = [sun.time_at_elevation(o, extra["el"], d, di, tz)]
        elif fn in ("moonrise", "moonset"):
            r = getattr(moon, fn)(o, d, tz)
            v = [] if r is None else [r]
        elif fn == "daylight":
            v = list(sun.daylight(o, d, tz))
        elif fn == "night":
            s, e = sun.night(o, d, tz)
            if e.astimezone(tz).date() != d + datetime.timedelta(days=1):
                return "night ends on %s, not on the day after %s" % (e.astimezone(tz).date(), d)
            v = [s]
        elif fn in ("twilight", "golden_hour", "blue_hour"):
            v = list(getattr(sun, fn)(o, d, di, tz))
        else:
            return None
    except ValueError:
        return None
    for t in v:
        if t.astimezone(tz).date() != d:
            return "%s returned %s, which is on %s in the requested zone, not on %s" % (
                fn, t.isoformat(), t.astimezone(tz).date(), d)
    return None


C03_FUNCS = ["dawn", "dusk", "sunrise", "sunset", "time_at_elevation", "moonrise", "moonset",
             "daylight", "night", "twilight", "golden_hour", "blue_hour"]


def _c03_datetime_as_date(rng):
    """the requested date given as a datetime (its own calendar date counts): the reported event
    must lie on that date — in the datetime's own zone for the sun events, in the requested zone
    for the moon"""
    import gens
    import zones
    import astral.sun as sun
    import astral.moon as moon
    o = gens.rand_observer(rng, tuples=False)
    d = gens.rand_date(rng, wide=False)
    z = zones.rand_zone(rng, d)
    z2 = zones.rand_zone(rng, d)
    dt = datetime.datetime(d.year, d.month, d.day, rng.choice([0, 23, rng.randint(0, 23)]), rng.choice([5, 55]),
                           tzinfo=z2.tzinfo)
    for name, f, zone_of_result in (
            ("moonrise", lambda: moon.moonrise(o, dt, z.tzinfo), z),
            ("moonset", lambda: moon.moonset(o, dt, z.tzinfo), z),
            ("sunrise", lambda: sun.sunrise(o, dt, z.tzinfo), z2),
            ("dusk", lambda: sun.dusk(o, dt, 6, z.tzinfo), z2)):
        try:
            v = f()
        except ValueError:
            continue
        if v is None:
            continue
        got = v.astimezone(zone_of_result.tzinfo).date()
        if got != d:
            return {"clause": "%s with the aware datetime %s as the date returned %s, which is on %s in %s, "
                              "not on %s" % (name, dt.isoformat(), v.isoformat(), got,
                                             zone_of_result.describe(), d),
                    "observer": {"latitude": o.latitude, "longitude": o.longitude, "elevation": o.elevation},
                    "zone": z.describe()}
    return None


def search_C03(rng, deadline, broken):
    import gens
    n = 0
    while time.time() < deadline:
        n += 1
        if n % 3 == 0:
            try:
                r = _c03_datetime_as_date(rng)
            except Exception as exc:  # noqa: BLE001
                r = {"clause": "raised %r" % (exc,)}
            if r:
                r["kind"] = "datetime-as-date"
                return r
        o, d, z = _sun_inputs(rng)
        for fn in C03_FUNCS:
            extra = {"dep": gens.rand_depression(rng), "el": rng.choice([6.0, -6.0, -4.0, rng.uniform(-18, 60)]),
                     "dir": rng.choice([1, -1])}
            try:
                r = _c03_one(o, d, z, fn, extra)
            except Exception as exc:  # noqa: BLE001
                r = "%s raised %r (neither a time on the date, nor ValueError/None)" % (fn, exc)
            if r:
                return _descr(o, d, z, function=fn, extra=extra, clause=r)
    return None


def replay_C03(fi):
    if fi.get("kind") == "datetime-as-date":
        return None          # found by random search; replayed by re-running the search
    z = _zone_from_descr(fi["zone"])
    o = _obs_from_descr(fi["observer"])
    return _c03_one(o, datetime.date.fromisoformat(fi["date"]), z, fi["function"], fi["extra"]) is None


# ------------------------------------------------------------------ C07
def _try(f):
    try:
        return ("ok", f())
    except ValueError as e:
        return ("err", str(e)[:40])


def _c07_one(o, d, z, di_i, daytime):
    import astral.sun as sun
    from astral import SunDirection
    tz = z.tzinfo
    di = SunDirection.RISING if di_i == 1 else SunDirection.SETTING
    one = datetime.timedelta(days=1)

    def same(a, b, what):
        if a[0] != b[0]:
            return "%s: period %s but primitives %s" % (what, a, b)
        if a[0] == "ok" and tuple(a[1]) != tuple(b[1]):
            return "%s: period %s differs from primitives %s" % (what, [str(x) for x in a[1]],
                                                                 [str(x) for x in b[1]])
        return None
    checks = [
        (_try(lambda: sun.daylight(o, d, tz)),
         _try(lambda: (sun.sunrise(o, d, tz), sun.sunset(o, d, tz))), "daylight=(sunrise,sunset)"),
        (_try(lambda: sun.night(o, d, tz)),
         _try(lambda: (sun.dusk(o, d, 6, tz), sun.dawn(o, d + one, 6, tz))), "night=(dusk,next dawn)"),
    ]
    if di_i == 1:
        checks.append((_try(lambda: sun.twilight(o, d, di, tz)),
                       _try(lambda: (sun.dawn(o, d, 6, tz), sun.sunrise(o, d, tz))),
                       "rising twilight=(civil dawn,sunrise)"))
        checks.append((_try(lambda: sun.blue_hour(o, d, di, tz)),
                       _try(lambda: (sun.time_at_elevation(o, -6, d, di, tz),
                                     sun.time_at_elevation(o, -4, d, di, tz))), "blue hour rising"))
        checks.append((_try(lambda: sun.golden_hour(o, d, di, tz)),
                       _try(lambda: (sun.time_at_elevation(o, -4, d, di, tz),
                                     sun.time_at_elevation(o, 6, d, di, tz))), "golden hour rising"))
    else:
        checks.append((_try(lambda: sun.twilight(o, d, di, tz)),
                       _try(lambda: (sun.sunset(o, d, tz), sun.dusk(o, d, 6, tz))),
                       "setting twilight=(sunset,civil dusk)"))
        checks.append((_try(lambda: sun.blue_hour(o, d, di, tz)),
                       _try(lambda: (sun.time_at_elevation(o, -4, d, di, tz),
                                     sun.time_at_elevation(o, -6, d, di, tz))), "blue hour setting"))
        checks.append((_try(lambda: sun.golden_hour(o, d, di, tz)),
                       _try(lambda: (sun.time_at_elevation(o, 6, d, di, tz),
                                     sun.time_at_elevation(o, -4, d, di, tz))), "golden hour setting"))
    for a, b, what in checks:
        # the error *kind* of a period may legitimately be that of its first failing primitive
        if a[0] == "err" and b[0] == "err":
            continue
        r = same(a, b, what)
        if r:
            return r
    dep = 6.0
    bundle = _try(lambda: sun.sun(o, d, dep, tz))
    if bundle[0] == "ok":
        prim = {"dawn": sun.dawn(o, d, dep, tz), "sunrise": sun.sunrise(o, d, tz),
                "noon": sun.noon(o, d, tz), "sunset": sun.sunset(o, d, tz),
                "dusk": sun.dusk(o, d, dep, tz)}
        if set(bundle[1].keys()) != set(prim.keys()):
            return "sun() keys %s" % sorted(bundle[1].keys())
        for k in prim:
            if bundle[1][k] != prim[k]:
                return "sun()[%s]=%s differs from %s()=%s" % (k, bundle[1][k], k, prim[k])
    # ordering
    n = _try(lambda: sun.night(o, d, tz))
    if n[0] == "ok" and not n[1][0] < n[1][1]:
        return "night starts %s after it ends %s" % n[1]
    noon = sun.noon(o, d, tz)
    lim = datetime.timedelta(hours=11.5)
    for name, f in (("daylight", lambda: sun.daylight(o, d, tz)),
                    ("twilight", lambda: sun.twilight(o, d, di, tz)),
                    ("golden_hour", lambda: sun.golden_hour(o, d, di, tz)),
                    ("blue_hour", lambda: sun.blue_hour(o, d, di, tz))):
        p = _try(f)
        if p[0] == "ok" and abs(p[1][0] - noon) <= lim and abs(p[1][1] - noon) <= lim:
            if not p[1][0] < p[1][1]:
                return "%s starts %s not before it ends %s" % (name, p[1][0], p[1][1])
    # rahukaalam
    r = _try(lambda: sun.rahukaalam(o, d, daytime, tz))
    if r[0] == "ok":
        if daytime:
            s, e = sun.sunrise(o, d, tz), sun.sunset(o, d, tz)
        else:
            s, e = sun.sunset(o, d, tz), sun.sunrise(o, d + one, tz)
        span = (e.astimezone(datetime.timezone.utc) - s.astimezone(datetime.timezone.utc))
        if datetime.timedelta(0) <= span < one:
            eighth = span / 8
            k = [1, 6, 4, 5, 3, 2, 7][d.weekday()]
            tol = datetime.timedelta(seconds=2)
            if abs((r[1][0] - s) - k * eighth) > tol or abs((r[1][1] - r[1][0]) - eighth) > tol:
                return "rahukaalam %s..%s is not eighth #%d of %s..%s" % (r[1][0], r[1][1], k, s, e)
    return None


def search_C07(rng, deadline, broken):
    while time.time() < deadline:
        o, d, z = _sun_inputs(rng)
        di = rng.choice([1, -1])
        daytime = rng.random() < 0.5
        try:
            r = _c07_one(o, d, z, di, daytime)
        except ValueError:
            continue
        except Exception as exc:  # noqa: BLE001
            r = "raised %r" % (exc,)
        if r:
            return _descr(o, d, z, dir=di, daytime=daytime, clause=r)
    return None


def replay_C07(fi):
    z = _zone_from_descr(fi["zone"])
    o = _obs_from_descr(fi["observer"])
    try:
        return _c07_one(o, datetime.date.fromisoformat(fi["date"]), z, fi["dir"], fi["daytime"]) is None
    except ValueError:
        return True


# ------------------------------------------------------------------ C16
def _c16_parse_case(deg, mn, sc, dr, marks, lim):
    import astral
    s = "%s°" % deg
    want = float(int(deg))
    if mn is not None:
        s += mn + marks[0]
        want += int(mn) / 60
    if sc is not None:
        s += sc + marks[1]
        want += int(sc) / 3600
    if dr:
        s += dr
        if dr in "SsWw":
            want = -want
    if lim is not None:
        want = max(-lim, min(lim, want))
    try:
        got = astral.dms_to_float(s, lim)
    except Exception as exc:  # noqa: BLE001
        return {"clause": "well-formed DMS text is parsed", "text": s, "limit": lim, "got": repr(exc)}
    if abs(got - want) > 1e-9:
        return {"clause": "DMS value = ±(deg + min/60 + sec/3600)", "text": s, "limit": lim,
                "got": got, "want": want}
    return None


def _c16_history(ops_spec):
    """ops_spec: ('Observer'|'LocationInfo'|'Location', init args, [(field, value)…])"""
    from astral import Observer, LocationInfo
    from astral.location import Location
    kind, init, ops = ops_spec
    try:
        if kind == "Observer":
            o = Observer(*init)
        elif kind == "LocationInfo":
            o = LocationInfo("n", "r", "Europe/London", *init)
        else:
            o = Location(LocationInfo("n", "r", "Europe/London", *init))
    except (ValueError, TypeError):
        return None

    def inv(where):
        la, lo = o.latitude, o.longitude
        if type(la) is not float or type(lo) is not float:
            return "%s: latitude/longitude are %s/%s, not floats" % (where, type(la).__name__,
                                                                      type(lo).__name__)
        if not (-90.0 <= la <= 90.0) or not (-180.0 <= lo <= 180.0):
            return "%s: latitude %r / longitude %r out of range" % (where, la, lo)
        if kind == "Observer":
            e = o.elevation
            okf = type(e) is float or (type(e) is tuple and len(e) == 2
                                      and all(type(x) is float for x in e))
            if not okf:
                return "%s: elevation %r is not a float or a pair of floats" % (where, e)
        return None
    r = inv("after construction")
    if r:
        return r
    for i, (f, v) in enumerate(ops):
        try:
            setattr(o, f, v)
        except (ValueError, TypeError):
            pass
        r = inv("after assignment #%d %s=%r" % (i, f, v))
        if r:
            return r
        if f in ("latitude", "longitude") and isinstance(v, (int, float)) and not isinstance(v, bool) \
                and math.isfinite(v):
            lim = 90.0 if f == "latitude" else 180.0
            if getattr(o, f) != max(-lim, min(lim, float(v))):
                return "assigning %s=%r stored %r (expected the clamped value)" % (f, v, getattr(o, f))
    return None


def search_C16(rng, deadline, broken):
    import astral
    import corr_geo
    # 1. the full (deg, min, sec, dir) product with 1/2-digit fields
    degs = ["0", "7", "07", "51", "90", "180", "999", "12"]
    mins = [None, "0", "5", "05", "31", "59", "99"]
    secs = [None, "0", "9", "09", "30", "99"]
    for deg in degs:
        for mn in mins:
            for sc in secs:
                for dr in [None] + list("NSEWnsew"):
                    for marks in (("′", "″"), ("'", '"')):
                        for lim in (None, 90.0, 180.0):
                            r = _c16_parse_case(deg, mn, sc, dr, marks, lim)
                            if r:
                                return r
    # 2. numerals
    for _ in range(3000):
        x = rng.choice([rng.uniform(-400, 400), float(rng.randint(-400, 400)), rng.uniform(-1e9, 1e9)])
        lim = rng.choice([None, 90.0, 180.0])
        want = x if lim is None else max(-lim, min(lim, x))
        for arg in (x, repr(x), " %r " % x):
            try:
                got = astral.dms_to_float(arg, lim)
            except Exception as exc:  # noqa: BLE001
                return {"clause": "a number / numeric string parses to itself", "arg": repr(arg),
                        "limit": lim, "got": repr(exc)}
            if got != want:
                return {"clause": "a number / numeric string parses to itself (clamped)",
                        "arg": repr(arg), "limit": lim, "got": got, "want": want}
    # 3. rejection
    for bad in ["", "x", "north", "°", "N51°", " 12°", "abc12", "--1", "12 deg", "1234°", "′5"]:
        try:
            got = astral.dms_to_float(bad, 90.0)
            return {"clause": "text beginning with neither a number nor a degrees field is rejected",
                    "text": bad, "got": got}
        except ValueError:
            pass
        except Exception as exc:  # noqa: BLE001
            return {"clause": "rejection is a ValueError", "text": bad, "got": repr(exc)}
    # 4. assignment histories
    while time.time() < deadline:
        kind = rng.choice(["Observer", "LocationInfo", "Location"])
        init = [corr_geo.rand_coord_arg(rng), corr_geo.rand_coord_arg(rng)]
        if kind == "Observer":
            init.append(corr_geo.rand_elev_arg(rng))
        fields = ["latitude", "longitude"] + (["elevation"] if kind == "Observer" else [])
        ops = []
        for _ in range(rng.randint(1, 6)):
            f = rng.choice(fields)
            ops.append((f, corr_geo.rand_elev_arg(rng) if f == "elevation" else corr_geo.rand_coord_arg(rng)))
        r = _c16_history((kind, init, ops))
        if r:
            return {"clause": r, "history": [kind, [repr(x) for x in init],
                                             [[f, repr(v)] for f, v in ops]],
                    "py": repr((kind, init, ops))}
    return None


def replay_C16(fi):
    if "py" in fi:
        return _c16_history(eval(fi["py"])) is None  # noqa: S307 - our own replay file
    return False


# ------------------------------------------------------------------ C17
def _san(s):
    return str(s).lower().replace(" ", "_")


_C17_SCANNED = False


def _coord_value(text, limit):
    """independent reading of the coordinate texts the episodes use: d°m'[NSEW] or a numeral"""
    import re
    if isinstance(text, (int, float)):
        return max(-limit, min(limit, float(text)))
    m = re.fullmatch(r"(\d{1,3})\u00b0(?:(\d{1,2})')?([NSEW])?", text)
    if m:
        v = int(m.group(1)) + (int(m.group(2)) / 60.0 if m.group(2) else 0.0)
        if m.group(3) in ("S", "W"):
            v = -v
    else:
        v = float(text)
    return max(-limit, min(limit, v))


def _c17_episode(rng, steps):
    """spec = the log of additions; returns a failure description or None"""
    import astral.geocoder as geo
    import corr_geo
    builtin = rng.random() < 0.5
    db = geo.database() if builtin else {}
    log = []      # records in the order added: (name, region, tz)
    coords = []   # (fields, how it was added) of the records added here
    if builtin:
        for r in geo.all_locations(db):
            log.append((r.name, r.region, r.timezone))
    history = []
    for _ in range(steps):
        fields = corr_geo.rand_item(rng, None)
        fields = (fields[0], fields[1], fields[2], rng.choice(corr_geo.COORDS[:6]),
                  rng.choice(corr_geo.COORDS[:6]))
        if "," in fields[0] or fields[0].startswith("#") or fields[0] != fields[0].strip():
            continue
        form = rng.randint(0, 6)
        extra = None
        if form == 6:
            # ONE list holding two field tuples (usually of different time-zone groups)
            f2 = corr_geo.rand_item(rng, None)
            f2 = (f2[0], f2[1], f2[2], rng.choice(corr_geo.COORDS[:6]), rng.choice(corr_geo.COORDS[:6]))
            if "," in f2[0] or f2[0].startswith("#") or f2[0] != f2[0].strip():
                continue
            extra = f2
            val = [tuple(fields), list(f2)] if rng.random() < 0.5 else [list(fields), tuple(f2)]
        elif form == 5:
            # a field tuple (or list) whose coordinates are numbers, not text
            la, lo = rng.choice([12.5, -33, 0, 89.75]), rng.choice([-100.25, 77, 179.5, 0.0])
            fields = (fields[0], fields[1], fields[2], la, lo)
            val = [tuple(fields)] if rng.random() < 0.5 else [list(fields)]
        elif form == 4:
            # a LIST whose string item holds two lines
            f2 = corr_geo.rand_item(rng, None)
            f2 = (f2[0], f2[1], f2[2], rng.choice(corr_geo.COORDS[:6]), rng.choice(corr_geo.COORDS[:6]))
            if "," in f2[0] or f2[0].startswith("#") or f2[0] != f2[0].strip():
                continue
            extra = f2
            val = [",".join(fields) + "\n" + ",".join(f2)]
        elif form == 3:
            # several records in one text, one per line (with a comment and a blank line)
            f2 = corr_geo.rand_item(rng, None)
            f2 = (f2[0], f2[1], f2[2], rng.choice(corr_geo.COORDS[:6]), rng.choice(corr_geo.COORDS[:6]))
            if "," in f2[0] or f2[0].startswith("#") or f2[0] != f2[0].strip():
                continue
            extra = f2
            val = "# two records\n" + ",".join(fields) + "\n\n" + ",".join(f2) + "\n"
        elif form not in (5, 6):
            val = ",".join(fields) if form == 0 else ([",".join(fields)] if form == 1 else [tuple(fields)])
        history.append(repr(val))
        try:
            geo.add_locations(val, db)
        except Exception as exc:  # noqa: BLE001
            return {"clause": "adding a well-formed record succeeds", "value": repr(val), "got": repr(exc)}
        log.append((fields[0], fields[1], fields[2]))
        coords.append((fields, repr(val)))
        if extra is not None:
            log.append((extra[0], extra[1], extra[2]))
            coords.append((extra, repr(val)))
    # every added record carries the coordinates its text denotes, whatever the input form
    stored = {}
    for r in geo.all_locations(db):
        stored.setdefault((r.name, r.region, r.timezone), []).append((r.latitude, r.longitude))
    for f, how in coords:
        want = (_coord_value(f[3], 90.0), _coord_value(f[4], 180.0))
        if not any(abs(a - want[0]) < 1e-9 and abs(b - want[1]) < 1e-9 for a, b in stored.get((f[0], f[1], f[2]), [])):
            return {"clause": "a stored record keeps the coordinates it was given", "added_as": how,
                    "fields": list(f), "want": want, "stored": stored.get((f[0], f[1], f[2]))}
    got = sorted((r.name, r.region, r.timezone) for r in geo.all_locations(db))
    if got != sorted(log):
        extra = [x for x in got if x not in log][:3]
        missing = [x for x in log if x not in got][:3]
        return {"clause": "listing yields every stored record exactly once", "extra": extra,
                "missing": missing, "history": history}
    groups = {}
    for n, r, t in log:
        groups.setdefault(_san(t.split("/", 1)[0]), []).append((n, r, t))
    # name,region lookups in several spellings
    for n, r, t in rng.sample(log, min(len(log), 25)):
        if not r or _san(n + "," + r) in groups:
            continue
        for q in (n + "," + r, (n + "," + r).upper(), (n + "," + r).lower().replace(" ", "_")):
            if q.strip("\"'") != q or n.strip("\"'") != n or r.strip("\"'") != r:
                continue
            try:
                res = geo.lookup(q, db)
            except Exception as exc:  # noqa: BLE001
                return {"clause": "'name,region' of a stored record is found", "query": q,
                        "got": repr(exc), "history": history}
            if isinstance(res, dict) or _san(res.name) != _san(n) or _san(res.region) != _san(r):
                return {"clause": "'name,region' returns a record with that name and region",
                        "query": q, "got": repr(res), "history": history}
    # bare names: earliest added within the first group (in group-creation order) having it
    order = []
    for n, r, t in log:
        g = _san(t.split("/", 1)[0])
        if g not in order:
            order.append(g)
    for n, r, t in rng.sample(log, min(len(log), 25)):
        if _san(n) in groups or n.strip("\"'") != n:
            continue
        exp = None
        for g in order:
            c = [x for x in groups[g] if _san(x[0]) == _san(n)]
            if c:
                exp = c[0]
                break
        try:
            res = geo.lookup(n, db)
        except Exception as exc:  # noqa: BLE001
            return {"clause": "a bare stored name is found", "query": n, "got": repr(exc),
                    "history": history}
        if isinstance(res, dict) or (res.name, res.region, res.timezone) != exp:
            return {"clause": "a bare name returns the earliest-added record of that name in its group",
                    "query": n, "got": repr(res), "want": exp, "history": history}
    for g in order:
        try:
            res = geo.lookup(g, db)
        except Exception as exc:  # noqa: BLE001
            return {"clause": "a group name returns that group", "query": g, "got": repr(exc)}
        if not isinstance(res, dict):
            return {"clause": "a group name returns that time-zone group", "query": g,
                    "got": repr(res), "history": history}
        if sorted((x.name, x.region, x.timezone) for l in res.values() for x in l) != sorted(groups[g]):
            return {"clause": "the group holds exactly the records of that time-zone group",
                    "query": g, "history": history}
    # the documented parameter names work as keywords and mean the same as the positional call
    if log:
        n, r, t = rng.choice(log)
        g = _san(t.split("/", 1)[0])
        if _san(n) not in groups and n.strip("\"'") == n and g in groups:
            for label, kwc, posc in (
                    ("lookup(name=, db=)", lambda: geo.lookup(name=n, db=db), lambda: geo.lookup(n, db)),
                    ("group(region=, db=)", lambda: geo.group(region=g, db=db), lambda: geo.group(g, db)),
                    ("lookup_in_group(location=, group=)",
                     lambda: geo.lookup_in_group(location=n, group=geo.group(g, db)),
                     lambda: geo.lookup_in_group(n, geo.group(g, db))),
                    ("all_locations(db=)", lambda: len(list(geo.all_locations(db=db))),
                     lambda: len(list(geo.all_locations(db))))):
                def _any(f):
                    try:
                        return ("ok", f())
                    except Exception as exc:  # noqa: BLE001
                        return ("err", "%s: %s" % (type(exc).__name__, str(exc)[:60]))
                ra, rb = _any(kwc), _any(posc)
                if ra[0] != rb[0] or (ra[0] == "ok" and ra[1] is not rb[1] and ra[1] != rb[1]):
                    return {"clause": "%s with the documented keywords gives %s, the positional call %s" % (
                        label, str(ra)[:120], str(rb)[:120]), "history": history}
    global _C17_SCANNED
    if builtin and not _C17_SCANNED:
        _C17_SCANNED = True
        # every built-in place is found by its bare name (none is shadowed by a group key), and
        # what comes back is the stored object itself
        fresh0 = geo.database()
        objs = list(geo.all_locations(fresh0))
        for rec in objs:
            try:
                res = geo.lookup(rec.name, fresh0)
            except Exception as exc:  # noqa: BLE001
                return {"clause": "a bare built-in name is found", "query": rec.name, "got": repr(exc)}
            if isinstance(res, dict):
                return {"clause": "a bare built-in name returns a stored record of that name (here a time-zone "
                                  "group of the same name shadows it)", "query": rec.name}
            if not any(res is x for x in objs):
                return {"clause": "lookup returns a stored record (the object the database holds), not a copy",
                        "query": rec.name}
    known = [n for n, r, t in log if "," not in n and n.strip("\"'") == n][:3]
    for q in ["no such place", "london,nowhere-at-all", "zz,yy"] + [n + ",nowhere-at-all" for n in known]:
        try:
            res = geo.lookup(q, db)
            return {"clause": "unknown names raise KeyError", "query": q, "got": repr(res)}
        except KeyError:
            pass
        except BaseException as exc:  # noqa: BLE001
            return {"clause": "unknown names raise KeyError (and nothing else)", "query": q,
                    "got": repr(exc), "history": history}
    fresh = geo.database()
    n_fresh = sum(1 for _ in geo.all_locations(fresh))
    n_rows = sum(1 for l in geo._LOCATION_INFO.split("\n") if l.strip() and l.strip()[0] != "#")
    if n_fresh != n_rows:
        return {"clause": "a freshly created database is independent of earlier additions",
                "fresh_size": n_fresh, "history": history}
    if not builtin and len(log) and sorted((r.name, r.region, r.timezone)
                                           for r in geo.all_locations(geo.database())) != \
            sorted((r.name, r.region, r.timezone) for r in geo.all_locations(fresh)):
        return {"clause": "databases are independent", "history": history}
    return None


def search_C17(rng, deadline, broken):
    global _C17_SCANNED
    _C17_SCANNED = False
    r0 = None
    for s0 in range(8):                     # an episode that starts from the built-in database
        r0 = _c17_episode(random.Random(1000 + s0), 0)
        if _C17_SCANNED:
            break
    if r0:
        r0["episode_seed"] = 1000
        r0["steps"] = 0
        return r0
    i = 0
    while time.time() < deadline:
        i += 1
        es = rng.randint(0, 2**31)
        steps = rng.randint(0, 12)
        r = _c17_episode(random.Random(es), steps)
        if r:
            r["episode_seed"] = es
            r["steps"] = steps
            return r
        if i > 3000:
            break
    return None


def replay_C17(fi):
    return _c17_episode(random.Random(fi["episode_seed"]), fi["steps"]) is None


# ------------------------------------------------------------------ C02
def _c02_one(lat, lon, dt):
    import astral.sun as sun
    from astral import Observer, refraction_at_zenith
    from oracle import sun_almanac as A
    o = Observer(lat, lon)
    e_true = sun.elevation(o, dt, False)
    z_true = sun.zenith(o, dt, False)
    az = sun.azimuth(o, dt)
    e_app = sun.elevation(o, dt, True)
    if abs(z_true - (90.0 - e_true)) > 1e-9:
        return "zenith %r is not 90 - elevation %r" % (z_true, e_true)
    if not (0.0 <= az < 360.0):
        return "azimuth %r outside [0, 360)" % az
    if not (0.0 <= z_true <= 180.0):
        return "zenith %r outside [0, 180]" % z_true
    r = e_app - e_true
    if abs(r - A.refraction(z_true)) > 1e-9:
        return "apparent - true elevation = %r, refraction model gives %r" % (r, A.refraction(z_true))
    if r < 0 or r >= 0.6 or (e_true >= 85 and r != 0):
        return "refraction %r violates 0 <= r < 0.6 / zero from 85 deg" % r
    u = dt if dt.tzinfo is not None else dt.replace(tzinfo=datetime.timezone.utc)
    alt, aaz = A.alt_az(lat, lon, u)
    tol = 0.03 if abs(lat) <= 89.8 else 0.26
    if abs(alt - e_true) > tol:
        return "elevation %.5f vs independent ephemeris %.5f (tolerance %.2f)" % (e_true, alt, tol)
    if abs(lat) <= 89.8:
        da = abs((aaz - az + 180.0) % 360.0 - 180.0) * math.cos(math.radians(e_true))
        if da > 0.03:
            return "azimuth %.5f vs independent ephemeris %.5f (scaled diff %.4f)" % (az, aaz, da)
    return None


def search_C02(rng, deadline, broken):
    import gens
    import zones
    while time.time() < deadline:
        lat, lon = gens.rand_lat(rng), gens.rand_lon(rng)
        naive = datetime.datetime.fromordinal(rng.randint(gens.D1900, gens.D2100)) + \
            datetime.timedelta(seconds=rng.randint(0, 86399))
        if rng.random() < 0.4:
            dt, zl = naive, "naive"
        else:
            z = zones.rand_zone(rng, naive.date())
            dt, zl = naive.replace(tzinfo=datetime.timezone.utc).astimezone(z.tzinfo), z.describe()
        try:
            r = _c02_one(lat, lon, dt)
        except Exception as exc:  # noqa: BLE001
            r = "raised %r" % (exc,)
        if r:
            return {"clause": r, "latitude": lat, "longitude": lon, "datetime": dt.isoformat(),
                    "zone": zl}
    return None


def replay_C02(fi):
    import zones
    dt = datetime.datetime.fromisoformat(fi["datetime"])
    if fi["zone"] != "naive" and not fi["zone"].startswith("fixed"):
        dt = dt.astimezone(zones.iana(fi["zone"]).tzinfo)
    return _c02_one(fi["latitude"], fi["longitude"], dt) is None


# ------------------------------------------------------------------ C06
CHAIN = [("dawn18", 0), ("dawn12", 0), ("dawn6", 0), ("sunrise", 1), ("rise+6", 2), ("noon", 3),
         ("set+6", 4), ("sunset", 5), ("dusk6", 6), ("dusk12", 6), ("dusk18", 6)]


def _c06_one(o, d, z):
    import astral.sun as sun
    from astral import SunDirection
    tz = z.tzinfo
    fns = {
        "dawn18": lambda: sun.dawn(o, d, 18, tz), "dawn12": lambda: sun.dawn(o, d, 12, tz),
        "dawn6": lambda: sun.dawn(o, d, 6, tz), "sunrise": lambda: sun.sunrise(o, d, tz),
        "rise+6": lambda: sun.time_at_elevation(o, 6, d, SunDirection.RISING, tz),
        "noon": lambda: sun.noon(o, d, tz),
        "set+6": lambda: sun.time_at_elevation(o, 6, d, SunDirection.SETTING, tz),
        "sunset": lambda: sun.sunset(o, d, tz), "dusk6": lambda: sun.dusk(o, d, 6, tz),
        "dusk12": lambda: sun.dusk(o, d, 12, tz), "dusk18": lambda: sun.dusk(o, d, 18, tz),
    }
    noon = fns["noon"]().astimezone(datetime.timezone.utc)
    lim = datetime.timedelta(hours=11.5)
    got = []
    for name, _ in CHAIN:
        try:
            t = fns[name]().astimezone(datetime.timezone.utc)
        except ValueError:
            continue
        if abs(t - noon) <= lim:
            got.append((name, t))
    for (n1, t1), (n2, t2) in zip(got, got[1:]):
        if not t1 < t2:
            return "%s at %s is not before %s at %s" % (n1, t1.isoformat(), n2, t2.isoformat())
    return None


def _c06_mixed(seed):
    """two observers at one place and different heights asked in one process, the first one
    for a subset of the events only: a chain assembled from anything remembered per place
    rather than per observer comes out of order"""
    import zones
    import astral.sun as sun
    from astral import Observer, SunDirection
    rng = random.Random(seed)
    lat, lon = rng.uniform(-55.0, 55.0), rng.uniform(-180.0, 180.0)
    d = datetime.date.fromordinal(rng.randint(693596 + 400, 767010 - 400))
    z = zones.fixed(0)
    high = rng.choice([rng.uniform(20000.0, 60000.0), (rng.uniform(500.0, 3000.0), rng.uniform(50.0, 400.0))])
    elevs = [high, 0.0]
    if rng.random() < 0.5:
        elevs.reverse()
    same_object = rng.random() < 0.4
    o1 = Observer(lat, lon, elevs[0])
    subset = rng.sample(["sun", "dawn6", "dawn12", "sunrise", "rise+6", "sunset", "dusk6", "dusk12"],
                        rng.randint(1, 4))
    for name in subset:
        try:
            if name == "sun":
                sun.sun(o1, d)
            elif name.startswith("dawn"):
                sun.dawn(o1, d, int(name[4:]))
            elif name.startswith("dusk"):
                sun.dusk(o1, d, int(name[4:]))
            elif name == "rise+6":
                sun.time_at_elevation(o1, 6, d, SunDirection.RISING)
            else:
                getattr(sun, name)(o1, d)
        except ValueError:
            pass
    if same_object:
        o1.elevation = elevs[1]
        o2 = o1
    else:
        o2 = Observer(lat, lon, elevs[1])
    if isinstance(o2.elevation, tuple):
        return None                 # KF-FEATURE: the tuple form's own order is a known finding
    r = _c06_one(o2, d, z)
    if r:
        return {"clause": r, "mixed_seed": seed, "sequence": [
            "Observer(%r, %r, %r): %s on %s" % (lat, lon, elevs[0], ", ".join(subset), d),
            ("the same object with elevation = %r" if same_object else "a new Observer at the same place, elevation %r")
            % (elevs[1],), "then the whole chain of events for it"]}
    return None


def search_C06(rng, deadline, broken):
    import gens
    n = 0
    while time.time() < deadline:
        n += 1
        if n % 3 == 0:
            try:
                r = _c06_mixed(rng.randrange(1 << 40))
            except Exception as exc:  # noqa: BLE001
                r = {"clause": "raised %r" % (exc,)}
            if r:
                return r
        o, d, z = _sun_inputs(rng)
        if isinstance(o.elevation, tuple):
            o = gens.rand_observer(rng, tuples=False)     # KF-FEATURE: tuple form is a known finding
        try:
            r = _c06_one(o, d, z)
        except Exception as exc:  # noqa: BLE001
            r = "raised %r" % (exc,)
        if r:
            return _descr(o, d, z, clause=r)
    return None


def replay_C06(fi):
    if "mixed_seed" in fi:
        return _c06_mixed(fi["mixed_seed"]) is None
    return _c06_one(_obs_from_descr(fi["observer"]), datetime.date.fromisoformat(fi["date"]),
                    _zone_from_descr(fi["zone"])) is None


# ------------------------------------------------------------------ C01 / C04
def _tier_tol(lat, rising, t_utc):
    a = abs(lat)
    tol = 0.04 if a <= 75 else (0.08 if a <= 85 else 0.3)
    tod = t_utc.hour * 60 + t_utc.minute
    if rising and tod < 20:
        tol = max(tol, 0.5)       # pinned behaviour: rising event just after 00:00 UTC (D11 tier)
    return tol


def _c01_event(o, d, z, fn, arg, rising, with_refraction=True, given=None):
    """returns a failure description or None for one event call"""
    import astral.sun as sun
    from astral import SunDirection
    from oracle import sun_almanac as A
    tz = z.tzinfo
    di = SunDirection.RISING if rising else SunDirection.SETTING
    if given is not None:
        class _G:
            pass
        _orig = (sun.dawn, sun.dusk, sun.sunrise, sun.sunset, sun.time_at_elevation)
        def _ret(*a, **k):
            if given[0] == "ok":
                return given[1]
            raise given[1]
        sun_ns = _G()
        sun_ns.dawn = sun_ns.dusk = sun_ns.sunrise = sun_ns.sunset = sun_ns.time_at_elevation = _ret
        sun = sun_ns
    try:
        if fn == "dawn_dusk":
            t = (sun.dawn if rising else sun.dusk)(o, d, arg, tz)
            zen = 90.0 + arg
        elif fn == "rise_set":
            t = (sun.sunrise if rising else sun.sunset)(o, d, tz)
            zen = 90.0 + 16.0 / 60.0
        else:
            t = sun.time_at_elevation(o, arg, d, di, tz, with_refraction)
            el = arg
            if el > 90.0:
                el, rising = 180.0 - el, False
            zen = 90.0 - el
    except ValueError:
        return None
    adj = A.dip(o.elevation) if isinstance(o.elevation, float) else 0.0
    zeff = zen + adj + (A.refraction(zen + adj) if with_refraction else 0.0)
    target = 90.0 - zeff
    u = t.astimezone(datetime.timezone.utc)
    lat = max(-89.8, min(89.8, o.latitude))
    alt, _ = A.alt_az(lat, o.longitude, u)
    tol = _tier_tol(o.latitude, rising, u)
    if abs(alt - target) > tol:
        return "sun's centre at %.4f deg at the returned instant %s, defining altitude %.4f (tolerance %.2f)" % (
            alt, t.isoformat(), target, tol)
    a1 = A.alt_az(lat, o.longitude, u - datetime.timedelta(seconds=60))[0]
    a2 = A.alt_az(lat, o.longitude, u + datetime.timedelta(seconds=60))[0]
    if abs(a2 - a1) > 0.02:       # skip grazing events where the direction is not resolvable
        if rising and a2 < a1:
            return "rising event at %s but the sun is descending" % t.isoformat()
        if (not rising) and a2 > a1:
            return "setting event at %s but the sun is climbing" % t.isoformat()
    return None


def _rand_event_spec(rng):
    import gens
    k = rng.random()
    rising = rng.random() < 0.5
    if k < 0.35:
        return "dawn_dusk", gens.rand_depression(rng), rising, True
    if k < 0.6:
        return "rise_set", None, rising, True
    return "tae", rng.choice([6.0, -6.0, -4.0, rng.uniform(-20, 60), rng.uniform(100, 170)]), rising, \
        rng.random() < 0.6


class _PlainZone:
    def __init__(self, tzinfo, label):
        self.tzinfo = tzinfo
        self.label = label

    def describe(self):
        return self.label


def _c01_via_location(seed):
    """the object-oriented path: a Location used for several calls in a row; each returned
    instant is judged against the observer that call was asked for"""
    import zoneinfo
    rng = random.Random(seed)
    from astral import LocationInfo, Observer, SunDirection
    from astral.location import Location
    tzn = rng.choice(["Europe/London", "Asia/Tokyo", "America/New_York", "Asia/Kolkata", "UTC"])
    loc = Location(LocationInfo("n", "r", tzn, rng.uniform(-60, 60), rng.uniform(-180, 180)))
    d = datetime.date.fromordinal(rng.randint(693596, 767010))
    hist = []
    for _ in range(rng.randint(2, 5)):
        k = rng.choice(["sunrise", "sunset", "dawn", "dusk", "tae", "setlon", "setlat"])
        local = rng.random() < 0.5
        z = _PlainZone(zoneinfo.ZoneInfo(tzn), tzn) if local else _PlainZone(datetime.timezone.utc, "UTC")
        elev = rng.choice([0.0, rng.uniform(0, 4000.0)])
        try:
            if k == "setlon":
                loc.longitude = rng.uniform(-180, 180)
                hist.append("longitude=%r" % loc.longitude)
                continue
            if k == "setlat":
                loc.latitude = rng.uniform(-60, 60)
                hist.append("latitude=%r" % loc.latitude)
                continue
            if k == "tae":
                e = rng.uniform(-5, 20)
                rising = rng.random() < 0.5
                hist.append("time_at_elevation(%r, %s, rising=%s, local=%s)" % (e, d, rising, local))
                t = loc.time_at_elevation(e, d, SunDirection.RISING if rising else SunDirection.SETTING, local)
                r = _c01_event(Observer(loc.latitude, loc.longitude, 0.0), d, z, "tae", e, rising, True, ("ok", t))
            else:
                rising = k in ("sunrise", "dawn")
                hist.append("%s(%s, local=%s, observer_elevation=%r)" % (k, d, local, elev))
                t = getattr(loc, k)(d, local, elev)
                dep = loc.solar_depression
                r = _c01_event(Observer(loc.latitude, loc.longitude, elev), d, z,
                               "rise_set" if k in ("sunrise", "sunset") else "dawn_dusk",
                               None if k in ("sunrise", "sunset") else float(dep), rising, True, ("ok", t))
        except ValueError:
            continue
        if r:
            return {"clause": r, "via": "astral.location.Location", "timezone": tzn,
                    "sequence": list(hist), "location_seed": seed}
    return None


def search_C01(rng, deadline, broken):
    import gens
    n = 0
    while time.time() < deadline:
        n += 1
        if n % 4 == 0:
            ls = rng.randrange(1 << 40)
            try:
                r = _c01_via_location(ls)
            except Exception as exc:  # noqa: BLE001
                r = {"clause": "raised %r" % (exc,), "via": "astral.location.Location", "location_seed": ls}
            if r:
                return r
        o, d, z = _sun_inputs(rng)
        if isinstance(o.elevation, tuple) or abs(o.latitude) > 89.8:
            continue                           # tuple form: KF-FEATURE (C10); beyond ±89.8: clamped
        fn, arg, rising, wr = _rand_event_spec(rng)
        try:
            r = _c01_event(o, d, z, fn, arg, rising, wr)
        except Exception as exc:  # noqa: BLE001
            r = "raised %r" % (exc,)
        if r:
            return _descr(o, d, z, function=fn, arg=arg, rising=rising, with_refraction=wr, clause=r)
    return None


def replay_C01(fi):
    if fi.get("via"):
        try:
            return _c01_via_location(fi["location_seed"]) is None
        except Exception:  # noqa: BLE001
            return False
    return _c01_event(_obs_from_descr(fi["observer"]), datetime.date.fromisoformat(fi["date"]),
                      _zone_from_descr(fi["zone"]), fi["function"], fi["arg"], fi["rising"],
                      fi["with_refraction"]) is None


def _c04_one(o, d, z, fn, dep, rising):
    """verdict truthfulness for dawn/dusk/sunrise/sunset at a float elevation"""
    import astral.sun as sun
    from oracle import sun_almanac as A
    tz = z.tzinfo
    if fn == "dawn_dusk":
        f = (sun.dawn if rising else sun.dusk)
        call_ = lambda: f(o, d, dep, tz)  # noqa: E731
        zen = 90.0 + dep
    else:
        f = (sun.sunrise if rising else sun.sunset)
        call_ = lambda: f(o, d, tz)  # noqa: E731
        zen = 90.0 + 16.0 / 60.0
    adj = A.dip(o.elevation) if isinstance(o.elevation, float) else 0.0
    target = 90.0 - (zen + adj + A.refraction(zen + adj))
    lat = max(-89.8, min(89.8, o.latitude))
    start = datetime.datetime(d.year, d.month, d.day, tzinfo=tz)
    end = start + datetime.timedelta(days=1)
    su, eu = start.astimezone(datetime.timezone.utc), end.astimezone(datetime.timezone.utc)
    lo, hi = A.altitude_extremes(lat, o.longitude, su)
    margin = 0.6 if abs(o.latitude) <= 85 else 1.0
    cr = [c for c in A.crossings(lat, o.longitude, target, su, eu, rising)
          if c - su >= datetime.timedelta(minutes=30) and eu - c >= datetime.timedelta(minutes=30)]
    # D11 (known finding): a rising event within ~20 min of 00:00 UTC may be lost to the UTC-day wrap
    cr_clear = [c for c in cr if not (rising and (c.hour * 60 + c.minute < 20 or c.hour * 60 + c.minute > 1420))]
    clear = lo + margin <= target <= hi - margin
    try:
        t = call_()
        return None
    except ValueError as exc:
        msg = str(exc)
    if clear and cr_clear:
        return "raised %r although the sun crosses %.3f deg %s at %s (day's altitude range %.2f..%.2f)" % (
            msg, target, "rising" if rising else "setting", cr_clear[0].isoformat(), lo, hi)
    if hi + margin <= target and ("always above" in msg):
        return "reported %r although the sun stays below %.3f deg all day (max %.2f)" % (msg, target, hi)
    if lo - margin >= target and ("always below" in msg):
        return "reported %r although the sun stays above %.3f deg all day (min %.2f)" % (msg, target, lo)
    if clear and ("always above" in msg or "always below" in msg):
        return "reported %r although the sun's altitude ranges over %.2f..%.2f that day, on both sides of %.3f" % (
            msg, lo, hi, target)
    return None


def _c04_reuse(seed):
    """one Observer object used at a high elevation, lowered to the ground, and then asked about
    a day on which the sun only just dips below the horizon (polar-circle transition): a verdict
    computed from anything remembered about the earlier elevation is wrong there"""
    import zones
    import astral.sun as sun
    from astral import Observer
    rng = random.Random(seed)
    north = rng.random() < 0.5
    alat = rng.uniform(68.0, 84.0)
    lat = alat if north else -alat
    lon = rng.choice([1, -1]) * rng.uniform(60.0, 120.0)
    big = rng.uniform(1500.0, 6000.0)
    o = Observer(lat, lon, big)
    year = rng.randint(1950, 2080)
    seq = ["Observer(%r, %r, %r)" % (lat, lon, big)]
    for f in (sun.sunrise, sun.dusk):
        try:
            f(o, datetime.date(year, 3, 20))
        except ValueError:
            pass
    seq.append("sunrise/dusk on %d-03-20; then observer.elevation = 0.0" % year)
    o.elevation = 0.0
    depth = rng.uniform(1.6, 2.3)                # how far the sun dips at solar midnight
    decl = 90.0 - alat - depth
    k = int(round(math.degrees(math.asin(max(-1.0, min(1.0, decl / 23.44)))) / 360.0 * 365.25))
    if north:
        cands = [datetime.date(year, 3, 20) + datetime.timedelta(days=k),
                 datetime.date(year, 9, 22) - datetime.timedelta(days=k)]
    else:
        cands = [datetime.date(year, 9, 22) + datetime.timedelta(days=k),
                 datetime.date(year + 1, 3, 20) - datetime.timedelta(days=k)]
    z = zones.fixed(0)
    for d0 in cands:
        for dd in (-2, -1, 0, 1, 2):
            d = d0 + datetime.timedelta(days=dd)
            for rising in (True, False):
                try:
                    r = _c04_one(o, d, z, "rise_set", 0.0, rising)
                except Exception as exc:  # noqa: BLE001
                    r = "raised %r" % (exc,)
                if r:
                    return {"clause": r, "sequence": seq + ["%s on %s" % ("sunrise" if rising else "sunset", d)],
                            "reuse_seed": seed}
    return None


def _c04_spellings(seed):
    """whether an event is returned or a ValueError raised does not depend on how the request is
    spelled: positionally, by the documented keywords, or with the date left out while the clock
    shows that date — near the polar circles, where the outcomes differ from day to day"""
    import zoneinfo
    import astral.sun as sun
    from astral import Observer
    import corr_norm
    rng = random.Random(seed)
    lat = rng.choice([1, -1]) * rng.uniform(58.0, 72.0)
    lon = rng.uniform(-180, 180)
    o = Observer(lat, lon)
    d = datetime.date(rng.randint(1950, 2080), rng.choice([5, 6, 7, 11, 12, 1]), rng.randint(1, 28))
    name = rng.choice(["Asia/Tokyo", "Pacific/Auckland", "America/Anchorage", "Europe/Oslo", "UTC"])
    tz = zoneinfo.ZoneInfo(name)
    dep = rng.choice([2.0, 6, 12, 18.0])
    # a clock reading on that date in the zone, away from its midnight
    now = datetime.datetime(d.year, d.month, d.day, 12, 0, tzinfo=tz).astimezone(datetime.timezone.utc)
    forms = [
        ("dawn", lambda: sun.dawn(o, d, dep, tz), lambda: sun.dawn(observer=o, date=d, depression=dep, tzinfo=tz),
         lambda: sun.dawn(o, depression=dep, tzinfo=tz)),
        ("dusk", lambda: sun.dusk(o, d, dep, tz), lambda: sun.dusk(observer=o, date=d, depression=dep, tzinfo=tz),
         lambda: sun.dusk(o, depression=dep, tzinfo=tz)),
        ("sunrise", lambda: sun.sunrise(o, d, tz), lambda: sun.sunrise(observer=o, date=d, tzinfo=tz),
         lambda: sun.sunrise(o, tzinfo=tz)),
        ("sunset", lambda: sun.sunset(o, d, tz), lambda: sun.sunset(observer=o, date=d, tzinfo=tz),
         lambda: sun.sunset(o, tzinfo=tz)),
        ("sun", lambda: sun.sun(o, d, dep, tz),
         lambda: sun.sun(observer=o, date=d, dawn_dusk_depression=dep, tzinfo=tz),
         lambda: sun.sun(o, dawn_dusk_depression=dep, tzinfo=tz)),
    ]

    def _any(f):
        try:
            return ("ok", f())
        except Exception as exc:  # noqa: BLE001
            return ("err", "%s: %s" % (type(exc).__name__, str(exc)[:70]))
    for label, pos, kw, omitted in forms:
        a, b = _any(pos), _any(kw)
        with corr_norm.FrozenClock(now):
            c = _any(omitted)
        if a != b:
            return {"clause": "%s for %s: positional call %s, the same call by documented keywords %s" % (
                label, d, str(a)[:150], str(b)[:150]), "spell_seed": seed}
        if a != c:
            return {"clause": "%s for %s: with the date given %s, with the date omitted at clock reading %s %s" % (
                label, d, str(a)[:150], now.isoformat(), str(c)[:150]), "spell_seed": seed}
    return None


def search_C04(rng, deadline, broken):
    import gens
    n = 0
    while time.time() < deadline:
        n += 1
        if n % 4 == 1:
            try:
                r = _c04_spellings(rng.randrange(1 << 40))
            except Exception:  # noqa: BLE001
                r = None
            if r:
                return r
        if n % 3 == 0:
            r = _c04_reuse(rng.randrange(1 << 40))
            if r:
                return r
        o, d, z = _sun_inputs(rng)
        if isinstance(o.elevation, tuple) or abs(o.latitude) > 89.8:
            continue
        fn = rng.choice(["dawn_dusk", "rise_set"])
        dep = rng.choice([6.0, 12.0, 18.0, rng.uniform(0.3, 25)])
        rising = rng.random() < 0.5
        try:
            r = _c04_one(o, d, z, fn, dep, rising)
        except Exception as exc:  # noqa: BLE001
            r = "raised %r" % (exc,)
        if r:
            return _descr(o, d, z, function=fn, dep=dep, rising=rising, clause=r)
    return None


def replay_C04(fi):
    if "spell_seed" in fi:
        return _c04_spellings(fi["spell_seed"]) is None
    if "reuse_seed" in fi:
        return _c04_reuse(fi["reuse_seed"]) is None
    return _c04_one(_obs_from_descr(fi["observer"]), datetime.date.fromisoformat(fi["date"]),
                    _zone_from_descr(fi["zone"]), fi["function"], fi["dep"], fi["rising"]) is None


# ------------------------------------------------------------------ C10
def _in_kink(h):
    """N2 (known finding): dip + 16' within the non-monotone window of the refraction model"""
    from oracle import sun_almanac as A
    x = A.dip(h) + 16.0 / 60.0 if h > 0 else 16.0 / 60.0
    return 0.5745 <= x <= 0.5756


def _c10_pair(lat, lon, d, h1, h2):
    import astral.sun as sun
    from astral import Observer
    us = datetime.timedelta(microseconds=2)
    o1, o2 = Observer(lat, lon, h1), Observer(lat, lon, h2)
    for name, f, sign in (("sunrise", sun.sunrise, 1), ("sunset", sun.sunset, -1),
                          ("dawn", sun.dawn, 1), ("dusk", sun.dusk, -1)):
        try:
            t1, t2 = f(o1, d), f(o2, d)
        except ValueError:
            continue
        if abs(t1 - t2) > datetime.timedelta(hours=6):
            continue
        if sign == 1 and t2 > t1 + us:
            return "%s at %r m is %s, later than %s at the lower elevation %r m" % (name, h2, t2, t1, h1)
        if sign == -1 and t2 < t1 - us:
            return "%s at %r m is %s, earlier than %s at the lower elevation %r m" % (name, h2, t2, t1, h1)
        if h2 <= 0 and t1 != t2:
            return "%s differs between non-positive elevations %r and %r" % (name, h1, h2)
    return None


def search_C10(rng, deadline, broken):
    import gens
    import astral.sun as sun
    from astral import Observer
    while time.time() < deadline:
        lat, lon = rng.uniform(-70, 70), gens.rand_lon(rng)
        d = gens.rand_date(rng, wide=False)
        hs = sorted(rng.choice([rng.uniform(-500, 0), 0.0, 10 ** rng.uniform(-3, 5.6),
                                rng.uniform(0, 9000), float(rng.randint(0, 9000))]) for _ in range(2))
        if hs[0] == hs[1] or _in_kink(hs[0]) or _in_kink(hs[1]):
            continue
        vals = [hs[0], hs[1]]
        if rng.random() < 0.3:      # ints must behave like the equal floats
            vals = [int(hs[0]) if hs[0] == int(hs[0]) else hs[0], int(hs[1]) if hs[1] == int(hs[1]) else hs[1]]
        try:
            r = _c10_pair(lat, lon, d, vals[0], vals[1])
        except Exception as exc:  # noqa: BLE001
            r = "raised %r" % (exc,)
        if r:
            return {"clause": r, "latitude": lat, "longitude": lon, "date": d.isoformat(),
                    "h1": vals[0], "h2": vals[1]}
        # sea level: zero or negative behaves exactly like 0.0
        hneg = rng.choice([-500.0, -1.0, -0.001, -0.0, 0])
        try:
            a = sun.sunrise(Observer(lat, lon, hneg), d)
            b = sun.sunrise(Observer(lat, lon, 0.0), d)
            if a != b:
                return {"clause": "sunrise at elevation %r (%s) differs from sea level (%s)" % (hneg, a, b),
                        "latitude": lat, "longitude": lon, "date": d.isoformat(), "h1": hneg, "h2": 0.0}
        except ValueError:
            pass
        # feature tuples: sign only (the size is KF-FEATURE)
        dh, dist = rng.choice([-1, 1]) * 10 ** rng.uniform(-3, 4), 10 ** rng.uniform(0, 5)
        try:
            lv = sun.sunrise(Observer(lat, lon, 0.0), d)
            tv = sun.sunrise(Observer(lat, lon, (dh, dist)), d)
            if abs(lv - tv) < datetime.timedelta(hours=6):
                if dh > 0 and tv > lv or dh < 0 and tv < lv:
                    return {"clause": "feature tuple (%r, %r): sunrise %s vs level %s has the wrong sign" % (
                        dh, dist, tv, lv), "latitude": lat, "longitude": lon, "date": d.isoformat(),
                        "h1": 0.0, "h2": 0.0}
        except ValueError:
            pass
    return None


def replay_C10(fi):
    return _c10_pair(fi["latitude"], fi["longitude"], datetime.date.fromisoformat(fi["date"]),
                     fi["h1"], fi["h2"]) is None


# ------------------------------------------------------------------ C05
def _c05_one(lat, lon, d, z):
    import astral.sun as sun
    from astral import Observer
    from oracle import sun_almanac as A
    o = Observer(lat, lon)
    tz = z.tzinfo
    n = sun.noon(o, d, tz)
    m = sun.midnight(o, d, tz)
    un, um = n.astimezone(datetime.timezone.utc), m.astimezone(datetime.timezone.utc)
    hn = A.hour_angle(un, lon)
    if abs(hn) > 0.25:
        return "hour angle at the reported noon %s is %.3f deg (not within 0.25 of 0)" % (n.isoformat(), hn)
    hm = A.hour_angle(um, lon)
    if 180.0 - abs(hm) > 0.25:
        return "hour angle at the reported midnight %s is %.3f deg (not within 0.25 of 180)" % (m.isoformat(), hm)
    cl = max(-89.8, min(89.8, lat))
    a0 = A.alt_az(cl, lon, un)[0]
    for dt_ in (-600, 600):
        a1 = A.alt_az(cl, lon, un + datetime.timedelta(seconds=dt_))[0]
        if a1 > a0 + 0.01:
            return "the sun is %.4f deg higher %d s from the reported noon %s" % (a1 - a0, dt_, n.isoformat())
    off_h = n.utcoffset().total_seconds() / 3600.0
    diff = (off_h - lon / 15.0 + 12.0) % 24.0 - 12.0
    if abs(diff) <= 5.6 and n.date() != d:       # six hours less the equation of time and a margin
        return "noon %s is not on the requested date %s although the zone is within six hours of mean solar time" % (
            n.isoformat(), d)
    start = datetime.datetime(d.year, d.month, d.day, tzinfo=tz)
    dist = abs((m - start).total_seconds())
    if dist > 12 * 3600 + 60:
        return "midnight %s is %.2f h from 00:00 of %s in the zone (more than 12 h)" % (
            m.isoformat(), dist / 3600.0, d)
    # the requested date spelled as a datetime (a datetime is a date): still the midnight nearest
    # to 00:00 of that calendar date
    hh = (d.toordinal() * 7 + 5) % 24
    for darg in (datetime.datetime(d.year, d.month, d.day, hh, 30),
                 datetime.datetime(d.year, d.month, d.day, 23, 10, tzinfo=datetime.timezone.utc)):
        m2 = sun.midnight(o, darg, tz)
        dist2 = abs((m2 - start).total_seconds())
        if dist2 > 12 * 3600 + 60:
            return "midnight for the date given as %r is %s, %.2f h from 00:00 of %s in the zone (more than 12 h)" % (
                darg, m2.isoformat(), dist2 / 3600.0, d)
    return None


def search_C05(rng, deadline, broken):
    import gens
    import zones
    while time.time() < deadline:
        d0 = gens.rand_date(rng, wide=False)
        z = zones.rand_zone(rng, d0)
        lat, lon = gens.rand_lat(rng), gens.rand_lon(rng)
        # a second call in another zone first: caches keyed without the zone show up
        try:
            import astral.sun as sun
            from astral import Observer
            sun.noon(Observer(lat, lon), d0)
            r = _c05_one(lat, lon, d0, z)
        except Exception as exc:  # noqa: BLE001
            r = "raised %r" % (exc,)
        if r:
            return {"clause": r, "latitude": lat, "longitude": lon, "date": d0.isoformat(),
                    "zone": z.describe()}
    return None


def replay_C05(fi):
    return _c05_one(fi["latitude"], fi["longitude"], datetime.date.fromisoformat(fi["date"]),
                    _zone_from_descr(fi["zone"])) is None


# ------------------------------------------------------------------ C08
def _c08_one(lat, lon, naive_utc, z):
    import astral.sun as sun
    from astral import Observer
    o = Observer(lat, lon)
    u = naive_utc.replace(tzinfo=datetime.timezone.utc)
    loc = u.astimezone(z.tzinfo)
    import gens as _g
    import zones as _z
    others = [(loc, "written as %s" % loc.isoformat()),
              (_g.as_sub(naive_utc), "given as an instance of a datetime subclass (naive)"),
              (_g.as_sub(loc), "written as %s, an instance of a datetime subclass" % loc.isoformat())]
    if getattr(z, "iana", None):
        loc2 = u.astimezone(_z.docs(z))
        others.append((loc2, "written as %s with a user-defined tzinfo for %s" % (loc2.isoformat(), z.iana)))
    for name, f in (("elevation", sun.elevation), ("zenith", sun.zenith), ("azimuth", sun.azimuth)):
        a, b = f(o, naive_utc), f(o, u)
        da = abs(a - b)
        if name == "azimuth":
            da = min(da, 360 - da)
        if da > 1e-6:
            return "%s: naive %r vs aware UTC %r" % (name, a, b)
        for dtx, how in others:
            c = f(o, dtx)
            db = abs(b - c)
            if name == "azimuth":
                db = min(db, 360 - db)
            if db > 1e-6:
                return "%s: %r in UTC vs %r for the same instant %s" % (name, b, c, how)
    return None


def search_C08(rng, deadline, broken):
    import gens
    import zones
    while time.time() < deadline:
        lat, lon = gens.rand_lat(rng), gens.rand_lon(rng)
        naive = datetime.datetime.fromordinal(rng.randint(gens.D1900, gens.D2100)) + \
            datetime.timedelta(seconds=rng.randint(0, 86399))
        z = zones.rand_zone(rng, naive.date())
        try:
            r = _c08_one(lat, lon, naive, z)
        except Exception as exc:  # noqa: BLE001
            r = "raised %r" % (exc,)
        if r:
            return {"clause": r, "latitude": lat, "longitude": lon, "utc": naive.isoformat(),
                    "zone": z.describe()}
    return None


def replay_C08(fi):
    return _c08_one(fi["latitude"], fi["longitude"], datetime.datetime.fromisoformat(fi["utc"]),
                    _zone_from_descr(fi["zone"])) is None


# ------------------------------------------------------------------ C11
def search_C11(rng, deadline, broken):
    import astral.moon as moon
    from oracle import moon_almanac as M
    fromord = datetime.date.fromordinal
    prev = None
    # the phase asked for in other spellings: by keyword, and with the date left out while a
    # running clock passes 00:00 UTC (today = the date at the moment of the call; still in [0, 28))
    import corr_norm
    for o in [730120 + 29 * k + j for k in range(0, 40) for j in (0, 7)]:
        d = fromord(o)
        try:
            a, b = moon.phase(d), moon.phase(date=d)
        except Exception as exc:  # noqa: BLE001
            return {"clause": "phase(date=…) raised %r" % (exc,), "date": str(d), "spelling": "keyword"}
        if a != b:
            return {"clause": "phase(%s) = %r but phase(date=%s) = %r" % (d, a, d, b), "date": str(d),
                    "spelling": "keyword"}
        now = datetime.datetime(d.year, d.month, d.day, 23, 59, 59, tzinfo=datetime.timezone.utc)
        with corr_norm.FrozenClock(now, datetime.timedelta(seconds=3)):
            try:
                c = moon.phase()
            except Exception as exc:  # noqa: BLE001
                return {"clause": "phase() raised %r" % (exc,), "date": str(d), "spelling": "omitted"}
        if c != a:
            return {"clause": "phase() while the clock runs from %s gives %r; the phase of that date is %r" % (
                now.isoformat(), c, a), "date": str(d), "spelling": "omitted"}
    # exhaustive: range and daily advance for every date
    for o in range(1, 3652060):
        try:
            p = moon.phase(fromord(o))
        except Exception as exc:  # noqa: BLE001
            return {"clause": "phase raised %r" % (exc,), "date": str(fromord(o))}
        if not (type(p) is float and 0.0 <= p < 28.0):
            return {"clause": "phase %r outside [0, 28)" % (p,), "date": str(fromord(o))}
        if prev is not None:
            adv = (p - prev) % 28.0
            if not (0.7 <= adv <= 1.3):
                return {"clause": "daily advance %.4f (mod 28) outside [0.7, 1.3]" % adv,
                        "date": str(fromord(o)), "previous": prev, "phase": p}
        prev = p
        if o % 200000 == 0 and time.time() > deadline + 600:
            break
    # agreement with an independent elongation, 1900-2100
    d = datetime.date(1900, 1, 1)
    while d <= datetime.date(2100, 12, 31):
        dt = datetime.datetime(d.year, d.month, d.day, tzinfo=datetime.timezone.utc)
        want = (M.elongation(dt) / 360.0 * 28.0 + 0.5) % 28.0
        got = moon.phase(d)
        diff = abs((got - want + 14.0) % 28.0 - 14.0)
        if diff > 0.25:
            return {"clause": "phase %.4f vs 28/360·elongation + 0.5 = %.4f (circular diff %.3f > 0.25)" % (
                got, want, diff), "date": str(d)}
        d += datetime.timedelta(days=1)
    return None


def replay_C11(fi):
    import astral.moon as moon
    d = datetime.date.fromisoformat(fi["date"])
    if fi.get("spelling") == "keyword":
        try:
            return moon.phase(d) == moon.phase(date=d)
        except Exception:  # noqa: BLE001
            return False
    if fi.get("spelling") == "omitted":
        import corr_norm
        now = datetime.datetime(d.year, d.month, d.day, 23, 59, 59, tzinfo=datetime.timezone.utc)
        with corr_norm.FrozenClock(now, datetime.timedelta(seconds=3)):
            try:
                c = moon.phase()
            except Exception:  # noqa: BLE001
                return False
        return c == moon.phase(d)
    p = moon.phase(d)
    if not (0.0 <= p < 28.0):
        return False
    if d.toordinal() > 1:
        adv = (p - moon.phase(d - datetime.timedelta(days=1))) % 28.0
        return 0.7 <= adv <= 1.3
    return True


# ------------------------------------------------------------------ C12
def _c12_one(lat, lon, naive_utc, z, o=None):
    import astral.moon as moon
    from astral import Observer
    from oracle import moon_meeus as M
    if o is None:
        o = Observer(lat, lon)
    u = naive_utc.replace(tzinfo=datetime.timezone.utc)
    loc = u.astimezone(z.tzinfo)
    az, el, ze = moon.azimuth(o, naive_utc), moon.elevation(o, naive_utc), moon.zenith(o, naive_utc)
    if not (type(az) is float and 0.0 <= az < 360.0):
        return "azimuth %r outside [0, 360)" % (az,)
    if not (-90.0 <= el <= 90.0):
        return "elevation %r outside [-90, 90]" % (el,)
    if abs(ze - (90.0 - el)) > 1e-9:
        return "zenith %r is not 90 - elevation %r" % (ze, el)
    import gens as _g
    import zones as _z
    spellings = [u, loc, _g.as_sub(naive_utc), _g.as_sub(loc)]
    if getattr(z, "iana", None):
        spellings.append(u.astimezone(_z.docs(z)))
    for name, f, ref in (("azimuth", moon.azimuth, az), ("elevation", moon.elevation, el)):
        for spelled in spellings:
            v = f(o, spelled)
            dv = abs(v - ref)
            if name == "azimuth":
                dv = min(dv, 360.0 - dv)
            if dv > 1e-6:
                return "%s %r for %s (%s, tzinfo %r) differs from %r for the same instant as naive UTC" % (
                    name, v, spelled.isoformat(), type(spelled).__name__, spelled.tzinfo, ref)
    alt, aaz = M.alt_az(lat, lon, u)
    # Meeus ch. 47 (another lunar theory); residual on the unchanged tree ≤ 0.021° over 40 000
    # random observers and instants incl. the poles — the property's 0.05° is used as it stands
    if abs(alt - el) > 0.05:
        return "elevation %.4f vs independent lunar ephemeris %.4f (0.05 deg)" % (el, alt)
    daz = abs((az - aaz + 180.0) % 360.0 - 180.0) * math.cos(math.radians(alt))
    if alt > 89.0 or alt < -89.0:
        # next to the zenith the azimuth is ill-conditioned (two directions 0.03° apart can be
        # 180° apart in azimuth): judge the angular separation of the two directions instead
        c = (math.sin(math.radians(el)) * math.sin(math.radians(alt))
             + math.cos(math.radians(el)) * math.cos(math.radians(alt)) * math.cos(math.radians(az - aaz)))
        daz = 0.0 if math.degrees(math.acos(max(-1.0, min(1.0, c)))) <= 0.07 else daz
    if daz > 0.05:
        return "azimuth %.4f vs independent lunar ephemeris %.4f (scaled difference %.4f > 0.05)" % (
            az, aaz, daz)
    return None


def search_C12(rng, deadline, broken):
    import gens
    import zones
    import corr_moon
    n = 0
    while time.time() < deadline:
        n += 1
        lat, lon = gens.rand_lat(rng), gens.rand_lon(rng)
        naive = datetime.datetime.fromordinal(rng.randint(gens.D1900, gens.D2100)) + \
            datetime.timedelta(seconds=rng.randint(0, 86399))
        if n % 2 == 0:
            # the moon at the zenith / nadir: where an inverse sine or cosine runs out of domain
            try:
                sl = corr_moon.sublunar(rng, naive)
            except Exception:  # noqa: BLE001
                sl = None
            if sl is not None:
                lat, lon = sl
        z = zones.rand_zone(rng, naive.date())
        try:
            r = _c12_one(lat, lon, naive, z)
        except Exception as exc:  # noqa: BLE001
            r = "raised %r" % (exc,)
        if r:
            return {"clause": r, "latitude": lat, "longitude": lon, "utc": naive.isoformat(),
                    "zone": z.describe()}
    return None


def replay_C12(fi):
    return _c12_one(fi["latitude"], fi["longitude"], datetime.datetime.fromisoformat(fi["utc"]),
                    _zone_from_descr(fi["zone"])) is None


# ------------------------------------------------------------------ C13 / C14
def _moon_target(dist=60.3):
    return -(1896.0 / 3600.0) + 41.685 / dist      # ≈ +0.16°: altitude of the centre at rise/set


def _moon_alt(lat, lon, t):
    """geocentric altitude of the moon's centre by the independent (Meeus ch. 47) ephemeris"""
    from oracle import moon_meeus as M
    return M.alt_az(lat, lon, t)[0]


def _c13_one(lat, lon, d, z, which, given=None, hhmm=None):
    import astral.moon as moon
    from astral import Observer
    o = Observer(lat, lon)
    if given is not None:
        if given[0] != "ok":
            return None
        t = given[1]
    else:
        darg = d
        if hhmm is not None:
            # the date spelled as a datetime with a time of day: it means its calendar date
            darg = datetime.datetime(d.year, d.month, d.day, hhmm[0], hhmm[1])
        try:
            t = getattr(moon, which)(o, darg, z.tzinfo)
        except ValueError:
            return None
    if t is None:
        return None
    el = _moon_alt(lat, lon, t)
    if abs(el - 0.16) > 0.45 + 0.05:
        return "%s at %s: an independent lunar ephemeris has the moon at %.3f deg (rise/set altitude ≈ +0.16)" % (
            which, t.isoformat(), el)
    a = _moon_alt(lat, lon, t - datetime.timedelta(minutes=5))
    b = _moon_alt(lat, lon, t + datetime.timedelta(minutes=5))
    if abs(b - a) > 0.1:
        if which == "moonrise" and b < a:
            return "moonrise at %s but the moon is descending (%.3f -> %.3f)" % (t.isoformat(), a, b)
        if which == "moonset" and b > a:
            return "moonset at %s but the moon is climbing (%.3f -> %.3f)" % (t.isoformat(), a, b)
    return None


def search_C13(rng, deadline, broken):
    import gens
    import zones
    while time.time() < deadline:
        lat, lon = rng.uniform(-70, 70), gens.rand_lon(rng)
        d = gens.rand_date(rng, wide=False)
        z = zones.rand_zone(rng, d)
        which = rng.choice(["moonrise", "moonset"])
        hhmm = (rng.randint(0, 23), rng.randint(0, 59)) if rng.random() < 0.35 else None
        try:
            r = _c13_one(lat, lon, d, z, which, hhmm=hhmm)
        except Exception as exc:  # noqa: BLE001
            r = "raised %r" % (exc,)
        if r:
            return {"clause": r + (" [date given as a datetime at %02d:%02d]" % hhmm if hhmm else ""),
                    "latitude": lat, "longitude": lon, "date": d.isoformat(),
                    "zone": z.describe(), "which": which, "hhmm": list(hhmm) if hhmm else None}
    return None


def replay_C13(fi):
    return _c13_one(fi["latitude"], fi["longitude"], datetime.date.fromisoformat(fi["date"]),
                    _zone_from_descr(fi["zone"]), fi["which"],
                    hhmm=tuple(fi["hhmm"]) if fi.get("hhmm") else None) is None


def _c14_one(lat, lon, d, z, which, given=None, aware=None):
    import astral.moon as moon
    from astral import Observer
    o = Observer(lat, lon)
    tz = z.tzinfo
    rising = which == "moonrise"
    try:
        if given is not None:
            if given[0] != "ok":
                raise given[1]
            got = given[1]
        elif aware is not None:
            # the date spelled as an aware datetime (hour, minute, offset in minutes): it means its
            # own calendar date; the zone argument stays the output zone
            darg = datetime.datetime(d.year, d.month, d.day, aware[0], aware[1],
                                     tzinfo=datetime.timezone(datetime.timedelta(minutes=aware[2])))
            got = getattr(moon, which)(o, darg, tz)
        else:
            got = getattr(moon, which)(o, d, tz)
        outcome = "none" if got is None else "time"
    except ValueError as exc:
        if not str(exc).startswith("Moon never"):
            return "%s raised ValueError(%r), not one of the documented outcomes" % (which, str(exc))
        got, outcome = None, "never"
    except Exception as exc:  # noqa: BLE001
        return "%s raised %r; only None or ValueError('Moon never …') are documented" % (which, exc)
    if got is not None and got.astimezone(tz).date() != d:
        return "%s returned %s, not on the requested date" % (which, got.isoformat())
    # brute force: an independent lunar ephemeris at 1-minute steps over the local date
    start = datetime.datetime(d.year, d.month, d.day, tzinfo=tz).astimezone(datetime.timezone.utc)
    target = 0.16
    prev = _moon_alt(lat, lon, start) - target
    real = []
    for k in range(1, 1441):
        t = start + datetime.timedelta(minutes=k)
        cur = _moon_alt(lat, lon, t) - target
        if (prev < 0 <= cur) if rising else (prev > 0 >= cur):
            real.append(t)
        prev = cur
    good = [t for t in real
            if datetime.timedelta(minutes=12) <= t - start <= datetime.timedelta(minutes=1428)
            and min(t.hour * 60 + t.minute, 1440 - (t.hour * 60 + t.minute)) >= 5]
    if good:
        if got is None:
            return "%s: a real event at %s on the requested date was not found (outcome %s)" % (
                which, good[0].astimezone(tz).isoformat(), outcome)
        if min(abs((got - t).total_seconds()) for t in real) > 8 * 60 + 60:
            return "%s returned %s, more than 8 minutes from the real event %s" % (
                which, got.isoformat(), good[0].astimezone(tz).isoformat())
    return None


def _c14_sweep(seed):
    """an almanac loop: one place, consecutive days in ascending order in one process, each
    answer judged as it was returned in that loop (asking again could repair what a cache broke)"""
    import zones
    import astral.moon as moon
    from astral import Observer
    rng = random.Random(seed)
    lat, lon = rng.uniform(-55, 55), rng.uniform(-180, 180)
    o = Observer(lat, lon)
    z = zones.fixed(0)
    d0 = datetime.date.fromordinal(rng.randint(693596 + 10, 767010 - 80))
    which = rng.choice(["moonrise", "moonset"])
    for k in range(62):
        d = d0 + datetime.timedelta(days=k)
        try:
            res = ("ok", getattr(moon, which)(o, d, z.tzinfo))
        except Exception as exc:  # noqa: BLE001
            res = ("err", exc)
        try:
            r = _c14_one(lat, lon, d, z, which, given=res)
        except Exception as exc:  # noqa: BLE001
            r = "raised %r" % (exc,)
        if r:
            return {"clause": r, "sweep_seed": seed,
                    "sequence": "%s for Observer(%r, %r) on %s and the %d following days, in order; "
                                "this is the answer for %s" % (which, lat, lon, d0, k, d)}
    return None


def _c14_omitted(seed):
    """the date left out: today's date in the requested zone at the moment of the call — for the
    plain functions and through a Location (local or UTC), at a clock reading where the zone's
    date is not the UTC date"""
    import zoneinfo
    import astral.moon as moon
    from astral import LocationInfo, Observer
    from astral.location import Location
    import corr_norm
    rng = random.Random(seed)
    name = rng.choice(["Pacific/Kiritimati", "Asia/Tokyo", "Pacific/Pago_Pago", "America/Adak", "Pacific/Auckland"])
    tz = zoneinfo.ZoneInfo(name)
    lat, lon = rng.uniform(-55, 55), rng.uniform(-180, 180)
    d = datetime.date.fromordinal(rng.randint(693596 + 400, 767010 - 400))
    hh = rng.choice([0, 1, 2, 9, 10, 11, 12, 13, 21, 22, 23])
    now = datetime.datetime(d.year, d.month, d.day, hh, rng.randint(0, 59), tzinfo=datetime.timezone.utc)
    today_z = now.astimezone(tz).date()
    o = Observer(lat, lon)
    loc = Location(LocationInfo("n", "r", name, lat, lon))
    for which in ("moonrise", "moonset"):
        f = getattr(moon, which)
        pairs = [("%s(observer, tzinfo=%s)" % (which, name), lambda: f(o, tzinfo=tz), lambda: f(o, today_z, tz)),
                 ("Location.%s()" % which, lambda: getattr(loc, which)(), lambda: f(o, today_z, tz)),
                 ("Location.%s(local=False)" % which, lambda: getattr(loc, which)(local=False),
                  lambda: f(o, now.date(), datetime.timezone.utc))]
        for label, a, b in pairs:
            with corr_norm.FrozenClock(now):
                ra = _try(a)
            rb = _try(b)
            if ra != rb:
                return {"clause": "%s with the date omitted at clock reading %s gives %s; for today's date there "
                                  "(%s in the zone, %s in UTC) the answer is %s" % (
                                      label, now.isoformat(), ra, today_z, now.date(), rb),
                        "omitted_seed": seed}
    return None


def search_C14(rng, deadline, broken):
    import gens
    import zones
    n = 0
    while time.time() < deadline:
        n += 1
        if n % 10 == 3:
            try:
                r = _c14_omitted(rng.randrange(1 << 40))
            except Exception as exc:  # noqa: BLE001
                r = None
            if r:
                return r
        if n % 25 == 0:
            r = _c14_sweep(rng.randrange(1 << 40))
            if r:
                return r
        lat, lon = rng.uniform(-60, 60), gens.rand_lon(rng)
        d = gens.rand_date(rng, wide=False)
        z = zones.rand_zone(rng, d)
        which = rng.choice(["moonrise", "moonset"])
        aware = None
        if rng.random() < 0.3:
            # an hour and offset at which the datetime's own date differs from its UTC date
            offm = rng.choice([540, 600, 780, -480, -600, 330])
            aware = (rng.choice([0, 1, 2, 3]) if offm > 0 else rng.choice([20, 21, 22, 23]), rng.randint(0, 59), offm)
        try:
            r = _c14_one(lat, lon, d, z, which, aware=aware)
        except Exception as exc:  # noqa: BLE001
            r = "raised %r" % (exc,)
        if r:
            return {"clause": r + (" [date given as the aware datetime %02d:%02d at UTC%+d min]" % aware if aware else ""),
                    "latitude": lat, "longitude": lon, "date": d.isoformat(),
                    "zone": z.describe(), "which": which, "aware": list(aware) if aware else None}
    return None


def replay_C14(fi):
    if "omitted_seed" in fi:
        return _c14_omitted(fi["omitted_seed"]) is None
    if "sweep_seed" in fi:
        return _c14_sweep(fi["sweep_seed"]) is None
    return _c14_one(fi["latitude"], fi["longitude"], datetime.date.fromisoformat(fi["date"]),
                    _zone_from_descr(fi["zone"]), fi["which"],
                    aware=tuple(fi["aware"]) if fi.get("aware") else None) is None



# ------------------------------------------------------------------ seeds from mismatches
def _dt_from_descr(inp):
    """rebuild the datetime argument of an angle case (zone label, fold)"""
    import zones
    dt = datetime.datetime.fromisoformat(inp["datetime"])
    zl = inp.get("zone", "naive")
    if zl == "naive":
        return dt
    base = zl.replace(" fold", "")
    if base == "UTC":
        return dt
    z = _zone_from_descr(base)
    naive = dt.replace(tzinfo=None)
    return naive.replace(tzinfo=z.tzinfo, fold=inp.get("fold", 0))


def _angle_spelling_check(mod_fn, o, dt, what):
    """the angle for `dt` must equal the angle for the same instant as naive UTC — asked in both
    orders and for both folds, so that a cache keyed on equal-comparing datetimes shows up"""
    if dt.tzinfo is None:
        return None
    twin = dt.replace(fold=1 - dt.fold)
    for a in (dt, twin, dt):
        ref = mod_fn(o, a.astimezone(datetime.timezone.utc).replace(tzinfo=None))
        got = mod_fn(o, a)
        dv = abs(got - ref)
        if what == "azimuth":
            dv = min(dv, 360.0 - dv)
        if dv > 1e-6:
            return "%s %r for %s (fold=%d) but %r for the same instant as naive UTC" % (
                what, got, a.isoformat(), a.fold, ref)
    return None


def seed_C12(m):
    import astral.moon as moon
    from astral import Observer
    inp = m["input"]
    fn = m["function"].split(".")[-1]
    if fn not in ("azimuth", "elevation", "zenith"):
        return None
    o = Observer(inp["latitude"], inp["longitude"])
    dt = _dt_from_descr(inp)
    try:
        v = getattr(moon, fn)(o, dt)
    except Exception as exc:  # noqa: BLE001
        return {"clause": "moon.%s raised %r: the angles are defined for every observer and instant" % (fn, exc),
                "latitude": inp["latitude"], "longitude": inp["longitude"], "utc": inp["datetime"],
                "zone": inp.get("zone", "naive")}
    if fn == "azimuth" and not (0.0 <= v < 360.0):
        return {"clause": "azimuth %r outside [0, 360)" % v, "latitude": inp["latitude"],
                "longitude": inp["longitude"], "utc": inp["datetime"], "zone": "fixed+0"}
    r = _angle_spelling_check(getattr(moon, fn), o, dt, fn)
    if r:
        return {"clause": r, "input": inp}
    live = (m.get("live") or {}).get("observer")
    u = dt if dt.tzinfo is None else dt.astimezone(datetime.timezone.utc).replace(tzinfo=None)
    import zones
    for ob in ([live] if live is not None else []) + [None]:
        try:
            r = _c12_one(inp["latitude"], inp["longitude"], u, zones.fixed(0), ob)
        except Exception as exc:  # noqa: BLE001
            r = "raised %r" % (exc,)
        if r:
            return {"clause": r, "latitude": inp["latitude"], "longitude": inp["longitude"],
                    "utc": u.isoformat(), "zone": "fixed+0",
                    "observer_object": "the object of that call sequence" if ob is not None else "fresh"}
    return None


def seed_C08(m):
    import astral.sun as sun
    inp = m["input"]
    fn = m["function"]
    if fn not in ("azimuth", "elevation", "zenith"):
        return None
    o = _obs_from_descr(inp["observer"])
    dt = _dt_from_descr(inp)
    r = _angle_spelling_check(getattr(sun, fn), o, dt, fn)
    if r:
        return {"clause": r, "input": inp}
    return None


def _seed_sun_event(m, checker):
    inp = m["input"]
    if "observer" not in inp or "date" not in inp or "zone" not in inp:
        return None
    live = m.get("live") or {}
    o = live.get("observer") or _obs_from_descr(inp["observer"])
    d = datetime.date.fromisoformat(inp["date"])
    z = _zone_from_descr(inp["zone"])
    return checker(o, d, z, m["function"], inp)


def seed_C03(m):
    def chk(o, d, z, fn, inp):
        extra = {"dep": inp.get("depression", 6.0), "el": inp.get("elevation", 6.0),
                 "dir": 1 if inp.get("dir", "RISING") == "RISING" else -1}
        if fn not in C03_FUNCS:
            return None
        r = _c03_one(o, d, z, fn, extra)
        return _descr(o, d, z, function=fn, extra=extra, clause=r) if r else None
    if m["function"] in ("moonrise", "moonset"):
        from astral import Observer
        inp = m["input"]
        o = Observer(inp["latitude"], inp["longitude"])
        d = datetime.date.fromisoformat(inp["date"])
        z = _zone_from_descr(inp["zone"])
        r = _c03_one(o, d, z, m["function"], {})
        return _descr(o, d, z, function=m["function"], extra={}, clause=r) if r else None
    if m["function"] == "riseset":
        # the raw scan disagreed: ask for both events of that date and its neighbours, in UTC and
        # in zones either side of it
        import zones
        from astral import Observer
        inp = m["input"]
        o = Observer(inp["latitude"], inp["longitude"])
        d0 = datetime.date.fromisoformat(inp["date"])
        for dd in (0, 1, -1):
            d = d0 + datetime.timedelta(days=dd)
            for z in (zones.fixed(0), zones.fixed(60), zones.fixed(-60)):
                for which in ("moonrise", "moonset"):
                    r = _c03_one(o, d, z, which, {})
                    if r:
                        return _descr(o, d, z, function=which, extra={}, clause=r)
        return None
    return _seed_sun_event(m, chk)


def seed_C07(m):
    def chk(o, d, z, fn, inp):
        for di in (1, -1):
            for daytime in (True, False):
                try:
                    r = _c07_one(o, d, z, di, daytime)
                except ValueError:
                    r = None
                if r:
                    return _descr(o, d, z, dir=di, daytime=daytime, clause=r)
        return None
    return _seed_sun_event(m, chk)


def seed_C06(m):
    def chk(o, d, z, fn, inp):
        if isinstance(o.elevation, tuple):
            return None
        r = _c06_one(o, d, z)
        return _descr(o, d, z, clause=r) if r else None
    return _seed_sun_event(m, chk)


def seed_C01(m):
    def chk(o, d, z, fn, inp):
        if isinstance(o.elevation, tuple) or abs(o.latitude) > 89.8:
            return None
        out = None
        given = (m.get("live") or {}).get("result")
        if given is not None and given[0] == "ok" and fn in ("dawn", "dusk", "sunrise", "sunset"):
            spec = ("dawn_dusk", inp.get("depression", 6.0)) if fn in ("dawn", "dusk") else ("rise_set", None)
            r = _c01_event(o, d, z, spec[0], spec[1], fn in ("dawn", "sunrise"), True, given)
            if r:
                return _descr(o, d, z, function=spec[0], arg=spec[1], rising=fn in ("dawn", "sunrise"),
                              with_refraction=True, clause=r,
                              note="evaluated on the value returned in that sequence of calls")
        for rising in (True, False):
            for spec in (("dawn_dusk", inp.get("depression", 6.0), True), ("rise_set", None, True),
                         ("tae", inp.get("elevation", 6.0), inp.get("with_refraction", True))):
                r = _c01_event(o, d, z, spec[0], spec[1], rising, spec[2])
                if r:
                    return _descr(o, d, z, function=spec[0], arg=spec[1], rising=rising,
                                  with_refraction=spec[2], clause=r)
        return out
    return _seed_sun_event(m, chk)


def seed_C04(m):
    def chk(o, d, z, fn, inp):
        if isinstance(o.elevation, tuple) or abs(o.latitude) > 89.8:
            return None
        for rising in (True, False):
            for f2, dep in (("dawn_dusk", inp.get("depression", 6.0)), ("rise_set", 0.0)):
                r = _c04_one(o, d, z, f2, dep, rising)
                if r:
                    return _descr(o, d, z, function=f2, dep=dep, rising=rising, clause=r)
        return None
    return _seed_sun_event(m, chk)


def seed_C05(m):
    inp = m["input"]
    if m["function"] not in ("noon", "midnight", "sun") or "observer" not in inp:
        return None
    o = inp["observer"]
    d = datetime.date.fromisoformat(inp["date"])
    z = _zone_from_descr(inp["zone"])
    import astral.sun as sun
    from astral import Observer
    sun.noon(Observer(o["latitude"], o["longitude"]), d)        # a call in UTC first (caches)
    r = _c05_one(o["latitude"], o["longitude"], d, z)
    if r:
        return {"clause": r, "latitude": o["latitude"], "longitude": o["longitude"],
                "date": d.isoformat(), "zone": z.describe()}
    return None


def seed_C13(m):
    inp = m["input"]
    if m["function"] not in ("moonrise", "moonset"):
        return None
    given = (m.get("live") or {}).get("result")
    r = _c13_one(inp["latitude"], inp["longitude"], datetime.date.fromisoformat(inp["date"]),
                 _zone_from_descr(inp["zone"]), m["function"], given)
    if r:
        return {"clause": r, "latitude": inp["latitude"], "longitude": inp["longitude"],
                "date": inp["date"], "zone": inp["zone"], "which": m["function"],
                "note": "evaluated on the value returned in that sequence of calls" if given else ""}
    return None


def seed_C14(m):
    inp = m["input"]
    if m["function"] not in ("moonrise", "moonset"):
        return None
    if abs(inp["latitude"]) > 60:
        return None
    r = _c14_one(inp["latitude"], inp["longitude"], datetime.date.fromisoformat(inp["date"]),
                 _zone_from_descr(inp["zone"]), m["function"])
    if r:
        return {"clause": r, "latitude": inp["latitude"], "longitude": inp["longitude"],
                "date": inp["date"], "zone": inp["zone"], "which": m["function"]}
    return None


# ------------------------------------------------------------------ C18
def _c18_scan(db):
    import zoneinfo
    import astral.geocoder as geo
    import astral.sun as sun
    from astral import Observer
    seen = {}
    n = 0
    for r in geo.all_locations(db):
        n += 1
        ident = "%s,%s" % (r.name, r.region)
        if not isinstance(r.name, str) or r.name == "":
            return "record %r has an empty name" % (ident,)
        if not (type(r.latitude) is float and -90.0 <= r.latitude <= 90.0):
            return "record %s: latitude %r not in [-90, 90]" % (ident, r.latitude)
        if not (type(r.longitude) is float and -180.0 <= r.longitude <= 180.0):
            return "record %s: longitude %r not in [-180, 180]" % (ident, r.longitude)
        try:
            tz = zoneinfo.ZoneInfo(r.timezone)
        except Exception as exc:  # noqa: BLE001
            return "record %s: time zone %r does not resolve (%r)" % (ident, r.timezone, exc)
        dt = datetime.datetime(2021, 1, 15, 12, tzinfo=tz)
        std = (dt.utcoffset() - (dt.dst() or datetime.timedelta(0))).total_seconds() / 3600.0
        diff = (std - r.longitude / 15.0 + 12.0) % 24.0 - 12.0
        if abs(diff) > 2.5:
            return "record %s: zone %s (UTC%+.2f) is %.2f h from mean solar time at longitude %.3f" % (
                ident, r.timezone, std, diff, r.longitude)
        if abs(r.longitude) > 170.0:
            days = list(range(0, 730))                 # every day of two years next to the date line
        else:
            days = sorted(set(range(0, 365, 30)) | {30, 58, 59, 89, 119, 150, 180, 211, 242, 272, 303, 333, 364})
        for dd in days:
            day = datetime.date(2026, 1, 1) + datetime.timedelta(days=dd)
            try:
                noon = sun.noon(Observer(r.latitude, r.longitude), day,
                                datetime.timezone(datetime.timedelta(hours=std)))
            except Exception as exc:  # noqa: BLE001
                return "record %s: solar noon cannot be computed for %s (%r)" % (ident, day, exc)
            # minutes from 00:00 standard time of the day that was asked for
            mins = (noon.replace(tzinfo=None) - datetime.datetime(day.year, day.month, day.day)).total_seconds() / 60.0
            if not (9 * 60 + 10 <= mins <= 14 * 60 + 50):
                return "record %s: solar noon computed for %s is at %s standard time" % (
                    ident, day, noon.replace(tzinfo=None).isoformat(sep=" "))
            # … and asked for in the record's own zone, given the way the record gives it (by name)
            try:
                noon_n = sun.noon(Observer(r.latitude, r.longitude), day, r.timezone)
            except Exception as exc:  # noqa: BLE001
                return "record %s: solar noon for %s cannot be computed in the record's zone %r given by name (%r)" % (
                    ident, day, r.timezone, exc)
            if noon_n != noon:
                return "record %s: solar noon for %s is %s in the record's zone by name but %s at its standard offset" % (
                    ident, day, noon_n.isoformat(), noon.isoformat())
        if (r.name, r.region) in seen:
            return "(name, region) pair %s occurs twice" % (ident,)
        seen[(r.name, r.region)] = True
    return None if n > 0 else "the built-in database is empty"


def search_C18(rng, deadline, broken):
    import astral.geocoder as geo
    r = _c18_scan(geo.database())
    if r:
        return {"clause": r, "sequence": "fresh database()"}
    # a customised database must not leak into the next fresh one
    db = geo.database()
    some = list(geo.all_locations(db))[:40]
    for rec in some:
        geo.add_locations(["%s,%s,%s,10°0'N,10°0'E" % (rec.name, rec.region + " x", rec.timezone)], db)
    for rec in some[:5]:
        try:
            rec.longitude = -rec.longitude - 75.0
        except Exception:  # noqa: BLE001
            pass
    r = _c18_scan(geo.database())
    if r:
        return {"clause": r, "sequence": "database(); add same-name records and edit looked-up "
                                         "records in it; then a fresh database()"}
    return None


def replay_C18(fi):
    return search_C18(None, 0, None) is None


# ------------------------------------------------------------------ C19
def _c19_location(seed):
    """real calls: every Location method must equal the direct library call"""
    import zoneinfo
    import astral.sun as sun
    import astral.moon as moon
    from astral import LocationInfo, Observer, SunDirection
    from astral.location import Location
    rng = random.Random(seed)
    tzs = ["Europe/London", "Asia/Tokyo", "Pacific/Apia", "America/New_York", "Asia/Kolkata"]
    # a Location answers for the LocationInfo it was made from, however it was passed, and
    # assigning to one Location leaves that LocationInfo and its other Locations alone
    inf0 = LocationInfo("n0", "r0", rng.choice(tzs), rng.uniform(-60, 60), rng.uniform(-170, 170))
    was = (inf0.latitude, inf0.longitude, inf0.timezone)
    la, lb, lk = Location(inf0), Location(inf0), Location(info=inf0)
    if (lk.latitude, lk.longitude, lk.timezone) != was:
        return {"clause": "Location(info=%r) reports latitude/longitude/zone %r" % (
            inf0, (lk.latitude, lk.longitude, lk.timezone)), "seed": seed, "history": []}
    la.longitude = was[1] / 2.0 + 1.0
    la.latitude = was[0] / 2.0 + 1.0
    if (inf0.latitude, inf0.longitude, inf0.timezone) != was or (lb.latitude, lb.longitude) != was[:2]:
        return {"clause": "after assigning latitude/longitude on one Location, the LocationInfo it was made from "
                          "reads %r and a second Location made from it %r (both were %r)" % (
                              (inf0.latitude, inf0.longitude), (lb.latitude, lb.longitude), was[:2]),
                "seed": seed, "history": []}
    loc = Location(LocationInfo("n", "r", rng.choice(tzs), rng.uniform(-60, 60), rng.uniform(-180, 180)))
    hist = []
    # the arguments of the calls to be compared are fixed first; every method is then called
    # once with exactly those arguments (anything remembered per call must not outlive an
    # attribute change), then attributes are changed, then the comparison is made
    d = datetime.date.fromordinal(rng.randint(693596, 767010))
    elev = rng.choice([0.0, rng.uniform(0, 2000), rng.randint(1, 3000), 0])    # floats and plain ints
    local = rng.random() < 0.6
    di = rng.choice([SunDirection.RISING, SunDirection.SETTING])
    naive = datetime.datetime(d.year, d.month, d.day, rng.randint(0, 23), rng.randint(0, 59))
    for warm in (lambda: loc.sun(d, local, elev), lambda: loc.dawn(d, local, elev),
                 lambda: loc.dusk(d, local, elev), lambda: loc.sunrise(d, local, elev),
                 lambda: loc.sunset(d, local, elev), lambda: loc.noon(d, local),
                 lambda: loc.midnight(d, local), lambda: loc.daylight(d, local, elev),
                 lambda: loc.night(d, local, elev), lambda: loc.twilight(d, di, local, elev),
                 lambda: loc.golden_hour(di, d, local, elev), lambda: loc.blue_hour(di, d, local, elev),
                 lambda: loc.rahukaalam(d, local, elev), lambda: loc.moonrise(d, local),
                 lambda: loc.moonset(d, local), lambda: loc.time_at_elevation(8.0, d, di, local),
                 lambda: loc.moon_phase(d), lambda: loc.solar_azimuth(naive, elev),
                 lambda: loc.solar_elevation(naive, elev), lambda: loc.solar_zenith(naive, elev),
                 lambda: loc.observer, lambda: loc.info, lambda: loc.tzinfo):
        if rng.random() < 0.8:
            _try(warm)
    for _ in range(rng.randint(0, 4)):
        k = rng.random()
        if k < 0.35:
            v = rng.uniform(-200, 200)
            loc.longitude = v
            hist.append("longitude")
            if loc.longitude != max(-180.0, min(180.0, v)):
                return {"clause": "Location.longitude = %r stores %r (a longitude is kept within ±180 and "
                                  "otherwise as given)" % (v, loc.longitude), "seed": seed, "history": hist}
        elif k < 0.6:
            v = rng.uniform(-100, 100)
            loc.latitude = v
            hist.append("latitude")
            if loc.latitude != max(-90.0, min(90.0, v)):
                return {"clause": "Location.latitude = %r stores %r (a latitude is kept within ±90 and "
                                  "otherwise as given)" % (v, loc.latitude), "seed": seed, "history": hist}
        elif k < 0.8:
            loc.timezone = rng.choice(tzs)
            hist.append("timezone")
        else:
            from astral import Depression as _Dep
            name, want = rng.choice([("civil", 6), ("nautical", 12), ("astronomical", 18), (7.5, 7.5),
                                     (_Dep.CIVIL, 6), (_Dep.NAUTICAL, 12), (_Dep.ASTRONOMICAL, 18), (0, 0)])
            loc.solar_depression = name
            hist.append("solar_depression=%r" % (name,))
            got = loc.solar_depression
            if float(got.value if isinstance(got, _Dep) else got) != float(want):
                return {"clause": "solar_depression = %r is %r degrees by the documentation, the location "
                                  "reports %r" % (name, want, got), "seed": seed, "history": hist}
    tz = zoneinfo.ZoneInfo(loc.timezone) if local else datetime.timezone.utc
    o = Observer(loc.latitude, loc.longitude, elev)
    o0 = Observer(loc.latitude, loc.longitude, 0.0)
    pairs = [
        ("sun", lambda: loc.sun(d, local, elev), lambda: sun.sun(o, d, loc.solar_depression, tz)),
        ("dawn", lambda: loc.dawn(d, local, elev), lambda: sun.dawn(o, d, loc.solar_depression, tz)),
        ("dusk", lambda: loc.dusk(d, local, elev), lambda: sun.dusk(o, d, loc.solar_depression, tz)),
        ("sunrise", lambda: loc.sunrise(d, local, elev), lambda: sun.sunrise(o, d, tz)),
        ("sunset", lambda: loc.sunset(d, local, elev), lambda: sun.sunset(o, d, tz)),
        ("noon", lambda: loc.noon(d, local), lambda: sun.noon(o0, d, tz)),
        ("midnight", lambda: loc.midnight(d, local), lambda: sun.midnight(o0, d, tz)),
        ("daylight", lambda: loc.daylight(d, local, elev), lambda: sun.daylight(o, d, tz)),
        ("night", lambda: loc.night(d, local, elev), lambda: sun.night(o, d, tz)),
        ("twilight", lambda: loc.twilight(d, di, local, elev), lambda: sun.twilight(o, d, di, tz)),
        ("golden_hour", lambda: loc.golden_hour(di, d, local, elev), lambda: sun.golden_hour(o, d, di, tz)),
        ("blue_hour", lambda: loc.blue_hour(di, d, local, elev), lambda: sun.blue_hour(o, d, di, tz)),
        ("rahukaalam", lambda: loc.rahukaalam(d, local, elev), lambda: sun.rahukaalam(o, d, tzinfo=tz)),
        ("moonrise", lambda: loc.moonrise(d, local), lambda: moon.moonrise(o0, d, tz)),
        ("moonset", lambda: loc.moonset(d, local), lambda: moon.moonset(o0, d, tz)),
        ("time_at_elevation", lambda: loc.time_at_elevation(8.0, d, di, local),
         lambda: sun.time_at_elevation(o0, 8.0, d, di, tz)),
        ("moon_phase", lambda: loc.moon_phase(d), lambda: moon.phase(d)),
    ]
    inzone = naive.replace(tzinfo=zoneinfo.ZoneInfo(loc.timezone))
    pairs += [
        ("solar_azimuth", lambda: loc.solar_azimuth(naive, elev), lambda: sun.azimuth(o, inzone)),
        ("solar_elevation", lambda: loc.solar_elevation(naive, elev), lambda: sun.elevation(o, inzone)),
        ("solar_zenith", lambda: loc.solar_zenith(naive, elev), lambda: 90.0 - sun.elevation(o, inzone)),
    ]
    # aware datetimes are taken as they are — also at offset zero, also when the zone differs
    # from the location's; a naive reading inside a repeated hour follows its fold; the phase of
    # a datetime is the phase at that time of day
    awz = naive.replace(tzinfo=datetime.timezone.utc)
    awo = naive.replace(tzinfo=zoneinfo.ZoneInfo(rng.choice(tzs)))
    pairs += [
        ("solar_elevation (aware, +00:00)", lambda: loc.solar_elevation(awz, elev), lambda: sun.elevation(o, awz)),
        ("solar_azimuth (aware, +00:00)", lambda: loc.solar_azimuth(awz, elev), lambda: sun.azimuth(o, awz)),
        ("solar_elevation (aware, %s)" % awo.tzinfo, lambda: loc.solar_elevation(awo, elev),
         lambda: sun.elevation(o, awo)),
        ("moon_phase (datetime)", lambda: loc.moon_phase(naive), lambda: moon.phase(naive)),
        ("moon_phase (aware datetime)", lambda: loc.moon_phase(awo), lambda: moon.phase(awo)),
    ]
    import zones as _zones
    amb = _zones.ambiguous_wall(rng, _zones.iana(loc.timezone))
    if amb is not None:
        for fo in (0, 1):
            nv = amb.replace(fold=fo)
            iz = nv.replace(tzinfo=zoneinfo.ZoneInfo(loc.timezone))
            pairs.append(("solar_elevation (naive %s fold=%d)" % (nv.isoformat(), fo),
                          lambda nv=nv: loc.solar_elevation(nv, elev), lambda iz=iz: sun.elevation(o, iz)))
    for name, a, b in pairs:
        ra, rb = _try(a), _try(b)
        if ra[0] != rb[0] or (ra[0] == "ok" and ra[1] != rb[1] and not (
                isinstance(ra[1], float) and abs(ra[1] - rb[1]) < 1e-9)):
            return {"clause": "Location.%s gives %s but the library function for the location's "
                              "coordinates/elevation/depression/zone gives %s" % (name, ra, rb),
                    "seed": seed, "history": hist, "date": d.isoformat(), "local": local}
    # a rejected zone assignment leaves the location as it was
    before = (loc.timezone, loc.latitude, loc.longitude)
    try:
        loc.timezone = rng.choice(["Nowhere/Zone", "Europe/Lodnon"])
        return {"clause": "an unknown time zone name was accepted", "seed": seed, "history": hist}
    except ValueError:
        pass
    if (loc.timezone, loc.latitude, loc.longitude) != before:
        return {"clause": "after a rejected time zone assignment the location reports %r, before it %r" % (
            (loc.timezone, loc.latitude, loc.longitude), before), "seed": seed, "history": hist}
    ra, rb = _try(lambda: loc.sunrise(d, True, elev)), _try(lambda: sun.sunrise(o, d, zoneinfo.ZoneInfo(before[0])))
    if ra != rb:
        return {"clause": "after a rejected time zone assignment Location.sunrise gives %s, the library for "
                          "the zone it had before gives %s" % (ra, rb), "seed": seed, "history": hist}
    # the date omitted: today in the location's zone (local=True) or in UTC (local=False), at a
    # clock reading where those two dates differ
    import corr_norm
    zi = zoneinfo.ZoneInfo(loc.timezone)
    for hh in (1, 12, 23):
        now = datetime.datetime(d.year, d.month, d.day, hh, 30, tzinfo=datetime.timezone.utc)
        with corr_norm.FrozenClock(now):
            for lcl in (True, False):
                tzx = zi if lcl else datetime.timezone.utc
                want_d = now.astimezone(tzx).date()
                for name, a, b in (
                        ("sun", lambda: loc.sun(local=lcl, observer_elevation=elev),
                         lambda: sun.sun(o, want_d, loc.solar_depression, tzx)),
                        ("sunset", lambda: loc.sunset(local=lcl, observer_elevation=elev),
                         lambda: sun.sunset(o, want_d, tzx)),
                        ("noon", lambda: loc.noon(local=lcl), lambda: sun.noon(o0, want_d, tzx)),
                        ("golden_hour", lambda: loc.golden_hour(di, local=lcl, observer_elevation=elev),
                         lambda: sun.golden_hour(o, want_d, di, tzx)),
                        ("blue_hour", lambda: loc.blue_hour(di, local=lcl, observer_elevation=elev),
                         lambda: sun.blue_hour(o, want_d, di, tzx)),
                        ("dawn", lambda: loc.dawn(local=lcl, observer_elevation=elev),
                         lambda: sun.dawn(o, want_d, loc.solar_depression, tzx)),
                        ("dusk", lambda: loc.dusk(local=lcl, observer_elevation=elev),
                         lambda: sun.dusk(o, want_d, loc.solar_depression, tzx)),
                        ("sunrise", lambda: loc.sunrise(local=lcl, observer_elevation=elev),
                         lambda: sun.sunrise(o, want_d, tzx)),
                        ("midnight", lambda: loc.midnight(local=lcl), lambda: sun.midnight(o0, want_d, tzx)),
                        ("daylight", lambda: loc.daylight(local=lcl, observer_elevation=elev),
                         lambda: sun.daylight(o, want_d, tzx)),
                        ("night", lambda: loc.night(local=lcl, observer_elevation=elev),
                         lambda: sun.night(o, want_d, tzx)),
                        ("twilight", lambda: loc.twilight(direction=di, local=lcl, observer_elevation=elev),
                         lambda: sun.twilight(o, want_d, di, tzx)),
                        ("rahukaalam", lambda: loc.rahukaalam(local=lcl, observer_elevation=elev),
                         lambda: sun.rahukaalam(o, want_d, True, tzx)),
                        ("time_at_elevation", lambda: loc.time_at_elevation(8.0, direction=di, local=lcl),
                         lambda: sun.time_at_elevation(o0, 8.0, want_d, di, tzx)),
                        ("moonrise", lambda: loc.moonrise(local=lcl), lambda: moon.moonrise(o0, want_d, tzx)),
                        ("moonset", lambda: loc.moonset(local=lcl), lambda: moon.moonset(o0, want_d, tzx))):
                    ra, rb = _try(a), _try(b)
                    if ra != rb:
                        return {"clause": "Location.%s with the date omitted (local=%s) at clock reading %s gives "
                                          "%s, the library for today's date there (%s) gives %s" % (
                                              name, lcl, now.isoformat(), ra, want_d, rb),
                                "seed": seed, "history": hist}
    # a running clock that crosses the zone's midnight between the first and the second reading:
    # the whole answer is for one date
    ld = d + datetime.timedelta(days=1)
    now5 = datetime.datetime(ld.year, ld.month, ld.day, tzinfo=zi).astimezone(datetime.timezone.utc) \
        - datetime.timedelta(seconds=1)
    for name, a, b in (
            ("sun", lambda: loc.sun(observer_elevation=elev), lambda: sun.sun(o, d, loc.solar_depression, zi)),
            ("daylight", lambda: loc.daylight(observer_elevation=elev), lambda: sun.daylight(o, d, zi)),
            ("night", lambda: loc.night(observer_elevation=elev), lambda: sun.night(o, d, zi)),
            ("golden_hour", lambda: loc.golden_hour(di, observer_elevation=elev),
             lambda: sun.golden_hour(o, d, di, zi))):
        with corr_norm.FrozenClock(now5, datetime.timedelta(seconds=3)):
            ra = _try(a)
        rb = _try(b)
        if ra != rb:
            return {"clause": "Location.%s with the date omitted while the clock runs from %s (one second before "
                              "the location's midnight) gives %s; for that day (%s) the library gives %s" % (
                                  name, now5.isoformat(), ra, d, rb), "seed": seed, "history": hist}
    return None


def _c19_cli(seed):
    import subprocess
    import zoneinfo
    import astral.sun as sun
    from astral import Observer
    rng = random.Random(seed)
    lat, lon = round(rng.uniform(-60, 60), 4), round(rng.uniform(-180, 180), 4)
    elev = rng.choice([None, round(rng.uniform(0, 2000), 1)])
    d = datetime.date.fromordinal(rng.randint(693596, 767010))
    tzname = rng.choice([None, "Europe/London", "Asia/Tokyo", "Pacific/Auckland", "Pacific/Honolulu",
                         "America/New_York"])
    argv = [sys.executable, "-m", "astral", "-n", "H", "-r", "R", "-d", d.isoformat()]
    if tzname:
        argv += ["-t", tzname]
    argv += ["--", repr(lat), repr(lon)] + ([repr(elev)] if elev is not None else [])
    tz = zoneinfo.ZoneInfo(tzname) if tzname else datetime.timezone.utc
    try:
        want = sun.sun(Observer(lat, lon, elev if elev is not None else 0.0), d, tzinfo=tz)
    except ValueError:
        return None        # the library has no values for this day (no dawn/dusk): nothing to print
    p = subprocess.run(argv, stdout=subprocess.PIPE, stderr=subprocess.PIPE, timeout=60)
    if p.returncode != 0:
        return {"clause": "the command line exits with status %d: %s" % (p.returncode,
                                                                          p.stderr.decode()[-200:]),
                "argv": argv[1:]}
    try:
        out = json.loads(p.stdout.decode())
    except Exception as exc:  # noqa: BLE001
        return {"clause": "output is not one JSON object (%r)" % (exc,), "argv": argv[1:]}
    fmt = "%Y-%m-%dT%H:%M:%S" + ("%z" if tzname else "Z")
    for k, v in want.items():
        if out.get(k) != v.strftime(fmt):
            return {"clause": "command line prints %s=%s, the library gives %s" % (k, out.get(k), v.strftime(fmt)),
                    "argv": argv[1:]}
    if out.get("location") != "H, R" or out.get("timezone") != (tzname or "UTC"):
        return {"clause": "labels %r / %r" % (out.get("timezone"), out.get("location")), "argv": argv[1:]}
    return None


def search_C19(rng, deadline, broken):
    i = 0
    while time.time() < deadline:
        s = rng.randint(0, 2**31)
        i += 1
        try:
            r = _c19_location(s)
        except Exception as exc:  # noqa: BLE001
            r = {"clause": "raised %r" % (exc,), "seed": s}
        if r:
            r["kind"] = "location"
            return r
        if i % 5 == 0:
            try:
                r = _c19_cli(s)
            except Exception as exc:  # noqa: BLE001
                r = {"clause": "raised %r" % (exc,), "seed": s}
            if r:
                r["kind"] = "cli"
                r["seed"] = s
                return r
    return None


def replay_C19(fi):
    if fi.get("kind") == "cli":
        return _c19_cli(fi["seed"]) is None
    return _c19_location(fi["seed"]) is None


# ------------------------------------------------------------------ C09
def _c09_one(seed):
    import zoneinfo
    import astral.sun as sun
    import astral.moon as moon
    from astral import Depression, Observer, SunDirection
    import corr_norm
    import gens
    rng = random.Random(seed)
    o = gens.rand_observer(rng, tuples=False)
    d = gens.rand_date(rng, wide=False)
    name = rng.choice(["Europe/London", "Asia/Tokyo", "Pacific/Apia", "America/New_York",
                       "Asia/Kolkata", "Pacific/Kiritimati", "America/Adak"])
    tz = zoneinfo.ZoneInfo(name)
    off = datetime.datetime(d.year, d.month, d.day, 12, tzinfo=tz).utcoffset()
    fixed = datetime.timezone(off)

    def same(a, b, what, want_zone=None):
        ra, rb = _try(a), _try(b)
        if ra[0] != rb[0]:
            return "%s: %s vs %s" % (what, ra, rb)
        if ra[0] == "ok" and ra[1] != rb[1]:
            return "%s: %s vs %s" % (what, ra[1], rb[1])
        if ra[0] == "ok" and want_zone is not None and ra[1] is not None:
            for v in (ra[1], rb[1]):
                if v.utcoffset() != v.astimezone(want_zone).utcoffset():
                    return "%s: result %s is not expressed in the requested zone" % (what, v.isoformat())
        return None
    checks = []
    for fn in (sun.dawn, sun.dusk):
        checks.append((lambda fn=fn: fn(o, d, 6, name), lambda fn=fn: fn(o, d, 6, tz), fn.__name__ + " name vs object", tz))
        checks.append((lambda fn=fn: fn(o, d, Depression.NAUTICAL, tz), lambda fn=fn: fn(o, d, 12, tz),
                       fn.__name__ + " NAUTICAL vs 12", tz))
        checks.append((lambda fn=fn: fn(o, d, Depression.ASTRONOMICAL, tz), lambda fn=fn: fn(o, d, 18.0, tz),
                       fn.__name__ + " ASTRONOMICAL vs 18", tz))
    for fn in (sun.sunrise, sun.sunset, sun.noon, sun.midnight):
        checks.append((lambda fn=fn: fn(o, d, name), lambda fn=fn: fn(o, d, tz), fn.__name__ + " name vs object", tz))
    for fn in (sun.sunrise, sun.sunset):
        # same offsets on that date (skip DST-change days)
        if datetime.datetime(d.year, d.month, d.day, 0, tzinfo=tz).utcoffset() == \
                datetime.datetime(d.year, d.month, d.day, 23, tzinfo=tz).utcoffset() == \
                (datetime.datetime(d.year, d.month, d.day, 12, tzinfo=tz) - datetime.timedelta(days=1)).utcoffset() == \
                (datetime.datetime(d.year, d.month, d.day, 12, tzinfo=tz) + datetime.timedelta(days=1)).utcoffset():
            checks.append((lambda fn=fn: fn(o, d, tz), lambda fn=fn: fn(o, d, fixed),
                           fn.__name__ + " zone vs fixed offset with the same offset", None))
        aware = datetime.datetime(d.year, d.month, d.day, rng.randint(0, 23), 15, tzinfo=tz)
        checks.append((lambda fn=fn: fn(o, aware, datetime.timezone.utc), lambda fn=fn: fn(o, d, tz),
                       fn.__name__ + " aware datetime as date", tz))
        naive = datetime.datetime(d.year, d.month, d.day, rng.randint(0, 23), 15)
        checks.append((lambda fn=fn: fn(o, naive, tz), lambda fn=fn: fn(o, d, tz),
                       fn.__name__ + " naive datetime as date", tz))
    # a datetime as the date: its own calendar date, in its own zone — also at the hours where
    # that date differs from the UTC date
    for hh in (0, 23, rng.randint(1, 22)):
        aw = datetime.datetime(d.year, d.month, d.day, hh, rng.choice([5, 55]), tzinfo=tz)
        nv = aw.replace(tzinfo=None)
        for fn, extra in ((sun.dawn, (6,)), (sun.dusk, (6,)), (sun.dawn, (Depression.NAUTICAL,)),
                          (sun.sunrise, ()), (sun.sunset, ())):
            checks.append((lambda fn=fn, extra=extra, aw=aw: fn(o, aw, *extra, datetime.timezone.utc),
                           lambda fn=fn, extra=extra: fn(o, d, *extra, tz),
                           "%s with the aware datetime %s as date" % (fn.__name__, aw.isoformat()), tz))
            checks.append((lambda fn=fn, extra=extra, nv=nv: fn(o, nv, *extra, tz),
                           lambda fn=fn, extra=extra: fn(o, d, *extra, tz),
                           "%s with the naive datetime %s as date" % (fn.__name__, nv.isoformat()), tz))
    for m in (moon.moonrise, moon.moonset):
        checks.append((lambda m=m: m(o, d, name), lambda m=m: m(o, d, tz), m.__name__ + " name vs object", tz))
        awm = datetime.datetime(d.year, d.month, d.day, rng.randint(0, 23), 20, tzinfo=tz)
        checks.append((lambda m=m, awm=awm: m(o, awm), lambda m=m: m(o, d, datetime.timezone.utc),
                       m.__name__ + " with the aware datetime %s as the date and no zone argument vs its calendar "
                       "date in the default zone (UTC)" % awm.isoformat(), datetime.timezone.utc))
    e = rng.uniform(95, 170)
    for di in (SunDirection.RISING, SunDirection.SETTING):
        checks.append((lambda di=di: sun.time_at_elevation(o, e, d, di, tz),
                       lambda: sun.time_at_elevation(o, 180.0 - e, d, SunDirection.SETTING, tz),
                       "elevation %.2f (%s) vs setting at 180 - it" % (e, di.name), tz))
    for a, b, what, wz in checks:
        r = same(a, b, what, wz)
        if r:
            return r
    # omitted date = today's date in the requested zone
    now = datetime.datetime(d.year, d.month, d.day, rng.choice([0, 1, 11, 12, 13, 23]), 30,
                            tzinfo=datetime.timezone.utc)
    with corr_norm.FrozenClock(now):
        for fn in (sun.sunrise, sun.noon, sun.dusk):
            a = _try(lambda: fn(o, None, tzinfo=tz) if fn is not sun.dusk else fn(o, tzinfo=tz))
            b = _try(lambda: fn(o, now.astimezone(tz).date(), tzinfo=tz))
            if a != b:
                return "%s with the date omitted at %s: %s, with today's date in the zone: %s" % (
                    fn.__name__, now.isoformat(), a, b)
    # … at several clock readings of one UTC day, one after the other in this process: the
    # zone's own midnight falls between two of them
    for hh in (0, 5, 9, 13, 17, 21, 23):
        now2 = datetime.datetime(d.year, d.month, d.day, hh, 30, tzinfo=datetime.timezone.utc)
        with corr_norm.FrozenClock(now2):
            for fn in (sun.noon, sun.sunset):
                a = _try(lambda: fn(o, tzinfo=tz))
                b = _try(lambda: fn(o, now2.astimezone(tz).date(), tzinfo=tz))
                if a != b:
                    return ("%s with the date omitted at clock reading %s (after earlier readings of the same "
                            "UTC day): %s, with today's date in the zone (%s): %s" % (
                                fn.__name__, now2.isoformat(), a, now2.astimezone(tz).date(), b))
    # … and at clock readings around the local midnight next to one of the zone's offset changes
    import zones as _zones
    zs = _zones.iana(name)
    if len(zs.utc_table) > 1:
        for _ in range(2):
            t_us, _o = rng.choice(zs.utc_table[1:])
            tr = datetime.datetime(1, 1, 1, tzinfo=datetime.timezone.utc) + \
                datetime.timedelta(microseconds=t_us - 864 * 10**8)
            for plus in (0, 1):
                ld = tr.astimezone(tz).date() + datetime.timedelta(days=plus)
                if not _zones.in_span(ld):
                    continue
                mid = datetime.datetime(ld.year, ld.month, ld.day, tzinfo=tz).astimezone(datetime.timezone.utc)
                for mins in (-70, -35, -5, 5, 35, 70):
                    now3 = mid + datetime.timedelta(minutes=mins)
                    with corr_norm.FrozenClock(now3):
                        for fn in (sun.noon, sun.sunset):
                            a = _try(lambda: fn(o, tzinfo=tz))
                            b = _try(lambda: fn(o, now3.astimezone(tz).date(), tzinfo=tz))
                            if a != b:
                                return ("%s with the date omitted at clock reading %s (%s in %s, next to an "
                                        "offset change): %s, with today's date in the zone: %s" % (
                                            fn.__name__, now3.isoformat(), now3.astimezone(tz).isoformat(),
                                            name, a, b))
    # a running clock: one second before the zone's midnight at the first reading, later at each
    # further one — the answer is for ONE date, today at the moment of the call
    ld = d + datetime.timedelta(days=1)
    mid = datetime.datetime(ld.year, ld.month, ld.day, tzinfo=tz).astimezone(datetime.timezone.utc)
    now4 = mid - datetime.timedelta(seconds=1)
    for label, omitted, explicit in (
            ("sun", lambda: sun.sun(o, tzinfo=tz), lambda: sun.sun(o, d, tzinfo=tz)),
            ("daylight", lambda: sun.daylight(o, tzinfo=tz), lambda: sun.daylight(o, d, tz)),
            ("night", lambda: sun.night(o, tzinfo=tz), lambda: sun.night(o, d, tz)),
            ("twilight", lambda: sun.twilight(o, tzinfo=tz), lambda: sun.twilight(o, d, tzinfo=tz)),
            ("golden_hour", lambda: sun.golden_hour(o, tzinfo=tz), lambda: sun.golden_hour(o, d, tzinfo=tz)),
            ("rahukaalam", lambda: sun.rahukaalam(o, tzinfo=tz), lambda: sun.rahukaalam(o, d, tzinfo=tz))):
        with corr_norm.FrozenClock(now4, datetime.timedelta(seconds=3)):
            a = _try(omitted)
        b = _try(explicit)
        if a != b:
            return ("%s with the date omitted while the clock runs from %s (one second before midnight in %s): "
                    "%s; for that day's date: %s" % (label, now4.isoformat(), name, a, b))
    # a zone given as a user-defined tzinfo object with the same offsets as the named zone
    dz = _zones.docs(zs)
    for fn in (sun.sunrise, sun.sunset, sun.noon):
        r = same(lambda fn=fn: fn(o, d, dz), lambda fn=fn: fn(o, d, tz),
                 fn.__name__ + " user-defined tzinfo vs ZoneInfo of the same zone", tz)
        if r:
            return r
    # the observer's elevation written as an int, a float or a numeric string is the same height
    h = rng.choice([350, 1000, 2000, rng.randint(1, 4000)])
    obs_forms = [Observer(o.latitude, o.longitude, h), Observer(o.latitude, o.longitude, float(h)),
                 Observer(o.latitude, o.longitude, str(h))]
    for fn in (sun.sunrise, sun.sunset):
        res = [_try(lambda ob=ob: fn(ob, d, tz)) for ob in obs_forms]
        if not (res[0] == res[1] == res[2]):
            return "%s at elevation %d given as int / float / str: %s / %s / %s" % (
                fn.__name__, h, res[0], res[1], res[2])
    # numeric strings in every spelling float() accepts denote the same angle as the float
    for _ in range(12):
        v = rng.choice([rng.uniform(-90, 90), rng.uniform(-1e-3, 1e-3), rng.uniform(-9, 9), 5e-05, 51.4733])
        for sp in (repr(v), "%e" % v, "%g" % v, "%010.5f" % v, "%+.4f" % v, " %r " % v, "%.3E" % v):
            try:
                want = float(sp)
            except ValueError:
                continue
            want_lat = max(-90.0, min(90.0, want))
            got = _try(lambda: Observer(sp, 0.0).latitude)
            if got != ("ok", want_lat):
                return "latitude given as the numeric string %r becomes %r, as the float %r it is %r" % (
                    sp, got, want, want_lat)
    # degree-minute-second text with either kind of mark denotes deg + min/60 + sec/3600, signed
    for _ in range(6):
        dg, mi, se = rng.randint(0, 89), rng.randint(0, 59), rng.randint(0, 59)
        hemi = rng.choice("NSns")
        want = (dg + mi / 60.0 + se / 3600.0) * (-1 if hemi in "Ss" else 1)
        for pm, ps in (("'", '"'), ("\u2032", "\u2033"), ("\u2032", '"'), ("'", "\u2033")):
            for txt, w in (("%d\u00b0%d%s%d%s%s" % (dg, mi, pm, se, ps, hemi), want),
                           ("%d\u00b0%d%s%s" % (dg, mi, pm, hemi), (dg + mi / 60.0) * (-1 if hemi in "Ss" else 1)),
                           ("%d\u00b0%d%s%s" % (dg, se, ps, hemi), (dg + se / 3600.0) * (-1 if hemi in "Ss" else 1))):
                got = _try(lambda: Observer(txt, 0.0).latitude)
                if got[0] != "ok" or abs(got[1] - w) > 1e-9:
                    return "latitude given as %r becomes %r; degrees + minutes/60 + seconds/3600 is %r" % (
                        txt, got, w)
    lat_s, lon_s = "51°30'N", "0°7'30\"W"
    o1, o2, o3 = Observer(lat_s, lon_s), Observer(51.5, -0.125), Observer("51.5", "-0.125")
    if not (o1 == o2 == o3):
        return "coordinates as DMS / float / numeric string differ: %r %r %r" % (o1, o2, o3)
    return None


def search_C09(rng, deadline, broken):
    while time.time() < deadline:
        s = rng.randint(0, 2**31)
        try:
            r = _c09_one(s)
        except Exception as exc:  # noqa: BLE001
            r = "raised %r" % (exc,)
        if r:
            return {"clause": r, "seed": s}
    return None


def replay_C09(fi):
    return _c09_one(fi["seed"]) is None


# ------------------------------------------------------------------ C20
def _c20_purity():
    """a fixed call set, in several orders / 16 threads / TZ environments, in fresh
    interpreters: all answers must be identical"""
    import subprocess
    probe = os.path.join(os.path.dirname(os.path.abspath(__file__)), "purity_probe.py")
    runs = [("listed", 1, None), ("reverse", 1, None), ("shuffle3", 1, None), ("shuffle7", 16, None),
            ("listed", 1, "Pacific/Kiritimati"), ("reverse", 1, "America/Adak")]
    results = []
    for order, threads, tzenv in runs:
        env = dict(os.environ)
        if tzenv:
            env["TZ"] = tzenv
        p = subprocess.run([sys.executable, probe, order, str(threads)], stdout=subprocess.PIPE,
                           stderr=subprocess.PIPE, env=env, timeout=600)
        if p.returncode != 0:
            return {"clause": "purity probe failed: %s" % p.stderr.decode()[-300:]}
        results.append(((order, threads, tzenv), json.loads(p.stdout.decode())))
    base_key, base = results[0]
    for key, r in results[1:]:
        for k in base:
            if r.get(k) != base[k]:
                return {"clause": "call %s gives %s when the call set runs as %s, but %s when it runs as %s" % (
                    k, base[k], base_key, r.get(k), key), "call": k}
    return None


def _c20_types(o, d, z):
    """documented result types / documented ValueErrors only; no NaN, no naive datetime"""
    import astral.sun as sun
    import astral.moon as moon
    from astral import SunDirection
    tz = z.tzinfo
    doc = ("Sun never reaches", "Sun is always", "Unable to find", "Moon never")

    def ok_dt(v):
        return type(v) is datetime.datetime and v.tzinfo is not None

    def chk(name, f, kind):
        try:
            v = f()
        except ValueError as exc:
            if not str(exc).startswith(doc):
                return "%s raised ValueError(%r), not a documented message" % (name, str(exc))
            return None
        except Exception as exc:  # noqa: BLE001
            return "%s raised %s(%s); only ValueError is documented" % (name, type(exc).__name__, exc)
        if kind == "dt" and not ok_dt(v):
            return "%s returned %r, not an aware datetime" % (name, v)
        if kind == "optdt" and not (v is None or ok_dt(v)):
            return "%s returned %r" % (name, v)
        if kind == "pair" and not (type(v) is tuple and len(v) == 2 and all(ok_dt(x) for x in v)):
            return "%s returned %r, not a pair of aware datetimes" % (name, v)
        if kind == "float" and not (type(v) is float and math.isfinite(v)):
            return "%s returned %r, not a finite float" % (name, v)
        if kind == "dict" and not (type(v) is dict and sorted(v) == ["dawn", "dusk", "noon", "sunrise", "sunset"]
                                   and all(ok_dt(x) for x in v.values())):
            return "%s returned %r" % (name, v)
        return None
    before = (o.latitude, o.longitude, o.elevation)
    dt = datetime.datetime(d.year, d.month, d.day, 12, 30, tzinfo=tz)
    lst = [
        ("dawn", lambda: sun.dawn(o, d, 6, tz), "dt"), ("dusk", lambda: sun.dusk(o, d, 170.0, tz), "dt"),
        ("sunrise", lambda: sun.sunrise(o, d, tz), "dt"), ("sunset", lambda: sun.sunset(o, d, tz), "dt"),
        ("noon", lambda: sun.noon(o, d, tz), "dt"), ("midnight", lambda: sun.midnight(o, d, tz), "dt"),
        ("daylight", lambda: sun.daylight(o, d, tz), "pair"), ("night", lambda: sun.night(o, d, tz), "pair"),
        ("twilight", lambda: sun.twilight(o, d, SunDirection.SETTING, tz), "pair"),
        ("golden_hour", lambda: sun.golden_hour(o, d, SunDirection.RISING, tz), "pair"),
        ("blue_hour", lambda: sun.blue_hour(o, d, SunDirection.RISING, tz), "pair"),
        ("rahukaalam", lambda: sun.rahukaalam(o, d, False, tz), "pair"),
        ("sun", lambda: sun.sun(o, d, 6, tz), "dict"),
        ("time_at_elevation", lambda: sun.time_at_elevation(o, 250.0, d, SunDirection.RISING, tz), "dt"),
        ("time_at_elevation", lambda: sun.time_at_elevation(o, -91.0, d, SunDirection.RISING, tz), "dt"),
        ("elevation", lambda: sun.elevation(o, dt), "float"), ("azimuth", lambda: sun.azimuth(o, dt), "float"),
        ("zenith", lambda: sun.zenith(o, dt), "float"),
        ("moonrise", lambda: moon.moonrise(o, d, tz), "optdt"), ("moonset", lambda: moon.moonset(o, d, tz), "optdt"),
        ("moon.azimuth", lambda: moon.azimuth(o, dt), "float"), ("moon.elevation", lambda: moon.elevation(o, dt), "float"),
        ("phase", lambda: moon.phase(d), "float"),
    ]
    # an explicit date together with the zone given by NAME (also as an instance of a str subclass)
    class _StrSub(str):
        pass
    for znm in ("Asia/Tokyo", _StrSub("America/Adak")):
        lab = "(date, zone name%s)" % ("" if type(znm) is str else " as a str subclass")
        lst += [
            ("dawn" + lab, lambda znm=znm: sun.dawn(o, d, 6, znm), "dt"),
            ("sunset" + lab, lambda znm=znm: sun.sunset(o, d, znm), "dt"),
            ("noon" + lab, lambda znm=znm: sun.noon(o, d, znm), "dt"),
            ("midnight" + lab, lambda znm=znm: sun.midnight(o, d, znm), "dt"),
            ("daylight" + lab, lambda znm=znm: sun.daylight(o, d, znm), "pair"),
            ("night" + lab, lambda znm=znm: sun.night(o, d, znm), "pair"),
            ("twilight" + lab, lambda znm=znm: sun.twilight(o, d, SunDirection.RISING, znm), "pair"),
            ("golden_hour" + lab, lambda znm=znm: sun.golden_hour(o, d, SunDirection.SETTING, znm), "pair"),
            ("blue_hour" + lab, lambda znm=znm: sun.blue_hour(o, d, SunDirection.SETTING, znm), "pair"),
            ("rahukaalam" + lab, lambda znm=znm: sun.rahukaalam(o, d, True, znm), "pair"),
            ("sun" + lab, lambda znm=znm: sun.sun(o, d, 6, znm), "dict"),
            ("time_at_elevation" + lab, lambda znm=znm: sun.time_at_elevation(o, 4.0, d, SunDirection.RISING, znm), "dt"),
            ("moonrise" + lab, lambda znm=znm: moon.moonrise(o, d, znm), "optdt"),
            ("moonset" + lab, lambda znm=znm: moon.moonset(o, d, znm), "optdt"),
        ]
    # every parameter passed by its documented name
    lst += [
        ("dawn(all keywords)", lambda: sun.dawn(observer=o, date=d, depression=6, tzinfo=tz), "dt"),
        ("dusk(all keywords)", lambda: sun.dusk(observer=o, date=d, depression=12, tzinfo=tz), "dt"),
        ("sunrise(all keywords)", lambda: sun.sunrise(observer=o, date=d, tzinfo=tz), "dt"),
        ("sunset(all keywords)", lambda: sun.sunset(observer=o, date=d, tzinfo=tz), "dt"),
        ("noon(all keywords)", lambda: sun.noon(observer=o, date=d, tzinfo=tz), "dt"),
        ("midnight(all keywords)", lambda: sun.midnight(observer=o, date=d, tzinfo=tz), "dt"),
        ("daylight(all keywords)", lambda: sun.daylight(observer=o, date=d, tzinfo=tz), "pair"),
        ("night(all keywords)", lambda: sun.night(observer=o, date=d, tzinfo=tz), "pair"),
        ("twilight(all keywords)",
         lambda: sun.twilight(observer=o, date=d, direction=SunDirection.RISING, tzinfo=tz), "pair"),
        ("golden_hour(all keywords)",
         lambda: sun.golden_hour(observer=o, date=d, direction=SunDirection.SETTING, tzinfo=tz), "pair"),
        ("blue_hour(all keywords)",
         lambda: sun.blue_hour(observer=o, date=d, direction=SunDirection.SETTING, tzinfo=tz), "pair"),
        ("rahukaalam(all keywords)", lambda: sun.rahukaalam(observer=o, date=d, daytime=False, tzinfo=tz), "pair"),
        ("sun(all keywords)", lambda: sun.sun(observer=o, date=d, dawn_dusk_depression=12, tzinfo=tz), "dict"),
        ("time_at_elevation(all keywords)",
         lambda: sun.time_at_elevation(observer=o, elevation=5.0, date=d, direction=SunDirection.SETTING, tzinfo=tz,
                                       with_refraction=False), "dt"),
        ("elevation(all keywords)", lambda: sun.elevation(observer=o, dateandtime=dt, with_refraction=False), "float"),
        ("zenith(all keywords)", lambda: sun.zenith(observer=o, dateandtime=dt, with_refraction=True), "float"),
        ("azimuth(all keywords)", lambda: sun.azimuth(observer=o, dateandtime=dt), "float"),
        ("moonrise(all keywords)", lambda: moon.moonrise(observer=o, date=d, tzinfo=tz), "optdt"),
        ("moonset(all keywords)", lambda: moon.moonset(observer=o, date=d, tzinfo=tz), "optdt"),
        ("moon.azimuth(all keywords)", lambda: moon.azimuth(observer=o, at=dt), "float"),
        ("moon.elevation(all keywords)", lambda: moon.elevation(observer=o, at=dt), "float"),
        ("phase(all keywords)", lambda: moon.phase(date=d), "float"),
    ]
    # the same functions with the date omitted and the zone given by NAME (every accepted spelling
    # of the arguments has to reach the same documented outcomes)
    zn = "Pacific/Auckland"
    R, S_ = SunDirection.RISING, SunDirection.SETTING
    lst += [
        ("dawn(date omitted, zone name)", lambda: sun.dawn(o, tzinfo=zn), "dt"),
        ("dusk(date omitted, zone name)", lambda: sun.dusk(o, None, 12, zn), "dt"),
        ("sunrise(date omitted, zone name)", lambda: sun.sunrise(o, tzinfo=zn), "dt"),
        ("sunset(date omitted, zone name)", lambda: sun.sunset(o, tzinfo=zn), "dt"),
        ("noon(date omitted, zone name)", lambda: sun.noon(o, tzinfo=zn), "dt"),
        ("midnight(date omitted, zone name)", lambda: sun.midnight(o, tzinfo=zn), "dt"),
        ("daylight(date omitted, zone name)", lambda: sun.daylight(o, tzinfo=zn), "pair"),
        ("night(date omitted, zone name)", lambda: sun.night(o, tzinfo=zn), "pair"),
        ("twilight(date omitted, zone name)", lambda: sun.twilight(o, direction=S_, tzinfo=zn), "pair"),
        ("golden_hour(date omitted, zone name)", lambda: sun.golden_hour(o, direction=R, tzinfo=zn), "pair"),
        ("blue_hour(date omitted, zone name)", lambda: sun.blue_hour(o, direction=S_, tzinfo=zn), "pair"),
        ("rahukaalam(date omitted, zone name)", lambda: sun.rahukaalam(o, tzinfo=zn), "pair"),
        ("sun(date omitted, zone name)", lambda: sun.sun(o, tzinfo=zn), "dict"),
        ("time_at_elevation(date omitted, zone name)",
         lambda: sun.time_at_elevation(o, 3.0, direction=S_, tzinfo=zn), "dt"),
        ("moonrise(date omitted, zone name)", lambda: moon.moonrise(o, tzinfo=zn), "optdt"),
        ("moonset(date omitted, zone name)", lambda: moon.moonset(o, tzinfo=zn), "optdt"),
        ("elevation(time omitted)", lambda: sun.elevation(o), "float"),
        ("azimuth(time omitted)", lambda: sun.azimuth(o), "float"),
        ("zenith(time omitted)", lambda: sun.zenith(o), "float"),
        ("moon.phase(date omitted)", lambda: moon.phase(), "float"),
    ]
    for name, f, kind in lst:
        r = chk(name, f, kind)
        if r:
            return r
    if (o.latitude, o.longitude, o.elevation) != before:
        return "the observer argument was modified"
    return None


def search_C20(rng, deadline, broken):
    import gens
    import zones
    from astral import Observer
    r = _c20_purity()
    if r:
        r["kind"] = "purity"
        return r
    lats = [90.0, -90.0, 89.8, -89.8, 0.0, 66.56, 75.0]
    lons = [180.0, -180.0, 0.0, 179.999, -177.0, -179.0]
    elevs = [-500.0, 0.0, 5e-324, 1e-200, 1e300, (1e300, 1.0), (1e-200, 0.0), (0.0, 0.0), (3.0, 4.0)]
    while time.time() < deadline:
        o = Observer(rng.choice(lats + [gens.rand_lat(rng)]), rng.choice(lons + [gens.rand_lon(rng)]),
                     rng.choice(elevs + [0.0, 0.0]))
        y = rng.choice([2, 9998, 1900, 2024, 2100, rng.randint(1900, 2100)])
        d = datetime.date(y, rng.randint(1, 12), rng.randint(1, 28))
        z = zones.fixed(rng.choice([0, 60 * rng.randint(-12, 14), 345]))
        try:
            r = _c20_types(o, d, z)
        except Exception as exc:  # noqa: BLE001
            r = "raised %r" % (exc,)
        if r:
            return _descr(o, d, z, clause=r, kind="types")
    return None


def replay_C20(fi):
    if fi.get("kind") == "purity":
        return _c20_purity() is None
    return _c20_types(_obs_from_descr(fi["observer"]), datetime.date.fromisoformat(fi["date"]),
                      _zone_from_descr(fi["zone"])) is None


if __name__ == "__main__" and len(sys.argv) > 2 and sys.argv[1] == "--sequence":
    sys.path.insert(0, os.path.dirname(os.path.abspath(__file__)))
    _sequence_main(sys.argv[2])
