"""Stage C: failing-input search.  Only runs after a proof obligation or a correspondence
has broken.  Each `search_Cxx(rng, deadline, broken)` evaluates the *property itself* on
the implementation and returns a JSON-able description of the first failing input, or None.
"""
import datetime
import json
import math
import os
import random
import sys
import time

import common


def run(prop, seed, budget_s, broken):
    fn = globals().get("search_" + prop)
    if fn is None:
        return None
    rng = random.Random(seed ^ 0x5EA4C4)
    return fn(rng, time.time() + budget_s, broken)


def replay(prop, path):
    doc = json.load(open(path))
    print(json.dumps(doc, indent=1)[:4000])
    fi = doc.get("failing_input")
    if not fi:
        print("no failing input recorded; the replay names what no longer checks")
        return 1
    fn = globals().get("replay_" + prop)
    if fn is None:
        return 1
    ok = fn(fi)
    print("replay:", "property holds on this input now" if ok else "property still fails on this input")
    return 0 if ok else 1


# ------------------------------------------------------------------ C15
def _c15_checks(d, h, mi, s):
    import astral
    from astral import julian as J
    from astral import sun
    o = d.toordinal()
    jd = J.julianday(d)
    if jd != o + 1721424.5:
        return {"clause": "JD = ordinal + 1721424.5", "date": str(d), "got": jd,
                "want": o + 1721424.5}
    if o < 3652059:
        jd1 = J.julianday(d + datetime.timedelta(days=1))
        if jd1 - jd != 1:
            return {"clause": "JD rises by exactly 1 per day", "date": str(d), "got": jd1 - jd}
    dt = datetime.datetime(d.year, d.month, d.day, h, mi, s)
    jdt = J.julianday(dt)
    if abs(jdt - (jd + (h * 3600 + mi * 60 + s) / 86400)) > 1e-8:
        return {"clause": "time of day adds seconds/86400", "datetime": str(dt), "got": jdt}
    # Julian-calendar variant: offset 2 - A + A//4
    yy = d.year - 1 if d.month <= 2 else d.year
    a = yy // 100
    if J.julianday(d, J.Calendar.JULIAN) - jd != -(2 - a + a // 4):
        return {"clause": "Julian-calendar offset", "date": str(d),
                "got": J.julianday(d, J.Calendar.JULIAN) - jd, "want": -(2 - a + a // 4)}
    if d >= datetime.date(1582, 10, 15):
        m = J.julianday_modified(dt)
        want = jd - 2400000.5 + h / 24
        if abs(m - want) > 1e-8:
            return {"clause": "MJD = JD - 2400000.5 at the whole hour", "datetime": str(dt),
                    "got": m, "want": want}
        back = J.julianday_to_datetime(jdt)
        if abs((back - dt).total_seconds()) > 1.0:
            return {"clause": "julianday_to_datetime(julianday(t)) = t within 1 s",
                    "datetime": str(dt), "got": str(back)}
    jc = J.julianday_to_juliancentury(jdt)
    if abs(J.juliancentury_to_julianday(jc) - jdt) > 1e-6:
        return {"clause": "day<->century inverse", "jd": jdt}
    t = datetime.time(h, mi, s, (o * 7919) % 1000000)
    back = astral.hours_to_time(astral.time_to_hours(t))
    us = lambda x: ((x.hour * 60 + x.minute) * 60 + x.second) * 10**6 + x.microsecond  # noqa: E731
    if abs(us(back) - us(t)) > 1:
        return {"clause": "hours helpers round-trip within 1 µs", "time": str(t), "got": str(back)}
    mins = us(t) / 6e7
    td = sun.minutes_to_timedelta(mins)
    if abs(common.td_us(td) - us(t)) > 1:
        return {"clause": "minutes_to_timedelta exact to 1 µs", "time": str(t), "got": str(td)}
    frac = (h * 3600 + mi * 60 + s) / 86400
    ft = J.day_fraction_to_time(frac + 1e-9)
    if abs(us(ft) - us(t.replace(microsecond=0))) > 10**6:
        return {"clause": "day_fraction_to_time round trip within 1 s", "time": str(t),
                "got": str(ft)}
    return None


def search_C15(rng, deadline, broken):
    specials = [datetime.date(2020, 1, 1), datetime.date(1582, 10, 15), datetime.date(1, 1, 1),
                datetime.date(9999, 12, 31), datetime.date(2000, 2, 29), datetime.date(1900, 3, 1),
                datetime.date(1600, 12, 31), datetime.date(2100, 1, 1)]
    i = 0
    while time.time() < deadline:
        if i < len(specials):
            d = specials[i]
        else:
            d = datetime.date.fromordinal(rng.randint(1, 3652059))
        i += 1
        h, mi, s = rng.choice([(12, 0, 0), (0, 0, 0), (23, 59, 59),
                               (rng.randint(0, 23), rng.randint(0, 59), rng.randint(0, 59))])
        r = _c15_checks(d, h, mi, s)
        if r is not None:
            r["args"] = {"date": d.isoformat(), "h": h, "m": mi, "s": s}
            return r
        if i > 400000:
            break
    return None


def replay_C15(fi):
    a = fi["args"]
    return _c15_checks(datetime.date.fromisoformat(a["date"]), a["h"], a["m"], a["s"]) is None
