#!/bin/bash
# usage: harness/seeded_batch.sh <round tag, e.g. r4> <Cxx> [<Cyy> …]
# For each property: validate, import and run the three changes an agent left in /tmp/wt/<Cxx>-out,
# then remove the agent's worktree.  One line per change.
cd "$(dirname "$0")/.."
tag=$1; shift
for p in "$@"; do
  for k in 1 2 3; do
    [ -f /tmp/wt/$p-out/patch$k.diff ] || { echo "$p-$tag-$k MISSING"; continue; }
    v=$(/venv/bin/python harness/seeded.py validate /tmp/wt/$p-out/patch$k.diff /tmp/wt/$p-out/demo$k.py 2>&1 | grep -v WARNING | tail -1)
    if [ "$v" != "VALID" ]; then echo "$p-$tag-$k $v"; continue; fi
    /venv/bin/python harness/seeded_import.py /tmp/wt/$p-out $k $p $tag-$k >/dev/null 2>&1
    out=$(/venv/bin/python harness/seeded.py run seeded/$p-$tag-$k/patch.diff $p 2>&1 | grep -E "tier=" | head -1)
    ex=$(echo "$out" | sed -n 's/.*exit \([0-9]\).*/\1/p')
    th=$(echo "$out" | sed -n 's/.*theorems \([0-9]*\/[0-9]*\).*/\1/p')
    mm=$(echo "$out" | sed -n 's/.*\/ \([0-9]*\) mismatches.*/\1/p')
    nf=$(echo "$out" | grep -c "no-failing-input-found")
    echo "$p-$tag-$k VALID exit=$ex theorems=$th mismatches=$mm concrete=$((1-nf))"
  done
  git -C /repo worktree remove --force /tmp/wt/$p 2>/dev/null
done
git -C /repo worktree prune
git -C /repo status --short
git checkout evidence/ 2>/dev/null
