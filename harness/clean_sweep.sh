#!/bin/bash
# Run every registered quick check on the unchanged tree under several seeds; any non-zero exit
# or VIOLATION line is a false alarm to be investigated.  Usage: harness/clean_sweep.sh [tier] seeds…
cd "$(dirname "$0")/.."
tier=${1:-quick}; shift
seeds=${@:-1 2 3}
for s in $seeds; do
  for i in $(seq -w 1 20); do
    p=C$i
    out=$(VERIF_SEED=$s ./check $p --tier $tier 2>&1)
    rc=$?
    echo "seed=$s $p exit=$rc $(echo "$out" | grep "tier=" | tail -1)"
    if [ $rc -ne 0 ]; then echo "$out" | grep -E "VIOLATION|mismatch|proof stage" | head -5; fi
  done
done
