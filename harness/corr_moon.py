"""Correspondence cases for moon.py and sidereal.py."""
import datetime

import astral.moon as moon
import astral.sidereal as sidereal
from astral import Observer
from common import F, FS, I, T, TZD, E, N, Case, call, wall_us, instant_us
import zones
import gens

UTC = datetime.timezone.utc


def opt_inst(v, tz=UTC):
    return N if v is None else TZD(v, tz)


def gen_position(rng, n, tier="quick"):
    for i in range(n):
        k = i % 5
        jd2000 = rng.uniform(-36525.0, 36890.0) if rng.random() < 0.85 else rng.uniform(-7e5, 3e6)
        if k == 0:
            st, v = call(moon.moon_position, jd2000)
            yield Case("moon_position", "moon_position %s" % F(jd2000),
                       ("%s %s %s" % (FS(v.right_ascension), FS(v.declination), FS(v.distance)))
                       if st == "ok" else E(v), {"jd2000": jd2000})
        elif k == 1:
            d = gens.rand_date(rng)
            yield Case("gmst", "gmst_date %s" % I(d.toordinal()), FS(sidereal.gmst(d)),
                       {"date": str(d)})
        elif k == 2:
            d = gens.rand_date(rng, wide=False)
            dt = datetime.datetime(d.year, d.month, d.day, rng.randint(0, 23), rng.randint(0, 59),
                                   rng.randint(0, 59))
            yield Case("gmst", "gmst_dt %s" % I(wall_us(dt)), FS(sidereal.gmst(dt)),
                       {"datetime": str(dt)})
        elif k == 3:
            d = gens.rand_date(rng)
            lon = gens.rand_lon(rng)
            yield Case("lmst", "lmst_date %s %s" % (I(d.toordinal()), F(lon)),
                       FS(sidereal.lmst(d, lon)), {"date": str(d), "longitude": lon})
        else:
            f = [rng.uniform(-7, 7) for _ in range(3)]
            p = rng.random()
            yield Case("interpolate", "interpolate %s %s %s %s" % (F(f[0]), F(f[1]), F(f[2]), F(p)),
                       FS(moon.interpolate(f[0], f[1], f[2], p)), {"f": f, "p": p})


def north_knife_edge(rng, lat, naive):
    """longitudes (adjacent floats) at which the moon's azimuth jumps between ~360 and ~0 for
    this instant and latitude — the float modulo can round a tiny negative angle to 360.0"""
    import math
    f = lambda lon: moon.azimuth(Observer(lat, lon), naive)  # noqa: E731
    grid = [(-180.0 + 7.5 * i) for i in range(49)]
    vals = [f(x) for x in grid]
    for (a, va), (b, vb) in zip(zip(grid, vals), zip(grid[1:], vals[1:])):
        if abs(va - vb) > 300:
            lo, hi = a, b
            for _ in range(80):
                mid = (lo + hi) / 2.0
                if mid == lo or mid == hi:
                    break
                if abs(f(mid) - va) < 150:
                    lo = mid
                else:
                    hi = mid
            out = []
            x = lo
            for _ in range(12):
                out.append(x)
                x = math.nextafter(x, -math.inf)
            x = hi
            for _ in range(12):
                out.append(x)
                x = math.nextafter(x, math.inf)
            return out
    return []


def sublunar(rng, naive):
    """an observer with the moon (almost exactly) at the zenith — or, at the antipode, the nadir —
    for the instant: walk along the moon's azimuth by the zenith distance, three times"""
    import math
    lat, lon = rng.uniform(-30, 30), rng.uniform(-180, 180)
    for _ in range(4):
        st, el = call(moon.elevation, Observer(lat, lon), naive)
        st2, az = call(moon.azimuth, Observer(lat, lon), naive)
        if st != "ok" or st2 != "ok":
            return None
        dist = math.radians(90.0 - el)
        b = math.radians(az)
        p1 = math.radians(lat)
        s2 = math.sin(p1) * math.cos(dist) + math.cos(p1) * math.sin(dist) * math.cos(b)
        p2 = math.asin(max(-1.0, min(1.0, s2)))
        l2 = math.radians(lon) + math.atan2(math.sin(b) * math.sin(dist) * math.cos(p1),
                                            math.cos(dist) - math.sin(p1) * math.sin(p2))
        lat, lon = math.degrees(p2), (math.degrees(l2) + 180.0) % 360.0 - 180.0
    if rng.random() < 0.5:
        lat, lon = -lat, (lon + 360.0) % 360.0 - 180.0          # the antipode: moon at the nadir
    return lat, lon


def gen_angles(rng, n, tier="quick"):
    """moon azimuth / elevation / zenith; every instant in several spellings one after the
    other (naive UTC, aware UTC, zones, the other fold of an ambiguous wall time)"""
    i = 0
    shared = Observer(0.0, 0.0)      # one object moved from place to place between calls
    prev = None
    while i < n:
        lat = gens.rand_lat(rng)
        lon = gens.rand_lon(rng)
        o_ord = rng.randint(gens.D1900, gens.D2100)
        naive = datetime.datetime.fromordinal(o_ord) + datetime.timedelta(
            seconds=rng.randint(0, 86399))
        if rng.random() < 0.04:
            for x in north_knife_edge(rng, lat, naive):
                st, v = call(moon.azimuth, Observer(lat, x), naive)
                i += 1
                yield Case("moon.azimuth", "moon_azimuth %s %s %s" % (F(lat), F(x), I(wall_us(naive))),
                           FS(v) if st == "ok" else E(v),
                           {"latitude": lat, "longitude": x, "datetime": naive.isoformat(),
                            "zone": "naive"}, ("knife-edge",))
            continue
        o = Observer(lat, lon)
        zamb = None
        if rng.random() < 0.08:
            zamb, n_ = zones.ambiguous_instant(rng)
            if zamb is not None:
                naive = n_
        if rng.random() < 0.3:
            naive = naive.replace(microsecond=rng.choice([1, 250000, 500000, 999999, rng.randint(0, 999999)]))
        if rng.random() < 0.04:
            sl = sublunar(rng, naive)
            if sl is not None:
                lat, lon = sl
                for dl in (0.0, 1e-9, -1e-9, 1e-7):
                    for name in ("elevation", "zenith", "azimuth"):
                        st, v = call(getattr(moon, name), Observer(lat + dl, lon), naive)
                        i += 1
                        yield Case("moon." + name, "moon_%s %s %s %s" % (name, F(lat + dl), F(lon),
                                                                       I(wall_us(naive))),
                                   FS(v) if st == "ok" else E(v),
                                   {"latitude": lat + dl, "longitude": lon, "datetime": naive.isoformat(),
                                    "zone": "naive"}, ("sub-lunar",))
                continue
        reused = False
        if rng.random() < 0.35:
            if zamb is None and prev is not None and rng.random() < 0.6:
                naive = prev            # the same instant from another place
            shared.latitude = lat
            shared.longitude = lon
            o = shared
            reused = True
        prev = naive
        u = naive.replace(tzinfo=UTC)
        spell = [(naive, "naive", naive)]
        if zamb is not None:
            dt = u.astimezone(zamb.tzinfo)
            dt2 = dt.replace(fold=1 - dt.fold)
            spell.append((dt, zamb.describe(), naive))
            spell.append((dt2, zamb.describe() + " fold", dt2.astimezone(UTC).replace(tzinfo=None)))
        if rng.random() < 0.5:
            spell.append((u, "UTC", naive))
        for _ in range(rng.randint(1, 2)):
            z = zones.rand_zone(rng, naive.date())
            dt = u.astimezone(z.tzinfo)
            spell.append((dt, z.describe(), naive))
            if z.iana and rng.random() < 0.4:
                dt2 = dt.replace(fold=1 - dt.fold)
                n2 = dt2.astimezone(UTC).replace(tzinfo=None)
                spell.append((dt2, z.describe() + " fold", n2))
            if z.iana and rng.random() < 0.35:
                dt3 = u.astimezone(zones.docs(z))
                spell.append((dt3, z.describe() + " user-tzinfo", naive))
        if rng.random() < 0.3:
            dts, zls, asu = rng.choice(spell)
            spell.append((gens.as_sub(dts), zls + " (datetime subclass)", asu))
        rng.shuffle(spell)
        for dt, zl, as_utc in spell:
            name = ("azimuth", "elevation", "zenith")[i % 3]
            i += 1
            st, v = call(getattr(moon, name), o, dt)
            # the model takes the UTC wall reading: the conversion itself is what D8 fixed,
            # so it is checked here by giving the model the instant, not the fields
            yield Case("moon." + name, "moon_%s %s %s %s" % (name, F(lat), F(lon), I(wall_us(as_utc))),
                       FS(v) if st == "ok" else E(v),
                       {"latitude": lat, "longitude": lon, "datetime": dt.isoformat(), "zone": zl,
                        "fold": dt.fold, "observer_object": "re-assigned" if reused else "fresh"},
                       live={"observer": o, "result": (st, v)})


def lon_for_end_of_utc_day(rng, lat, lon, d, idx):
    """slide the observer east/west so that the moon event of UTC day `d` falls in the last
    minute of that UTC day (the half-minute rounding carry, defect D5)"""
    for _ in range(3):
        st, v = call(moon.riseset, d, Observer(lat, lon))
        if st != "ok" or v[idx] is None:
            return lon
        t = v[idx]
        tod = t.hour * 60 + t.minute
        want = 1439.6 + rng.uniform(-0.4, 0.6)
        delta_min = want - tod                       # we want the event this much later
        if delta_min > 720:
            delta_min -= 1440
        lon = lon - delta_min / 4.14                 # moving west delays the event
        lon = (lon + 180.0) % 360.0 - 180.0
    return lon


def dst_day_edge(rng, name):
    """(observer, date, zone): a clock-change date of an IANA zone and a longitude at which the
    moon event falls within an hour of the END of that local date — where a day that is 23 or
    25 hours long differs from one that is assumed to be 24"""
    zn = rng.choice(["Europe/London", "America/New_York", "America/Los_Angeles", "Europe/Berlin",
                     "Pacific/Auckland", "Australia/Sydney", "America/Sao_Paulo", "Asia/Tehran",
                     "America/St_Johns", "Africa/Casablanca", "Europe/Lisbon", "America/Santiago"])
    z = zones.iana(zn)
    changes = [t for t, _ in z.utc_table[1:]]
    if not changes:
        return None
    t_us = rng.choice(changes)
    local_change = datetime.datetime(1, 1, 1) + datetime.timedelta(microseconds=t_us) \
        - datetime.timedelta(days=1)                      # wall_us counts from ordinal 0
    d = local_change.replace(tzinfo=UTC).astimezone(z.tzinfo).date()
    if not (datetime.date(1901, 1, 1) < d < datetime.date(2099, 12, 1)):
        return None
    lat = rng.uniform(-55, 55)
    lon = rng.uniform(-180, 180)
    nxt = d + datetime.timedelta(days=1)
    end_utc = datetime.datetime(nxt.year, nxt.month, nxt.day, tzinfo=z.tzinfo).astimezone(UTC)
    target = end_utc + datetime.timedelta(minutes=rng.uniform(-58, 58))
    idx = 0 if name == "moonrise" else 1
    for _ in range(4):
        best = None
        for du in (-1, 0, 1):
            st, v = call(moon.riseset, target.date() + datetime.timedelta(days=du), Observer(lat, lon))
            if st == "ok" and v[idx] is not None:
                gap = (target - v[idx]).total_seconds() / 60.0
                if best is None or abs(gap) < abs(best):
                    best = gap
        if best is None:
            return None
        if abs(best) < 3:
            break
        lon = (lon - best / 4.14 + 180.0) % 360.0 - 180.0      # moving west delays the event
    return Observer(lat, lon), d, z


def no_event_day(rng, idx):
    """(observer, zone, date): a UTC day on which the moon does not rise (idx 0) / set (idx 1) at
    all — about once per lunar month — asked for in a zone away from UTC, so that the answer has
    to come from a neighbouring UTC day and be expressed in that zone"""
    lat, lon = rng.uniform(-55, 55), rng.uniform(-180, 180)
    o = Observer(lat, lon)
    d0 = gens.rand_date(rng, wide=False)
    for k in range(31):
        d = d0 + datetime.timedelta(days=k)
        st, v = call(moon.riseset, d, o)
        if st == "ok" and v[idx] is None:
            off = rng.choice([-1, 1]) * rng.choice([180, 330, 345, 540, 600, 660, 720])
            z = zones.fixed(off) if rng.random() < 0.6 else zones.iana(rng.choice(zones.IANA_NAMES))
            return o, z, d + datetime.timedelta(days=rng.choice([-1, 0, 0, 1]))
    return None


def ra_wrap_hour(rng, idx):
    """(observer, date): the moon event placed in the very UTC hour in which the moon's right
    ascension passes through 0h/24h (once per 27.3 days) — where an unwrapped interpolation window
    is off by a whole turn"""
    import math
    d0 = gens.rand_date(rng, wide=False)
    try:
        j0 = moon.julianday_2000(d0)
    except Exception:  # noqa: BLE001
        return None
    ra = lambda h: moon.moon_position(j0 + h / 24.0).right_ascension % (2 * math.pi)  # noqa: E731
    prev = ra(0)
    wrap = None
    for h6 in range(6, 28 * 24, 6):              # coarse, then the hour inside the 6-hour window
        cur = ra(h6)
        if cur < prev - math.pi:
            p2 = prev
            for h in range(h6 - 5, h6 + 1):
                c2 = ra(h)
                if c2 < p2 - math.pi:
                    wrap = datetime.datetime(d0.year, d0.month, d0.day, tzinfo=UTC) + \
                        datetime.timedelta(hours=h - 1)
                    break
                p2 = c2
            break
        prev = cur
    if wrap is None or wrap.year > 2099:
        return None
    target = wrap + datetime.timedelta(minutes=rng.uniform(2, 58))
    lat, lon = rng.uniform(-50, 50), rng.uniform(-180, 180)
    for _ in range(4):
        best = None
        for du in (-1, 0, 1):
            st, v = call(moon.riseset, target.date() + datetime.timedelta(days=du), Observer(lat, lon))
            if st == "ok" and v[idx] is not None:
                gap = (target - v[idx]).total_seconds() / 60.0
                if best is None or abs(gap) < abs(best):
                    best = gap
        if best is None:
            return None
        if abs(best) < 4:
            break
        lon = (lon - best / 4.14 + 180.0) % 360.0 - 180.0
    return Observer(lat, lon), target.date()


def gen_riseset(rng, n, tier="quick"):
    # consecutive dates for one observer, in ascending order, across two lunar months: state
    # carried from one day's scan to the next (cached, mutated positions) shows up
    for sweep in range(2 if n >= 1000 else 1):
        lat, lon = rng.uniform(-55, 55), gens.rand_lon(rng)
        o = Observer(lat, lon)
        d0 = gens.rand_date(rng, wide=False)
        for k in range(62):
            d = d0 + datetime.timedelta(days=k)
            name = "moonrise" if (k + sweep) % 2 == 0 else "moonset"
            st, v = call(getattr(moon, name), o, d)
            yield Case(name, "%s %s %s %s %s" % (name, F(lat), F(lon), I(d.toordinal()), zones.fixed(0).tok),
                       opt_inst(v, UTC) if st == "ok" else E(v),
                       {"date": str(d), "latitude": lat, "longitude": lon, "zone": "fixed+0",
                        "sweep_day": k}, ("sweep",), live={"result": (st, v)})
    for i in range(n):
        lat = gens.rand_lat(rng, polar=(rng.random() < 0.3))
        lon = gens.rand_lon(rng)
        k = i % 3
        if rng.random() < 0.12 and abs(lat) < 65:
            d_ = gens.rand_date(rng, wide=False)
            lon = lon_for_end_of_utc_day(rng, lat, lon, d_, rng.choice([0, 1]))
            o = Observer(lat, lon)
            st, v = call(moon.riseset, d_, o)
            yield Case("riseset", "riseset %s %s %s" % (I(d_.toordinal()), F(lat), F(lon)),
                       ("%s %s" % (opt_inst(v[0]), opt_inst(v[1]))) if st == "ok" else E(v),
                       {"date": str(d_), "latitude": lat, "longitude": lon},
                       tuple("last-minute" for x in (v if st == "ok" else ()) if x is not None
                             and x.hour == 23 and x.minute == 59))
            continue
        o = Observer(lat, lon)
        if k == 0:
            d = gens.rand_date(rng, wide=(rng.random() < 0.3))
            st, v = call(moon.riseset, d, o)
            yield Case("riseset", "riseset %s %s %s" % (I(d.toordinal()), F(lat), F(lon)),
                       ("%s %s" % (opt_inst(v[0]), opt_inst(v[1]))) if st == "ok" else E(v),
                       {"date": str(d), "latitude": lat, "longitude": lon})
        else:
            d0 = gens.rand_date(rng, wide=False)
            z = zones.rand_zone(rng, d0)
            d = gens.rand_date(rng, z, wide=False) if z.iana else d0
            name = "moonrise" if k == 1 else "moonset"
            r_ = rng.random()
            if r_ < 0.08:
                e = no_event_day(rng, 0 if name == "moonrise" else 1)
                if e is not None:
                    o, z, d = e
                    lat, lon = o.latitude, o.longitude
            elif r_ < 0.14:
                e = ra_wrap_hour(rng, 0 if name == "moonrise" else 1)
                if e is not None:
                    o, d = e
                    lat, lon = o.latitude, o.longitude
            elif r_ < 0.24:
                e = dst_day_edge(rng, name)
                if e is not None:
                    o, d, z = e
                    lat, lon = o.latitude, o.longitude
                    if rng.random() < 0.4:
                        d = d + datetime.timedelta(days=1)      # and the day after, from its start
            elif rng.random() < 0.2:
                st0, t0 = call(getattr(moon, name), o, d)
                if st0 == "ok" and t0 is not None:
                    z = zones.midnight_zone(rng, t0)
            st, v = call(getattr(moon, name), o, d, z.tzinfo)
            tags = ()
            if st == "ok":
                tags = ("none",) if v is None else ("utc%+d" % (v.astimezone(UTC).date() - d).days,)
            yield Case(name, "%s %s %s %s %s" % (name, F(lat), F(lon), I(d.toordinal()), z.tok),
                       opt_inst(v, z.tzinfo) if st == "ok" else E(v),
                       {"date": str(d), "latitude": lat, "longitude": lon, "zone": z.describe()},
                       tags, live={"result": (st, v)})


def gen_phase(rng, n, tier="quick"):
    for i in range(n):
        d = datetime.date.fromordinal(rng.randint(1, 3652059)) if rng.random() < 0.5 else \
            gens.rand_date(rng, wide=False)
        if i % 5 == 4 and d.year > 1:
            # the "date" spelled as a datetime (naive or aware): its own wall-clock fields count
            dt = datetime.datetime(d.year, d.month, d.day, rng.randint(0, 23), rng.randint(0, 59),
                                   rng.randint(0, 59))
            if rng.random() < 0.4:
                dt = dt.replace(tzinfo=datetime.timezone(datetime.timedelta(minutes=rng.randrange(-720, 841, 15))))
            st, v = call(moon.phase, dt)
            yield Case("phase", "phase_dt %s" % I(wall_us(dt)), FS(v) if st == "ok" else E(v),
                       {"datetime": dt.isoformat()})
        elif i % 2:
            yield Case("phase", "phase %s" % I(d.toordinal()), FS(moon.phase(d)), {"date": str(d)})
        else:
            yield Case("_phase_asfloat", "phase_asfloat %s" % I(d.toordinal()),
                       FS(moon._phase_asfloat(d)), {"date": str(d)})


GROUPS = {
    "moon_position": gen_position,
    "moon_angles": gen_angles,
    "moon_riseset": gen_riseset,
    "moon_phase": gen_phase,
}


def _phase_chunk(rng_):
    import struct as _st
    lo, hi = rng_
    fromord = datetime.date.fromordinal
    ph = moon.phase
    out = []
    for o in range(lo, hi):
        v = ph(fromord(o))
        if type(v) is float:
            out.append("F%016x" % _st.unpack("<Q", _st.pack("<d", v))[0])
        else:
            out.append("X%s" % type(v).__name__)
    return out


def phase_all_dates_bulk():
    """every date 0001-01-01 … 9999-12-31 (the property quantifies over all of them), computed
    on all cores; returns (function, requests, expected, describe)"""
    import multiprocessing
    N = 3652059
    step = 60000
    chunks = [(lo, min(lo + step, N + 1)) for lo in range(1, N + 1, step)]
    with multiprocessing.Pool(min(16, multiprocessing.cpu_count())) as pool:
        parts = pool.map(_phase_chunk, chunks)
    expected = [x for part in parts for x in part]
    requests = ["phase I%d" % o for o in range(1, N + 1)]
    return "phase", requests, expected, (lambda i: {"ordinal": i + 1,
                                                    "date": str(datetime.date.fromordinal(i + 1))})
