"""Correspondence for location.py (delegation, via recorders) and __main__.py (CLI)."""
import contextlib
import datetime
import inspect
import io
import json
import runpy
import sys
import zoneinfo

import astral
import astral.location
import astral.moon
import astral.sun
from astral import Depression, LocationInfo, SunDirection
from astral.location import Location
from common import invoke,  F, FS, I, S, B, E, N, Case, call
import corr_geo
import gens

UTC = datetime.timezone.utc
TARGETS = {
    "sun": (astral.sun, "sun"), "dawn": (astral.sun, "dawn"), "sunrise": (astral.sun, "sunrise"),
    "noon": (astral.sun, "noon"), "sunset": (astral.sun, "sunset"), "dusk": (astral.sun, "dusk"),
    "midnight": (astral.sun, "midnight"), "daylight": (astral.sun, "daylight"),
    "night": (astral.sun, "night"), "twilight": (astral.sun, "twilight"),
    "moonrise": (astral.moon, "moonrise"), "moonset": (astral.moon, "moonset"),
    "time_at_elevation": (astral.sun, "time_at_elevation"), "rahukaalam": (astral.sun, "rahukaalam"),
    "golden_hour": (astral.sun, "golden_hour"), "blue_hour": (astral.sun, "blue_hour"),
    "azimuth": (astral.sun, "azimuth"), "elevation": (astral.sun, "elevation"),
    "phase": (astral.moon, "phase"),
}
TODAY_UTC = datetime.date(2000, 2, 3)
TODAY_TZ = datetime.date(2000, 2, 4)
METHODS = ["sun", "dawn", "sunrise", "noon", "sunset", "dusk", "midnight", "daylight", "night",
           "twilight", "moonrise", "moonset", "time_at_elevation", "rahukaalam", "golden_hour",
           "blue_hour", "solar_azimuth", "solar_elevation", "solar_zenith", "moon_phase"]
TZ_NAMES = ["Europe/London", "Asia/Tokyo", "Pacific/Apia", "America/New_York", "Asia/Kolkata",
            "Pacific/Kiritimati", "UTC"]
# zones whose offset had a seconds part inside 1900-1972 (local mean time eras)
OLD_TZ_NAMES = ["Africa/Monrovia", "Europe/Amsterdam", "Europe/Dublin", "America/Bogota"]


_ABSENT = object()


class Recorder:
    """replaces every sun/moon target by a function that records its call and returns a
    sentinel; also freezes `today` as seen from astral.location"""

    def __init__(self):
        self.calls = []
        self.saved = []
        self.today_zone = []

    def __enter__(self):
        for tag, (mod, name) in TARGETS.items():
            orig = getattr(mod, name)
            sig = inspect.signature(orig)
            self.saved.append((mod, name, orig))

            def make(tag=tag, sig=sig):
                def rec(*a, **k):
                    ba = sig.bind(*a, **k)
                    sentinel = 12.5 if tag in ("azimuth", "elevation", "phase") else object()
                    self.calls.append((tag, dict(ba.arguments), sentinel))
                    return sentinel
                return rec
            setattr(mod, name, make())
        self.saved.append((astral.location, "today", getattr(astral.location, "today", _ABSENT)))

        def fake_today(tz=None):
            self.today_zone.append(tz)
            return TODAY_UTC if tz is None else TODAY_TZ
        astral.location.today = fake_today
        return self

    def __exit__(self, *exc):
        for mod, name, orig in self.saved:
            if orig is _ABSENT:
                if hasattr(mod, name):
                    delattr(mod, name)
            else:
                setattr(mod, name, orig)
        return False


def num_tok(x):
    """a number where int and float are both legitimate (the configured depression)"""
    if type(x) in (int, float):
        return F(float(x))
    return "X%s" % type(x).__name__


def zone_tok(tz):
    if isinstance(tz, zoneinfo.ZoneInfo):
        return S(tz.key)
    if tz is datetime.timezone.utc:
        return "U"           # explicitly UTC = the library default
    return "X%s" % type(tz).__name__


def call_tok(tag, args, today_zone):
    """canonical description of a recorded call (same layout as the model's tokCall)"""
    o = args.get("observer")
    if o is not None:
        head = "%s %s %s %s" % (tag, FS(o.latitude), FS(o.longitude), corr_geo.elev_state_tok(o.elevation))
    else:
        head = None
    d = args.get("date", "absent")
    if d == "absent":
        dt = N
    elif d is TODAY_UTC or (d == TODAY_UTC and today_zone and today_zone[-1] is None):
        dt = "today:U"
    elif d == TODAY_TZ and today_zone and today_zone[-1] is not None:
        dt = "today:" + zone_tok(today_zone[-1])
    elif isinstance(d, datetime.date):
        dt = I(d.toordinal())
    else:
        dt = "X%s" % type(d).__name__
    dep = args.get("depression", args.get("dawn_dusk_depression", None))
    dep_t = N if dep is None else num_tok(dep)
    z = zone_tok(args["tzinfo"]) if "tzinfo" in args else "U"
    di = args.get("direction")
    di_t = N if di is None else I(1 if di == SunDirection.RISING else -1)
    el = args.get("elevation")
    el_t = N if (el is None or tag == "elevation") else FS(el)
    return head, dt, dep_t, z, di_t, el_t


def gen_location(rng, n, tier="quick"):
    i = 0
    while i < n:
        info = LocationInfo(rng.choice(["A", "Greenwich", "x y"]), rng.choice(["R", "England", ""]),
                            rng.choice(TZ_NAMES + OLD_TZ_NAMES), rng.uniform(-90, 90), rng.uniform(-180, 180))
        loc = invoke(Location, info)       # positionally or as Location(info=…)
        # a second Location made from the very same LocationInfo, and the LocationInfo itself, must
        # not change when attributes of the first are assigned
        if rng.random() < 0.05:
            # the documented default location: Greenwich (values from the documentation, not read
            # back from the object)
            loc = Location()
            info = LocationInfo("Greenwich", "England", "Europe/London", 51.4733, -0.0008333)
        sib, orig_info = Location(info), {"latitude": info.latitude, "longitude": info.longitude,
                                          "timezone": info.timezone}
        history = []
        # what the object's zone must be by the property, tracked independently of the object:
        # an accepted assignment sets it, a rejected one leaves it as it was
        shadow_tz = info.timezone
        shadow = {"latitude": info.latitude, "longitude": info.longitude}
        # one object, a history that interleaves attribute assignments and method calls
        # (reading .observer / .info in between): stale per-object caches show up
        for _step in range(rng.randint(4, 14)):
            if rng.random() < 0.4:
                k = rng.random()
                try:
                    if k < 0.55:
                        attr, lim = ("latitude", 90.0) if k < 0.25 else ("longitude", 180.0)
                        if attr == "latitude":
                            v = rng.choice([rng.uniform(-100, 100), "51°30'N", "12.5", rng.randint(-90, 90),
                                            rng.randint(-200, 200), "200", "bad"])
                        else:
                            v = rng.choice([rng.uniform(-200, 200), "0°7'W", "-77.03", rng.randint(-180, 180),
                                            rng.randint(-400, 400), "139°41'E", ""])
                        history.append((attr, repr(v)))
                        st_, r_ = call(setattr, loc, attr, v)
                        # the stored value is what the model's dms_to_float makes of the argument with
                        # THIS attribute's limit; a rejected assignment changes nothing
                        got_now = getattr(loc, attr)
                        i += 1
                        yield Case("Location." + attr, "dms_to_float %s %s" % (corr_geo.arg_tok(v), F(lim)),
                                   FS(got_now) if st_ == "ok" else E(r_),
                                   {"history": list(history), "assigned": repr(v)})
                        if st_ == "ok" and type(got_now) is float:
                            shadow[attr] = got_now        # checked against the model by the case above
                        elif st_ != "ok" and getattr(loc, attr) != shadow[attr]:
                            i += 1
                            yield Case("Location." + attr, "dms_to_float %s N" % F(shadow[attr]),
                                       FS(getattr(loc, attr)) + " Xchanged-by-rejected-assignment",
                                       {"history": list(history), "assigned": repr(v)})
                    elif k < 0.68:
                        v = rng.choice(TZ_NAMES + OLD_TZ_NAMES + ["Nowhere/Zone", "Europe/Lodnon", "Mars/Olympus"])
                        history.append(("timezone", v))
                        valid = v in zoneinfo.available_timezones()
                        history_prev_tz = shadow_tz
                        st_, r_ = call(setattr, loc, "timezone", v)
                        if valid:
                            shadow_tz = v
                        i += 1
                        yield Case("Location.timezone", "set_timezone %s %s %s" % (S(history_prev_tz), S(v), B(valid)),
                                   "%s %s" % (S(loc.timezone) if isinstance(loc.timezone, str) else "Xtz",
                                              "ok" if st_ == "ok" else E(r_)),
                                   {"history": list(history), "assigned": v, "valid": valid})
                    elif k < 0.85:
                        v = rng.choice(["civil", "nautical", "astronomical", Depression.CIVIL,
                                        Depression.NAUTICAL, Depression.ASTRONOMICAL, 7.5, 3, 18.0, "bogus"])
                        tok = ("name:" + S(v)) if isinstance(v, str) else \
                            (v.name.lower() if isinstance(v, Depression) else F(v))
                        st, r = call(setattr, loc, "solar_depression", v)
                        got = num_tok(loc.solar_depression) if st == "ok" else E(r)
                        i += 1
                        yield Case("Location.solar_depression", "set_depression %s" % tok, got,
                                   {"value": repr(v)})
                        history.append(("solar_depression", repr(v)))
                    elif k < 0.93:
                        loc.name = rng.choice(["N1", "N2"])
                        history.append(("name", loc.name))
                    else:
                        _ = (loc.observer, loc.info, loc.tzinfo)
                        history.append(("read", "observer/info/tzinfo"))
                except (ValueError, KeyError):
                    pass
                continue
            m = rng.choice(METHODS)
            kwargs = {}
            d = None
            if m not in ("solar_azimuth", "solar_elevation", "solar_zenith"):
                if rng.random() < 0.6:
                    d = gens.rand_date(rng, wide=False)
                    kwargs["date"] = d
                local = rng.random() < 0.5
                if rng.random() < 0.8:
                    kwargs["local"] = local
                else:
                    local = True
            else:
                local = True
            oe = None
            if m in ("sun", "dawn", "sunrise", "sunset", "dusk", "daylight", "night", "twilight",
                     "rahukaalam", "golden_hour", "blue_hour", "solar_azimuth", "solar_elevation",
                     "solar_zenith") and rng.random() < 0.6:
                oe = rng.choice([rng.uniform(0, 3000), 0.0, 12, (rng.uniform(-50, 50), rng.uniform(1, 5000))])
                kwargs["observer_elevation"] = oe
            di = None
            if m in ("twilight", "golden_hour", "blue_hour", "time_at_elevation") and rng.random() < 0.7:
                di = rng.choice([SunDirection.RISING, SunDirection.SETTING])
                kwargs["direction"] = di
            el = None
            pos = []
            if m == "time_at_elevation":
                el = rng.choice([6.0, -4.0, rng.uniform(-10, 80), rng.uniform(91, 179)])
                pos = [el]
            dt_in = None
            if m in ("solar_azimuth", "solar_elevation", "solar_zenith"):
                # years in which some zones still had local-mean-time offsets with a seconds part
                yr = rng.choice([2021, rng.randint(1900, 1972), rng.randint(1900, 1936), rng.randint(1900, 2099)])
                base = datetime.datetime(yr, rng.randint(1, 12), rng.randint(1, 28), rng.randint(0, 23),
                                         rng.randint(0, 59), rng.randint(0, 59))
                kind = rng.random()
                if kind < 0.15 and shadow_tz != "UTC":
                    # a naive reading inside a repeated hour of the location's zone, either fold:
                    # PEP 495 says which instant it is
                    import zones as _zones
                    try:
                        amb = _zones.ambiguous_wall(rng, _zones.iana(shadow_tz))
                    except Exception:  # noqa: BLE001
                        amb = None
                    dt_in = (amb or base).replace(fold=rng.choice([0, 1]))
                elif kind < 0.45:
                    dt_in = base
                elif kind < 0.9:
                    dt_in = base.replace(tzinfo=zoneinfo.ZoneInfo(rng.choice(TZ_NAMES + OLD_TZ_NAMES)))
                if dt_in is not None:
                    pos = [dt_in]
            given_phase_dt = None
            if m == "moon_phase" and d is not None and rng.random() < 0.45:
                # the phase varies within the day: a datetime is handed on as it is
                given_phase_dt = datetime.datetime(d.year, d.month, d.day, rng.randint(0, 23), rng.randint(0, 59))
                if rng.random() < 0.4:
                    given_phase_dt = given_phase_dt.replace(tzinfo=zoneinfo.ZoneInfo(rng.choice(TZ_NAMES)))
                kwargs["date"] = given_phase_dt
            state = (shadow["latitude"], shadow["longitude"], shadow_tz, loc.solar_depression)
            frozen_now = None
            if m in ("solar_azimuth", "solar_elevation", "solar_zenith") and dt_in is None:
                # the instant omitted: "now" — read from the library's clock, which is frozen here
                import corr_norm as _cn
                frozen_now = datetime.datetime(rng.randint(1950, 2090), rng.randint(1, 12), rng.randint(1, 28),
                                               rng.randint(0, 23), rng.randint(0, 59), rng.randint(0, 59),
                                               tzinfo=datetime.timezone.utc)
                with _cn.FrozenClock(frozen_now):
                    with Recorder() as rec:
                        st, ret = call(getattr(loc, m), *pos, **kwargs)
            else:
                with Recorder() as rec:
                    st, ret = call(getattr(loc, m), *pos, **kwargs)
            req = "loc_call %s %s %s %s %s %s %s %s %s %s" % (
                F(state[0]), F(state[1]), S(state[2]), F(state[3]), m,
                I(d.toordinal()) if d is not None else N, B(local),
                corr_geo.elev_tok(oe) if oe is not None else N,
                I(-1 if di == SunDirection.SETTING else 1), F(el) if el is not None else N)
            descr = {"state": {"latitude": state[0], "longitude": state[1], "timezone": state[2],
                               "solar_depression": state[3]}, "history": history, "method": m,
                     "kwargs": {k_: repr(v_) for k_, v_ in kwargs.items()}, "args": [repr(x) for x in pos]}
            i += 1
            if st == "err":
                yield Case("Location." + m, req, E(ret), descr)
                continue
            if len(rec.calls) != 1:
                yield Case("Location." + m, req, "X%d-calls" % len(rec.calls), descr)
                continue
            tag, args, sentinel = rec.calls[0]
            head, dtk, dep_t, z, di_t, el_t = call_tok(tag, args, rec.today_zone)
            # return value: exactly what the function returned (solar_zenith: 90 - elevation)
            if m == "solar_zenith":
                ok_ret = ret == 90.0 - sentinel
            else:
                ok_ret = ret is sentinel
            if tag in ("azimuth", "elevation"):
                # the datetime handed over: the given one read in the location's zone, as UTC
                got_dt = args.get("dateandtime")
                if dt_in is None:
                    want = "now"
                    # either nothing is handed on (the function reads the clock itself) or the
                    # clock reading: the frozen instant, as an aware datetime
                    ok_dt = got_dt is None or (
                        isinstance(got_dt, datetime.datetime) and got_dt.tzinfo is not None
                        and frozen_now is not None
                        and got_dt.astimezone(datetime.timezone.utc).replace(tzinfo=None)
                        == frozen_now.replace(tzinfo=None))
                else:
                    w = dt_in if dt_in.tzinfo is not None else dt_in.replace(
                        tzinfo=zoneinfo.ZoneInfo(state[2]))
                    # compared field by field as UTC: `==` between zones is always False for a
                    # wall time inside a repeated hour (PEP 495), which says nothing about the code
                    ok_dt = (isinstance(got_dt, datetime.datetime) and got_dt.tzinfo is not None
                             and got_dt.utcoffset() == datetime.timedelta(0)
                             and got_dt.replace(tzinfo=None)
                             == w.astimezone(datetime.timezone.utc).replace(tzinfo=None))
                exp = "%s %s %s %s %s %s" % (head, N, N, N, N, N)
                if not ok_dt:
                    exp += " Xdatetime:%s" % (got_dt.isoformat() if isinstance(got_dt, datetime.datetime) else got_dt)
            elif tag == "phase":
                exp = "phase %s %s I0 %s %s %s %s %s %s %s" % (F(state[0]), F(state[1]), F(0.0), F(0.0),
                                                          dtk, N, N, N, N)
            else:
                zt = z
                exp = "%s %s %s %s %s %s" % (head, dtk, dep_t, zt, di_t, el_t)
            if not ok_ret:
                exp += " Xreturn-value-not-passed-through"
            if given_phase_dt is not None:
                got_d = args.get("date")
                if not (type(got_d) is datetime.datetime and got_d == given_phase_dt
                        and got_d.tzinfo is given_phase_dt.tzinfo):
                    exp += " Xdatetime-not-handed-on:%r" % (got_d,)
            yield Case("Location." + m, req, exp, descr)
        for attr in ("latitude", "longitude"):
            got_s, got_i = getattr(sib, attr), getattr(info, attr)
            i += 1
            exp_s = FS(got_s)
            if got_s != orig_info[attr] or got_i != orig_info[attr] or info.timezone != orig_info["timezone"]:
                exp_s += " Xchanged-through-another-Location:%r/%r" % (got_s, got_i)
            yield Case("Location." + attr, "dms_to_float %s N" % F(orig_info[attr]), exp_s,
                       {"history": list(history), "checked": "a sibling Location and the LocationInfo both were "
                                                              "made from keep their " + attr})


def gen_cli(rng, n, tier="quick"):
    for i in range(n):
        lat, lon = rng.uniform(-89, 89), rng.uniform(-180, 180)
        elev = rng.choice([None, 0.0, rng.uniform(0, 3000)])
        name = rng.choice([None, "Home", "A b"])
        region = rng.choice([None, "Mars", "R"])
        d = gens.rand_date(rng, wide=False) if rng.random() < 0.7 else None
        tzname = rng.choice([None, None] + TZ_NAMES)
        argv = ["astral"]
        if name is not None:
            argv += ["-n", name]
        if region is not None:
            argv += ["-r", region]
        if d is not None:
            argv += ["-d", d.isoformat()]
        if tzname is not None:
            argv += ["-t", tzname]
        argv += ["--", repr(lat), repr(lon)] + ([repr(elev)] if elev is not None else [])
        fixed = {k: datetime.datetime(2021, 6, 21, 3 + j, 7 * j, 11, tzinfo=UTC)
                 for j, k in enumerate(["dawn", "sunrise", "noon", "sunset", "dusk"])}
        rec_calls = []
        orig = astral.sun.sun
        sig = inspect.signature(orig)

        def fake_sun(*a, **k):
            ba = sig.bind(*a, **k)
            rec_calls.append(dict(ba.arguments))
            tz = ba.arguments.get("tzinfo", UTC)
            return {k_: v_.astimezone(tz) for k_, v_ in fixed.items()}
        buf = io.StringIO()
        old_argv = sys.argv
        astral.sun.sun = fake_sun
        sys.argv = argv
        try:
            with contextlib.redirect_stdout(buf), contextlib.redirect_stderr(io.StringIO()):
                st, ret = call(runpy.run_module, "astral", run_name="__main__")
        except SystemExit as exc:
            st, ret = "err", exc
        finally:
            astral.sun.sun = orig
            sys.argv = old_argv
            sys.modules.pop("astral.__main__", None)
        req = "cli_run %s %s %s %s %s %s %s" % (
            S(name if name is not None else "Somewhere"), S(region if region is not None else "On Earth"),
            I(d.toordinal()) if d is not None else N, S(tzname) if tzname is not None else N,
            F(lat), F(lon), F(elev if elev is not None else 0.0))
        descr = {"argv": argv}
        if st == "err" or len(rec_calls) != 1:
            yield Case("cli", req, E(ret) if st == "err" else "X%d-calls" % len(rec_calls), descr)
            continue
        a = rec_calls[0]
        head, dtk, dep_t, z, di_t, el_t = call_tok("sun", a, [])
        # output checks: one JSON object, the five times formatted, labels
        problems = ""
        try:
            out = json.loads(buf.getvalue())
            tz = a.get("tzinfo", UTC)
            fmt = "%Y-%m-%dT%H:%M:%S" + ("Z" if tzname is None else "%z")
            want = {k_: v_.astimezone(tz).strftime(fmt) for k_, v_ in fixed.items()}
            for k_ in want:
                if out.get(k_) != want[k_]:
                    problems += " X%s=%s" % (k_, out.get(k_))
            if set(out.keys()) != set(want) | {"timezone", "location"}:
                problems += " Xkeys"
            tz_label, loc_label = S(out.get("timezone")), S(out.get("location"))
        except Exception as exc:  # noqa: BLE001
            problems += " Xjson:%s" % type(exc).__name__
            tz_label = loc_label = "X"
        exp = "%s %s %s %s %s %s %s %s %s%s" % (head, dtk, dep_t, z, di_t, el_t,
                                                B(tzname is None), tz_label, loc_label, problems)
        yield Case("cli", req, exp, descr)


GROUPS = {"location": gen_location, "cli": gen_cli}
