"""Shared pieces of the correspondence harness: token protocol, model driver,
comparison, exception -> error-kind mapping, deterministic PRNG helpers.

Run with /venv/bin/python: `astral` is a path install of /repo/src, so whatever is in
/repo's working tree *now* is what gets imported and executed.
"""
import datetime
import json
import math
import os
import random
import struct
import subprocess
import sys
import time

VERIF = os.path.dirname(os.path.dirname(os.path.abspath(__file__)))
LEAN_DIR = os.path.join(VERIF, "lean")
MODEL_EXE = os.path.join(LEAN_DIR, ".lake", "build", "bin", "astral-model")

US_DAY = 86400_000_000


# ---------------------------------------------------------------- tokens
def F(x):
    return "F%016x" % struct.unpack("<Q", struct.pack("<d", float(x)))[0]


def FS(x):
    """strict float token for *outputs* of the implementation: anything that is not exactly a
    float (an int, a str, None, …) gets a token no model output can match"""
    if type(x) is float:
        return F(x)
    return "X%s:%s" % (type(x).__name__, "".join(ch for ch in repr(x)[:40] if not ch.isspace()))


def unF(tok):
    return struct.unpack("<d", struct.pack("<Q", int(tok[1:], 16)))[0]


def I(n):
    return "I%d" % int(n)


def T(n):
    """an instant / duration in microseconds, compared with a 2 µs tolerance"""
    return "T%d" % int(n)


def B(b):
    return "B1" if b else "B0"


def S(s):
    if type(s) is not str:
        return "X%s:%s" % (type(s).__name__, "".join(ch for ch in repr(s)[:40] if not ch.isspace()))
    return "S" + ",".join(str(ord(c)) for c in s)


N = "N"


def TZD(dt, tz):
    """an aware datetime the implementation returned for output zone `tz`: the instant, provided
    the value really is expressed in that zone (else a token nothing matches)"""
    import datetime as _dt
    if type(dt) is not _dt.datetime:
        return "X%s:%s" % (type(dt).__name__, "".join(ch for ch in repr(dt)[:40] if not ch.isspace()))
    if dt.tzinfo is None:
        return "Xnaive:%s" % dt.isoformat()
    if dt.utcoffset() != dt.astimezone(tz).utcoffset():
        return "Xwrongzone:%s" % dt.isoformat()
    if tz is not None and not (dt.tzinfo is tz or dt.tzinfo == tz):
        # same offset at this instant, but not the zone that was asked for (a fixed offset in
        # place of a zone with rules, say): arithmetic on the result would go wrong later
        return "Xothertzinfo:%r" % (dt.tzinfo,)
    return T(instant_us(dt))


def wall_us(dt):
    """wall-clock reading of a datetime (its own fields) in µs since ordinal 0"""
    return (dt.toordinal() * US_DAY + dt.hour * 3600_000_000 + dt.minute * 60_000_000
            + dt.second * 1_000_000 + dt.microsecond)


def date_us(d):
    return d.toordinal() * US_DAY


def instant_us(dt):
    """UTC instant of an aware datetime, µs since ordinal 0 (no overflow at the ends)"""
    off = dt.utcoffset()
    off_us = (off.days * 86400 + off.seconds) * 1_000_000 + off.microseconds
    return wall_us(dt) - off_us


def td_us(td):
    return (td.days * 86400 + td.seconds) * 1_000_000 + td.microseconds


def from_wall_us(w):
    d, r = divmod(w, US_DAY)
    return datetime.datetime.combine(datetime.date.fromordinal(d), datetime.time()) + \
        datetime.timedelta(microseconds=r)


# ---------------------------------------------------------------- errors
def err_kind(exc):
    t = type(exc)
    msg = str(exc.args[0]) if exc.args else ""
    if t is ValueError:
        if not exc.args:
            return "bareValueError"
        if msg == "math domain error":
            return "mathDomain"
        if msg.startswith("Sun never reaches"):
            return "neverReaches"
        if msg.startswith("Sun is always above"):
            return "alwaysAbove"
        if msg.startswith("Sun is always below"):
            return "alwaysBelow"
        if msg.startswith("Unable to find a"):
            return "unableToFind"
        if msg.startswith("Moon never"):
            return "moonNever"
        if msg.startswith("Unable to convert degrees"):
            return "cannotConvertDms"
        if msg.startswith("could not convert string to float"):
            return "floatParse"
        if msg.startswith("Timezone '") and msg.endswith("' not recognized"):
            return "bareValueError"        # the model's kind for the zone setter's documented error
        if ("must be in 0..23" in msg or "must be in 0..59" in msg
                or "must be in 0..999999" in msg):
            return "timeFieldRange"
        if ("is out of range" in msg or "must be in 1..12" in msg
                or "out of range for month" in msg):
            return "dateRange"
        return "other:ValueError:" + msg[:60].replace(" ", "_")
    if t is ZeroDivisionError:
        return "zeroDivision"
    if t is OverflowError:
        if "date value out of range" in msg:
            return "dateRange"
        return "overflow"
    if t is KeyError:
        return "keyError"
    if t is IndexError:
        return "indexError"
    if t is TypeError:
        return "typeError"
    return "other:%s:%s" % (t.__name__, msg[:60].replace(" ", "_"))


def E(exc):
    return "E" + err_kind(exc)


# ---------------------------------------------------------------- model driver
def run_model(lines, preamble=()):
    """Feed request lines to the model driver; return one response line per request."""
    if not os.path.exists(MODEL_EXE):
        raise RuntimeError("model driver not built: " + MODEL_EXE)
    lines = list(lines)
    if not lines:
        return []
    data = "\n".join(list(preamble) + list(lines)) + "\n"
    p = subprocess.run([MODEL_EXE], input=data.encode(), stdout=subprocess.PIPE,
                       stderr=subprocess.PIPE, timeout=3600)
    if p.returncode != 0:
        raise RuntimeError("model driver failed: " + p.stderr.decode()[-2000:])
    out = p.stdout.decode().split("\n")
    if out and out[-1] == "":
        out.pop()
    out = out[len(preamble):]
    if len(out) != len(lines):
        raise RuntimeError("model driver returned %d lines for %d requests"
                           % (len(out), len(lines)))
    return out


def ulp_distance(a, b):
    if a == b:
        return 0
    if math.isnan(a) or math.isnan(b):
        return 0 if (math.isnan(a) and math.isnan(b)) else 1 << 62

    def key(x):
        n = struct.unpack("<q", struct.pack("<d", x))[0]
        return n if n >= 0 else -(n & 0x7FFFFFFFFFFFFFFF)
    return abs(key(a) - key(b))


FLOAT_RTOL = 1e-9
INSTANT_TOL = 2


def tokens_agree(exp, got, stats=None, rtol=FLOAT_RTOL, ttol=INSTANT_TOL):
    """Compare two response lines token-wise; the expected side (implementation) fixes
    the comparison type."""
    e, g = exp.split(), got.split()
    if len(e) != len(g):
        return False
    for a, b in zip(e, g):
        if a[0] == "F":
            if b[0] != "F":
                return False
            x, y = unF(a), unF(b)
            if math.isnan(x) or math.isnan(y):
                if not (math.isnan(x) and math.isnan(y)):
                    return False
                continue
            if stats is not None:
                u = ulp_distance(x, y)
                if u > stats.get("max_ulp", 0):
                    stats["max_ulp"] = u
            if x == y:
                continue
            if math.isinf(x) or math.isinf(y):
                return False
            if abs(x - y) > rtol * max(1.0, abs(x)):
                return False
        elif a[0] == "T":
            if b[0] not in "IT":
                return False
            if abs(int(a[1:]) - int(b[1:])) > ttol:
                return False
        else:
            if a != b:
                return False
    return True


class Case:
    __slots__ = ("fn", "request", "expected", "descr", "tags", "live")

    def __init__(self, fn, request, expected, descr, tags=(), live=None):
        self.fn = fn              # python-level function name (for the histogram)
        self.request = request    # full request line for the model
        self.expected = expected  # canonical response from the implementation
        self.descr = descr        # JSON-able description to replay by hand
        self.tags = tags          # branch tags observed on the implementation side
        self.live = live          # the actual Python objects passed (for in-state replays)


def call(f, *a, **k):
    """Run the implementation; return ('ok', value) or ('err', exception)."""
    try:
        return "ok", f(*a, **k)
    except Exception as exc:  # noqa: BLE001 - every escape is data here
        return "err", exc


def seed_from_env(default=20260930):
    try:
        return int(os.environ.get("VERIF_SEED", default))
    except ValueError:
        return default
