"""Shared pieces of the correspondence harness: token protocol, model driver,
comparison, exception -> error-kind mapping, deterministic PRNG helpers.

Run with /venv/bin/python: `astral` is a path install of /repo/src, so whatever is in
/repo's working tree *now* is what gets imported and executed.
"""
import datetime
import json
import math
import os
import random
import struct
import subprocess
import sys
import time

VERIF = os.path.dirname(os.path.dirname(os.path.abspath(__file__)))
LEAN_DIR = os.path.join(VERIF, "lean")
MODEL_EXE = os.path.join(LEAN_DIR, ".lake", "build", "bin", "astral-model")

US_DAY = 86400_000_000


# ---------------------------------------------------------------- tokens
def F(x):
    return "F%016x" % struct.unpack("<Q", struct.pack("<d", float(x)))[0]


def FS(x):
    """strict float token for *outputs* of the implementation: anything that is not exactly a
    float (an int, a str, None, …) gets a token no model output can match"""
    if type(x) is float:
        return F(x)
    return "X%s:%s" % (type(x).__name__, "".join(ch for ch in repr(x)[:40] if not ch.isspace()))


def unF(tok):
    return struct.unpack("<d", struct.pack("<Q", int(tok[1:], 16)))[0]


def I(n):
    return "I%d" % int(n)


def T(n):
    """an instant / duration in microseconds, compared with a 2 µs tolerance"""
    return "T%d" % int(n)


def B(b):
    return "B1" if b else "B0"


def S(s):
    if type(s) is not str:
        return "X%s:%s" % (type(s).__name__, "".join(ch for ch in repr(s)[:40] if not ch.isspace()))
    return "S" + ",".join(str(ord(c)) for c in s)


N = "N"


def TZD(dt, tz):
    """an aware datetime the implementation returned for output zone `tz`: the instant, provided
    the value really is expressed in that zone (else a token nothing matches)"""
    import datetime as _dt
    if type(dt) is not _dt.datetime:
        return "X%s:%s" % (type(dt).__name__, "".join(ch for ch in repr(dt)[:40] if not ch.isspace()))
    if dt.tzinfo is None:
        return "Xnaive:%s" % dt.isoformat()
    if dt.utcoffset() != dt.astimezone(tz).utcoffset():
        return "Xwrongzone:%s" % dt.isoformat()
    if tz is not None and not (dt.tzinfo is tz or dt.tzinfo == tz):
        # same offset at this instant, but not the zone that was asked for (a fixed offset in
        # place of a zone with rules, say): arithmetic on the result would go wrong later
        return "Xothertzinfo:%r" % (dt.tzinfo,)
    return T(instant_us(dt))


def wall_us(dt):
    """wall-clock reading of a datetime (its own fields) in µs since ordinal 0"""
    return (dt.toordinal() * US_DAY + dt.hour * 3600_000_000 + dt.minute * 60_000_000
            + dt.second * 1_000_000 + dt.microsecond)


def date_us(d):
    return d.toordinal() * US_DAY


def instant_us(dt):
    """UTC instant of an aware datetime, µs since ordinal 0 (no overflow at the ends)"""
    off = dt.utcoffset()
    off_us = (off.days * 86400 + off.seconds) * 1_000_000 + off.microseconds
    return wall_us(dt) - off_us


def td_us(td):
    return (td.days * 86400 + td.seconds) * 1_000_000 + td.microseconds


def from_wall_us(w):
    d, r = divmod(w, US_DAY)
    return datetime.datetime.combine(datetime.date.fromordinal(d), datetime.time()) + \
        datetime.timedelta(microseconds=r)


# ---------------------------------------------------------------- errors
def err_kind(exc):
    t = type(exc)
    msg = str(exc.args[0]) if exc.args else ""
    if t is ValueError:
        if not exc.args:
            return "bareValueError"
        if msg == "math domain error":
            return "mathDomain"
        if msg.startswith("Sun never reaches"):
            return "neverReaches"
        if msg.startswith("Sun is always above"):
            return "alwaysAbove"
        if msg.startswith("Sun is always below"):
            return "alwaysBelow"
        if msg.startswith("Unable to find a"):
            return "unableToFind"
        if msg.startswith("Moon never"):
            return "moonNever"
        if msg.startswith("Unable to convert degrees"):
            return "cannotConvertDms"
        if msg.startswith("could not convert string to float"):
            return "floatParse"
        if msg.startswith("Timezone '") and msg.endswith("' not recognized"):
            return "bareValueError"        # the model's kind for the zone setter's documented error
        if ("must be in 0..23" in msg or "must be in 0..59" in msg
                or "must be in 0..999999" in msg):
            return "timeFieldRange"
        if ("is out of range" in msg or "must be in 1..12" in msg
                or "out of range for month" in msg):
            return "dateRange"
        return "other:ValueError:" + msg[:60].replace(" ", "_")
    if t is ZeroDivisionError:
        return "zeroDivision"
    if t is OverflowError:
        if "date value out of range" in msg:
            return "dateRange"
        return "overflow"
    if t is KeyError:
        return "keyError"
    if t is IndexError:
        return "indexError"
    if t is TypeError:
        return "typeError"
    return "other:%s:%s" % (t.__name__, msg[:60].replace(" ", "_"))


def E(exc):
    return "E" + err_kind(exc)


# ---------------------------------------------------------------- model driver
def run_model(lines, preamble=()):
    """Feed request lines to the model driver; return one response line per request."""
    if not os.path.exists(MODEL_EXE):
        raise RuntimeError("model driver not built: " + MODEL_EXE)
    lines = list(lines)
    if not lines:
        return []
    data = "\n".join(list(preamble) + list(lines)) + "\n"
    p = subprocess.run([MODEL_EXE], input=data.encode(), stdout=subprocess.PIPE,
                       stderr=subprocess.PIPE, timeout=3600)
    if p.returncode != 0:
        raise RuntimeError("model driver failed: " + p.stderr.decode()[-2000:])
    out = p.stdout.decode().split("\n")
    if out and out[-1] == "":
        out.pop()
    out = out[len(preamble):]
    if len(out) != len(lines):
        raise RuntimeError("model driver returned %d lines for %d requests"
                           % (len(out), len(lines)))
    return out


def ulp_distance(a, b):
    if a == b:
        return 0
    if math.isnan(a) or math.isnan(b):
        return 0 if (math.isnan(a) and math.isnan(b)) else 1 << 62

    def key(x):
        n = struct.unpack("<q", struct.pack("<d", x))[0]
        return n if n >= 0 else -(n & 0x7FFFFFFFFFFFFFFF)
    return abs(key(a) - key(b))


FLOAT_RTOL = 1e-9
INSTANT_TOL = 2


def tokens_agree(exp, got, stats=None, rtol=FLOAT_RTOL, ttol=INSTANT_TOL):
    """Compare two response lines token-wise; the expected side (implementation) fixes
    the comparison type."""
    e, g = exp.split(), got.split()
    if len(e) != len(g):
        return False
    for a, b in zip(e, g):
        if a[0] == "F":
            if b[0] != "F":
                return False
            x, y = unF(a), unF(b)
            if math.isnan(x) or math.isnan(y):
                if not (math.isnan(x) and math.isnan(y)):
                    return False
                continue
            if stats is not None:
                u = ulp_distance(x, y)
                if u > stats.get("max_ulp", 0):
                    stats["max_ulp"] = u
            if x == y:
                continue
            if math.isinf(x) or math.isinf(y):
                return False
            if abs(x - y) > rtol * max(1.0, abs(x)):
                return False
        elif a[0] == "T":
            if b[0] not in "IT":
                return False
            if abs(int(a[1:]) - int(b[1:])) > ttol:
                return False
        else:
            if a != b:
                return False
    return True


class Case:
    __slots__ = ("fn", "request", "expected", "descr", "tags", "live")

    def __init__(self, fn, request, expected, descr, tags=(), live=None):
        self.fn = fn              # python-level function name (for the histogram)
        self.request = request    # full request line for the model
        self.expected = expected  # canonical response from the implementation
        self.descr = descr        # JSON-able description to replay by hand
        self.tags = tags          # branch tags observed on the implementation side
        self.live = live          # the actual Python objects passed (for in-state replays)


# ---- calling conventions ---------------------------------------------------------------------
# The documented signatures of the public functions (parameter names in documented order, and
# which value is the documented default), written down from the documentation of the pinned
# version — NOT read from the code under test.  Every call the generators make through `call` /
# `invoke` is re-spelled: a random prefix of the arguments stays positional, the rest is passed
# by keyword, and an argument that equals its documented default is sometimes left out.  All
# spellings mean the same call; a renamed keyword, two parameters swapped in a signature or a
# changed default then shows as a difference from the model.
_REQ = object()
_D_CIVIL, _D_UTC, _D_RISING = "CIVIL", "UTC", "RISING"
_EVT = [("observer", _REQ), ("date", None), ("tzinfo", _D_UTC)]
_DIRP = [("observer", _REQ), ("date", None), ("direction", _D_RISING), ("tzinfo", _D_UTC)]
DOCUMENTED = {
    "astral.sun.dawn": [("observer", _REQ), ("date", None), ("depression", _D_CIVIL), ("tzinfo", _D_UTC)],
    "astral.sun.dusk": [("observer", _REQ), ("date", None), ("depression", _D_CIVIL), ("tzinfo", _D_UTC)],
    "astral.sun.sunrise": _EVT, "astral.sun.sunset": _EVT, "astral.sun.noon": _EVT,
    "astral.sun.midnight": _EVT, "astral.sun.daylight": _EVT, "astral.sun.night": _EVT,
    "astral.sun.twilight": _DIRP, "astral.sun.golden_hour": _DIRP, "astral.sun.blue_hour": _DIRP,
    "astral.sun.rahukaalam": [("observer", _REQ), ("date", None), ("daytime", True), ("tzinfo", _D_UTC)],
    "astral.sun.time_at_elevation": [("observer", _REQ), ("elevation", _REQ), ("date", None),
                                     ("direction", _D_RISING), ("tzinfo", _D_UTC), ("with_refraction", True)],
    "astral.sun.sun": [("observer", _REQ), ("date", None), ("dawn_dusk_depression", _D_CIVIL), ("tzinfo", _D_UTC)],
    "astral.sun.zenith": [("observer", _REQ), ("dateandtime", None), ("with_refraction", True)],
    "astral.sun.elevation": [("observer", _REQ), ("dateandtime", None), ("with_refraction", True)],
    "astral.sun.azimuth": [("observer", _REQ), ("dateandtime", None)],
    "astral.sun.zenith_and_azimuth": [("observer", _REQ), ("dateandtime", _REQ), ("with_refraction", True)],
    "astral.sun.time_of_transit": [("observer", _REQ), ("date", _REQ), ("zenith", _REQ), ("direction", _REQ),
                                   ("with_refraction", True)],
    "astral.moon.moonrise": _EVT, "astral.moon.moonset": _EVT,
    "astral.moon.azimuth": [("observer", _REQ), ("at", None)],
    "astral.moon.elevation": [("observer", _REQ), ("at", None)],
    "astral.moon.zenith": [("observer", _REQ), ("at", None)],
    "astral.moon.phase": [("date", None)],
    "astral.geocoder.lookup": [("name", _REQ), ("db", _REQ)],
    "astral.geocoder.add_locations": [("locations", _REQ), ("db", _REQ)],
    "astral.geocoder.group": [("region", _REQ), ("db", _REQ)],
    "astral.geocoder.lookup_in_group": [("location", _REQ), ("group", _REQ)],
    "astral.geocoder.all_locations": [("db", _REQ)],
    "astral.dms_to_float": [("dms", _REQ), ("limit", None)],
    "astral.Observer": [("latitude", _REQ), ("longitude", _REQ), ("elevation", _REQ)],
    "astral.LocationInfo": [("name", _REQ), ("region", _REQ), ("timezone", _REQ), ("latitude", _REQ),
                            ("longitude", _REQ)],
    "astral.location.Location": [("info", _REQ)],
    "astral.julian.julianday": [("at", _REQ), ("calendar", "GREGORIAN")],
    "astral.julian.julianday_modified": [("at", _REQ)],
    "astral.julian.julianday_to_datetime": [("jd", _REQ)],
}
_CONV = {"rng": None, "stats": {"positional": 0, "keyword": 0, "default_omitted": 0}}


def set_convention_rng(rng):
    _CONV["rng"] = rng


def _is_default(v, dflt):
    import datetime as _dt
    if dflt is None:
        return v is None
    if dflt is True:
        return v is True
    if dflt == _D_UTC:
        return v is _dt.timezone.utc
    try:
        import astral as _a
        if dflt == _D_CIVIL:
            return v is _a.Depression.CIVIL
        if dflt == _D_RISING:
            return v is _a.SunDirection.RISING
        if dflt == "GREGORIAN":
            import astral.julian as _j
            return v is _j.Calendar.GREGORIAN
    except Exception:  # noqa: BLE001
        pass
    return False


def respell(f, a, k):
    """another spelling of the same documented call (see DOCUMENTED)"""
    rng = _CONV["rng"]
    key = "%s.%s" % (getattr(f, "__module__", None), getattr(f, "__name__", None))
    sig = DOCUMENTED.get(key)
    if rng is None or sig is None or len(a) > len(sig) or any(n not in [x for x, _ in sig] for n in k):
        return a, k
    names = [n for n, _ in sig]
    bound = dict(zip(names, a))
    if any(n in bound for n in k):
        return a, k
    bound.update(k)
    npos = rng.randint(1 if names[0] == "observer" and "observer" in bound else 0, len(a)) \
        if rng.random() < 0.7 else len(a)
    # positional prefix must be contiguous in documented order
    pos = []
    for n in names[:npos]:
        if n not in bound:
            break
        pos.append(bound.pop(n))
    kw = {}
    for n, dflt in sig:
        if n in bound:
            if dflt is not _REQ and _is_default(bound[n], dflt) and rng.random() < 0.5:
                _CONV["stats"]["default_omitted"] += 1
                continue
            kw[n] = bound[n]
    _CONV["stats"]["positional"] += len(pos)
    _CONV["stats"]["keyword"] += len(kw)
    return tuple(pos), kw


def invoke(f, *a, **k):
    """call the implementation in one of the equivalent documented spellings (raises what it raises)"""
    a2, k2 = respell(f, a, k)
    return f(*a2, **k2)


def call(f, *a, **k):
    """Run the implementation; return ('ok', value) or ('err', exception)."""
    try:
        return "ok", invoke(f, *a, **k)
    except Exception as exc:  # noqa: BLE001 - every escape is data here
        return "err", exc


def seed_from_env(default=20260930):
    try:
        return int(os.environ.get("VERIF_SEED", default))
    except ValueError:
        return default
