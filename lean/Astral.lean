import Astral.Model.Num
import Astral.Model.FloatInst
