import Astral.Real
import Mathlib.Tactic
/-
  Helper lemmas: `int()` / `math.floor` of rational expressions at the ℝ instance.
-/
namespace Astral

/-- `ring` mis-evaluates the literal `0.0` (Mathlib v4.33; the kernel rejects the result):
    always rewrite it away first -/
@[simp] theorem sci_zero : (0.0 : ℝ) = 0 := by norm_num

theorem floor_int_div (n k : ℤ) (hk : 0 < k) : ⌊(n : ℝ) / (k : ℝ)⌋ = n / k := by
  have hkr : (0 : ℝ) < (k : ℝ) := by exact_mod_cast hk
  rw [Int.floor_eq_iff]
  have h1 := Int.emod_add_mul_ediv n k
  have h2 := Int.emod_nonneg n hk.ne'
  have h3 := Int.emod_lt_of_pos n hk
  constructor
  · rw [le_div_iff₀ hkr]
    have : (n / k) * k ≤ n := by nlinarith
    exact_mod_cast this
  · rw [div_lt_iff₀ hkr]
    have : n < (n / k + 1) * k := by nlinarith
    exact_mod_cast this

/-- `int(n / k)` for a non-negative integer quotient -/
theorem trunc_int_div (n k : ℤ) (hn : 0 ≤ n) (hk : 0 < k) :
    Trig.trunc ((n : ℝ) / (k : ℝ)) = n / k := by
  have hkr : (0 : ℝ) < (k : ℝ) := by exact_mod_cast hk
  have hnr : (0 : ℝ) ≤ (n : ℝ) := by exact_mod_cast hn
  rw [trunc_of_nonneg (div_nonneg hnr hkr.le), floor_int_div n k hk]

theorem trunc_intCast (n : ℤ) : Trig.trunc (n : ℝ) = n := by
  rw [trig_trunc]; split <;> simp

end Astral
