import Astral.Model.Dms
/-
  geocoder.py:423-629 over insertion-ordered association lists (Python dicts iterate in
  insertion order and `lookup` depends on it).
-/
namespace Astral

structure Rec (α : Type) where
  name : Str
  region : Str
  tz : Str
  lat : α
  lon : α
  deriving Repr, Inhabited

abbrev Group (α : Type) := List (Str × List (Rec α))
abbrev Db (α : Type) := List (Str × Group α)

def lowerAscii (c : Nat) : Nat := if 65 ≤ c ∧ c ≤ 90 then c + 32 else c

/-- geocoder.py:438-444 `_sanitize_key` (ASCII: lower-case, spaces to underscores) -/
def sanitize (s : Str) : Str := s.map (fun c => let c := lowerAscii c; if c = 32 then 95 else c)

/-- `str.split(sep)` — always at least one piece -/
def splitOnChar (sep : Nat) : Str → List Str
  | [] => [[]]
  | c :: s =>
    if c = sep then [] :: splitOnChar sep s
    else match splitOnChar sep s with
      | [] => [[c]]
      | p :: ps => (c :: p) :: ps

/-- `s.split(sep, 1)`: (before, some after) or (s, none) -/
def splitFirst (sep : Nat) : Str → Str × Option Str
  | [] => ([], none)
  | c :: s =>
    if c = sep then ([], some s)
    else let (a, b) := splitFirst sep s; (c :: a, b)

def dropWhileEnd (p : Nat → Bool) (s : Str) : Str := (s.reverse.dropWhile p).reverse

/-- `str.strip()` on the modelled alphabet -/
def stripWs (s : Str) : Str := dropWhileEnd isWs (s.dropWhile isWs)

def isQuoteChar (c : Nat) : Bool := c == 34 || c == 39
/-- `.strip("\"'")` -/
def stripQuotes (s : Str) : Str := dropWhileEnd isQuoteChar (s.dropWhile isQuoteChar)

/-- `LocationInfo.timezone_group` -/
def timezoneGroup (tz : Str) : Str := (splitFirst 47 tz).1

def assocGet {β : Type} (k : Str) : List (Str × β) → Option β
  | [] => none
  | (k', v) :: r => if k' = k then some v else assocGet k r

/-- `d[k] = v` on an insertion-ordered dict: replace in place or append -/
def assocSet {β : Type} (k : Str) (v : β) : List (Str × β) → List (Str × β)
  | [] => [(k, v)]
  | (k', v') :: r => if k' = k then (k, v) :: r else (k', v') :: assocSet k v r

section
variable {α : Type}

/-- `group = db.get(key); if not group: group = {}` (an empty dict is falsy) -/
def groupOrNew (db : Db α) (key : Str) : Group α :=
  match assocGet key db with
  | some g => if g.isEmpty then [] else g
  | none => []

/-- append the record to its name's list, creating the list if the name is new -/
def addToGroup (g : Group α) (r : Rec α) : Group α :=
  match assocGet (sanitize r.name) g with
  | some l => assocSet (sanitize r.name) (l ++ [r]) g
  | none => assocSet (sanitize r.name) [r] g

/-- geocoder.py:451-463 `_add_location_to_db` -/
def addRec (db : Db α) (r : Rec α) : Db α :=
  let key := sanitize (timezoneGroup r.tz)
  assocSet key (addToGroup (groupOrNew db key) r) db

def allLocations (db : Db α) : List (Rec α) :=
  db.flatMap (fun g => g.2.flatMap (fun e => e.2))

/-- geocoder.py:529-546 `group` -/
def groupLookup (region : Str) (db : Db α) : Except Err (Group α) :=
  match assocGet (sanitize region) db with
  | some g => .ok g
  | none => .error .keyError

/-- the (name, region) a query string denotes: sanitise, split at the first comma, strip quotes -/
def parseQuery (location : Str) : Str × Str :=
  let key := sanitize location
  match splitFirst 44 key with
  | (a, some b) => (stripQuotes a, stripQuotes b)
  | (a, none) => (stripQuotes a, [])

/-- geocoder.py:549-590 `lookup_in_group` -/
def lookupInGroup (location : Str) (group : Group α) : Except Err (Rec α) :=
  let q := parseQuery location
  match assocGet q.1 group with
  | none => .error .keyError
  | some l =>
    if q.2 = [] then
      match l with
      | r :: _ => .ok r
      | [] => .error .indexError
    else
      match l.find? (fun r => sanitize r.region = q.2) with
      | some r => .ok r
      | none => .error .keyError

inductive LookupResult (α : Type) where
  | group (g : Group α)
  | loc (r : Rec α)

/-- first group (in insertion order) in which `lookup_in_group` succeeds -/
def lookupLoc (name : Str) : Db α → Except Err (Rec α)
  | [] => .error .keyError
  | (_, g) :: rest =>
    match lookupInGroup name g with
    | .ok r => .ok r
    | .error .keyError => lookupLoc name rest
    | .error e => .error e

/-- geocoder.py:593-619 `lookup`: group names first, then locations -/
def lookup (name : Str) (db : Db α) : Except Err (LookupResult α) :=
  match assocGet (sanitize name) db with
  | some g => .ok (.group g)
  | none => (lookupLoc name db).map .loc

end

section
variable {α : Type} [Add α] [Sub α] [Mul α] [Div α] [Neg α] [LT α] [LE α] [OfScientific α]
  [Trig α] [DecidableRel (α := α) (· < ·)] [DecidableRel (α := α) (· ≤ ·)]

/-- LocationInfo(name, region, tz, latitude=dms_to_float(f3, 90), longitude=dms_to_float(f4, 180)) -/
def recOf (name region tz : Str) (lat lon : Arg α) : Except Err (Rec α) := do
  let la ← dmsToFloat lat (some 90.0)
  let lo ← dmsToFloat lon (some 180.0)
  pure ⟨name, region, tz, la, lo⟩

/-- geocoder.py:466-487: the first five fields of an indexable of strings -/
def recFromFields (fs : List Str) : Except Err (Rec α) :=
  match fs with
  | n :: r :: t :: rest =>
    match rest with
    | [] => .error .indexError
    | la :: rest2 => do
      let lat ← dmsToFloat (.str la) (some (90.0 : α))
      match rest2 with
      | [] => .error .indexError
      | lo :: _ => do
        let lon ← dmsToFloat (.str lo) (some (180.0 : α))
        pure ⟨n, r, t, lat, lon⟩
  | _ => .error .indexError

/-- geocoder.py:490-497 `_add_locations_from_str`; additions made before an error persist -/
def addLines (db : Db α) : List Str → Db α × Option Err
  | [] => (db, none)
  | line :: rest =>
    let line := stripWs line
    match line with
    | [] => addLines db rest
    | c :: _ =>
      if c = 35 then addLines db rest
      else match recFromFields (α := α) (splitOnChar 44 line) with
        | .ok r => addLines (addRec db r) rest
        | .error e => (db, some e)

def addStr (db : Db α) (s : Str) : Db α × Option Err := addLines db (splitOnChar 10 s)

inductive Item (α : Type) where
  | line (s : Str)
  | fields (fs : List Str)
  | tuple (name region tz : Str) (lat lon : Arg α)

/-- geocoder.py:500-513 `_add_locations_from_list` -/
def addItems (db : Db α) : List (Item α) → Db α × Option Err
  | [] => (db, none)
  | it :: rest =>
    match it with
    | .line s =>
      match addStr db s with
      | (db', none) => addItems db' rest
      | (db', some e) => (db', some e)
    | .fields fs =>
      match recFromFields (α := α) fs with
      | .ok r => addItems (addRec db r) rest
      | .error e => (db, some e)
    | .tuple n r t la lo =>
      match recOf n r t la lo with
      | .ok rc => addItems (addRec db rc) rest
      | .error e => (db, some e)

inductive AddOp (α : Type) where
  | text (s : Str)
  | list (items : List (Item α))

/-- geocoder.py:516-526 `add_locations` -/
def addLocations (db : Db α) (op : AddOp α) : Db α × Option Err :=
  match op with
  | .text s => addStr db s
  | .list items => addItems db items

end
end Astral
