import Astral.Model.Geocoder
/-
  location.py — the delegating façade, as a table: each method of `Location` is a pure map
  from (state, arguments) to a first-order description of the sun/moon call it makes.
  __main__.py — the command line after argparse: namespace ↦ the `sun.sun` call and the JSON
  labels.
-/
namespace Astral

/-- which library function a `Location` method ends up calling -/
inductive Target
  | sun | dawn | sunrise | noon | sunset | dusk | midnight | daylight | night | twilight
  | moonrise | moonset | timeAtElevation | rahukaalam | goldenHour | blueHour
  | azimuth | elevation | phase
  deriving Repr, DecidableEq, Inhabited

def Target.tag : Target → String
  | .sun => "sun" | .dawn => "dawn" | .sunrise => "sunrise" | .noon => "noon"
  | .sunset => "sunset" | .dusk => "dusk" | .midnight => "midnight" | .daylight => "daylight"
  | .night => "night" | .twilight => "twilight" | .moonrise => "moonrise" | .moonset => "moonset"
  | .timeAtElevation => "time_at_elevation" | .rahukaalam => "rahukaalam"
  | .goldenHour => "golden_hour" | .blueHour => "blue_hour" | .azimuth => "azimuth"
  | .elevation => "elevation" | .phase => "phase"

/-- the zone argument of the call -/
inductive ZoneArg
  | named (tz : Str)      -- `self.tzinfo`: ZoneInfo(self.timezone)
  | omitted               -- the library default (UTC)
  deriving Repr, DecidableEq

/-- the date argument of the call -/
inductive DateArg
  | given (d : Int)                 -- as passed by the caller
  | today (zone : ZoneArg)          -- `self.today(local)`: today(self.tzinfo) or today()
  deriving Repr, DecidableEq

/-- a first-order description of one call into astral.sun / astral.moon -/
structure Call (α : Type) where
  target : Target
  lat : α
  lon : α
  /-- `Observer(lat, lon, elevation)`: what was passed as elevation (`none` = constructor default) -/
  elev : Option (ElevArg α)
  date : Option DateArg            -- `none` for the solar-angle calls
  dep : Option α                   -- dawn/dusk depression
  zone : Option ZoneArg            -- `none` for calls without a tzinfo parameter
  dir : Option Dir
  elevationArg : Option α          -- time_at_elevation's elevation
  deriving Inhabited

structure LocState (α : Type) where
  lat : α
  lon : α
  tz : Str
  dep : α

/-- the methods of `Location` that compute something -/
inductive Method
  | sun | dawn | sunrise | noon | sunset | dusk | midnight | daylight | night | twilight
  | moonrise | moonset | timeAtElevation | rahukaalam | goldenHour | blueHour
  | solarAzimuth | solarElevation | solarZenith | moonPhase
  deriving Repr, DecidableEq, Inhabited

/-- arguments a caller may pass to a method -/
structure MArgs (α : Type) where
  date : Option Int := none
  localTime : Bool := true
  obsElev : Option (ElevArg α) := none      -- `observer_elevation` (none = default 0.0)
  dir : Dir := .rising
  elevation : Option α := none              -- time_at_elevation

section
variable {α : Type} [Add α] [Sub α] [Mul α] [Div α] [Neg α] [LT α] [LE α] [OfScientific α]
  [Trig α] [DecidableRel (α := α) (· < ·)] [DecidableRel (α := α) (· ≤ ·)]

def zoneOf (s : LocState α) (loc : Bool) : ZoneArg := if loc then .named s.tz else .omitted

def dateOf (s : LocState α) (a : MArgs α) : DateArg :=
  match a.date with
  | some d => .given d
  | none => .today (zoneOf s a.localTime)

/-- `observer_elevation` as the method's signature defaults it -/
def elevOf (a : MArgs α) : ElevArg α := a.obsElev.getD (.one (.num 0.0))

/-- location.py:225-878, method by method -/
def Location.call (s : LocState α) (m : Method) (a : MArgs α) : Call α :=
  let z := zoneOf s a.localTime
  let d := dateOf s a
  let withElev (t : Target) (dep : Option α) (dir : Option Dir) : Call α :=
    ⟨t, s.lat, s.lon, some (elevOf a), some d, dep, some z, dir, none⟩
  match m with
  | .sun => withElev .sun (some s.dep) none
  | .dawn => withElev .dawn (some s.dep) none
  | .dusk => withElev .dusk (some s.dep) none
  | .sunrise => withElev .sunrise none none
  | .sunset => withElev .sunset none none
  | .daylight => withElev .daylight none none
  | .night => withElev .night none none
  | .rahukaalam => withElev .rahukaalam none none
  | .twilight => withElev .twilight none (some a.dir)
  | .goldenHour => withElev .goldenHour none (some a.dir)
  | .blueHour => withElev .blueHour none (some a.dir)
  -- `Observer(self.latitude, self.longitude)`: no elevation passed
  | .noon => ⟨.noon, s.lat, s.lon, none, some d, none, some z, none, none⟩
  | .midnight => ⟨.midnight, s.lat, s.lon, none, some d, none, some z, none, none⟩
  -- `Observer(self.latitude, self.longitude, 0)`
  | .moonrise => ⟨.moonrise, s.lat, s.lon, some (.one (.num 0.0)), some d, none, some z, none, none⟩
  | .moonset => ⟨.moonset, s.lat, s.lon, some (.one (.num 0.0)), some d, none, some z, none, none⟩
  | .timeAtElevation =>
    let e : α := a.elevation.getD 0.0
    let folded : α := if 90.0 < e then 180.0 - e else e
    let dir := if 90.0 < e then Dir.setting else a.dir
    ⟨.timeAtElevation, s.lat, s.lon, some (.one (.num 0.0)), some d, none, some z, some dir,
      some folded⟩
  | .solarAzimuth => ⟨.azimuth, s.lat, s.lon, some (elevOf a), none, none, none, none, none⟩
  | .solarElevation => ⟨.elevation, s.lat, s.lon, some (elevOf a), none, none, none, none, none⟩
  | .solarZenith => ⟨.elevation, s.lat, s.lon, some (elevOf a), none, none, none, none, none⟩
  | .moonPhase => ⟨.phase, s.lat, s.lon, none, some d, none, none, none, none⟩

/-- what may be assigned to `Location.solar_depression` -/
inductive DepArg (α : Type) where
  | name (s : Str)
  | civil | nautical | astronomical      -- the Depression enum
  | num (x : Arg α)

def strCivil : Str := [99, 105, 118, 105, 108]
def strNautical : Str := [110, 97, 117, 116, 105, 99, 97, 108]
def strAstronomical : Str := [97, 115, 116, 114, 111, 110, 111, 109, 105, 99, 97, 108]

/-- location.py:197-217 -/
def setDepression (d : DepArg α) : Except Err α :=
  match d with
  | .name s =>
    if s = strCivil then .ok 6.0
    else if s = strNautical then .ok 12.0
    else if s = strAstronomical then .ok 18.0
    else .error .keyError
  | .civil => .ok 6.0
  | .nautical => .ok 12.0
  | .astronomical => .ok 18.0
  | .num x => pyFloat? x

/-- location.py `timezone` setter: a name the zone database knows replaces the zone; any other
    raises ValueError and leaves the location as it was.  `known` is the database's answer
    (`name in zoneinfo.available_timezones()`), a parameter of the model. -/
def setTimezone (st : LocState α) (name : Str) (known : Bool) : LocState α × Option Err :=
  if known then ({ st with tz := name }, none) else (st, some .bareValueError)

/-- the command line after argument parsing (__main__.py:35-72) -/
structure CliArgs (α : Type) where
  name : Str
  region : Str
  date : Option Int        -- parsed `-d`; `none` when absent
  tzname : Option Str
  lat : α
  lon : α
  elev : α

structure CliOut (α : Type) where
  call : Call α
  /-- strftime format suffix: `Z` without -t, `%z` with -t -/
  utcSuffix : Bool
  timezoneLabel : Str
  locationLabel : Str

def strUTC : Str := [85, 84, 67]

def Cli.run (a : CliArgs α) : CliOut α :=
  let zone : ZoneArg := match a.tzname with
    | some t => .named t
    | none => .omitted          -- kwargs["tzinfo"] = datetime.timezone.utc
  { call := ⟨.sun, a.lat, a.lon, some (.one (.num a.elev)),
             a.date.map DateArg.given, none, some zone, none, none⟩
    utcSuffix := a.tzname.isNone
    timezoneLabel := (a.tzname.getD strUTC)
    locationLabel := a.name ++ [44, 32] ++ a.region }

end
end Astral
