/-
  Numeric interface of the model.  Every numeric function of astral is written once,
  polymorphic in the number type `α`; it is instantiated at `Float` (runs, compared with
  CPython by the correspondence harness) and at `ℝ` (Mathlib, theorems).

  Arithmetic and order come from the ordinary classes (so that at ℝ they are Mathlib's
  canonical instances); only the transcendental part and the float<->int conversions
  are bundled in `Trig`.
-/
namespace Astral

class Trig (α : Type) where
  sin : α → α
  cos : α → α
  tan : α → α
  asin : α → α
  acos : α → α
  atan2 : α → α → α
  sqrt : α → α
  /-- `math.hypot` -/
  hypot : α → α → α
  pi : α
  /-- `math.floor` -/
  floor : α → Int
  /-- Python `int(x)`: truncation toward zero -/
  trunc : α → Int
  /-- Python `float(n)` for an int -/
  ofInt : Int → α
  /-- Python `x % m` on floats (result has the sign of `m`; only `m > 0` is used) -/
  pymod : α → α → α
  /-- `pow(x, n)` for a small non-negative integer exponent -/
  powi : α → Nat → α

/-- Everything astral (or CPython underneath it) can raise, as the model sees it. -/
inductive Err
  | mathDomain            -- ValueError("math domain error")
  | neverReaches          -- "Sun never reaches … degrees below the horizon / an elevation of …"
  | alwaysAbove           -- "Sun is always above the horizon on this day, at this location."
  | alwaysBelow           -- "Sun is always below the horizon on this day, at this location."
  | unableToFind          -- "Unable to find a … time on the date specified"
  | moonNever             -- "Moon never rises/sets on this date, at this location"
  | cannotConvertDms      -- "Unable to convert degrees/minutes/seconds to float"
  | zeroDivision          -- ZeroDivisionError
  | overflow              -- OverflowError
  | timeFieldRange        -- ValueError from datetime.time/datetime constructors (hour/minute/…)
  | dateRange             -- OverflowError/ValueError: date value out of range
  | keyError              -- KeyError
  | indexError            -- IndexError
  | bareValueError        -- `raise ValueError` with no message
  | typeError             -- TypeError
  | floatParse            -- ValueError("could not convert string to float: …")
  | badRequest            -- driver only: malformed request line
  deriving Repr, DecidableEq, Inhabited

def Err.tag : Err → String
  | .mathDomain => "mathDomain" | .neverReaches => "neverReaches"
  | .alwaysAbove => "alwaysAbove" | .alwaysBelow => "alwaysBelow"
  | .unableToFind => "unableToFind" | .moonNever => "moonNever"
  | .cannotConvertDms => "cannotConvertDms" | .zeroDivision => "zeroDivision"
  | .overflow => "overflow" | .timeFieldRange => "timeFieldRange"
  | .dateRange => "dateRange" | .keyError => "keyError" | .indexError => "indexError"
  | .bareValueError => "bareValueError" | .typeError => "typeError"
  | .floatParse => "floatParse"
  | .badRequest => "badRequest"

inductive Dir | rising | setting
  deriving Repr, DecidableEq, Inhabited

/-- `Observer.elevation`: a float, or (height difference, distance) to an obscuring feature -/
inductive Elev (α : Type) where
  | flt (h : α)
  | tup (dh dist : α)
  deriving Repr, Inhabited

structure Obs (α : Type) where
  lat : α
  lon : α
  elev : Elev α
  deriving Repr, Inhabited

section
variable {α : Type} [Add α] [Sub α] [Mul α] [Div α] [Neg α] [LT α] [LE α] [OfScientific α]
  [Trig α] [DecidableRel (α := α) (· < ·)] [DecidableRel (α := α) (· ≤ ·)]

/-- `math.radians` -/
def radians (x : α) : α := x * (Trig.pi / 180.0)
/-- `math.degrees` -/
def degrees (x : α) : α := x * (180.0 / Trig.pi)

/-- `math.acos`, raising "math domain error" outside [-1, 1] -/
def acos? (x : α) : Except Err α :=
  if (-1.0 : α) ≤ x ∧ x ≤ 1.0 then .ok (Trig.acos x) else .error .mathDomain

/-- `math.asin`, raising "math domain error" outside [-1, 1] -/
def asin? (x : α) : Except Err α :=
  if (-1.0 : α) ≤ x ∧ x ≤ 1.0 then .ok (Trig.asin x) else .error .mathDomain

/-- `math.sqrt`, raising "math domain error" below 0 -/
def sqrt? (x : α) : Except Err α :=
  if (0.0 : α) ≤ x then .ok (Trig.sqrt x) else .error .mathDomain

/-- float division, raising ZeroDivisionError as CPython does -/
def div? (x y : α) : Except Err α :=
  if y < 0.0 ∨ 0.0 < y then .ok (x / y) else .error .zeroDivision

/-- `abs` / `math.fabs` -/
def fabs (x : α) : α := if x < 0.0 then -x else x

end
end Astral
