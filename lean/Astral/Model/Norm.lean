import Astral.Model.Moon
/-
  The argument-normalising preamble repeated in every public function (sun.py:364-368,
  403-407, 705-718 and siblings; moon.py:416-422, 461-467) and `now`/`today`
  (__init__.py:80-91), written once.
-/
namespace Astral

/-- how a caller may spell the output zone -/
inductive TzArg where
  | name (n : Nat)       -- a zone *name*, resolved through `zoneinfo.ZoneInfo`
  | obj (z : TZ)         -- a tzinfo object

/-- how a caller may spell the date -/
inductive DateSpec where
  | omitted                              -- `None`: today in the requested zone
  | date (d : Int)                       -- a `datetime.date`
  | naive (wall : Int)                   -- a naive `datetime.datetime`
  | aware (wall : Int) (z : TZ)          -- an aware one (its own tzinfo)

/-- how a caller may spell the dawn/dusk depression -/
inductive DepSpec (α : Type) where
  | civil | nautical | astronomical
  | num (x : α)

section
variable {α : Type} [Add α] [Sub α] [Mul α] [Div α] [Neg α] [LT α] [LE α] [OfScientific α]
  [Trig α] [DecidableRel (α := α) (· < ·)] [DecidableRel (α := α) (· ≤ ·)]

/-- `if isinstance(tzinfo, str): tzinfo = zoneinfo.ZoneInfo(tzinfo)`; `resolve` is the
    platform's zone database -/
def normTz (resolve : Nat → TZ) (t : TzArg) : TZ :=
  match t with
  | .name n => resolve n
  | .obj z => z

/-- `today(tz)`: the calendar date of the clock reading `now` in the zone -/
def todayIn (now : Instant) (tz : TZ) : Date := localDate tz.utc now

def normDep (d : DepSpec α) : α :=
  match d with
  | .civil => 6.0
  | .nautical => 12.0
  | .astronomical => 18.0
  | .num x => x

/-- dawn/sunrise/sunset/dusk: `None` → today(tz); a datetime → its own calendar date, and its
    own zone (if it has one) becomes the output zone -/
def normDateFull (now : Instant) (tz : TZ) (d : DateSpec) : Date × TZ :=
  match d with
  | .omitted => (todayIn now tz, tz)
  | .date x => (x, tz)
  | .naive w => (wallDate w, tz)
  | .aware w z => (wallDate w, z)

/-- moonrise/moonset: a datetime means its calendar date; the zone argument stays -/
def normDateMoon (now : Instant) (tz : TZ) (d : DateSpec) : Date :=
  match d with
  | .omitted => todayIn now tz
  | .date x => x
  | .naive w => wallDate w
  | .aware w _ => wallDate w

/-- functions that only accept a date (or None) -/
def normDatePlain (now : Instant) (tz : TZ) (d : Option Int) : Date :=
  match d with
  | none => todayIn now tz
  | some x => x

/-- the public event functions, from spelled arguments -/
inductive SunFn | dawn | dusk | sunrise | sunset
  deriving DecidableEq, Repr

def sunEventPublic (resolve : Nat → TZ) (now : Instant) (fn : SunFn) (obs : Obs α)
    (date : DateSpec) (dep : DepSpec α) (tz : TzArg) : Except Err (Instant × TZ) :=
  let tz0 := normTz resolve tz
  let (d, z) := normDateFull now tz0 date
  let r := match fn with
    | .dawn => dawn obs d (normDep dep) z
    | .dusk => dusk obs d (normDep dep) z
    | .sunrise => sunrise obs d z
    | .sunset => sunset obs d z
  r.map (fun t => (t, z))

def timeAtElevationPublic (resolve : Nat → TZ) (now : Instant) (obs : Obs α) (elevation : α)
    (date : Option Int) (dir : Dir) (tz : TzArg) (withRefraction : Bool) : Except Err Instant :=
  let z := normTz resolve tz
  timeAtElevation obs elevation (normDatePlain now z date) dir z withRefraction

def noonPublic (resolve : Nat → TZ) (now : Instant) (obs : Obs α) (date : Option Int)
    (tz : TzArg) : Except Err Instant :=
  let z := normTz resolve tz
  noon obs (normDatePlain now z date) z

def midnightPublic (resolve : Nat → TZ) (now : Instant) (obs : Obs α) (date : Option Int)
    (tz : TzArg) : Except Err Instant :=
  let z := normTz resolve tz
  midnight obs (normDatePlain now z date) z

/-- `midnight` when the date is spelled as a datetime: `datetime.combine(date, …)` and
    `date.year/month/day` read only its calendar date; its own zone (if any) plays no part -/
def midnightPublicSpec (resolve : Nat → TZ) (now : Instant) (obs : Obs α) (date : DateSpec)
    (tz : TzArg) : Except Err Instant :=
  let z := normTz resolve tz
  midnight obs (normDateMoon now z date) z

/-- the period functions and the five-event bundle: the zone may be a name, the date may be
    omitted (today in that zone) — nothing else is normalised -/
inductive PeriodFn | daylight | night | twilight | goldenHour | blueHour | rahuDay | rahuNight
  deriving DecidableEq, Repr

def periodPublic (resolve : Nat → TZ) (now : Instant) (fn : PeriodFn) (obs : Obs α)
    (date : Option Int) (dir : Dir) (tz : TzArg) : Except Err (Instant × Instant) :=
  let z := normTz resolve tz
  let d := normDatePlain now z date
  match fn with
  | .daylight => daylight obs d z
  | .night => night obs d z
  | .twilight => twilight obs d dir z
  | .goldenHour => goldenHour obs d dir z
  | .blueHour => blueHour obs d dir z
  | .rahuDay => rahukaalam obs d true z
  | .rahuNight => rahukaalam obs d false z

def sunBundlePublic (resolve : Nat → TZ) (now : Instant) (obs : Obs α) (date : Option Int)
    (dep : DepSpec α) (tz : TzArg) : Except Err SunTimes :=
  let z := normTz resolve tz
  sunBundle obs (normDatePlain now z date) (normDep dep) z

/-- `date + timedelta(days=1)` on whatever was passed as the date -/
def DateSpec.nextDay (d : DateSpec) : DateSpec :=
  match d with
  | .omitted => .omitted
  | .date x => .date (x + 1)
  | .naive w => .naive (w + usPerDay)
  | .aware w z => .aware (w + usPerDay) z

/-- daylight / night when the date is spelled as a datetime: the date is only defaulted
    (`None` → today in the zone); everything else is left to the primitives, each of which reads
    a datetime as its own calendar date in its own zone -/
def dayNightPublic (resolve : Nat → TZ) (now : Instant) (isNight : Bool) (obs : Obs α)
    (date : DateSpec) (tz : TzArg) : Except Err ((Instant × TZ) × (Instant × TZ)) :=
  let z := normTz resolve tz
  let ds : DateSpec := match date with
    | .omitted => .date (todayIn now z)
    | d => d
  if isNight then do
    let a ← sunEventPublic resolve now .dusk obs ds (.num 6.0) (.obj z)
    let b ← sunEventPublic resolve now .dawn obs ds.nextDay (.num 6.0) (.obj z)
    pure (a, b)
  else do
    let a ← sunEventPublic resolve now .sunrise obs ds .civil (.obj z)
    let b ← sunEventPublic resolve now .sunset obs ds .civil (.obj z)
    pure (a, b)

def moonPublic (resolve : Nat → TZ) (now : Instant) (rise : Bool) (lat lon : α)
    (date : DateSpec) (tz : TzArg) : Except Err (Option Instant) :=
  let z := normTz resolve tz
  let d := normDateMoon now z date
  if rise then moonrise lat lon d z else moonset lat lon d z

end
end Astral
