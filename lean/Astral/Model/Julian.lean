import Astral.Model.Calendar
/-
  julian.py — the whole module, plus the time-unit helpers of __init__.py:144-176 and
  sun.py:48-59.
-/
namespace Astral

section
variable {α : Type} [Add α] [Sub α] [Mul α] [Div α] [Neg α] [LT α] [LE α] [OfScientific α]
  [Trig α] [DecidableRel (α := α) (· < ·)] [DecidableRel (α := α) (· ≤ ·)]

open Trig

inductive CalendarKind | gregorian | julian
  deriving Repr, DecidableEq, Inhabited

/-- julian.py:21-60 on explicit fields. `secs = none` for a `date`, `some (h*3600+m*60+s)`
    for a `datetime` (microseconds are ignored by the code). -/
def julianDayYMD (y m d : Int) (secs : Option Int) (cal : CalendarKind := .gregorian) : α :=
  let dayFraction : α := match secs with
    | some t => ofInt t / 86400.0
    | none => 0.0
  let year := if m ≤ 2 then y - 1 else y
  let month := if m ≤ 2 then m + 12 else m
  let a : Int := trunc ((ofInt year : α) / 100.0)
  let b : Int := match cal with
    | .gregorian => 2 - a + trunc ((ofInt a : α) / 4.0)
    | .julian => 0
  (ofInt (trunc ((365.25 : α) * ofInt (year + 4716))
         + trunc ((30.6001 : α) * ofInt (month + 1)) + d) : α)
    + dayFraction + ofInt b - 1524.5

/-- `julianday(date)` -/
def julianDayDate (d : Date) (cal : CalendarKind := .gregorian) : α :=
  let (y, m, dd) := ordToYMD d
  julianDayYMD y m dd none cal

/-- `julianday(datetime)`: reads the wall-clock fields of the datetime -/
def julianDayWall (w : Int) (cal : CalendarKind := .gregorian) : α :=
  let (y, m, dd) := ordToYMD (wallDate w)
  julianDayYMD y m dd (some ((w % usPerDay) / usPerSec)) cal

def julianDayToCentury (jd : α) : α := (jd - 2451545.0) / 36525.0
def julianCenturyToDay (jc : α) : α := (jc * 36525.0) + 2451545.0
def julianDay2000Date (d : Date) : α := julianDayDate d - 2451545.0
def julianDay2000Wall (w : Int) : α := julianDayWall w - 2451545.0

/-- julian.py:63-86 julianday_modified -/
def julianDayModified (w : Int) : α :=
  let (y, m, d) := ordToYMD (wallDate w)
  let hour := wallHour w
  let a := 10000 * y + 100 * m + d
  -- `if year < 0` is dead for datetime years
  let month := if m ≤ 2 then m + 12 else m
  let year := if m ≤ 2 then y - 1 else y
  let b : Int :=
    if a ≤ 15821004 then -2 + (year + 4716) / 4 - 1179
    else year / 400 - year / 100 + year / 4
  let a2 : Int := 365 * year - 679004
  (ofInt (a2 + b + trunc ((30.6001 : α) * ofInt (month + 1)) + d) : α) + (ofInt hour : α) / 24.0

/-- julian.py:11-18 day_fraction_to_time → (h, m, s) (then `datetime.time(h, m, s)`) -/
def dayFractionToTime (fraction : α) : Except Err (Int × Int × Int) :=
  let s : α := fraction * 86400.0
  let h := trunc (s / 3600.0)
  let s := s - ofInt (h * 60 * 60)
  let m := trunc (s / 60.0)
  let s := s - ofInt (m * 60)
  let si := trunc s
  if 0 ≤ h ∧ h ≤ 23 ∧ 0 ≤ m ∧ m ≤ 59 ∧ 0 ≤ si ∧ si ≤ 59 then .ok (h, m, si)
  else .error .timeFieldRange

/-- julian.py:89-125 julianday_to_datetime → naive wall reading -/
def julianDayToDateTime (jd0 : α) : Except Err Int :=
  let jd := jd0 + 0.5
  let z : Int := trunc jd
  let f : α := jd - ofInt z
  let a : Int :=
    if z < 2299161 then z
    else
      let alpha : Int := trunc (((ofInt z : α) - 1867216.25) / 36524.25)
      z + 1 + alpha - trunc ((ofInt alpha : α) / 4.0)
  let b := a + 1524
  let c : Int := trunc (((ofInt b : α) - 122.1) / 365.25)
  let d : Int := trunc ((365.25 : α) * ofInt c)
  let e : Int := trunc ((ofInt (b - d) : α) / 30.6001)
  let dd : α := (ofInt (b - d - trunc ((30.6001 : α) * ofInt e)) : α) + f
  let day := trunc dd
  let t := dd - ofInt day
  let total : α := t * 86400.0
  let hour := trunc (total / 3600.0)
  let total := total - ofInt (hour * 3600)
  let minute := trunc (total / 60.0)
  let total := total - ofInt (minute * 60)
  let seconds := trunc total
  let month := if e < 14 then e - 1 else e - 13
  let year := if month > 2 then c - 4716 else c - 4715
  do
    let date ← mkDate? year month day
    mkDateTime? date hour minute seconds 0

/-- __init__.py:144-157 hours_to_time → (h, m, s, us) -/
def hoursToTime (value : α) : Except Err (Int × Int × Int × Int) :=
  let hour := trunc value
  let v := (value - ofInt hour) * 60.0
  let minute := trunc v
  let v := (v - ofInt minute) * 60.0
  let second := trunc v
  let v := v - ofInt second
  let us := trunc (v * 1000000.0)
  if 0 ≤ hour ∧ hour ≤ 23 ∧ 0 ≤ minute ∧ minute ≤ 59 ∧ 0 ≤ second ∧ second ≤ 59
      ∧ 0 ≤ us ∧ us ≤ 999999 then .ok (hour, minute, second, us)
  else .error .timeFieldRange

/-- __init__.py:160-169 time_to_hours -/
def timeToHours (h m s us : Int) : α :=
  (0.0 : α) + ofInt h + (ofInt m : α) / 60.0 + (ofInt s : α) / 3600.0
    + (ofInt us : α) / 3600000000.0

/-- __init__.py:172-176 -/
def timeToSeconds (h m s us : Int) : α := (timeToHours h m s us : α) * 3600.0

/-- sun.py:48-59 minutes_to_timedelta → microseconds -/
def minutesToTimedelta (minutes : α) : Int :=
  let d := trunc (minutes / 1440.0)
  let minutes := minutes - ofInt (d * 1440)
  let minutes := minutes * 60.0
  let s := trunc minutes
  let sfrac := minutes - ofInt s
  let us := trunc (sfrac * 1000000.0)
  d * usPerDay + s * usPerSec + us

end
end Astral
