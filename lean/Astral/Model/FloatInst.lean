import Astral.Model.Num
/-
  The executable instance: IEEE binary64 through the same libm CPython uses.
-/
namespace Astral

/-- C `fmod(x, m)` for `x ≥ 0`, `m > 0` (exact whenever `m * ⌊x/m⌋` is exact, which
    holds for every use in astral: `m = 360`, `x < 2^44`). -/
def fmodPos (x m : Float) : Float :=
  let k := (x / m).floor
  let r := x - m * k
  if r < 0.0 then r + m else if m ≤ r then r - m else r

/-- CPython `float_rem` for a positive divisor. -/
def pymodFloat (x m : Float) : Float :=
  let fm := if x < 0.0 then -(fmodPos (-x) m) else fmodPos x m
  if fm < 0.0 then fm + m        -- sign differs from the divisor's: add the divisor
  else if fm == 0.0 then 0.0     -- copysign(0.0, m) for m > 0
  else fm

/-- `hypot` without intermediate overflow/underflow (libm's differs by at most an ulp or two) -/
def hypotFloat (x y : Float) : Float :=
  let ax := x.abs
  let ay := y.abs
  let m := if ax < ay then ay else ax
  let n := if ax < ay then ax else ay
  if m == 0.0 then 0.0
  else
    let r := n / m
    m * (1.0 + r * r).sqrt

def floatToInt (x : Float) : Int := x.toInt64.toInt

instance : Trig Float where
  sin := Float.sin
  cos := Float.cos
  tan := Float.tan
  asin := Float.asin
  acos := Float.acos
  atan2 := Float.atan2
  sqrt := Float.sqrt
  hypot := hypotFloat
  pi := 3.141592653589793
  floor := fun x => floatToInt x.floor
  trunc := floatToInt
  ofInt := Float.ofInt
  pymod := pymodFloat
  powi := fun x n => Float.pow x n.toFloat

end Astral
