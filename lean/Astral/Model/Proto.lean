import Astral.Model.FloatInst
/-
  Line protocol of the model driver (see harness/common.py for the Python side).

  request : `<fn> <tok> <tok> …`      response : `<tok> <tok> …`
  tokens  : `F<16 hex digits>` IEEE-754 bits of a float      `I<decimal>` integer
            `E<tag>` error kind     `N` None     `S<cp>,<cp>,…` string as code points
            `B0`/`B1` bool          `Z<id>` zone id (tables sent with `zone` lines)
-/
namespace Astral.Proto

def hexDigit (c : Char) : Option UInt64 :=
  if '0' ≤ c ∧ c ≤ '9' then some (c.toNat - '0'.toNat).toUInt64
  else if 'a' ≤ c ∧ c ≤ 'f' then some (c.toNat - 'a'.toNat + 10).toUInt64
  else none

def parseHex (s : String) : Option UInt64 :=
  s.foldl (fun acc c => do
    let a ← acc
    let d ← hexDigit c
    pure (a * 16 + d)) (some 0)

def hexOf (n : UInt64) : String :=
  let digs := "0123456789abcdef".toList.toArray
  let rec go (i : Nat) (n : UInt64) (acc : List Char) : List Char :=
    match i with
    | 0 => acc
    | i+1 => go i (n / 16) (digs[(n % 16).toNat]! :: acc)
  String.ofList (go 16 n [])

def tokF (x : Float) : String := "F" ++ hexOf x.toBits
def tokI (n : Int) : String := "I" ++ toString n
def tokE (e : Astral.Err) : String := "E" ++ e.tag
def tokB (b : Bool) : String := if b then "B1" else "B0"
def tokS (s : List Nat) : String := "S" ++ ",".intercalate (s.map toString)

def getF (t : String) : Option Float :=
  if t.startsWith "F" then (parseHex (t.drop 1).toString).map Float.ofBits else none
def getI (t : String) : Option Int :=
  if t.startsWith "I" then (t.drop 1).toString.toInt? else none
def getB (t : String) : Option Bool :=
  if t == "B1" then some true else if t == "B0" then some false else none
def getS (t : String) : Option (List Nat) :=
  if t.startsWith "S" then
    let body := (t.drop 1).toString
    if body.isEmpty then some []
    else (body.splitOn ",").mapM (fun x => x.toNat?)
  else none

end Astral.Proto
