import Astral.Model.Num
/-
  `datetime.date` / `datetime.datetime` / `timedelta` as exact integers.

  * `Date`    : proleptic Gregorian ordinal, `date.toordinal()` (1 = 0001-01-01)
  * `Instant` : microseconds since ordinal 0, 00:00 — for an aware datetime the UTC
                instant, for a naive one its wall-clock reading
  * `Zone`    : UTC instant ↦ utcoffset in microseconds (what `astimezone` consults)
-/
namespace Astral

-- notations, not abbreviations: the types must be *syntactically* `Int` for `omega`
notation "Date" => Int
notation "Instant" => Int
abbrev Zone := Int → Int

def usPerDay : Int := 86400000000
def usPerHour : Int := 3600000000
def usPerMin : Int := 60000000
def usPerSec : Int := 1000000

def minOrdinal : Int := 1
def maxOrdinal : Int := 3652059

def isLeap (y : Int) : Bool := y % 4 == 0 && (y % 100 != 0 || y % 400 == 0)

def daysBeforeYear (year : Int) : Int :=
  let y := year - 1
  y * 365 + y / 4 - y / 100 + y / 400

def daysInMonth (y m : Int) : Int :=
  if m == 2 then (if isLeap y then 29 else 28)
  else if m == 4 || m == 6 || m == 9 || m == 11 then 30 else 31

/-- days in the year preceding the first day of month `m` (1-based) -/
def daysBeforeMonth (y m : Int) : Int :=
  let base : Int :=
    if m ≤ 1 then 0 else if m = 2 then 31 else if m = 3 then 59 else if m = 4 then 90
    else if m = 5 then 120 else if m = 6 then 151 else if m = 7 then 181
    else if m = 8 then 212 else if m = 9 then 243 else if m = 10 then 273
    else if m = 11 then 304 else 334
  base + (if m > 2 && isLeap y then 1 else 0)

/-- `datetime._ymd2ord` -/
def ymdToOrd (y m d : Int) : Int := daysBeforeYear y + daysBeforeMonth y m + d

def validYMD (y m d : Int) : Bool :=
  1 ≤ y && y ≤ 9999 && 1 ≤ m && m ≤ 12 && 1 ≤ d && d ≤ daysInMonth y m

/-- `datetime.date(y, m, d)` — raises ValueError outside the supported range -/
def mkDate? (y m d : Int) : Except Err Date :=
  if validYMD y m d then .ok (ymdToOrd y m d) else .error .dateRange

/-- days before month `m` in a leap / common year -/
def dbmL (m : Int) (leap : Bool) : Int := daysBeforeMonth (if leap then 4 else 1) m

/-- `_ord2ymd`, last part: month and day of a 0-based day-of-year
    (estimate `(n + 50) >> 5`, then correct by one month if it overshoots) -/
def monthDay (r : Int) (leap : Bool) : Int × Int :=
  let month := (r + 50) / 32
  let preceding := dbmL month leap
  if preceding > r then (month - 1, r - dbmL (month - 1) leap + 1) else (month, r - preceding + 1)

/-- `datetime._ord2ymd` -/
def ordToYMD (n0 : Int) : Int × Int × Int :=
  let n := n0 - 1
  let n400 := n / 146097
  let n := n % 146097
  let year := n400 * 400 + 1
  let n100 := n / 36524
  let n := n % 36524
  let n4 := n / 1461
  let n := n % 1461
  let n1 := n / 365
  let n := n % 365
  let year := year + n100 * 100 + n4 * 4 + n1
  if n1 = 4 ∨ n100 = 4 then (year - 1, 12, 31)
  else
    let leap : Bool := n1 == 3 && (n4 != 24 || n100 == 3)
    let md := monthDay n leap
    (year, md.1, md.2)

def dateYear (d : Date) : Int := (ordToYMD d).1
def dateMonth (d : Date) : Int := (ordToYMD d).2.1
def dateDay (d : Date) : Int := (ordToYMD d).2.2

/-- `date.weekday()`: Monday = 0 -/
def weekday (d : Date) : Int := (d + 6) % 7

/-- `date + timedelta(days=k)`; OverflowError outside 0001-01-01 … 9999-12-31 -/
def dateAdd? (d : Date) (k : Int) : Except Err Date :=
  let r := d + k
  if minOrdinal ≤ r ∧ r ≤ maxOrdinal then .ok r else .error .dateRange

/-- the calendar date of an instant shown in zone `z` (`dt.astimezone(z).date()`) -/
def localDate (z : Zone) (t : Instant) : Date := (t + z t) / usPerDay

/-- wall-clock reading of instant `t` in zone `z` -/
def localWall (z : Zone) (t : Instant) : Int := t + z t

def utcZone : Zone := fun _ => 0

/-- `ZoneOk`: offsets strictly within ±24 h, as `tzinfo.utcoffset` requires -/
def ZoneOk (z : Zone) : Prop := ∀ t, -usPerDay < z t ∧ z t < usPerDay

/-- midnight (00:00) of ordinal `d` as an instant / wall reading -/
def dateStart (d : Date) : Instant := d * usPerDay

/-- `datetime.datetime(y, m, d, h, mi, s)`; ValueError on an out-of-range field -/
def mkDateTime? (d : Date) (h mi s us : Int) : Except Err Instant :=
  if 0 ≤ h ∧ h ≤ 23 ∧ 0 ≤ mi ∧ mi ≤ 59 ∧ 0 ≤ s ∧ s ≤ 59 ∧ 0 ≤ us ∧ us ≤ 999999 then
    .ok (d * usPerDay + h * usPerHour + mi * usPerMin + s * usPerSec + us)
  else .error .timeFieldRange

/-- a resulting datetime must itself lie in year 1 … 9999 (else OverflowError) -/
def checkInstant? (t : Instant) : Except Err Instant :=
  if minOrdinal * usPerDay ≤ t ∧ t < (maxOrdinal + 1) * usPerDay then .ok t
  else .error .dateRange

/-- time-of-day fields of a wall reading -/
def wallHour (w : Int) : Int := (w % usPerDay) / usPerHour
def wallMinute (w : Int) : Int := (w % usPerHour) / usPerMin
def wallSecond (w : Int) : Int := (w % usPerMin) / usPerSec
def wallMicro (w : Int) : Int := w % usPerSec
def wallDate (w : Int) : Date := w / usPerDay

end Astral
