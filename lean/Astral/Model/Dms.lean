import Astral.Model.Num
/-
  __init__.py:94-141 `dms_to_float`, the normalising `__setattr__` of Observer and
  LocationInfo (__init__.py:258-268, 297-302) and the Location setters
  (location.py:87-162) as state machines.

  Strings are lists of code points.  Modelled alphabet: ASCII plus ° (176), ′ (8242),
  ″ (8243).  `float(str)` is modelled on the grammar
      ws* [+-]? (digits [. digits?] | . digits) ([eE] [+-]? digits)? ws*
  (no `inf`/`nan`, no underscores, ASCII digits and whitespace only).
-/
namespace Astral

abbrev Str := List Nat

def isDigit (c : Nat) : Bool := 48 ≤ c && c ≤ 57
def digitVal (c : Nat) : Nat := c - 48
/-- ASCII whitespace recognised by `str.strip()` / `float()` -/
def isWs (c : Nat) : Bool := c == 32 || (9 ≤ c && c ≤ 13) || (28 ≤ c && c ≤ 31)

def cDeg : Nat := 176      -- °
def cPrime : Nat := 8242   -- ′
def cApos : Nat := 39      -- '
def cDPrime : Nat := 8243  -- ″
def cQuote : Nat := 34     -- "

/-- longest digit prefix (at most `max` digits): (value, number of digits, rest) -/
def takeDigits : Nat → Str → Nat × Nat × Str
  | 0, s => (0, 0, s)
  | _ + 1, [] => (0, 0, [])
  | max + 1, c :: s =>
    if isDigit c then
      let rec go (acc : Nat) (n : Nat) (k : Nat) (s : Str) : Nat × Nat × Str :=
        match k, s with
        | 0, s => (acc, n, s)
        | _ + 1, [] => (acc, n, [])
        | k + 1, c :: s => if isDigit c then go (acc * 10 + digitVal c) (n + 1) k s
                            else (acc, n, c :: s)
      go (digitVal c) 1 max s
    else (0, 0, c :: s)

/-- all leading digits: (value, count, rest) -/
def spanDigits (s : Str) : Nat × Nat × Str :=
  let rec go (acc n : Nat) : Str → Nat × Nat × Str
    | [] => (acc, n, [])
    | c :: s => if isDigit c then go (acc * 10 + digitVal c) (n + 1) s else (acc, n, c :: s)
  go 0 0 s

def dropWs : Str → Str
  | [] => []
  | c :: s => if isWs c then dropWs s else c :: s

/-- result of the regular expression: deg, optional min, optional sec, optional direction -/
structure DmsMatch where
  deg : Nat
  min : Option Nat
  sec : Option Nat
  dir : Option Nat
  deriving Repr, DecidableEq

/-- `(\d{1,2})[ab]` as an optional group: value and rest if it matches -/
def optField (s : Str) (a b : Nat) : Option (Nat × Str) :=
  match takeDigits 2 s with
  | (_, 0, _) => none
  | (v, _, c :: rest) => if c == a || c == b then some (v, rest) else none
  | (_, _, []) => none

def isDirLetter (c : Nat) : Bool :=
  c == 78 || c == 83 || c == 69 || c == 87 || c == 110 || c == 115 || c == 101 || c == 119

/-- `(?P<dir>[NSEW])?` at the head of what is left -/
def dirOfRest : Str → Option Nat
  | c :: _ => if isDirLetter c then some c else none
  | [] => none

/-- hand-written recogniser for
    `re.match(r"(?P<deg>\d{1,3})[°]((?P<min>\d{1,2})[′'])?((?P<sec>\d{1,2})[″\"])?(?P<dir>[NSEW])?", s, IGNORECASE)`
    on the modelled alphabet -/
def dmsRecognise (s : Str) : Option DmsMatch :=
  match takeDigits 3 s with
  | (_, 0, _) => none
  | (deg, _, c :: r1) =>
    if c != cDeg then none
    else
      let (mn, r2) := match optField r1 cPrime cApos with
        | some (v, r) => (some v, r)
        | none => (none, r1)
      let (sc, r3) := match optField r2 cDPrime cQuote with
        | some (v, r) => (some v, r)
        | none => (none, r2)
      some ⟨deg, mn, sc, dirOfRest r3⟩
  | (_, _, []) => none

/-- a parsed decimal numeral: sign, mantissa digits as a number, decimal exponent -/
structure Numeral where
  neg : Bool
  mant : Nat
  /-- value = mant × 10^exp10 -/
  exp10 : Int
  deriving Repr, DecidableEq

/-- `float(str)` grammar (see the header) -/
def parseNumeral (s0 : Str) : Option Numeral :=
  let s := dropWs s0
  let (neg, s) := match s with
    | 45 :: r => (true, r)
    | 43 :: r => (false, r)
    | _ => (false, s)
  let (ip, ni, s) := spanDigits s
  let (fp, nf, s, hadDot) := match s with
    | 46 :: r => let (v, n, r') := spanDigits r; (v, n, r', true)
    | _ => (0, 0, s, false)
  if ni + nf = 0 then none
  else if hadDot ∧ ni = 0 ∧ nf = 0 then none
  else
    let mant := ip * 10 ^ nf + fp
    let base : Int := -(nf : Int)
    let expPart : Option (Int × Str) := match s with
      | c :: r =>
        if c == 101 || c == 69 then
          let (eneg, r) := match r with
            | 45 :: r' => (true, r')
            | 43 :: r' => (false, r')
            | _ => (false, r)
          match spanDigits r with
          | (_, 0, _) => none
          | (v, _, r') => some (if eneg then -(v : Int) else (v : Int), r')
        else some (0, c :: r)
      | [] => some (0, [])
    match expPart with
    | none => none
    | some (e, rest) =>
      if dropWs rest = [] then some ⟨neg, mant, base + e⟩ else none

section
variable {α : Type} [Add α] [Sub α] [Mul α] [Div α] [Neg α] [LT α] [LE α] [OfScientific α]
  [Trig α] [DecidableRel (α := α) (· < ·)] [DecidableRel (α := α) (· ≤ ·)]

open Trig

def Numeral.toNum (n : Numeral) : α :=
  let x : α := if n.exp10 < 0 then OfScientific.ofScientific n.mant true n.exp10.natAbs
               else OfScientific.ofScientific n.mant false n.exp10.natAbs
  if n.neg then -x else x

/-- what Python code hands to `dms_to_float` / a setter -/
inductive Arg (α : Type) where
  | num (x : α)          -- a float or int
  | str (s : Str)
  | other                -- None, a tuple, … : `float()` raises TypeError, `str()` never matches
  deriving Repr, Inhabited

/-- `float(x)` -/
def pyFloat? (a : Arg α) : Except Err α :=
  match a with
  | .num x => .ok x
  | .str s => match parseNumeral s with
    | some n => .ok n.toNum
    | none => .error .floatParse
  | .other => .error .typeError

def clamp (x : α) (limit : Option α) : α :=
  match limit with
  | none => x
  | some l => if l < x then l else if x < -l then -l else x

/-- the value denoted by a regular-expression match -/
def DmsMatch.value (m : DmsMatch) : α :=
  let res : α := ofInt m.deg
  let res := match m.min with
    | some v => res + (ofInt v : α) / 60.0
    | none => res
  let res := match m.sec with
    | some v => res + (ofInt v : α) / 3600.0
    | none => res
  match m.dir with
  | some c => if c == 83 || c == 115 || c == 87 || c == 119 then -res else res
  | none => res

/-- __init__.py:94-141 -/
def dmsToFloat (a : Arg α) (limit : Option α := none) : Except Err α :=
  match pyFloat? a with
  | .ok x => .ok (clamp x limit)
  | .error _ =>
    match a with
    | .str s => match dmsRecognise s with
      | some m => .ok (clamp m.value limit)
      | none => .error .cannotConvertDms
    | _ => .error .cannotConvertDms

/-- what may be assigned to `Observer.elevation` -/
inductive ElevArg (α : Type) where
  | one (a : Arg α)
  | pair (a b : Arg α)
  deriving Repr, Inhabited

/-- Observer.__setattr__("elevation", …): `float(value)` or `(float(v0), float(v1))` -/
def elevOfArg (e : ElevArg α) : Except Err (Elev α) :=
  match e with
  | .one a => (pyFloat? a).map Elev.flt
  | .pair a b => do
      let x ← pyFloat? a
      let y ← pyFloat? b
      pure (Elev.tup x y)

/-- Observer(latitude, longitude, elevation): three normalising assignments -/
inductive ObsField | latitude | longitude | elevation
  deriving Repr, DecidableEq

inductive ObsVal (α : Type) where
  | coord (a : Arg α)
  | elev (e : ElevArg α)

/-- `observer.<field> = value`; a failed assignment leaves the object unchanged -/
def Obs.set (o : Obs α) (f : ObsField) (v : ObsVal α) : Except Err (Obs α) :=
  match f, v with
  | .latitude, .coord a => do let x ← dmsToFloat a (some 90.0); pure { o with lat := x }
  | .longitude, .coord a => do let x ← dmsToFloat a (some 180.0); pure { o with lon := x }
  | .elevation, .elev e => do let x ← elevOfArg e; pure { o with elev := x }
  -- a coordinate field given a tuple, or elevation given as a plain Arg
  | .latitude, .elev _ => .error .cannotConvertDms
  | .longitude, .elev _ => .error .cannotConvertDms
  | .elevation, .coord a => do let x ← pyFloat? a; pure { o with elev := .flt x }

/-- `Observer(lat, lon, elev)` -/
def Obs.mk? (lat lon : Arg α) (elev : ElevArg α) : Except Err (Obs α) := do
  let la ← dmsToFloat lat (some 90.0)
  let lo ← dmsToFloat lon (some 180.0)
  let el ← elevOfArg elev
  pure ⟨la, lo, el⟩

/-- the coordinate part of LocationInfo / Location -/
structure Coords (α : Type) where
  lat : α
  lon : α
  deriving Repr, Inhabited

inductive CoordField | latitude | longitude
  deriving Repr, DecidableEq

/-- `LocationInfo.__setattr__` / `Location.latitude = …` (location.py:117-142) -/
def Coords.set (c : Coords α) (f : CoordField) (a : Arg α) : Except Err (Coords α) :=
  match f with
  | .latitude => do let x ← dmsToFloat a (some 90.0); pure { c with lat := x }
  | .longitude => do let x ← dmsToFloat a (some 180.0); pure { c with lon := x }

/-- run a list of assignments, ignoring the ones that raise (the object is unchanged) -/
def Obs.run (o : Obs α) (ops : List (ObsField × ObsVal α)) : Obs α :=
  ops.foldl (fun o op => match o.set op.1 op.2 with | .ok o' => o' | .error _ => o) o

def Coords.run (c : Coords α) (ops : List (CoordField × Arg α)) : Coords α :=
  ops.foldl (fun c op => match c.set op.1 op.2 with | .ok c' => c' | .error _ => c) c

end
end Astral
