import Astral.Model.Julian
/-
  sun.py and `refraction_at_zenith` (__init__.py:179-202), transcribed function by
  function, in the float operation order of the source.
-/
namespace Astral

/-- what `astimezone` and the `datetime(..., tzinfo=tz)` constructor consult -/
structure TZ where
  /-- offset (µs) in force at a UTC instant -/
  utc : Instant → Int
  /-- offset (µs) the zone assigns to a naive wall reading (fold = 0) -/
  loc : Int → Int

def TZ.fixed (off : Int) : TZ := ⟨fun _ => off, fun _ => off⟩
def TZ.UTC : TZ := TZ.fixed 0

section
variable {α : Type} [Add α] [Sub α] [Mul α] [Div α] [Neg α] [LT α] [LE α] [OfScientific α]
  [Trig α] [DecidableRel (α := α) (· < ·)] [DecidableRel (α := α) (· ≤ ·)]

open Trig

/-- __init__.py:179-202 -/
def refractionAtZenith (zenith : α) : α :=
  let elevation : α := 90.0 - zenith
  if 85.0 ≤ elevation then 0.0
  else
    let te := tan (radians elevation)
    let rc : α :=
      if 5.0 < elevation then
        58.1 / te - 0.07 / (te * te * te) + 0.000086 / (te * te * te * te * te)
      else if -0.575 < elevation then
        let step1 : α := -12.79 + elevation * 0.711
        let step2 : α := 103.4 + elevation * step1
        let step3 : α := -518.2 + elevation * step2
        1735.0 + elevation * step3
      else
        -20.774 / te
    rc / 3600.0

/-- sun.py:43-44 -/
def sunApparentRadius : α := 32.0 / (60.0 * 2.0)

/-- sun.py:62-65 -/
def geomMeanLongSun (jc : α) : α :=
  let l0 : α := 280.46646 + jc * (36000.76983 + 0.0003032 * jc)
  pymod l0 360.0

def geomMeanAnomalySun (jc : α) : α := 357.52911 + jc * (35999.05029 - 0.0001537 * jc)

def eccentricLocationEarthOrbit (jc : α) : α :=
  0.016708634 - jc * (0.000042037 + 0.0000001267 * jc)

def sunEqOfCenter (jc : α) : α :=
  let m := geomMeanAnomalySun jc
  let mrad := radians m
  let sinm := sin mrad
  let sin2m := sin (mrad + mrad)
  let sin3m := sin (mrad + mrad + mrad)
  sinm * (1.914602 - jc * (0.004817 + 0.000014 * jc))
    + sin2m * (0.019993 - 0.000101 * jc)
    + sin3m * 0.000289

def sunTrueLong (jc : α) : α := geomMeanLongSun jc + sunEqOfCenter jc
def sunTrueAnomaly (jc : α) : α := geomMeanAnomalySun jc + sunEqOfCenter jc

def sunRadVector (jc : α) : α :=
  let v := sunTrueAnomaly jc
  let e := eccentricLocationEarthOrbit jc
  (1.000001018 * (1.0 - e * e)) / (1.0 + e * cos (radians v))

def sunApparentLong (jc : α) : α :=
  let trueLong := sunTrueLong jc
  let omega : α := 125.04 - 1934.136 * jc
  trueLong - 0.00569 - 0.00478 * sin (radians omega)

def meanObliquityOfEcliptic (jc : α) : α :=
  let seconds : α := 21.448 - jc * (46.815 + jc * (0.00059 - jc * 0.001813))
  23.0 + (26.0 + (seconds / 60.0)) / 60.0

def obliquityCorrection (jc : α) : α :=
  let e0 := meanObliquityOfEcliptic jc
  let omega : α := 125.04 - 1934.136 * jc
  e0 + 0.00256 * cos (radians omega)

def sunRtAscension (jc : α) : α :=
  let oc := obliquityCorrection jc
  let al := sunApparentLong jc
  let tananum := cos (radians oc) * sin (radians al)
  let tanadenom := cos (radians al)
  degrees (atan2 tananum tanadenom)

def sunDeclination (jc : α) : α :=
  let e := obliquityCorrection jc
  let lambd := sunApparentLong jc
  let sint := sin (radians e) * sin (radians lambd)
  degrees (asin sint)

def varY (jc : α) : α :=
  let epsilon := obliquityCorrection jc
  let y := tan (radians epsilon / 2.0)
  y * y

def eqOfTime (jc : α) : α :=
  let l0 := geomMeanLongSun jc
  let e := eccentricLocationEarthOrbit jc
  let m := geomMeanAnomalySun jc
  let y := varY jc
  let sin2l0 := sin (2.0 * radians l0)
  let sinm := sin (radians m)
  let cos2l0 := cos (2.0 * radians l0)
  let sin4l0 := sin (4.0 * radians l0)
  let sin2m := sin (2.0 * radians m)
  let etime : α :=
    y * sin2l0 - 2.0 * e * sinm + 4.0 * e * y * sinm * cos2l0
      - 0.5 * y * y * sin4l0 - 1.25 * e * e * sin2m
  degrees etime * 4.0

/-- the argument of `acos` in `hour_angle` -/
def hourAngleArg (latitude declination zenith : α) : α :=
  let lr := radians latitude
  let dr := radians declination
  let zr := radians zenith
  (cos zr - sin lr * sin dr) / (cos lr * cos dr)

/-- sun.py:190-218; `acos` raises "math domain error" when the zenith is never reached -/
def hourAngle (latitude declination zenith : α) (dir : Dir) : Except Err α := do
  let ha ← acos? (hourAngleArg latitude declination zenith)
  return (if dir = .setting then -ha else ha)

/-- sun.py:221-239 -/
def adjustToHorizon (elevation : α) : α :=
  if elevation ≤ 0.0 then 0.0
  else
    let r : α := 6356900.0
    let h1 := r + elevation
    degrees (acos (r / h1))

/-- sun.py:242-250 (with math.hypot) -/
def adjustToObscuringFeature (dh dist : α) : Except Err α :=
  if ¬ (dh < 0.0) ∧ ¬ (0.0 < dh) then .ok 0.0
  else do
    let hyp : α := hypot dh dist
    let q ← div? (fabs dh) hyp
    let a ← acos? q
    return (if dh < 0.0 then -(degrees a) else degrees a)

def clampLatitude (lat : α) : α :=
  if 89.8 < lat then 89.8 else if lat < -89.8 then -89.8 else lat

def elevationAdjustment (e : Elev α) : Except Err α :=
  match e with
  | .flt h => if 0.0 < h then .ok (adjustToHorizon h) else .ok 0.0
  | .tup dh dist => adjustToObscuringFeature dh dist

/-- one pass of the loop in `time_of_transit`: minutes after 00:00 UTC -/
def transitPass (latitude lon zen : α) (dir : Dir) (jd adjustment : α) : Except Err α := do
  let jc := julianDayToCentury (jd + adjustment)
  let declination := sunDeclination jc
  let hourangle ← hourAngle latitude declination zen dir
  let delta := -lon - degrees hourangle
  let eqtime := eqOfTime jc
  let offset := delta * 4.0 - eqtime
  let offset := if offset < -720.0 then offset + 1440.0 else offset
  return 720.0 + offset

/-- the effective zenith handed to `hour_angle` -/
def effectiveZenith (elev : Elev α) (zenith : α) (withRefraction : Bool) : Except Err α := do
  let adj ← elevationAdjustment elev
  let refr : α := if withRefraction then refractionAtZenith (zenith + adj) else 0.0
  return zenith + adj + refr

/-- sun.py:253-325: minutes after 00:00 UTC of `date` (two passes) -/
def timeOfTransitMinutes (obs : Obs α) (date : Date) (zenith : α) (dir : Dir)
    (withRefraction : Bool := true) : Except Err α := do
  let latitude := clampLatitude obs.lat
  let zen ← effectiveZenith obs.elev zenith withRefraction
  let jd : α := julianDayDate date
  let t1 ← transitPass latitude obs.lon zen dir jd 0.0
  let t2 ← transitPass latitude obs.lon zen dir jd (t1 / 1440.0)
  return t2

/-- sun.py:253-325 `time_of_transit`: the UTC instant -/
def timeOfTransit (obs : Obs α) (date : Date) (zenith : α) (dir : Dir)
    (withRefraction : Bool := true) : Except Err Instant := do
  let m ← timeOfTransitMinutes obs date zenith dir withRefraction
  checkInstant? (dateStart date + minutesToTimedelta m)

/-- The date re-matching block shared (as four copies in the source) by dawn, sunrise,
    sunset, dusk and time_at_elevation: if the result shown in the output zone is not on
    the requested date, recompute for the neighbouring day; still not → "Unable to find". -/
def rematch (f : Date → Except Err Instant) (z : Zone) (d : Date) : Except Err Instant := do
  let t ← f d
  if localDate z t = d then return t
  else
    let nd ← dateAdd? d (if localDate z t < d then 1 else -1)
    let t2 ← f nd
    if localDate z t2 = d then return t2 else throw .unableToFind

/-- `except ValueError: if args[0] == "math domain error": raise <msg> else: raise` -/
def onMathDomain {β : Type} (r : Except Err β) (h : Except Err β) : Except Err β :=
  match r with
  | .error .mathDomain => h
  | r => r

/-- sun.py time_at_elevation (after the elevation > 90 fold, see `foldElevation`) -/
def timeAtElevation (obs : Obs α) (elevation : α) (date : Date) (dir : Dir) (tz : TZ)
    (withRefraction : Bool := true) : Except Err Instant :=
  let dir' := if 90.0 < elevation then Dir.setting else dir
  let el : α := if 90.0 < elevation then 180.0 - elevation else elevation
  let zenith : α := 90.0 - el
  onMathDomain (rematch (fun d => timeOfTransit obs d zenith dir' withRefraction) tz.utc date)
    (.error .neverReaches)

/-- the second/minute carries shared by noon and midnight (sun.py:417-429, 489-501) -/
def carrySM (hour minute second : Int) : Int × Int × Int :=
  let (second, minute) :=
    if second > 59 then (second - 60, minute + 1)
    else if second < 0 then (second + 60, minute - 1) else (second, minute)
  let (minute, hour) :=
    if minute > 59 then (minute - 60, hour + 1)
    else if minute < 0 then (minute + 60, hour - 1) else (minute, hour)
  (hour, minute, second)

/-- hour, minute, second of a float number of hours, truncating toward zero at each step -/
def splitHours (timeUTC : α) : Int × Int × Int :=
  let hour := trunc timeUTC
  let minute := trunc ((timeUTC - ofInt hour) * 60.0)
  let second := trunc ((((timeUTC - ofInt hour) * 60.0) - ofInt minute) * 60.0)
  (hour, minute, second)

/-- noon's date roll: `hour > 23` → next day, `hour < 0` → previous day -/
def mkNoon? (date : Date) (hms : Int × Int × Int) : Except Err Instant :=
  let (hour, minute, second) := carrySM hms.1 hms.2.1 hms.2.2
  if hour > 23 then do
    let d ← dateAdd? date 1
    mkDateTime? d (hour - 24) minute second 0
  else if hour < 0 then do
    let d ← dateAdd? date (-1)
    mkDateTime? d (hour + 24) minute second 0
  else mkDateTime? date hour minute second 0

/-- midnight's date roll: only `hour < 0` → previous day -/
def mkMidnight? (date : Date) (hms : Int × Int × Int) : Except Err Instant :=
  let (hour, minute, second) := carrySM hms.1 hms.2.1 hms.2.2
  if hour < 0 then do
    let d ← dateAdd? date (-1)
    mkDateTime? d (hour + 24) minute second 0
  else mkDateTime? date hour minute second 0

/-- noon in hours after 00:00 UTC of the date (sun.py:409-411) -/
def noonHours (lon : α) (date : Date) : α :=
  let jc : α := julianDayToCentury (julianDayDate date)
  let eqtime := eqOfTime jc
  (720.0 - (4.0 * lon) - eqtime) / 60.0

/-- the UTC computation of noon (sun.py `_noon_utc`) -/
def noonUtc (obs : Obs α) (date : Date) : Except Err Instant :=
  mkNoon? date (splitHours (noonHours obs.lon date))

/-- sun.py noon: re-matched to the requested date in the output zone -/
def noon (obs : Obs α) (date : Date) (tz : TZ) : Except Err Instant := do
  let t ← noonUtc obs date
  if localDate tz.utc t = date then return t
  else
    let nd ← dateAdd? date (if localDate tz.utc t < date then 1 else -1)
    noonUtc obs nd

/-- midnight in hours after 00:00 UTC of the date (sun.py:477-484) -/
def midnightHours (lon : α) (date : Date) : α :=
  let jd : α := julianDayWall (dateStart date + 12 * usPerHour)
  let newt : α := julianDayToCentury (jd + 0.5 + -lon / 360.0)
  let eqtime := eqOfTime newt
  let timeUTC : α := (-lon * 4.0) - eqtime
  timeUTC / 60.0

/-- the UTC computation of midnight (sun.py `_midnight_utc`) -/
def midnightUtc (obs : Obs α) (date : Date) : Except Err Instant :=
  mkMidnight? date (splitHours (midnightHours obs.lon date))

/-- 00:00:00 of `date` in the zone, as a UTC instant (`datetime(y, m, d, tzinfo=tz)`) -/
def startOfDay (tz : TZ) (date : Date) : Instant := dateStart date - tz.loc (dateStart date)

/-- sun.py midnight: the solar midnight nearest to 00:00 of the date in the output zone -/
def midnight (obs : Obs α) (date : Date) (tz : TZ) : Except Err Instant := do
  let t ← midnightUtc obs date
  let s := startOfDay tz date
  if t - s > 12 * usPerHour then
    let d ← dateAdd? date (-1)
    midnightUtc obs d
  else if s - t > 12 * usPerHour then
    let d ← dateAdd? date 1
    midnightUtc obs d
  else return t

/-- `zone`: minus the UTC offset in hours (0 for a naive datetime) -/
def zoneHours (offset : Option Int) : α :=
  match offset with
  | none => 0.0
  | some o => -((ofInt o : α) / 1000000.0) / 3600.0

/-- the UTC wall reading of the datetime -/
def utcWallOf (wall : Int) (offset : Option Int) : Int :=
  match offset with
  | none => wall
  | some o => wall - o

/-- true solar time (minutes), reduced modulo one day — sun.py:545-556 -/
def trueSolarTime (wall : Int) (offset : Option Int) (longitude eqtime : α) : α :=
  let solarTimeFix : α := eqtime + (4.0 * longitude) + (60.0 * zoneHours offset)
  let tst : α :=
    (ofInt (wallHour wall) : α) * 60.0 + ofInt (wallMinute wall)
      + (ofInt (wallSecond wall) : α) / 60.0 + solarTimeFix
  pymod tst 1440.0

def hourAngleOfTst (tst : α) : α := tst / 4.0 - 180.0

def clampUnit (x : α) : α := if 1.0 < x then 1.0 else if x < -1.0 then -1.0 else x

/-- cosine of the zenith angle from latitude, declination, hour angle (degrees) -/
def cosZenith (latitude declination hourangle : α) : α :=
  let ch := cos (radians hourangle)
  let cl := cos (radians latitude)
  let sl := sin (radians latitude)
  let sd := sin (radians declination)
  let cd := cos (radians declination)
  cl * cd * ch + sl * sd

def zenithOfCos (csz : α) : α := degrees (acos (clampUnit csz))

/-- azimuth before the final `+ 360` — sun.py:579-598 -/
def azimuthRaw (latitude declination zenith hourangle : α) : α :=
  let cl := cos (radians latitude)
  let sl := sin (radians latitude)
  let sd := sin (radians declination)
  let azDenom := cl * sin (radians zenith)
  if 0.001 < fabs azDenom then
    let azRad := ((sl * cos (radians zenith)) - sd) / azDenom
    let azRad : α :=
      if 1.0 < fabs azRad then (if azRad < 0.0 then -1.0 else 1.0) else azRad
    let az : α := 180.0 - degrees (acos azRad)
    if 0.0 < hourangle then -az else az
  else
    if 0.0 < latitude then 180.0 else 0.0

def normAzimuth (a : α) : α := if a < 0.0 then a + 360.0 else a

def applyRefraction (zenith : α) (withRefraction : Bool) : α :=
  if withRefraction then zenith - refractionAtZenith zenith else zenith

/-- the geometric (true) zenith and the azimuth from the solar coordinates -/
def zenithAzimuthOf (latitude declination hourangle : α) : α × α :=
  let zenith := zenithOfCos (cosZenith latitude declination hourangle)
  (zenith, normAzimuth (azimuthRaw latitude declination zenith hourangle))

/-- sun.py:519-607. `wall` is the datetime's own wall reading, `offset` its utcoffset in µs
    (`none` for a naive datetime, which is read as UTC). Returns (zenith, azimuth). -/
def zenithAndAzimuth (obs : Obs α) (wall : Int) (offset : Option Int)
    (withRefraction : Bool := true) : α × α :=
  let latitude := clampLatitude obs.lat
  let jd : α := julianDayWall (utcWallOf wall offset)
  let t := julianDayToCentury jd
  let declination := sunDeclination t
  let eqtime := eqOfTime t
  let hourangle := hourAngleOfTst (trueSolarTime wall offset obs.lon eqtime)
  let za := zenithAzimuthOf latitude declination hourangle
  (applyRefraction za.1 withRefraction, za.2)

def sunZenith (obs : Obs α) (wall : Int) (offset : Option Int) (withRefraction : Bool := true) : α :=
  (zenithAndAzimuth obs wall offset withRefraction).1

def sunAzimuth (obs : Obs α) (wall : Int) (offset : Option Int) : α :=
  (zenithAndAzimuth obs wall offset true).2

def sunElevation (obs : Obs α) (wall : Int) (offset : Option Int) (withRefraction : Bool := true) : α :=
  90.0 - sunZenith obs wall offset withRefraction

/-- sun.py dawn (date, zone and depression already normalised) -/
def dawn (obs : Obs α) (date : Date) (dep : α) (tz : TZ) : Except Err Instant :=
  onMathDomain (rematch (fun d => timeOfTransit obs d (90.0 + dep) .rising) tz.utc date)
    (.error .neverReaches)

def dusk (obs : Obs α) (date : Date) (dep : α) (tz : TZ) : Except Err Instant :=
  onMathDomain (rematch (fun d => timeOfTransit obs d (90.0 + dep) .setting) tz.utc date)
    (.error .neverReaches)

/-- the handler of sunrise/sunset:
    `zenith(observer, noon(observer, date)) > 90 + SUN_APPARENT_RADIUS + adjustment_for_elevation(observer)`
    — the apparent zenith of the sun's centre at its highest against the apparent zenith at which
    the upper limb touches the observer's (dipped / obscured) horizon -/
def alwaysVerdict (obs : Obs α) (date : Date) : Except Err Instant := do
  let n ← noon obs date TZ.UTC
  let z := sunZenith obs n (some 0)
  let adj ← elevationAdjustment obs.elev
  if 90.0 + sunApparentRadius + adj < z then throw .alwaysBelow else throw .alwaysAbove

def sunrise (obs : Obs α) (date : Date) (tz : TZ) : Except Err Instant :=
  onMathDomain
    (rematch (fun d => timeOfTransit obs d (90.0 + sunApparentRadius) .rising) tz.utc date)
    (alwaysVerdict obs date)

def sunset (obs : Obs α) (date : Date) (tz : TZ) : Except Err Instant :=
  onMathDomain
    (rematch (fun d => timeOfTransit obs d (90.0 + sunApparentRadius) .setting) tz.utc date)
    (alwaysVerdict obs date)

def daylight (obs : Obs α) (date : Date) (tz : TZ) : Except Err (Instant × Instant) := do
  let sr ← sunrise obs date tz
  let ss ← sunset obs date tz
  return (sr, ss)

def night (obs : Obs α) (date : Date) (tz : TZ) : Except Err (Instant × Instant) := do
  let start ← dusk obs date 6.0 tz
  let tomorrow ← dateAdd? date 1
  let e ← dawn obs tomorrow 6.0 tz
  return (start, e)

def twilight (obs : Obs α) (date : Date) (dir : Dir) (tz : TZ) :
    Except Err (Instant × Instant) :=
  match dir with
  | .rising => do
      let start ← dawn obs date 6.0 tz
      let e ← sunrise obs date tz
      return (start, e)
  | .setting => do
      let start ← dusk obs date 6.0 tz
      let e ← sunset obs date tz
      return (e, start)

def goldenHour (obs : Obs α) (date : Date) (dir : Dir) (tz : TZ) :
    Except Err (Instant × Instant) := do
  let start ← timeAtElevation obs (-4.0) date dir tz
  let e ← timeAtElevation obs 6.0 date dir tz
  return (match dir with | .rising => (start, e) | .setting => (e, start))

def blueHour (obs : Obs α) (date : Date) (dir : Dir) (tz : TZ) :
    Except Err (Instant × Instant) := do
  let start ← timeAtElevation obs (-6.0) date dir tz
  let e ← timeAtElevation obs (-4.0) date dir tz
  return (match dir with | .rising => (start, e) | .setting => (e, start))

/-- Mo … Su ↦ which eighth -/
def octantIndex (wd : Int) : Int :=
  if wd = 0 then 1 else if wd = 1 then 6 else if wd = 2 then 4 else if wd = 3 then 5
  else if wd = 4 then 3 else if wd = 5 then 2 else 7

/-- `(end - start).seconds`: the seconds *field* of the normalised timedelta -/
def timedeltaSecondsField (us : Int) : Int := (us / usPerSec) % 86400

def rahukaalam (obs : Obs α) (date : Date) (daytime : Bool) (tz : TZ) :
    Except Err (Instant × Instant) := do
  let (start, e) ←
    if daytime then do
      let s ← sunrise obs date tz
      let e ← sunset obs date tz
      pure (s, e)
    else do
      let s ← sunset obs date tz
      let nd ← dateAdd? date 1
      let e ← sunrise obs nd tz
      pure (s, e)
  -- timedelta(seconds = n / 8): n/8 is exact in binary, so this is n * 125000 µs
  let octantDuration : Int := timedeltaSecondsField (e - start) * 125000
  let octant := octantIndex (weekday date)
  let start := start + octantDuration * octant
  return (start, start + octantDuration)

structure SunTimes where
  dawn : Instant
  sunrise : Instant
  noon : Instant
  sunset : Instant
  dusk : Instant
  deriving Repr

def sunBundle (obs : Obs α) (date : Date) (dep : α) (tz : TZ) : Except Err SunTimes := do
  let a ← dawn obs date dep tz
  let b ← sunrise obs date tz
  let c ← noon obs date tz
  let d ← sunset obs date tz
  let e ← dusk obs date dep tz
  return ⟨a, b, c, d, e⟩

end
end Astral
