import Astral.Model.Sun
import Astral.Model.MoonTable
/-
  moon.py and sidereal.py, transcribed in the float operation order of the source.
-/
namespace Astral

structure BodyPos (α : Type) where
  ra : α
  dec : α
  dist : α
  deriving Repr, Inhabited

section
variable {α : Type} [Add α] [Sub α] [Mul α] [Div α] [Neg α] [LT α] [LE α] [OfScientific α]
  [Trig α] [DecidableRel (α := α) (· < ·)] [DecidableRel (α := α) (· ≤ ·)]

open Trig

/-- moon.py:27-28 -/
def moonApparentRadius : α := 1896.0 / (60.0 * 60.0)

/-- moon.py:49-54 -/
def interpolate (f0 f1 f2 p : α) : α :=
  let a := f1 - f0
  let b := f2 - f1 - a
  f0 + p * (2.0 * a + b * (2.0 * p - 1.0))

def sgnF (x : α) : Int := if x < 0.0 then -1 else if 0.0 < x then 1 else 0
def sgnI (x : Int) : Int := if x < 0 then -1 else if 0 < x then 1 else 0

/-- `x - int(x)` -/
def fracPart (x : α) : α := x - ofInt (trunc x)

def moonMeanLongitude (jd2000 : α) : α := fracPart (0.606434 + 0.03660110129 * jd2000)
def moonMeanAnomaly (jd2000 : α) : α := fracPart (0.374897 + 0.03629164709 * jd2000)
def moonArgumentOfLatitude (jd2000 : α) : α := fracPart (0.259091 + 0.03674819520 * jd2000)
def moonMeanElongationFromSun (jd2000 : α) : α := fracPart (0.827362 + 0.03386319198 * jd2000)
def longitudeLunarAscendingNode (jd2000 : α) : α :=
  moonMeanLongitude jd2000 - moonArgumentOfLatitude jd2000
def sunMeanLongitude (jd2000 : α) : α := fracPart (0.779072 + 0.00273790931 * jd2000)
def sunMeanAnomaly (jd2000 : α) : α := fracPart (0.993126 + 0.00273777850 * jd2000)
def venusMeanLongitude (jd2000 : α) : α := fracPart (0.505498 + 0.00445046867 * jd2000)

/-- `argument_values[arg_number - 1]` (entries 6, 9, 10, 11 are `None`) -/
def moonArgument (jd2000 : α) (n : Nat) : Option α :=
  match n with
  | 1 => some (moonMeanLongitude jd2000)
  | 2 => some (moonMeanAnomaly jd2000)
  | 3 => some (moonArgumentOfLatitude jd2000)
  | 4 => some (moonMeanElongationFromSun jd2000)
  | 5 => some (longitudeLunarAscendingNode jd2000)
  | 7 => some (sunMeanLongitude jd2000)
  | 8 => some (sunMeanAnomaly jd2000)
  | 12 => some (venusMeanLongitude jd2000)
  | _ => none

/-- one row's `revolutions`; `if arg_value:` is false for `None` and for `0.0` → bare ValueError -/
def rowRevolutions (jd2000 : α) (mults : List (Nat × Int)) : Except Err α :=
  mults.foldlM (fun (rev : α) (km : Nat × Int) =>
    if km.2 = 0 then pure rev
    else match moonArgument jd2000 km.1 with
      | none => throw .bareValueError
      | some v =>
        if v < 0.0 ∨ 0.0 < v then pure (rev + v * ofInt km.2) else throw .bareValueError)
    (0.0 : α)

/-- moon.py:141-157 `_calc_value` -/
def calcValue (jd2000 : α) (table : List (T4Row α)) : Except Err α :=
  let bigT : α := jd2000 / 36525.0 + 1.0
  table.foldlM (fun (result : α) (row : T4Row α) => do
    let rev ← rowRevolutions jd2000 row.mults
    let x := rev * 2.0 * pi
    let sc := match row.fn with | .sin => sin x | .cos => cos x
    let tm : α := if row.t then bigT else 1.0
    pure (result + row.coef * tm * sc)) (0.0 : α)

/-- moon.py:121-171 -/
def moonPosition (jd2000 : α) : Except Err (BodyPos α) := do
  let v ← calcValue jd2000 table4V
  let u ← calcValue jd2000 table4U
  let w ← calcValue jd2000 table4W
  let r1 ← sqrt? (u - v * v)
  let s ← div? w r1
  let a ← asin? s
  let ra : α := a + moonMeanLongitude jd2000 * 2.0 * pi
  let r2 ← sqrt? u
  let s2 ← div? v r2
  let dec ← asin? s2
  let dist : α := 60.40974 * r2
  return ⟨ra, dec, dist⟩

/-- sidereal.py gmst on a Julian-day-2000 value -/
def gmstOfJd2000 (jd2000 : α) : α :=
  let t0 := jd2000 / 36525.0
  let value : α := 280.46061837 + 360.98564736629 * jd2000 + 0.000387933 * powi t0 2
    + powi t0 3 / 38710000.0
  pymod value 360.0

def lmstOfJd2000 (jd2000 lon : α) : α := gmstOfJd2000 jd2000 + lon

inductive MoonEv | rise | set deriving Repr, DecidableEq

/-- result of `moon_transit_event` together with the window fields it mutates -/
structure TransitOut (α : Type) where
  /-- `some (kind, h, m)` for a TransitEvent -/
  event : Option (MoonEv × Int × Int)
  w2ra : α
  w2dist : α

/-- moon.py:174-272. `w0dist` is `window[0].distance` on entry (ignored when `hour = 0`). -/
def moonTransitEvent (hour : Int) (lmst latitude distance : α)
    (w0ra w0dec w0dist w2ra w2dec : α) : Except Err (TransitOut α) := do
  let mst := radians lmst
  let k1 : α := radians (15.0 * 1.0027379097096138907193594760917)
  let w2ra := if w2ra < w0ra then w2ra + 2.0 * pi else w2ra
  let hr : α := ofInt hour
  let ha0 := mst - w0ra + (hr * k1)
  let ha2 := mst - w2ra + (hr * k1) + k1
  let ha1 := (ha2 + ha0) / 2.0
  let w1dec := (w2dec + w0dec) / 2.0
  let sl := sin (radians latitude)
  let cl := cos (radians latitude)
  let par ← div? (41.685 : α) distance
  let z := cos (radians (90.0 + moonApparentRadius - par))
  let w0dist := if hour = 0 then sl * sin w0dec + cl * cos w0dec * cos ha0 - z else w0dist
  let w2dist := sl * sin w2dec + cl * cos w2dec * cos ha2 - z
  if sgnF w0dist = sgnF w2dist then return ⟨none, w2ra, w2dist⟩
  let w1dist := sl * sin w1dec + cl * cos w1dec * cos ha1 - z
  let a := 2.0 * w2dist - 4.0 * w1dist + 2.0 * w0dist
  let b := 4.0 * w1dist - 3.0 * w0dist - w2dist
  let disc := b * b - 4.0 * a * w0dist
  if disc < 0.0 then return ⟨none, w2ra, w2dist⟩
  let sq := sqrt disc
  let e ← div? (-b + sq) (2.0 * a)
  let e ← if 1.0 < e ∨ e < 0.0 then div? (-b - sq) (2.0 * a) else pure e
  let time : α := hr + e + 1.0 / 120.0
  let h := trunc time
  let m := trunc ((time - ofInt h) * 60.0)
  let (h, m) := if h > 23 then ((23 : Int), (59 : Int)) else (h, m)
  -- datetime.time(h, m, 0)
  if ¬ (0 ≤ h ∧ h ≤ 23 ∧ 0 ≤ m ∧ m ≤ 59) then throw .timeFieldRange
  if w0dist < 0.0 ∧ 0.0 < w2dist then return ⟨some (.rise, h, m), w2ra, w2dist⟩
  if 0.0 < w0dist ∧ w2dist < 0.0 then return ⟨some (.set, h, m), w2ra, w2dist⟩
  return ⟨none, w2ra, w2dist⟩

/-- the choice among several events of one UTC day (moon.py:341-389): should the stored
    time `cur` be replaced by `ev`, given the other kind's stored time `other`? -/
def moonUpdate (cur ev query : Int) (other : Option Int) : Bool :=
  let cq := cur - query
  let eq := ev - query
  let oq := match other with | some o => o - query | none => 0
  (sgnI cq = sgnI eq ∧ cq.natAbs > eq.natAbs)
    ∨ (sgnI cq ≠ sgnI eq ∧ (other.isSome ∧ sgnI cq = sgnI oq))

structure ScanState (α : Type) where
  w0ra : α
  w0dec : α
  w0dist : α
  rise : Option Instant
  set : Option Instant

/-- moon.py:275-397 `riseset`, given the three half-day positions -/
def risesetFrom (on : Date) (lat lon : α) (jd2000 : α) (m0 m1 m2 : BodyPos α) :
    Except Err (Option Instant × Option Instant) := do
  let t0 := lmstOfJd2000 jd2000 lon
  let m1ra := if m1.ra ≤ m0.ra then m1.ra + 2.0 * pi else m1.ra
  let m2ra := if m2.ra ≤ m1ra then m2.ra + 2.0 * pi else m2.ra
  let init : ScanState α := ⟨m0.ra, m0.dec, m0.dist, none, none⟩
  let final ← (List.range 24).foldlM (fun (st : ScanState α) (hourN : Nat) => do
    let hour : Int := hourN
    let ph : α := (ofInt (hour + 1) : α) / 24.0
    let w2ra := interpolate m0.ra m1ra m2ra ph
    let w2dec := interpolate m0.dec m1.dec m2.dec ph
    let out ← moonTransitEvent hour t0 lat m1.dist st.w0ra st.w0dec st.w0dist w2ra w2dec
    let query : Int := dateStart on + hour * usPerHour
    let (rise, set) : Option Instant × Option Instant :=
      match out.event with
      | none => (st.rise, st.set)
      | some (.rise, h, m) =>
        let ev := dateStart on + h * usPerHour + m * usPerMin
        match st.rise with
        | none => (some ev, st.set)
        | some cur => (if moonUpdate cur ev query st.set then some ev else some cur, st.set)
      | some (.set, h, m) =>
        let ev := dateStart on + h * usPerHour + m * usPerMin
        match st.set with
        | none => (st.rise, some ev)
        | some cur => (st.rise, if moonUpdate cur ev query st.rise then some ev else some cur)
    pure (⟨out.w2ra, w2dec, out.w2dist, rise, set⟩ : ScanState α)) init
  return (final.rise, final.set)

def riseset (on : Date) (lat lon : α) : Except Err (Option Instant × Option Instant) := do
  let jd2000 : α := julianDay2000Date on
  let m0 ← moonPosition jd2000
  let m1 ← moonPosition (jd2000 + 1.0 * 0.5)
  let m2 ← moonPosition (jd2000 + 2.0 * 0.5)
  risesetFrom on lat lon jd2000 m0 m1 m2

/-- The date logic of moonrise/moonset (moon.py:400-505) over an abstract scan:
    `scan d` is the event (of the wanted kind) found in UTC day `d`. -/
def moonWrapper (scan : Date → Except Err (Option Instant)) (z : Zone) (date : Date) :
    Except Err (Option Instant) := do
  match (← scan date) with
  | some t =>
    if localDate z t = date then return some t
    else
      let nd ← dateAdd? date (if localDate z t > date then -1 else 1)
      match (← scan nd) with
      | some t2 => if localDate z t2 = date then return some t2 else return none
      | none => return none
  | none =>
    let dm ← dateAdd? date (-1)
    match (← scan dm) with
    | some t => if localDate z t = date then return some t
    | none => pure ()
    let dp ← dateAdd? date 1
    match (← scan dp) with
    | some t => if localDate z t = date then return some t
    | none => pure ()
    throw .moonNever

def moonrise (lat lon : α) (date : Date) (tz : TZ) : Except Err (Option Instant) :=
  moonWrapper (fun d => (riseset d lat lon).map (·.1)) tz.utc date

def moonset (lat lon : α) (date : Date) (tz : TZ) : Except Err (Option Instant) :=
  moonWrapper (fun d => (riseset d lat lon).map (·.2)) tz.utc date

/-- the horizontal-coordinate kernel shared by moon azimuth and elevation -/
def moonXYZ (lat lon : α) (utcWall : Int) : Except Err (α × α × α) := do
  let jd2000 : α := julianDay2000Wall utcWall
  let p ← moonPosition jd2000
  let lst0 := radians (lmstOfJd2000 jd2000 lon)
  let hourangle := lst0 - p.ra
  let sh := sin hourangle
  let ch := cos hourangle
  let sd := sin p.dec
  let cd := cos p.dec
  let sl := sin (radians lat)
  let cl := cos (radians lat)
  let x := -ch * cd * sl + sd * cl
  let y := -sh * cd
  let z := ch * cd * cl + sd * sl
  return (x, y, z)

/-- moon.py azimuth; `utcWall` is the UTC wall reading (naive = UTC, aware converted) -/
def moonAzimuth (lat lon : α) (utcWall : Int) : Except Err α := do
  let (x, y, _) ← moonXYZ lat lon utcWall
  let az := pymod (degrees (atan2 y x)) 360.0
  return (if 360.0 ≤ az then az - 360.0 else az)

def moonElevation (lat lon : α) (utcWall : Int) : Except Err α := do
  let (x, y, z) ← moonXYZ lat lon utcWall
  let r := sqrt (x * x + y * y)
  return degrees (atan2 z r)

def moonZenith (lat lon : α) (utcWall : Int) : Except Err α := do
  let e ← moonElevation lat lon utcWall
  return 90.0 - e

/-- moon.py:551-571: the truncated series for the moon–sun elongation, reduced into [0, 360) -/
def elongation (date : Date) : α :=
  let jd : α := julianDayDate date
  let dt : α := powi (jd - 2382148.0) 2 / (ofInt (41048480 * 86400))
  let t : α := (jd + dt - 2451545.0) / 36525.0
  let t2 := powi t 2
  let t3 := powi t 3
  let d : α := 297.85 + (445267.1115 * t) - (0.0016300 * t2) + (t3 / 545868.0)
  let d := radians (pymod d 360.0)
  let m : α := 357.53 + (35999.0503 * t)
  let m := radians (pymod m 360.0)
  let m1 : α := 134.96 + (477198.8676 * t) + (0.0089970 * t2) + (t3 / 69699.0)
  let m1 := radians (pymod m1 360.0)
  let elong : α := degrees d + 6.29 * sin m1
  let elong := elong - 2.10 * sin m
  let elong := elong + 1.27 * sin (2.0 * d - m1)
  let elong := elong + 0.66 * sin (2.0 * d)
  pymod elong 360.0

/-- the same series when the "date" is a datetime: `julianday` then includes the time of day
    (moon.py passes whatever it was given to `julianday`) -/
def elongationWall (w : Int) : α :=
  let jd : α := julianDayWall w
  let dt : α := powi (jd - 2382148.0) 2 / (ofInt (41048480 * 86400))
  let t : α := (jd + dt - 2451545.0) / 36525.0
  let t2 := powi t 2
  let t3 := powi t 3
  let d : α := 297.85 + (445267.1115 * t) - (0.0016300 * t2) + (t3 / 545868.0)
  let d := radians (pymod d 360.0)
  let m : α := 357.53 + (35999.0503 * t)
  let m := radians (pymod m 360.0)
  let m1 : α := 134.96 + (477198.8676 * t) + (0.0089970 * t2) + (t3 / 69699.0)
  let m1 := radians (pymod m1 360.0)
  let elong : α := degrees d + 6.29 * sin m1
  let elong := elong - 2.10 * sin m
  let elong := elong + 1.27 * sin (2.0 * d - m1)
  let elong := elong + 0.66 * sin (2.0 * d)
  pymod elong 360.0

/-- moon.py:573: integer elongation → 28ths, with the fixed +6.43° offset -/
def phaseOfElong (ei : Int) : α := (((ofInt ei : α) + 6.43) / 360.0) * 28.0

/-- moon.py:551-574 -/
def phaseAsFloat (date : Date) : α := phaseOfElong (trunc (elongation (α := α) date))

/-- moon.py:577-601 -/
def phase (date : Date) : α :=
  let moon : α := phaseAsFloat date
  if 28.0 ≤ moon then moon - 28.0 else moon

/-- `phase(datetime)` -/
def phaseWall (w : Int) : α :=
  let moon : α := phaseOfElong (trunc (elongationWall (α := α) w))
  if 28.0 ≤ moon then moon - 28.0 else moon

end
end Astral
