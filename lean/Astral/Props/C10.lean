import Astral.Props.C06
import Mathlib.Topology.Algebra.Order.Field
/-
  C10 — a higher observer sees sunrise earlier and sunset later, smoothly.  α := ℝ.
-/
namespace Astral.C10
open Astral Real Astral.C02 Astral.C06

/-! ### Horizon dip -/

theorem dip_nonpos (h : ℝ) (hh : h ≤ 0) : adjustToHorizon h = 0 := by
  unfold adjustToHorizon
  rw [if_pos (by norm_num; exact hh)]; norm_num

theorem dip_pos_eq (h : ℝ) (hh : 0 < h) :
    adjustToHorizon h = degrees (Real.arccos (6356900 / (6356900 + h))) := by
  unfold adjustToHorizon
  rw [if_neg (by norm_num; exact hh)]
  simp only [trig_acos]
  norm_num

theorem ratio_range (h : ℝ) (hh : 0 < h) :
    0 < 6356900 / (6356900 + h) ∧ 6356900 / (6356900 + h) < 1 := by
  constructor
  · positivity
  · rw [div_lt_one (by positivity)]; linarith

theorem degrees_strictMono : StrictMono (degrees : ℝ → ℝ) := by
  intro a b hab
  rw [degrees_eq, degrees_eq]
  have : 0 < 180 / π := by have := Real.pi_pos; positivity
  exact mul_lt_mul_of_pos_right hab this

/-- the dip is positive and strictly increasing in the elevation -/
theorem dip_strictMono (h1 h2 : ℝ) (p1 : 0 < h1) (h12 : h1 < h2) :
    0 < adjustToHorizon h1 ∧ adjustToHorizon h1 < adjustToHorizon h2 := by
  rw [dip_pos_eq h1 p1, dip_pos_eq h2 (by linarith)]
  obtain ⟨a1, b1⟩ := ratio_range h1 p1
  obtain ⟨a2, b2⟩ := ratio_range h2 (by linarith)
  have hr : 6356900 / (6356900 + h2) < 6356900 / (6356900 + h1) := by
    apply div_lt_div_of_pos_left (by norm_num) (by linarith) (by linarith)
  constructor
  · have : 0 < Real.arccos (6356900 / (6356900 + h1)) := Real.arccos_pos.mpr b1
    have := degrees_strictMono this
    simpa [degrees_eq] using this
  · apply degrees_strictMono
    exact Real.arccos_lt_arccos (by linarith) hr (by linarith)

/-- the dip never decreases, over all elevations (negative, zero, positive) -/
theorem dip_mono (h1 h2 : ℝ) (h12 : h1 ≤ h2) : adjustToHorizon h1 ≤ adjustToHorizon h2 := by
  by_cases p1 : 0 < h1
  · rcases eq_or_lt_of_le h12 with e | l
    · rw [e]
    · exact (dip_strictMono h1 h2 p1 l).2.le
  · rw [dip_nonpos h1 (not_lt.mp p1)]
    by_cases p2 : 0 < h2
    · have := dip_strictMono (h2 / 2) h2 (by linarith) (by linarith)
      linarith [this.1, this.2]
    · rw [dip_nonpos h2 (not_lt.mp p2)]

/-- the shift vanishes continuously as the elevation goes to zero -/
theorem dip_continuousAt_zero :
    ContinuousAt (fun h : ℝ => degrees (Real.arccos (6356900 / (6356900 + h)))) 0 ∧
    degrees (Real.arccos (6356900 / (6356900 + (0 : ℝ)))) = 0 := by
  constructor
  · have h1 : ContinuousAt (fun h : ℝ => 6356900 / (6356900 + h)) 0 := by
      apply ContinuousAt.div continuousAt_const (continuousAt_const.add continuousAt_id)
      norm_num
    have h2 : ContinuousAt (fun h : ℝ => Real.arccos (6356900 / (6356900 + h))) 0 :=
      Real.continuous_arccos.continuousAt.comp h1
    have : (fun h : ℝ => degrees (Real.arccos (6356900 / (6356900 + h))))
        = fun h => Real.arccos (6356900 / (6356900 + h)) * (180 / π) := by
      funext h; rw [degrees_eq]
    rw [this]
    exact h2.mul continuousAt_const
  · norm_num [degrees_eq]

/-- **zero or negative elevations behave exactly like sea level** -/
theorem sea_level (h z : ℝ) (r : Bool) (hh : h ≤ 0) :
    effectiveZenith (.flt h) z r = effectiveZenith (.flt (0 : ℝ)) z r := by
  have h1 : ¬ ((0.0 : ℝ) < h) := by norm_num; exact hh
  have h2 : ¬ ((0.0 : ℝ) < 0) := by norm_num
  simp only [effectiveZenith, elevationAdjustment, h1, h2, if_false]

/-- the adjustment added to the target zenith is the dip -/
theorem effectiveZenith_flt (h z : ℝ) (r : Bool) :
    effectiveZenith (.flt h) z r
      = .ok (z + adjustToHorizon h + (if r then refractionAtZenith (z + adjustToHorizon h) else 0)) := by
  unfold effectiveZenith elevationAdjustment
  by_cases hh : (0.0 : ℝ) < h
  · simp only [hh, ↓reduceIte, bind, Except.bind, pure, Except.pure]
    cases r <;> simp
  · have : adjustToHorizon h = 0 := dip_nonpos h (by norm_num at hh; exact hh)
    simp only [hh, ↓reduceIte, bind, Except.bind, pure, Except.pure, this]
    cases r <;> simp

/-- **raising the observer never makes a rising event later or a setting event earlier**
    (refraction off; shared declination): the effective zenith grows with the elevation and
    the hour angle grows with the effective zenith (C06). -/
theorem higher_is_earlier (φ δ lon eqt z h1 h2 H1 H2 : ℝ)
    (hden : 0 < cos (radians φ) * cos (radians δ))
    (p1 : 0 < h1) (h12 : h1 < h2)
    (hz0 : 0 ≤ z + adjustToHorizon h1) (hz180 : z + adjustToHorizon h2 ≤ 180)
    (e1 : hourAngle φ δ (z + adjustToHorizon h1) .rising = .ok H1)
    (e2 : hourAngle φ δ (z + adjustToHorizon h2) .rising = .ok H2) :
    unwrappedMinutes lon eqt H2 < unwrappedMinutes lon eqt H1
      ∧ unwrappedMinutes lon eqt (-H1) < unwrappedMinutes lon eqt (-H2) := by
  have hd := (dip_strictMono h1 h2 p1 h12).2
  have := event_order φ δ lon eqt _ _ H1 H2 hden hz0 (by linarith) hz180 e1 e2
  exact ⟨this.1, this.2.2.1⟩

/-- with refraction on the same holds whenever the two dips differ by at least the 0.6° the
    refraction model can contribute (the model is *not* monotone inside that margin: N2) -/
theorem higher_is_earlier_refr (φ δ lon eqt z h1 h2 H1 H2 : ℝ)
    (hden : 0 < cos (radians φ) * cos (radians δ))
    (hgap : adjustToHorizon h1 + 0.6 ≤ adjustToHorizon h2)
    (hz0 : 0 ≤ z + adjustToHorizon h1) (hz180 : z + adjustToHorizon h2 ≤ 180)
    (e1 : hourAngle φ δ (z + adjustToHorizon h1 + refractionAtZenith (z + adjustToHorizon h1)) .rising = .ok H1)
    (e2 : hourAngle φ δ (z + adjustToHorizon h2 + refractionAtZenith (z + adjustToHorizon h2)) .rising = .ok H2)
    (hz180' : z + adjustToHorizon h2 + refractionAtZenith (z + adjustToHorizon h2) ≤ 180) :
    unwrappedMinutes lon eqt H2 < unwrappedMinutes lon eqt H1 := by
  have b1 := refraction_bounds (z + adjustToHorizon h1) hz0 (by linarith)
  have b2 := refraction_bounds (z + adjustToHorizon h2) (by linarith) hz180
  have := event_order φ δ lon eqt _ _ H1 H2 hden (by linarith [b1.1]) (by linarith [b1.2.1, b2.1]) hz180' e1 e2
  exact this.1

/-! ### The (height difference, distance) form -/

theorem feature_zero (dist : ℝ) : adjustToObscuringFeature (0 : ℝ) dist = .ok 0 := by
  unfold adjustToObscuringFeature
  norm_num

/-- shape of a successful obscuring-feature adjustment for `dh ≠ 0` -/
theorem feature_ok (dh dist a : ℝ) (hne : dh < 0 ∨ 0 < dh)
    (h : adjustToObscuringFeature dh dist = .ok a) :
    ∃ q : ℝ, q = fabs dh / Real.sqrt (dh * dh + dist * dist) ∧ -1 ≤ q ∧ q ≤ 1 ∧
      a = if dh < 0 then -(degrees (Real.arccos q)) else degrees (Real.arccos q) := by
  unfold adjustToObscuringFeature at h
  have hcond : ¬ (¬ dh < 0.0 ∧ ¬ (0.0 : ℝ) < dh) := by
    norm_num
    intro h1
    rcases hne with h3 | h3
    · linarith
    · exact h3
  rw [if_neg hcond] at h
  simp only [bind, Except.bind, pure, Except.pure] at h
  cases hq : div? (fabs dh) (Trig.hypot dh dist) with
  | error e => simp [hq] at h
  | ok q =>
    simp only [hq] at h
    cases hv : acos? q with
    | error e => simp [hv] at h
    | ok v =>
      simp only [hv, Except.ok.injEq] at h
      obtain ⟨l1, l2, rfl⟩ := acos?_ok hv
      refine ⟨q, ?_, l1, l2, ?_⟩
      · unfold div? at hq
        split at hq
        · injection hq with hq; rw [← hq, trig_hypot]
        · cases hq
      · rw [← h]
        by_cases hd : dh < 0
        · simp [hd]
        · simp [hd]

/-- an observer above the feature gets a non-negative adjustment (never a later sunrise),
    one below it a non-positive one (never an earlier sunrise) -/
theorem feature_sign (dh dist a : ℝ) (h : adjustToObscuringFeature dh dist = .ok a) :
    (0 < dh → 0 ≤ a) ∧ (dh < 0 → a ≤ 0) := by
  constructor
  · intro hh
    obtain ⟨q, _, _, _, ha⟩ := feature_ok dh dist a (Or.inr hh) h
    rw [ha, if_neg (by linarith)]
    exact (degrees_arccos_range q).1
  · intro hh
    obtain ⟨q, _, _, _, ha⟩ := feature_ok dh dist a (Or.inl hh) h
    rw [ha, if_pos hh]
    linarith [(degrees_arccos_range q).1]

/-- **KF-FEATURE, as a theorem about the model**: for 0 < dh ≤ dist the adjustment is at
    least 45° — it tends to 90°, not to 0, as the height difference vanishes; the times do
    not converge to the level ones. -/
theorem feature_discontinuous_witness (dh dist a : ℝ) (h0 : 0 < dh) (hd : dh ≤ dist)
    (h : adjustToObscuringFeature dh dist = .ok a) : 45 ≤ a := by
  obtain ⟨q, hq, _, _, ha⟩ := feature_ok dh dist a (Or.inr h0) h
  rw [ha, if_neg (by linarith)]
  have hf : fabs dh = dh := by unfold fabs; rw [if_neg (by norm_num; linarith)]
  rw [hf] at hq
  have hs : 0 < Real.sqrt (dh * dh + dist * dist) := by
    apply Real.sqrt_pos.mpr; nlinarith
  have hq2 : q ≤ Real.cos (π / 4) := by
    rw [hq, Real.cos_pi_div_four, div_le_iff₀ hs]
    have h2 : Real.sqrt 2 / 2 * Real.sqrt (dh * dh + dist * dist)
        = Real.sqrt ((dh * dh + dist * dist) / 2) := by
      rw [show (dh * dh + dist * dist) / 2 = (1 / 2) * (dh * dh + dist * dist) by ring]
      rw [Real.sqrt_mul (by norm_num)]
      congr 1
      rw [show (1 / 2 : ℝ) = (Real.sqrt 2 / 2) ^ 2 by
        rw [div_pow, Real.sq_sqrt (by norm_num)]; norm_num]
      rw [Real.sqrt_sq (by positivity)]
    rw [h2]
    apply Real.le_sqrt_of_sq_le
    nlinarith
  have : π / 4 ≤ Real.arccos q := by
    have := Real.arccos_le_arccos hq2
    rwa [Real.arccos_cos (by positivity) (by linarith [Real.pi_pos])] at this
  rw [degrees_eq]
  have hp := Real.pi_pos
  calc (45 : ℝ) = π / 4 * (180 / π) := by field_simp; ring
    _ ≤ _ := by apply mul_le_mul_of_nonneg_right this; positivity

end Astral.C10
