import Astral.Gen.Effects
/-
  C17 / C18 — state hygiene of the geocoder, from the effect table regenerated from the AST of
  /repo/src/astral on every run (harness/effects.py).  Kept apart from C20 so that a change to
  sun.py or moon.py cannot break this module.
-/
namespace Astral.GeoPure
open Astral.Gen

def rowAt (i : Nat) : FnRow := effectTable.getD i ⟨[], []⟩

/-- functions reachable from `start` through package calls (fuel = table size) -/
def reach : Nat → List Nat → List Nat → List Nat
  | 0, seen, _ => seen
  | _ + 1, seen, [] => seen
  | fuel + 1, seen, x :: todo =>
    if seen.contains x then reach fuel seen todo
    else reach fuel (x :: seen) ((rowAt x).calls ++ todo)

/-- what a geocoder function may do: mutate the database it is handed (`add_locations`) — never
    module state, hidden state (caches, mutable defaults), the environment, the clock or I/O -/
def geoAllowed (e : Eff) : Bool := e == .mutatesParam

def geoPureFn (f : Nat) : Bool :=
  ((reach (4 * effectTable.length + 16) [] [f]).flatMap (fun i => (rowAt i).effects)).all geoAllowed

/-- **C17/C18 state hygiene**: every public geocoder function — and everything it calls inside
    the package, in particular the line parser behind `database()` — keeps no hidden state and
    writes no module state: what `database()` returns is a function of the source table, and a
    database is changed only by `add_locations` on that database. -/
theorem geo_no_hidden_state : geoFns.all geoPureFn = true := by decide +kernel

theorem geo_nonempty : 5 ≤ geoFns.length ∧ geoFns.all (fun i => i < effectTable.length) = true := by
  decide +kernel

end Astral.GeoPure
