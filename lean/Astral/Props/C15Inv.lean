import Astral.Props.C15
/-
  C15, inverse direction: `julianday_to_datetime (julianday t) = t` for every whole-second
  instant from 1582-10-15 on.  Exact arithmetic (α := ℝ); the integer core is Meeus' inverse
  algorithm reduced to linear integer arithmetic.
-/
namespace Astral.C15Inv
open Astral Astral.C15

/-- `⌊30.6001·e⌋` for the month codes the algorithm uses -/
def kOf (e : Int) : Int := 306001 * e / 10000

/-- last day of the month with code `e` (4 = March … 15 = February) in the shifted year with
    century remainder `s` and century index `c` -/
def dmax (e s c : Int) : Int :=
  if e = 15 then (if s % 4 = 3 ∧ (s = 99 → c = 3) then 29 else 28)
  else if e = 5 ∨ e = 7 ∨ e = 10 ∨ e = 12 then 30 else 31

theorem kd_bounds (e d s c : Int) (he4 : 4 ≤ e) (he15 : e ≤ 15) (hd1 : 1 ≤ d)
    (hdmax : d ≤ dmax e s c) :
    123 ≤ kOf e + d ∧ kOf e + d ≤ 488 ∧ (kOf e + d = 488 → (s % 4 = 3 ∧ (s = 99 → c = 3))) := by
  unfold dmax at hdmax
  unfold kOf
  interval_cases e <;> norm_num at hdmax ⊢ <;> (try split_ifs at hdmax with hh) <;>
    first
    | (refine ⟨by omega, by omega, fun h => ?_⟩; first | exact hh | (exfalso; omega))
    | omega

theorem month_code (e d s c : Int) (he4 : 4 ≤ e) (he15 : e ≤ 15) (hd1 : 1 ≤ d)
    (hdmax : d ≤ dmax e s c) : 10000 * (kOf e + d) / 306001 = e := by
  unfold dmax at hdmax
  unfold kOf
  interval_cases e <;> norm_num at hdmax ⊢ <;> (try split_ifs at hdmax) <;> omega

theorem alpha_of_forward (q c s kd z : Int) (hc0 : 0 ≤ c) (hc3 : c ≤ 3) (hs0 : 0 ≤ s) (hs : s ≤ 99)
    (hkd1 : 123 ≤ kd) (hkd2 : kd ≤ 488)
    (hleap : kd = 488 → (s % 4 = 3 ∧ (s = 99 → c = 3)))
    (hz : z = 146097 * q + 36524 * c + 365 * s + s / 4 + 1722519 + kd + 2 - 1524) :
    (4 * z - 7468865) / 146097 = 4 * q + c - 4 := by
  have c_cases : c = 0 ∨ c = 1 ∨ c = 2 ∨ c = 3 := by omega
  rcases c_cases with h | h | h | h <;> subst h <;> omega

theorem year_code (q c s kd : Int) (hc0 : 0 ≤ c) (hc3 : c ≤ 3) (hs0 : 0 ≤ s) (hs : s ≤ 99)
    (hkd1 : 123 ≤ kd) (hkd2 : kd ≤ 488)
    (hleap : kd = 488 → (s % 4 = 3 ∧ (s = 99 → c = 3))) :
    (20 * (146097 * q + 36524 * c + 365 * s + s / 4 + 1722519 + kd) - 2442) / 7305
      = 400 * q + 100 * c + s + 4716 := by
  have c_cases : c = 0 ∨ c = 1 ∨ c = 2 ∨ c = 3 := by omega
  rcases c_cases with h | h | h | h <;> subst h <;> omega

/-- the integer core of the inverse, on the Meeus-shifted date:
    `W = year' + 4716`, `e = month' + 1 ∈ 4…15`, day `d`. -/
theorem inverse_core (q c s e d z : Int)
    (hc0 : 0 ≤ c) (hc3 : c ≤ 3) (hs0 : 0 ≤ s) (hs : s ≤ 99)
    (he4 : 4 ≤ e) (he15 : e ≤ 15) (hd1 : 1 ≤ d) (hdmax : d ≤ dmax e s c)
    (hz : z = 146097 * q + 36524 * c + 365 * s + s / 4 + 1722519 + kOf e + d + 2 - 1524) :
    let α := (4 * z - 7468865) / 146097
    let a := z + 1 + α - α / 4
    let b := a + 1524
    let cc := (20 * b - 2442) / 7305
    let dd := 1461 * cc / 4
    let e' := 10000 * (b - dd) / 306001
    α = 4 * q + c - 4 ∧ cc = 400 * q + 100 * c + s + 4716 ∧ e' = e
      ∧ b - dd - 306001 * e' / 10000 = d := by
  intro α a b cc dd e'
  obtain ⟨k1, k2, k3⟩ := kd_bounds e d s c he4 he15 hd1 hdmax
  have hα : α = 4 * q + c - 4 :=
    alpha_of_forward q c s (kOf e + d) z hc0 hc3 hs0 hs k1 k2 k3 (by rw [hz]; ring)
  have hb : b = 146097 * q + 36524 * c + 365 * s + s / 4 + 1722519 + (kOf e + d) := by
    show z + 1 + α - α / 4 + 1524 = _
    rw [hα]; omega
  have hcc : cc = 400 * q + 100 * c + s + 4716 := by
    show (20 * b - 2442) / 7305 = _
    rw [hb]
    exact year_code q c s (kOf e + d) hc0 hc3 hs0 hs k1 k2 k3
  have hdd : dd = 146097 * q + 36524 * c + 365 * s + s / 4 + 1722519 := by
    show 1461 * cc / 4 = _
    rw [hcc]; omega
  have hbd : b - dd = kOf e + d := by rw [hb, hdd]; ring
  have he' : e' = e := by
    show 10000 * (b - dd) / 306001 = e
    rw [hbd]
    exact month_code e d s c he4 he15 hd1 hdmax
  refine ⟨hα, hcc, he', ?_⟩
  rw [he', hbd]
  unfold kOf; omega

end Astral.C15Inv
