import Astral.Props.C15
/-
  C15, inverse direction: `julianday_to_datetime (julianday t) = t` for every whole-second
  instant from 1582-10-15 on.  Exact arithmetic (α := ℝ); the integer core is Meeus' inverse
  algorithm reduced to linear integer arithmetic.
-/
namespace Astral.C15Inv
open Astral Astral.C15

/-- `⌊30.6001·e⌋` for the month codes the algorithm uses -/
def kOf (e : Int) : Int := 306001 * e / 10000

/-- last day of the month with code `e` (4 = March … 15 = February) in the shifted year with
    century remainder `s` and century index `c` -/
def dmax (e s c : Int) : Int :=
  if e = 15 then (if s % 4 = 3 ∧ (s = 99 → c = 3) then 29 else 28)
  else if e = 5 ∨ e = 7 ∨ e = 10 ∨ e = 12 then 30 else 31

theorem dmax_facts (e d s c : Int) (hdmax : d ≤ dmax e s c) :
    d ≤ 31 ∧ (e = 15 → d ≤ 29) ∧ (e = 15 → d = 29 → (s % 4 = 3 ∧ (s = 99 → c = 3)))
      ∧ ((e = 5 ∨ e = 7 ∨ e = 10 ∨ e = 12) → d ≤ 30) := by
  unfold dmax at hdmax
  split_ifs at hdmax with h1 h2 h3
  · exact ⟨by omega, fun _ => by omega, fun _ _ => h2, fun h => by omega⟩
  · exact ⟨by omega, fun _ => by omega, fun _ h => by omega, fun h => by omega⟩
  · exact ⟨by omega, fun h => absurd h h1, fun h => absurd h h1, fun _ => hdmax⟩
  · exact ⟨by omega, fun h => absurd h h1, fun h => absurd h h1, fun h => absurd h h3⟩

theorem kd_bounds (e d s c : Int) (he4 : 4 ≤ e) (he15 : e ≤ 15) (hd1 : 1 ≤ d)
    (hdmax : d ≤ dmax e s c) :
    123 ≤ kOf e + d ∧ kOf e + d ≤ 488 ∧ (kOf e + d = 488 → (s % 4 = 3 ∧ (s = 99 → c = 3))) := by
  obtain ⟨f1, f2, f3, f4⟩ := dmax_facts e d s c hdmax
  unfold kOf
  refine ⟨by interval_cases e <;> omega, by interval_cases e <;> omega, ?_⟩
  intro h
  have he : e = 15 := by interval_cases e <;> omega
  have hd : d = 29 := by subst he; omega
  exact f3 he hd

theorem month_code (e d s c : Int) (he4 : 4 ≤ e) (he15 : e ≤ 15) (hd1 : 1 ≤ d)
    (hdmax : d ≤ dmax e s c) : 10000 * (kOf e + d) / 306001 = e := by
  obtain ⟨f1, f2, _, f4⟩ := dmax_facts e d s c hdmax
  unfold kOf
  interval_cases e <;> omega

theorem alpha_of_forward (q c s kd z : Int) (hc0 : 0 ≤ c) (hc3 : c ≤ 3) (hs0 : 0 ≤ s) (hs : s ≤ 99)
    (hkd1 : 123 ≤ kd) (hkd2 : kd ≤ 488)
    (hleap : kd = 488 → (s % 4 = 3 ∧ (s = 99 → c = 3)))
    (hz : z = 146097 * q + 36524 * c + 365 * s + s / 4 + 1722519 + kd + 2 - 1524) :
    (4 * z - 7468865) / 146097 = 4 * q + c - 4 := by
  have h1 : 146097 * (4 * q + c - 4) ≤ 4 * z - 7468865 := by omega
  have h2 : 4 * z - 7468865 < 146097 * (4 * q + c - 4 + 1) := by
    by_cases hk : kd = 488
    · obtain ⟨l1, l2⟩ := hleap hk
      by_cases hs99 : s = 99
      · have := l2 hs99; omega
      · omega
    · omega
  omega

theorem year_code (q c s kd : Int) (hc0 : 0 ≤ c) (hc3 : c ≤ 3) (hs0 : 0 ≤ s) (hs : s ≤ 99)
    (hkd1 : 123 ≤ kd) (hkd2 : kd ≤ 488)
    (hleap : kd = 488 → (s % 4 = 3 ∧ (s = 99 → c = 3))) :
    (20 * (146100 * q + 36525 * c + 365 * s + s / 4 + 1722519 + kd) - 2442) / 7305
      = 400 * q + 100 * c + s + 4716 := by
  have h1 : 7305 * (400 * q + 100 * c + s + 4716)
      ≤ 20 * (146100 * q + 36525 * c + 365 * s + s / 4 + 1722519 + kd) - 2442 := by omega
  have h2 : 20 * (146100 * q + 36525 * c + 365 * s + s / 4 + 1722519 + kd) - 2442
      < 7305 * (400 * q + 100 * c + s + 4716 + 1) := by
    by_cases hk : kd = 488
    · obtain ⟨l1, _⟩ := hleap hk; omega
    · omega
  omega

/-- the integer core of the inverse, on the Meeus-shifted date:
    `W = year' + 4716`, `e = month' + 1 ∈ 4…15`, day `d`. -/
theorem inverse_core (q c s e d z : Int)
    (hc0 : 0 ≤ c) (hc3 : c ≤ 3) (hs0 : 0 ≤ s) (hs : s ≤ 99)
    (he4 : 4 ≤ e) (he15 : e ≤ 15) (hd1 : 1 ≤ d) (hdmax : d ≤ dmax e s c)
    (hz : z = 146097 * q + 36524 * c + 365 * s + s / 4 + 1722519 + kOf e + d + 2 - 1524) :
    let α := (4 * z - 7468865) / 146097
    let a := z + 1 + α - α / 4
    let b := a + 1524
    let cc := (20 * b - 2442) / 7305
    let dd := 1461 * cc / 4
    let e' := 10000 * (b - dd) / 306001
    α = 4 * q + c - 4 ∧ cc = 400 * q + 100 * c + s + 4716 ∧ e' = e
      ∧ b - dd - 306001 * e' / 10000 = d := by
  intro α a b cc dd e'
  obtain ⟨k1, k2, k3⟩ := kd_bounds e d s c he4 he15 hd1 hdmax
  have hα : α = 4 * q + c - 4 :=
    alpha_of_forward q c s (kOf e + d) z hc0 hc3 hs0 hs k1 k2 k3 (by rw [hz]; ring)
  have hb : b = 146100 * q + 36525 * c + 365 * s + s / 4 + 1722519 + (kOf e + d) := by
    show z + 1 + α - α / 4 + 1524 = _
    rw [hα]; omega
  have hcc : cc = 400 * q + 100 * c + s + 4716 := by
    show (20 * b - 2442) / 7305 = _
    rw [hb]
    exact year_code q c s (kOf e + d) hc0 hc3 hs0 hs k1 k2 k3
  have hdd : dd = 146100 * q + 36525 * c + 365 * s + s / 4 + 1722519 := by
    show 1461 * cc / 4 = _
    rw [hcc]; omega
  have hbd : b - dd = kOf e + d := by rw [hb, hdd]; ring
  have he' : e' = e := by
    show 10000 * (b - dd) / 306001 = e
    rw [hbd]
    exact month_code e d s c he4 he15 hd1 hdmax
  refine ⟨hα, hcc, he', ?_⟩
  rw [he', hbd]
  unfold kOf; omega


/-! ### Float-expression floors at ℝ -/

theorem trunc_alpha (Z : Int) (hZ : 2299161 ≤ Z) :
    Trig.trunc (((Z : ℝ) - 1867216.25) / 36524.25) = (4 * Z - 7468865) / 146097 := by
  have : ((Z : ℝ) - 1867216.25) / 36524.25 = ((4 * Z - 7468865 : ℤ) : ℝ) / ((146097 : ℤ) : ℝ) := by
    push_cast; norm_num; ring
  rw [this, trunc_int_div _ _ (by omega) (by norm_num)]

theorem trunc_c (b : Int) (hb : 0 ≤ 20 * b - 2442) :
    Trig.trunc (((b : ℝ) - 122.1) / 365.25) = (20 * b - 2442) / 7305 := by
  have : ((b : ℝ) - 122.1) / 365.25 = ((20 * b - 2442 : ℤ) : ℝ) / ((7305 : ℤ) : ℝ) := by
    push_cast; norm_num; ring
  rw [this, trunc_int_div _ _ hb (by norm_num)]

theorem trunc_e (n : Int) (hn : 0 ≤ n) :
    Trig.trunc ((n : ℝ) / 30.6001) = 10000 * n / 306001 := by
  have : (n : ℝ) / 30.6001 = ((10000 * n : ℤ) : ℝ) / ((306001 : ℤ) : ℝ) := by
    push_cast; norm_num; ring
  rw [this, trunc_int_div _ _ (by omega) (by norm_num)]

theorem trunc_int_add_frac (n : Int) (f : ℝ) (hn : 0 ≤ n) (h0 : 0 ≤ f) (h1 : f < 1) :
    Trig.trunc ((n : ℝ) + f) = n := by
  have hnr : (0 : ℝ) ≤ (n : ℝ) := by exact_mod_cast hn
  rw [trunc_of_nonneg (by linarith)]
  rw [Int.floor_eq_iff]
  constructor <;> linarith

/-- the time-of-day split: hours, minutes, seconds of a whole number of seconds -/
theorem time_split (secs : Int) (h0 : 0 ≤ secs) (h1 : secs < 86400) :
    let total : ℝ := ((secs : ℝ) / 86400) * 86400.0
    let hour := Trig.trunc (total / 3600.0)
    let total2 := total - ((hour * 3600 : ℤ) : ℝ)
    let minute := Trig.trunc (total2 / 60.0)
    let total3 := total2 - ((minute * 60 : ℤ) : ℝ)
    let seconds := Trig.trunc total3
    hour = secs / 3600 ∧ minute = secs % 3600 / 60 ∧ seconds = secs % 60 := by
  intro total hour total2 minute total3 seconds
  have ht : total = (secs : ℝ) := by simp only [total]; norm_num
  have hh : hour = secs / 3600 := by
    simp only [hour]; rw [ht]
    have : (secs : ℝ) / 3600.0 = (secs : ℝ) / ((3600 : ℤ) : ℝ) := by norm_num
    rw [this, trunc_int_div _ _ h0 (by norm_num)]
  have ht2 : total2 = ((secs % 3600 : ℤ) : ℝ) := by
    simp only [total2]; rw [ht, hh]
    have : secs % 3600 = secs - secs / 3600 * 3600 := by omega
    rw [this]; push_cast; ring
  have hm : minute = secs % 3600 / 60 := by
    simp only [minute]; rw [ht2]
    have : ((secs % 3600 : ℤ) : ℝ) / 60.0 = ((secs % 3600 : ℤ) : ℝ) / ((60 : ℤ) : ℝ) := by norm_num
    rw [this, trunc_int_div _ _ (by omega) (by norm_num)]
  have ht3 : total3 = ((secs % 60 : ℤ) : ℝ) := by
    simp only [total3]; rw [ht2, hm]
    have : secs % 60 = secs % 3600 - secs % 3600 / 60 * 60 := by omega
    rw [this]; push_cast; ring
  refine ⟨hh, hm, ?_⟩
  simp only [seconds]; rw [ht3, trunc_intCast]


/-! ### From calendar fields to the decomposed form -/

theorem forward_decomp (y m d : Int) (hy : 1 ≤ y) (hm1 : 1 ≤ m) (hm12 : m ≤ 12) :
    let Y := if m ≤ 2 then y - 1 else y
    let e := (if m ≤ 2 then m + 12 else m) + 1
    let q := Y / 400
    let c := Y % 400 / 100
    let s := Y % 100
    meeusInt y m d - 1524
        = 146097 * q + 36524 * c + 365 * s + s / 4 + 1722519 + kOf e + d + 2 - 1524
      ∧ 0 ≤ c ∧ c ≤ 3 ∧ 0 ≤ s ∧ s ≤ 99 ∧ 4 ≤ e ∧ e ≤ 15 ∧ Y = 400 * q + 100 * c + s ∧ 0 ≤ Y := by
  intro Y e q c s
  have hY : 0 ≤ Y := by simp only [Y]; split <;> omega
  have e2 : Y % 400 % 100 = Y % 100 := Int.emod_emod_of_dvd Y (by norm_num)
  have hdec : Y = 400 * q + 100 * c + s := by simp only [q, c, s]; omega
  have h100 : Y / 100 = 4 * q + c := by simp only [q, c]; omega
  have h4 : Y / 4 = 100 * q + 25 * c + s / 4 := by simp only [q, c, s]; omega
  have h400 : Y / 100 / 4 = q := by rw [div_100_div_4]
  have ty := meeus_year_term Y
  refine ⟨?_, by simp only [c]; omega, by simp only [c]; omega, by simp only [s]; omega,
    by simp only [s]; omega, by simp only [e]; split <;> omega, by simp only [e]; split <;> omega,
    hdec, hY⟩
  unfold meeusInt kOf
  simp only
  show 1461 * (Y + 4716) / 4 + 306001 * e / 10000 + d + (2 - Y / 100 + Y / 100 / 4) - 1524 = _
  rw [ty, h400, h100, h4]
  omega

theorem valid_dmax (y m d : Int) (hv : validYMD y m d = true) :
    let Y := if m ≤ 2 then y - 1 else y
    let e := (if m ≤ 2 then m + 12 else m) + 1
    1 ≤ y ∧ 1 ≤ m ∧ m ≤ 12 ∧ 1 ≤ d ∧ d ≤ dmax e (Y % 100) (Y % 400 / 100) := by
  intro Y e
  unfold validYMD at hv
  simp only [Bool.and_eq_true, decide_eq_true_eq] at hv
  obtain ⟨⟨⟨⟨⟨hy1, _⟩, hm1⟩, hm12⟩, hd1⟩, hd2⟩ := hv
  refine ⟨hy1, hm1, hm12, hd1, ?_⟩
  unfold daysInMonth at hd2
  unfold dmax
  have e2 : Y % 400 % 100 = Y % 100 := Int.emod_emod_of_dvd Y (by norm_num)
  have e1 : Y % 100 % 4 = Y % 4 := Int.emod_emod_of_dvd Y (by norm_num)
  by_cases h2 : m = 2
  · subst h2
    simp only [Y, e] at *
    norm_num at hd2 ⊢
    by_cases hl : isLeap y = true
    · have := (isLeap_iff y).mp hl
      rw [if_pos hl] at hd2
      rw [if_pos]
      · exact hd2
      · constructor
        · omega
        · intro h99; omega
    · rw [if_neg hl] at hd2
      split_ifs <;> omega
  · have he : e ≠ 15 := by simp only [e]; split <;> omega
    rw [if_neg he]
    simp only [h2, beq_iff_eq, Bool.or_eq_true] at hd2
    norm_num at hd2
    split_ifs at hd2 with h30
    · rw [if_pos]
      · exact hd2
      · simp only [e]; rcases h30 with ((h | h) | h) | h <;> subst h <;> norm_num
    · split_ifs <;> omega


/-! ### The round trip -/

/-- **C15 round trip**: for every valid calendar date from 1582-10-15 on and every whole second
    of the day, converting the Julian day back returns exactly the original instant. -/
theorem jd_roundtrip (y m d secs : Int) (hv : validYMD y m d = true)
    (hs0 : 0 ≤ secs) (hs1 : secs < 86400) (hg : 2299161 ≤ meeusInt y m d - 1524) :
    julianDayToDateTime (julianDayYMD (α := ℝ) y m d (some secs) .gregorian)
      = .ok (ymdToOrd y m d * usPerDay + secs * usPerSec) := by
  obtain ⟨hy1, hm1, hm12, hd1, hdm⟩ := valid_dmax y m d hv
  obtain ⟨hz, hc0, hc3, hss0, hss, he4, he15, hdec, hY0⟩ := forward_decomp y m d hy1 hm1 hm12
  set Y := (if m ≤ 2 then y - 1 else y) with hYdef
  set e := (if m ≤ 2 then m + 12 else m) + 1 with hedef
  set Z := meeusInt y m d - 1524 with hZdef
  have core := inverse_core (Y / 400) (Y % 400 / 100) (Y % 100) e d Z hc0 hc3 hss0 hss he4 he15 hd1 hdm hz
  simp only at core
  obtain ⟨cα, ccc, ce, cday⟩ := core
  -- the float value of the forward conversion
  have hjd : julianDayYMD (α := ℝ) y m d (some secs) .gregorian
      = ((Z : ℤ) : ℝ) - 0.5 + (secs : ℝ) / 86400 := by
    rw [jd_time, julianDayYMD_eq y m d hy1 hm1, hZdef]
    push_cast; norm_num; ring
  have hf0 : (0 : ℝ) ≤ (secs : ℝ) / 86400 := by
    have : (0 : ℝ) ≤ (secs : ℝ) := by exact_mod_cast hs0
    positivity
  have hf1 : (secs : ℝ) / 86400 < 1 := by
    have : (secs : ℝ) < 86400 := by exact_mod_cast hs1
    rw [div_lt_one (by norm_num)]; exact this
  have hZ0 : 0 ≤ Z := by omega
  unfold julianDayToDateTime
  rw [hjd]
  have hjd2 : ((Z : ℤ) : ℝ) - 0.5 + (secs : ℝ) / 86400 + 0.5 = (Z : ℝ) + (secs : ℝ) / 86400 := by
    norm_num; ring
  simp only [hjd2, trig_ofInt]
  have t0 := trunc_int_add_frac Z _ hZ0 hf0 hf1
  simp only [t0]
  have hnz : ¬ (Z < 2299161) := by omega
  simp only [if_neg hnz]
  have t1 := trunc_alpha Z hg
  simp only [t1]
  have hα0 : 0 ≤ (4 * Z - 7468865) / 146097 := Int.ediv_nonneg (by omega) (by norm_num)
  have t2 := trunc_div_4 _ hα0
  simp only [t2]
  set α := (4 * Z - 7468865) / 146097 with hαdef
  set b := Z + 1 + α - α / 4 + 1524 with hbdef
  have hbpos : 0 ≤ 20 * b - 2442 := by
    have : α - α / 4 ≥ 0 := by omega
    omega
  have t3 := trunc_c b hbpos
  simp only [t3]
  set cc := (20 * b - 2442) / 7305 with hccdef
  have hcc0 : 0 ≤ cc := Int.ediv_nonneg hbpos (by norm_num)
  have t4 := trunc_365_25 cc hcc0
  simp only [t4]
  have hbd : 0 ≤ b - 1461 * cc / 4 := by rw [cday.symm] at hd1; omega
  have t5 := trunc_e _ hbd
  simp only [t5]
  have he0 : 0 ≤ 10000 * (b - 1461 * cc / 4) / 306001 := Int.ediv_nonneg (by omega) (by norm_num)
  have t6 := trunc_30_6001 _ he0
  simp only [t6]
  -- the day number and the fraction
  have hday : (b - 1461 * cc / 4 - 306001 * (10000 * (b - 1461 * cc / 4) / 306001) / 10000) = d := cday
  simp only [hday]
  have hfrac : (Z : ℝ) + (secs : ℝ) / 86400 - (Z : ℝ) = (secs : ℝ) / 86400 := by ring
  simp only [hfrac]
  have t7 := trunc_int_add_frac d _ (by omega) hf0 hf1
  simp only [t7]
  have hfrac2 : (d : ℝ) + (secs : ℝ) / 86400 - (d : ℝ) = (secs : ℝ) / 86400 := by ring
  simp only [hfrac2]
  obtain ⟨th, tm, ts⟩ := time_split secs hs0 hs1
  simp only [th] at tm ts ⊢
  simp only [tm] at ts ⊢
  simp only [ts]
  -- month and year
  simp only [ce]
  simp only [ccc]
  have hmonth : (if e < 14 then e - 1 else e - 13) = m := by
    simp only [hedef]; split_ifs <;> omega
  simp only [hmonth]
  have hyear : (if m > 2 then 400 * (Y / 400) + 100 * (Y % 400 / 100) + Y % 100 + 4716 - 4716
      else 400 * (Y / 400) + 100 * (Y % 400 / 100) + Y % 100 + 4716 - 4715) = y := by
    rw [← hdec]
    simp only [hYdef]; split_ifs <;> omega
  simp only [hyear]
  -- the constructors
  unfold mkDate?
  rw [if_pos hv]
  simp only [bind, Except.bind]
  unfold mkDateTime?
  rw [if_pos (by omega)]
  unfold usPerDay usPerHour usPerMin usPerSec
  congr 1
  omega


/-- the same, with the bound stated on the proleptic-Gregorian ordinal:
    577736 = date(1582, 10, 15).toordinal() -/
theorem jd_roundtrip_from_1582 (y m d secs : Int) (hv : validYMD y m d = true)
    (hs0 : 0 ≤ secs) (hs1 : secs < 86400) (hg : 577736 ≤ ymdToOrd y m d) :
    julianDayToDateTime (julianDayYMD (α := ℝ) y m d (some secs) .gregorian)
      = .ok (ymdToOrd y m d * usPerDay + secs * usPerSec) := by
  obtain ⟨_, hm1, hm12, _, _⟩ := valid_dmax y m d hv
  apply jd_roundtrip y m d secs hv hs0 hs1
  rw [meeusInt_eq_ord y m d hm1 hm12]; omega

/-- non-vacuity: 2020-01-01 12:00:00 (the witness of defect D10a) satisfies the hypotheses -/
example : validYMD 2020 1 1 = true ∧ 577736 ≤ ymdToOrd 2020 1 1 := by decide

end Astral.C15Inv
