import Astral.Props.C15Ord
import Astral.Props.C15Inv
/-
  C15 at the API level: statements about `julianday(date)` / `julianday(datetime)` for every
  ordinal, obtained from the field-level theorems through `ordToYMD_spec`.
-/
namespace Astral.C15Date
open Astral Astral.C15 Astral.C15Ord Astral.C15Inv

/-- **the Julian day of a calendar date is its proleptic-Gregorian day count plus 1721424.5**,
    for every date from 0001-01-01 on -/
theorem jd_date (d : Int) (h1 : 1 ≤ d) : julianDayDate (α := ℝ) d = (d : ℝ) + 1721424.5 := by
  obtain ⟨e, hy, hm1, hm12, _, _⟩ := ordToYMD_spec d h1
  unfold julianDayDate
  rcases h : ordToYMD d with ⟨y, m, dd⟩
  rw [h] at e hy hm1 hm12
  simp only at e hy hm1 hm12 ⊢
  rw [jd_gregorian y m dd hy hm1 hm12, e]

/-- … rising by exactly 1 per calendar day -/
theorem jd_step (d : Int) (h1 : 1 ≤ d) :
    julianDayDate (α := ℝ) (d + 1) - julianDayDate (α := ℝ) d = 1 := by
  rw [jd_date d h1, jd_date (d + 1) (by omega)]
  push_cast; ring

/-- with the time of day added as seconds/86400 -/
theorem jd_wall (w : Int) (h1 : usPerDay ≤ w) :
    julianDayWall (α := ℝ) w
      = (wallDate w : ℝ) + 1721424.5 + (((w % usPerDay) / usPerSec : ℤ) : ℝ) / 86400 := by
  have hd : 1 ≤ wallDate w := by unfold wallDate usPerDay at *; omega
  obtain ⟨e, hy, hm1, hm12, _, _⟩ := ordToYMD_spec (wallDate w) hd
  unfold julianDayWall
  rcases h : ordToYMD (wallDate w) with ⟨y, m, dd⟩
  rw [h] at e hy hm1 hm12
  simp only at e hy hm1 hm12 ⊢
  rw [jd_time, jd_gregorian y m dd hy hm1 hm12, e]

theorem daysBeforeMonth_nonneg (y m : Int) : 0 ≤ daysBeforeMonth y m := by
  unfold daysBeforeMonth
  simp only
  split_ifs <;> omega

theorem daysBeforeYear_large (y : Int) (h : 10000 ≤ y) : 3652059 ≤ daysBeforeYear y := by
  unfold daysBeforeYear
  simp only
  omega

theorem year_le_9999 (y m d : Int) (hd1 : 1 ≤ d) (h : ymdToOrd y m d ≤ 3652059) : y ≤ 9999 := by
  by_contra hc
  push Not at hc
  have h1 := daysBeforeMonth_nonneg y m
  have h2 := daysBeforeYear_large y (by omega)
  unfold ymdToOrd at h
  omega

/-- **round trip at the API level**: for every whole-second datetime from 1582-10-15 to
    9999-12-31, `julianday_to_datetime(julianday(dt)) = dt` -/
theorem jd_roundtrip_wall (w : Int) (hw : w % usPerSec = 0) (hg : 577736 * usPerDay ≤ w)
    (hmax : w < (3652059 + 1) * usPerDay) :
    julianDayToDateTime (julianDayWall (α := ℝ) w) = .ok w := by
  have hd : 577736 ≤ wallDate w ∧ wallDate w ≤ 3652059 := by
    unfold wallDate usPerDay at *; constructor <;> omega
  obtain ⟨e, hy, hm1, hm12, hd1, hd2⟩ := ordToYMD_spec (wallDate w) (by omega)
  unfold julianDayWall
  rcases h : ordToYMD (wallDate w) with ⟨y, m, dd⟩
  rw [h] at e hy hm1 hm12 hd1 hd2
  simp only at e hy hm1 hm12 hd1 hd2 ⊢
  have hy2 : y ≤ 9999 := year_le_9999 y m dd hd1 (by rw [e]; exact hd.2)
  have hv : validYMD y m dd = true := by
    unfold validYMD
    simp only [Bool.and_eq_true, decide_eq_true_eq]
    exact ⟨⟨⟨⟨⟨hy, hy2⟩, hm1⟩, hm12⟩, hd1⟩, hd2⟩
  have hs0 : 0 ≤ w % usPerDay / usPerSec := by unfold usPerDay usPerSec; omega
  have hs1 : w % usPerDay / usPerSec < 86400 := by unfold usPerDay usPerSec; omega
  rw [jd_roundtrip_from_1582 y m dd _ hv hs0 hs1 (by rw [e]; exact hd.1), e]
  congr 1
  unfold wallDate usPerDay usPerSec at *
  omega

end Astral.C15Date
