import Astral.Props.C05
import Astral.Props.EoT
import Astral.Props.EoTStep
import Astral.Props.C15Date
/-
  C05 (exact reals), end to end: **noon falls on the requested date in the requested zone whenever
  that zone's clock is within six hours of the place's mean solar time** — for every longitude
  in [−180, 180], every date of 1900 … 2100 and every zone *function* meeting the six-hour
  condition.  No hypothesis about the equation of time is left: `EoT.eqOfTime_bound` discharges
  it, `C15Date.jd_date` supplies the Julian century of the date, `splitHours_spec` bounds the
  truncation to whole seconds and `C05.mkNoon_spec` the carry/date-roll block.
-/
namespace Astral.C05Noon
open Astral Astral.C03 Astral.C05 Astral.EoT

theorem trunc_facts (w : ℝ) :
    (0 ≤ w → ((Trig.trunc w : ℤ) : ℝ) ≤ w ∧ w < (Trig.trunc w : ℤ) + 1 ∧ 0 ≤ Trig.trunc w)
    ∧ (w ≤ 0 → w ≤ ((Trig.trunc w : ℤ) : ℝ) ∧ ((Trig.trunc w : ℤ) : ℝ) - 1 < w ∧ Trig.trunc w ≤ 0) := by
  constructor
  · intro h
    rw [trunc_of_nonneg h]
    exact ⟨Int.floor_le w, Int.lt_floor_add_one w, Int.floor_nonneg.mpr h⟩
  · intro h
    rcases eq_or_lt_of_le h with e | l
    · subst e
      rw [trunc_of_nonneg le_rfl]; simp
    · rw [trunc_of_neg l]
      refine ⟨Int.le_ceil w, ?_, ?_⟩
      · have := Int.ceil_lt_add_one w; linarith
      · exact Int.ceil_le.mpr (by simpa using h)

/-- hour/minute/second of a real number of hours: each field truncates toward zero, the minute
    and second stay inside ±59, and the triple denotes the time to within one second, on the
    same side of zero as the input -/
theorem splitHours_spec (x : ℝ) :
    let r := splitHours x;
    (-59 : Int) ≤ r.2.1 ∧ r.2.1 ≤ 59 ∧ -59 ≤ r.2.2 ∧ r.2.2 ≤ 59 ∧ r.1 = Trig.trunc x
      ∧ abs (((hmsSeconds r.1 r.2.1 r.2.2 : ℤ) : ℝ) - 3600 * x) < 1 := by
  unfold splitHours hmsSeconds
  simp only [trig_ofInt]
  have e60 : (60.0 : ℝ) = 60 := by norm_num
  rw [e60]
  set h := (Trig.trunc x : ℤ) with hh
  set u := (x - (h : ℝ)) * 60 with hu
  set m := (Trig.trunc u : ℤ) with hm
  set v := (u - (m : ℝ)) * 60 with hv
  set s := (Trig.trunc v : ℤ) with hs
  rcases le_total 0 x with hx | hx
  · obtain ⟨a1, a2, _⟩ := (trunc_facts x).1 hx
    have u0 : 0 ≤ u := by rw [hu]; nlinarith
    have u1 : u < 60 := by rw [hu]; nlinarith
    obtain ⟨b1, b2, b3⟩ := (trunc_facts u).1 u0
    have v0 : 0 ≤ v := by rw [hv]; nlinarith
    have v1 : v < 60 := by rw [hv]; nlinarith
    obtain ⟨c1, c2, c3⟩ := (trunc_facts v).1 v0
    have m59 : m ≤ 59 := by
      have : (m : ℝ) < 60 := lt_of_le_of_lt b1 u1
      have : m < 60 := by exact_mod_cast this
      omega
    have s59 : s ≤ 59 := by
      have : (s : ℝ) < 60 := lt_of_le_of_lt c1 v1
      have : s < 60 := by exact_mod_cast this
      omega
    refine ⟨by omega, m59, by omega, s59, trivial, ?_⟩
    push_cast
    have key : 3600 * x = (h : ℝ) * 3600 + (m : ℝ) * 60 + v := by rw [hv, hu]; ring
    rw [key, abs_lt]
    constructor <;> linarith
  · obtain ⟨a1, a2, _⟩ := (trunc_facts x).2 hx
    have u0 : u ≤ 0 := by rw [hu]; nlinarith
    have u1 : -60 < u := by rw [hu]; nlinarith
    obtain ⟨b1, b2, b3⟩ := (trunc_facts u).2 u0
    have v0 : v ≤ 0 := by rw [hv]; nlinarith
    have v1 : -60 < v := by rw [hv]; nlinarith
    obtain ⟨c1, c2, c3⟩ := (trunc_facts v).2 v0
    have m59 : -59 ≤ m := by
      have : (-60 : ℝ) < (m : ℝ) := lt_of_lt_of_le u1 b1
      have : -60 < m := by exact_mod_cast this
      omega
    have s59 : -59 ≤ s := by
      have : (-60 : ℝ) < (s : ℝ) := lt_of_lt_of_le v1 c1
      have : -60 < s := by exact_mod_cast this
      omega
    refine ⟨m59, by omega, s59, by omega, trivial, ?_⟩
    push_cast
    have key : 3600 * x = (h : ℝ) * 3600 + (m : ℝ) * 60 + v := by rw [hv, hu]; ring
    rw [key, abs_lt]
    constructor <;> linarith

/-- the Julian century of a date of 1900 … 2100 -/
theorem century_of_date (d : Int) (hd : 693596 ≤ d ∧ d ≤ 767009) :
    |julianDayToCentury (α := ℝ) (julianDayDate d)| ≤ 101 / 100 := by
  rw [C15Date.jd_date d (by omega)]
  unfold julianDayToCentury
  have h1 : (693596 : ℝ) ≤ (d : ℝ) := by exact_mod_cast hd.1
  have h2 : (d : ℝ) ≤ 767009 := by exact_mod_cast hd.2
  rw [abs_le]
  constructor
  · rw [le_div_iff₀ (by norm_num)]; norm_num; linarith
  · rw [div_le_iff₀ (by norm_num)]; norm_num; linarith

/-- the UTC candidate of noon under any bound `B ≤ 30` min on the equation of time: exactly
    00:00 UTC of the date plus the truncated (720 − 4·lon − eqtime) minutes — no error, no field
    out of range, for every date 0001-01-02 … 9999-12-30 -/
theorem noonUtc_of_eot_bound (obs : Obs ℝ) (d : Int) (hd : 2 ≤ d ∧ d ≤ 3652058)
    (hlon : -180 ≤ obs.lon ∧ obs.lon ≤ 180) (B : ℝ)
    (hB : |eqOfTime (julianDayToCentury (α := ℝ) (julianDayDate d))| ≤ B) (hB30 : B ≤ 30) :
    ∃ S : Int, noonUtc obs d = .ok (dateStart d + S * usPerSec)
      ∧ |(S : ℝ) - (43200 - 240 * obs.lon)| ≤ 60 * B + 1 := by
  have he := abs_le.mp hB
  have hx : noonHours obs.lon d
      = (720 - 4 * obs.lon - eqOfTime (julianDayToCentury (julianDayDate d))) / 60 := by
    unfold noonHours; norm_num
  have sp := splitHours_spec (noonHours obs.lon d)
  simp only at sp
  obtain ⟨m0, m1, s0, s1, hh, hS⟩ := sp
  have x0 : -1 < noonHours obs.lon d := by rw [hx, lt_div_iff₀ (by norm_num)]; linarith [he.2, hlon.2]
  have x1 : noonHours obs.lon d < 25 := by rw [hx, div_lt_iff₀ (by norm_num)]; linarith [he.1, hlon.1]
  have hr : -23 ≤ (splitHours (noonHours obs.lon d)).1 ∧ (splitHours (noonHours obs.lon d)).1 ≤ 46 := by
    rw [hh]
    rcases le_total 0 (noonHours obs.lon d) with p | p
    · obtain ⟨a1, _, a3⟩ := (trunc_facts _).1 p
      have : ((Trig.trunc (noonHours obs.lon d) : ℤ) : ℝ) < 25 := lt_of_le_of_lt a1 x1
      have : (Trig.trunc (noonHours obs.lon d) : ℤ) < 25 := by exact_mod_cast this
      constructor <;> omega
    · obtain ⟨a1, _, a3⟩ := (trunc_facts _).2 p
      have : (-1 : ℝ) < ((Trig.trunc (noonHours obs.lon d) : ℤ) : ℝ) := lt_of_lt_of_le x0 a1
      have : -1 < (Trig.trunc (noonHours obs.lon d) : ℤ) := by exact_mod_cast this
      constructor <;> omega
  refine ⟨hmsSeconds (splitHours (noonHours obs.lon d)).1 (splitHours (noonHours obs.lon d)).2.1
      (splitHours (noonHours obs.lon d)).2.2, ?_, ?_⟩
  · unfold noonUtc
    exact mkNoon_spec d _ _ _ hd hr ⟨m0, m1⟩ ⟨s0, s1⟩
  · rw [abs_lt] at hS
    rw [abs_le]
    have e : 3600 * noonHours obs.lon d
        = 43200 - 240 * obs.lon - 60 * eqOfTime (julianDayToCentury (julianDayDate d)) := by
      rw [hx]; ring
    constructor <;> linarith [hS.1, hS.2, he.1, he.2]

/-- the UTC candidate of noon, 1900 … 2100: 12:00 − lon/15 to within 18.7 min + 1 s -/
theorem noonUtc_value (obs : Obs ℝ) (d : Int) (hd : 693596 ≤ d ∧ d ≤ 767009)
    (hlon : -180 ≤ obs.lon ∧ obs.lon ≤ 180) :
    ∃ S : Int, noonUtc obs d = .ok (dateStart d + S * usPerSec)
      ∧ |(S : ℝ) - (43200 - 240 * obs.lon)| ≤ 1123 := by
  obtain ⟨S, h1, h2⟩ := noonUtc_of_eot_bound obs d ⟨by omega, by omega⟩ hlon (187 / 10)
    (eqOfTime_bound _ (century_of_date d hd)) (by norm_num)
  exact ⟨S, h1, by linarith⟩

/-- the Julian century of any date of the calendar -/
theorem century_of_any_date (d : Int) (hd : 1 ≤ d ∧ d ≤ 3652059) :
    |julianDayToCentury (α := ℝ) (julianDayDate d)| ≤ 81 := by
  rw [C15Date.jd_date d (by omega)]
  unfold julianDayToCentury
  have h1 : (1 : ℝ) ≤ (d : ℝ) := by exact_mod_cast hd.1
  have h2 : (d : ℝ) ≤ 3652059 := by exact_mod_cast hd.2
  rw [abs_le]
  constructor
  · rw [le_div_iff₀ (by norm_num)]; norm_num; linarith
  · rw [div_le_iff₀ (by norm_num)]; norm_num; linarith

/-- **C20 totality of the noon computation**: for every date 0001-01-02 … 9999-12-30 and every
    longitude the UTC candidate of noon is constructed without error -/
theorem noonUtc_total (obs : Obs ℝ) (d : Int) (hd : 2 ≤ d ∧ d ≤ 3652058)
    (hlon : -180 ≤ obs.lon ∧ obs.lon ≤ 180) : ∃ c, noonUtc obs d = .ok c := by
  obtain ⟨S, h1, _⟩ := noonUtc_of_eot_bound obs d hd hlon (45 / 2)
    (eqOfTime_bound_wide _ (century_of_any_date d ⟨by omega, by omega⟩)) (by norm_num)
  exact ⟨_, h1⟩

/-- … and so is `noon` itself, in every zone, for every date 0001-01-03 … 9999-12-29 -/
theorem noon_total (obs : Obs ℝ) (d : Int) (tz : TZ) (hd : 3 ≤ d ∧ d ≤ 3652057)
    (hlon : -180 ≤ obs.lon ∧ obs.lon ≤ 180) : ∃ t, noon obs d tz = .ok t := by
  obtain ⟨c, hc⟩ := noonUtc_total obs d ⟨by omega, by omega⟩ hlon
  obtain ⟨cn, hcn⟩ := noonUtc_total obs (d + 1) ⟨by omega, by omega⟩ hlon
  obtain ⟨cp, hcp⟩ := noonUtc_total obs (d + -1) ⟨by omega, by omega⟩ hlon
  unfold noon
  rw [hc]
  simp only [bind, Except.bind]
  split_ifs with h1 h2
  · exact ⟨c, rfl⟩
  · have : dateAdd? d 1 = .ok (d + 1) := by
      unfold dateAdd? minOrdinal maxOrdinal; simp only; rw [if_pos (by omega)]
    rw [this]; exact ⟨cn, hcn⟩
  · have : dateAdd? d (-1) = .ok (d + -1) := by
      unfold dateAdd? minOrdinal maxOrdinal; simp only; rw [if_pos (by omega)]
    rw [this]; exact ⟨cp, hcp⟩

/-- **C05: noon falls on the requested date** in every zone whose clock is within six hours of
    the place's mean solar time (offset in µs against 240 s per degree of longitude) -/
theorem noon_on_requested_date (obs : Obs ℝ) (d : Int) (tz : TZ) (t : Int)
    (hd : 693596 ≤ d ∧ d ≤ 767009) (hlon : -180 ≤ obs.lon ∧ obs.lon ≤ 180)
    (hz : ∀ c, |((tz.utc c : ℤ) : ℝ) - obs.lon * 240000000| ≤ 6 * 3600000000)
    (h : noon obs d tz = .ok t) : localDate tz.utc t = d := by
  obtain ⟨S, hS, hb⟩ := noonUtc_value obs d hd hlon
  have aligned : localDate tz.utc (dateStart d + S * usPerSec) = d := by
    have z := abs_le.mp (hz (dateStart d + S * usPerSec))
    rw [abs_le] at hb
    unfold localDate
    generalize tz.utc (dateStart d + S * usPerSec) = off at z ⊢
    have lo : (0 : ℝ) ≤ ((S * 1000000 + off : ℤ) : ℝ) := by push_cast; linarith [hb.1, z.1]
    have hi : ((S * 1000000 + off : ℤ) : ℝ) < 86400000000 := by push_cast; linarith [hb.2, z.2]
    have lo' : 0 ≤ S * 1000000 + off := by exact_mod_cast lo
    have hi' : S * 1000000 + off < 86400000000 := by exact_mod_cast hi
    unfold dateStart usPerSec usPerDay
    omega
  rcases noon_on_date obs d tz t ⟨by omega, by omega⟩ h with ⟨c, hc, e, rfl⟩ | ⟨c, hc, l, _⟩ | ⟨c, hc, l, _⟩
  · exact e
  · rw [hS] at hc; cases hc; omega
  · rw [hS] at hc; cases hc; omega


/-! ### Midnight -/

/-- the Julian century `midnight` evaluates the equation of time at -/
theorem midnight_century_eq (d : Int) (lon : ℝ) (hd : 1 ≤ d) :
    julianDayToCentury (α := ℝ) (julianDayWall (dateStart d + 12 * usPerHour) + 0.5 + -lon / 360.0)
      = ((d : ℝ) + 1721424.5 + 43200 / 86400 + 0.5 + -lon / 360.0 - 2451545.0) / 36525.0 := by
  have hw : usPerDay ≤ dateStart d + 12 * usPerHour := by
    unfold dateStart usPerDay usPerHour; omega
  rw [C15Date.jd_wall _ hw]
  have e1 : wallDate (dateStart d + 12 * usPerHour) = d := by
    unfold wallDate dateStart usPerDay usPerHour; omega
  have e2 : (dateStart d + 12 * usPerHour) % usPerDay / usPerSec = 43200 := by
    unfold dateStart usPerDay usPerHour usPerSec; omega
  rw [e1, e2]
  unfold julianDayToCentury
  push_cast
  rfl

theorem century_of_midnight (d : Int) (lon : ℝ) (hd : 693596 ≤ d ∧ d ≤ 767009)
    (hlon : -180 ≤ lon ∧ lon ≤ 180) :
    |julianDayToCentury (α := ℝ) (julianDayWall (dateStart d + 12 * usPerHour) + 0.5 + -lon / 360.0)|
      ≤ 101 / 100 := by
  rw [midnight_century_eq d lon (by omega)]
  have h1 : (693596 : ℝ) ≤ (d : ℝ) := by exact_mod_cast hd.1
  have h2 : (d : ℝ) ≤ 767009 := by exact_mod_cast hd.2
  rw [abs_le]
  constructor
  · rw [le_div_iff₀ (by norm_num)]; norm_num; linarith [hlon.1, hlon.2]
  · rw [div_le_iff₀ (by norm_num)]; norm_num; linarith [hlon.1, hlon.2]

theorem century_of_any_midnight (d : Int) (lon : ℝ) (hd : 1 ≤ d ∧ d ≤ 3652059)
    (hlon : -180 ≤ lon ∧ lon ≤ 180) :
    |julianDayToCentury (α := ℝ) (julianDayWall (dateStart d + 12 * usPerHour) + 0.5 + -lon / 360.0)|
      ≤ 81 := by
  rw [midnight_century_eq d lon (by omega)]
  have h1 : (1 : ℝ) ≤ (d : ℝ) := by exact_mod_cast hd.1
  have h2 : (d : ℝ) ≤ 3652059 := by exact_mod_cast hd.2
  rw [abs_le]
  constructor
  · rw [le_div_iff₀ (by norm_num)]; norm_num; linarith [hlon.1, hlon.2]
  · rw [div_le_iff₀ (by norm_num)]; norm_num; linarith [hlon.1, hlon.2]

/-- the UTC candidate of midnight under any bound `B ≤ 30` min on the equation of time -/
theorem midnightUtc_of_eot_bound (obs : Obs ℝ) (d : Int) (hd : 2 ≤ d ∧ d ≤ 3652058)
    (hlon : -180 ≤ obs.lon ∧ obs.lon ≤ 180) (B : ℝ)
    (hB : |eqOfTime (julianDayToCentury (α := ℝ)
      (julianDayWall (dateStart d + 12 * usPerHour) + 0.5 + -obs.lon / 360.0))| ≤ B) (hB30 : B ≤ 30) :
    ∃ S : Int, midnightUtc obs d = .ok (dateStart d + S * usPerSec)
      ∧ |(S : ℝ) - (-240 * obs.lon)| ≤ 60 * B + 1
      ∧ |(S : ℝ) - (-240 * obs.lon - 60 * eqOfTime (julianDayToCentury (α := ℝ)
          (julianDayWall (dateStart d + 12 * usPerHour) + 0.5 + -obs.lon / 360.0)))| < 1 := by
  have he := abs_le.mp hB
  set eq := eqOfTime (julianDayToCentury (α := ℝ)
    (julianDayWall (dateStart d + 12 * usPerHour) + 0.5 + -obs.lon / 360.0)) with heq
  have hx : midnightHours obs.lon d = (-obs.lon * 4 - eq) / 60 := by
    unfold midnightHours; simp only; rw [← heq]; norm_num
  have sp := splitHours_spec (midnightHours obs.lon d)
  simp only at sp
  obtain ⟨m0, m1, s0, s1, hh, hS⟩ := sp
  have x0 : -13 < midnightHours obs.lon d := by rw [hx, lt_div_iff₀ (by norm_num)]; linarith [he.2, hlon.2]
  have x1 : midnightHours obs.lon d < 13 := by rw [hx, div_lt_iff₀ (by norm_num)]; linarith [he.1, hlon.1]
  have hr : -23 ≤ (splitHours (midnightHours obs.lon d)).1 ∧ (splitHours (midnightHours obs.lon d)).1 ≤ 22 := by
    rw [hh]
    rcases le_total 0 (midnightHours obs.lon d) with p | p
    · obtain ⟨a1, _, a3⟩ := (trunc_facts _).1 p
      have : ((Trig.trunc (midnightHours obs.lon d) : ℤ) : ℝ) < 13 := lt_of_le_of_lt a1 x1
      have : (Trig.trunc (midnightHours obs.lon d) : ℤ) < 13 := by exact_mod_cast this
      constructor <;> omega
    · obtain ⟨a1, _, a3⟩ := (trunc_facts _).2 p
      have : (-13 : ℝ) < ((Trig.trunc (midnightHours obs.lon d) : ℤ) : ℝ) := lt_of_lt_of_le x0 a1
      have : -13 < (Trig.trunc (midnightHours obs.lon d) : ℤ) := by exact_mod_cast this
      constructor <;> omega
  refine ⟨hmsSeconds (splitHours (midnightHours obs.lon d)).1 (splitHours (midnightHours obs.lon d)).2.1
      (splitHours (midnightHours obs.lon d)).2.2, ?_, ?_⟩
  · unfold midnightUtc
    exact mkMidnight_spec d _ _ _ hd hr ⟨m0, m1⟩ ⟨s0, s1⟩
  · have e : 3600 * midnightHours obs.lon d = -240 * obs.lon - 60 * eq := by rw [hx]; ring
    constructor
    · rw [abs_lt] at hS
      rw [abs_le]
      constructor <;> linarith [hS.1, hS.2, he.1, he.2]
    · rw [← e]; exact hS

/-- the UTC candidate of midnight, 1900 … 2100: 00:00 UTC of the date minus lon/15 hours, to
    within 18.7 min + 1 s -/
theorem midnightUtc_value (obs : Obs ℝ) (d : Int) (hd : 693596 ≤ d ∧ d ≤ 767009)
    (hlon : -180 ≤ obs.lon ∧ obs.lon ≤ 180) :
    ∃ S : Int, midnightUtc obs d = .ok (dateStart d + S * usPerSec)
      ∧ |(S : ℝ) - (-240 * obs.lon)| ≤ 1123 := by
  obtain ⟨S, h1, h2, _⟩ := midnightUtc_of_eot_bound obs d ⟨by omega, by omega⟩ hlon (187 / 10)
    (eqOfTime_bound _ (century_of_midnight d obs.lon hd hlon)) (by norm_num)
  exact ⟨S, h1, by linarith⟩

/-- **C20 totality of midnight**: for every date 0001-01-03 … 9999-12-29, every longitude and
    every zone, `midnight` returns an instant -/
theorem midnight_total (obs : Obs ℝ) (d : Int) (tz : TZ) (hd : 3 ≤ d ∧ d ≤ 3652057)
    (hlon : -180 ≤ obs.lon ∧ obs.lon ≤ 180) : ∃ t, midnight obs d tz = .ok t := by
  have tot : ∀ k, 2 ≤ k ∧ k ≤ 3652058 → ∃ c, midnightUtc obs k = .ok c := by
    intro k hk
    obtain ⟨S, h1, _, _⟩ := midnightUtc_of_eot_bound obs k hk hlon (45 / 2)
      (eqOfTime_bound_wide _ (century_of_any_midnight k obs.lon ⟨by omega, by omega⟩ hlon)) (by norm_num)
    exact ⟨_, h1⟩
  obtain ⟨c, hc⟩ := tot d ⟨by omega, by omega⟩
  obtain ⟨cn, hcn⟩ := tot (d + 1) ⟨by omega, by omega⟩
  obtain ⟨cp, hcp⟩ := tot (d + -1) ⟨by omega, by omega⟩
  unfold midnight
  rw [hc]
  simp only [bind, Except.bind]
  split_ifs with h1 h2
  · have : dateAdd? d (-1) = .ok (d + -1) := by
      unfold dateAdd? minOrdinal maxOrdinal; simp only; rw [if_pos (by omega)]
    rw [this]; exact ⟨cp, hcp⟩
  · have : dateAdd? d 1 = .ok (d + 1) := by
      unfold dateAdd? minOrdinal maxOrdinal; simp only; rw [if_pos (by omega)]
    rw [this]; exact ⟨cn, hcn⟩
  · exact ⟨c, rfl⟩

/-- **C05: midnight is the solar midnight nearest to 00:00 of the requested date in the requested
    zone** — unconditionally within 12 h 37 min 26 s of it, for every longitude, every date of
    1900 … 2100 and every zone function with offsets inside ±18 h.  The 37 min are twice the
    proved bound on the equation of time (the bound on how far two consecutive solar midnights
    are from 24 h apart; about 30 s in reality, which is not proved). -/
theorem midnight_near_zone_midnight (obs : Obs ℝ) (d : Int) (tz : TZ) (t : Int)
    (hd : 693597 ≤ d ∧ d ≤ 767008) (hlon : -180 ≤ obs.lon ∧ obs.lon ≤ 180)
    (hz : ∀ w, |tz.loc w| ≤ 18 * usPerHour)
    (h : midnight obs d tz = .ok t) :
    |t - startOfDay tz d| ≤ 12 * usPerHour + 2246 * usPerSec := by
  obtain ⟨S, hS, hb⟩ := midnightUtc_value obs d ⟨by omega, by omega⟩ hlon
  obtain ⟨Sp, hSp, hbp⟩ := midnightUtc_value obs (d + -1) ⟨by omega, by omega⟩ hlon
  obtain ⟨Sn, hSn, hbn⟩ := midnightUtc_value obs (d + 1) ⟨by omega, by omega⟩ hlon
  rw [abs_le] at hb hbp hbn
  have l1 : (-180 * 240 - 1123 : ℝ) ≤ S := by linarith [hb.1, hlon.2]
  have l2 : (S : ℝ) ≤ 180 * 240 + 1123 := by linarith [hb.2, hlon.1]
  have l1' : -44323 ≤ S := by exact_mod_cast (by push_cast; linarith : ((-44323 : ℤ) : ℝ) ≤ S)
  have l2' : S ≤ 44323 := by exact_mod_cast (by push_cast; linarith : (S : ℝ) ≤ ((44323 : ℤ) : ℝ))
  have dp : |Sp - S| ≤ 2246 := by
    have : |((Sp - S : ℤ) : ℝ)| ≤ ((2246 : ℤ) : ℝ) := by
      push_cast; rw [abs_le]; constructor <;> linarith [hb.1, hb.2, hbp.1, hbp.2]
    exact_mod_cast this
  have dn : |Sn - S| ≤ 2246 := by
    have : |((Sn - S : ℤ) : ℝ)| ≤ ((2246 : ℤ) : ℝ) := by
      push_cast; rw [abs_le]; constructor <;> linarith [hb.1, hb.2, hbn.1, hbn.2]
    exact_mod_cast this
  refine midnight_nearest obs d tz t (2246 * usPerSec) h (by unfold usPerSec; omega) ?_ ?_
  · intro c hc
    rw [hS] at hc; cases hc
    have z := abs_le.mp (hz (dateStart d))
    unfold startOfDay
    rw [abs_le]
    unfold usPerHour usPerSec at *
    constructor <;> omega
  · intro c c' hc
    rw [hS] at hc; cases hc
    rw [abs_le] at dp dn
    constructor
    · intro h'
      rw [hSp] at h'; cases h'
      rw [abs_le]
      unfold dateStart usPerDay usPerSec
      constructor <;> omega
    · intro h'
      rw [hSn] at h'; cases h'
      rw [abs_le]
      unfold dateStart usPerDay usPerSec
      constructor <;> omega

/-- consecutive days: the century `midnight` uses advances by exactly 1/36525 -/
theorem midnight_century_step (d : Int) (lon : ℝ) (hd : 1 ≤ d) :
    julianDayToCentury (α := ℝ) (julianDayWall (dateStart (d + 1) + 12 * usPerHour) + 0.5 + -lon / 360.0)
      = julianDayToCentury (α := ℝ) (julianDayWall (dateStart d + 12 * usPerHour) + 0.5 + -lon / 360.0)
        + EoTStep.δ := by
  rw [midnight_century_eq d lon hd, midnight_century_eq (d + 1) lon (by omega)]
  unfold EoTStep.δ
  push_cast
  norm_num
  ring

/-- the UTC candidates of two consecutive days are 24 h apart to within 33 s -/
theorem midnight_spacing (obs : Obs ℝ) (d : Int) (hd : 693596 ≤ d ∧ d + 1 ≤ 767009)
    (hlon : -180 ≤ obs.lon ∧ obs.lon ≤ 180) :
    ∃ S S' : Int, midnightUtc obs d = .ok (dateStart d + S * usPerSec)
      ∧ midnightUtc obs (d + 1) = .ok (dateStart (d + 1) + S' * usPerSec) ∧ |S' - S| ≤ 33 := by
  have c0 := century_of_midnight d obs.lon ⟨hd.1, by omega⟩ hlon
  have c1 := century_of_midnight (d + 1) obs.lon ⟨by omega, hd.2⟩ hlon
  obtain ⟨S, h1, _, p1⟩ := midnightUtc_of_eot_bound obs d ⟨by omega, by omega⟩ hlon (187 / 10)
    (eqOfTime_bound _ c0) (by norm_num)
  obtain ⟨S', h2, _, p2⟩ := midnightUtc_of_eot_bound obs (d + 1) ⟨by omega, by omega⟩ hlon (187 / 10)
    (eqOfTime_bound _ c1) (by norm_num)
  refine ⟨S, S', h1, h2, ?_⟩
  rw [midnight_century_step d obs.lon (by omega)] at p2 c1
  have st := abs_le.mp (EoTStep.eqOfTime_step _ c0 c1)
  rw [abs_lt] at p1 p2
  have : |((S' - S : ℤ) : ℝ)| < 34 := by
    push_cast; rw [abs_lt]; constructor <;> linarith [p1.1, p1.2, p2.1, p2.2, st.1, st.2]
  have : |S' - S| < 34 := by exact_mod_cast this
  omega

/-- **C05: midnight is the solar midnight nearest to 00:00 of the requested date in the requested
    zone** — within 12 h 0 min 33 s of it, for every longitude, every date of 1900 … 2100 and
    every zone function with offsets inside ±18 h.  The 33 s bound how far two consecutive solar
    midnights are from 24 h apart (one day's change of the equation of time, ≤ 0.53 min, plus
    truncation to whole seconds). -/
theorem midnight_nearest_tight (obs : Obs ℝ) (d : Int) (tz : TZ) (t : Int)
    (hd : 693597 ≤ d ∧ d ≤ 767008) (hlon : -180 ≤ obs.lon ∧ obs.lon ≤ 180)
    (hz : ∀ w, |tz.loc w| ≤ 18 * usPerHour)
    (h : midnight obs d tz = .ok t) :
    |t - startOfDay tz d| ≤ 12 * usPerHour + 33 * usPerSec := by
  obtain ⟨S, Sn, hS, hSn, dn⟩ := midnight_spacing obs d ⟨by omega, by omega⟩ hlon
  obtain ⟨Sp, S2, hSp, hS2, dp⟩ := midnight_spacing obs (d + -1) ⟨by omega, by omega⟩ hlon
  have e1 : d + -1 + 1 = d := by omega
  rw [e1] at hS2
  rw [hS] at hS2
  have eS : S2 = S := by
    have := Except.ok.inj hS2
    unfold usPerSec at this
    omega
  subst eS
  obtain ⟨S0, hS0, hb0⟩ := midnightUtc_value obs d ⟨by omega, by omega⟩ hlon
  rw [hS] at hS0
  have e0 : S0 = S2 := by
    have := Except.ok.inj hS0
    unfold usPerSec at this
    omega
  subst e0
  rw [abs_le] at hb0
  have l1' : -44323 ≤ S0 := by
    exact_mod_cast (by push_cast; linarith [hb0.1, hlon.2] : ((-44323 : ℤ) : ℝ) ≤ S0)
  have l2' : S0 ≤ 44323 := by
    exact_mod_cast (by push_cast; linarith [hb0.2, hlon.1] : (S0 : ℝ) ≤ ((44323 : ℤ) : ℝ))
  refine midnight_nearest obs d tz t (33 * usPerSec) h (by unfold usPerSec; omega) ?_ ?_
  · intro c hc
    rw [hS] at hc; cases hc
    have z := abs_le.mp (hz (dateStart d))
    unfold startOfDay
    rw [abs_le]
    unfold usPerHour usPerSec at *
    constructor <;> omega
  · intro c c' hc
    rw [hS] at hc; cases hc
    rw [abs_le] at dp dn
    constructor
    · intro h'
      rw [hSp] at h'; cases h'
      rw [abs_le]
      unfold dateStart usPerDay usPerSec
      constructor <;> omega
    · intro h'
      rw [hSn] at h'; cases h'
      rw [abs_le]
      unfold dateStart usPerDay usPerSec
      constructor <;> omega

/-- non-vacuity: Greenwich in UTC and Kiritimati (157.4° W, UTC+14 — 24.5 h from … no: its
    clock is 14 h + 10.5 h = 24.5 h ≡ 0.5 h from mean solar time *of the next day*) are
    different cases; the hypothesis as stated is met by e.g. lon 0 / offset 0 and
    lon 139.7 / UTC+9 -/
example : |((0 : ℤ) : ℝ) - 0 * 240000000| ≤ 6 * 3600000000 := by norm_num
example : |((32400000000 : ℤ) : ℝ) - 139.7 * 240000000| ≤ 6 * 3600000000 := by
  rw [abs_le]; constructor <;> norm_num

end Astral.C05Noon
