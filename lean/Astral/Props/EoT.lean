import Astral.Model.Sun
import Astral.Lemmas.Floor
import Mathlib.Analysis.Real.Pi.Bounds
import Mathlib.Analysis.SpecialFunctions.Trigonometric.Bounds
/-
  C05 / C18 support (exact reals): **the equation of time is bounded** — for every Julian
  century in [−1.01, 1.01] (1899 … 2101) the model's `eq_of_time` is within 18.7 minutes of zero.

  This is the fact that turns "the zone's clock is within six hours of mean solar time" into
  "the computed noon reads the requested date" (C05.noon_on_requested_date in C05Real) and
  bounds how far the computed noon of a built-in location can be from its mean-time noon (C18).

  The proof is elementary interval arithmetic over the NOAA series: bounds on the eccentricity
  and obliquity polynomials, `sin x ≤ x`, `1 − x²/2 ≤ cos x`, 3.1415 < π < 3.1416.
-/
namespace Astral.EoT
open Astral Real

theorem abs_mul_le' {u v U V : ℝ} (hu : |u| ≤ U) (hv : |v| ≤ V) : |u * v| ≤ U * V := by
  rw [abs_mul]
  exact mul_le_mul hu hv (abs_nonneg _) (le_trans (abs_nonneg _) hu)

theorem abs_mul_unit {a s : ℝ} (ha : 0 ≤ a) (hs : |s| ≤ 1) : |a * s| ≤ a := by
  have := abs_mul_le' (le_of_eq (abs_of_nonneg ha)) hs
  simpa using this

/-- eccentricity of the Earth's orbit, 1899 … 2101 -/
theorem ecc_bound (jc : ℝ) (h : |jc| ≤ 101 / 100) :
    166 / 10000 ≤ eccentricLocationEarthOrbit jc ∧ eccentricLocationEarthOrbit jc ≤ 1676 / 100000 := by
  unfold eccentricLocationEarthOrbit
  have h1 : |0.0000001267 * jc| ≤ 0.0000001267 * (101 / 100) := by
    rw [abs_mul]; norm_num; linarith
  have h2 : |(0.000042037 + 0.0000001267 * jc : ℝ)| ≤ 0.0000422 := by
    refine le_trans (abs_add_le _ _) ?_
    rw [abs_of_nonneg (by norm_num : (0 : ℝ) ≤ 0.000042037)]
    have : (0.0000001267 * (101 / 100) : ℝ) ≤ 0.0000001630 := by norm_num
    linarith
  have h3 := abs_mul_le' h h2
  rw [abs_le] at h3
  have e : (101 / 100 * 0.0000422 : ℝ) = 0.000042622 := by norm_num
  rw [e] at h3
  constructor <;> norm_num <;> [skip; skip] <;> nlinarith [h3.1, h3.2]

/-- corrected obliquity of the ecliptic in degrees, 1899 … 2101 -/
theorem obliq_bound (jc : ℝ) (h : |jc| ≤ 101 / 100) :
    2342 / 100 ≤ obliquityCorrection jc ∧ obliquityCorrection jc ≤ 2346 / 100 := by
  unfold obliquityCorrection meanObliquityOfEcliptic
  simp only
  have a1 : |jc * 0.001813| ≤ 101 / 100 * 0.001813 := by
    rw [abs_mul]; norm_num; linarith
  have a2 : |(0.00059 - jc * 0.001813 : ℝ)| ≤ 0.0025 := by
    refine le_trans (abs_sub _ _) ?_
    rw [abs_of_nonneg (by norm_num : (0 : ℝ) ≤ 0.00059)]
    have : (101 / 100 * 0.001813 : ℝ) ≤ 0.0019 := by norm_num
    linarith
  have a3 := abs_mul_le' h a2
  have a4 : |(46.815 + jc * (0.00059 - jc * 0.001813) : ℝ)| ≤ 46.82 := by
    refine le_trans (abs_add_le _ _) ?_
    rw [abs_of_nonneg (by norm_num : (0 : ℝ) ≤ 46.815)]
    have : (101 / 100 * 0.0025 : ℝ) ≤ 0.005 := by norm_num
    linarith
  have a5 := abs_mul_le' h a4
  have e : (101 / 100 * 46.82 : ℝ) = 47.2882 := by norm_num
  rw [e, abs_le] at a5
  have c := abs_le.mp (Real.abs_cos_le_one (radians (125.04 - 1934.136 * jc)))
  simp only [trig_cos]
  constructor <;> norm_num <;> nlinarith [a5.1, a5.2, c.1, c.2]

/-- tan on [0, 0.20473]: `sin x ≤ x`, `1 − x²/2 ≤ cos x` -/
theorem tan_small {x : ℝ} (h0 : 0 ≤ x) (h1 : x ≤ 20473 / 100000) :
    0 ≤ Real.tan x ∧ Real.tan x ≤ 20912 / 100000 := by
  have hs := Real.sin_le h0
  have hs0 : 0 ≤ Real.sin x := Real.sin_nonneg_of_nonneg_of_le_pi h0 (by linarith [Real.pi_gt_three])
  have hc := Real.one_sub_sq_div_two_le_cos (x := x)
  have hx2 : x ^ 2 ≤ (20473 / 100000) ^ 2 := by nlinarith
  have hcpos : (0 : ℝ) < Real.cos x := by nlinarith
  rw [Real.tan_eq_sin_div_cos]
  constructor
  · exact div_nonneg hs0 hcpos.le
  · rw [div_le_iff₀ hcpos]
    nlinarith

/-- y = tan²(ε/2) -/
theorem varY_bound (jc : ℝ) (h : |jc| ≤ 101 / 100) : 0 ≤ varY jc ∧ varY jc ≤ 43732 / 1000000 := by
  unfold varY
  simp only [trig_tan]
  obtain ⟨o1, o2⟩ := obliq_bound jc h
  have hx0 : 0 ≤ radians (obliquityCorrection jc) / 2.0 := by
    rw [radians_eq]; norm_num
    have := Real.pi_pos
    nlinarith
  have hx1 : radians (obliquityCorrection jc) / 2.0 ≤ 20473 / 100000 := by
    rw [radians_eq]; norm_num
    have p1 := Real.pi_lt_d4
    have p0 := Real.pi_pos
    norm_num at p1
    nlinarith
  obtain ⟨t0, t1⟩ := tan_small hx0 hx1
  constructor
  · exact mul_nonneg t0 t0
  · nlinarith

/-- the pure inequality: five bounded-sine terms -/
theorem etime_abs (y e s1 s2 s3 c s4 s5 : ℝ) (hy : 0 ≤ y ∧ y ≤ 43732 / 1000000)
    (he : 166 / 10000 ≤ e ∧ e ≤ 1676 / 100000)
    (h1 : |s1| ≤ 1) (h2 : |s2| ≤ 1) (h3 : |s3| ≤ 1) (hc : |c| ≤ 1) (h4 : |s4| ≤ 1) (h5 : |s5| ≤ 1) :
    |y * s1 - 2 * e * s2 + 4 * e * y * s3 * c - 1 / 2 * y * y * s4 - 5 / 4 * e * e * s5| ≤ 815 / 10000 := by
  have e0 : 0 ≤ e := by linarith [he.1]
  have t1 := abs_le.mp (abs_mul_unit hy.1 h1)
  have t2 := abs_le.mp (abs_mul_unit (show 0 ≤ 2 * e by linarith) h2)
  have h3c : |s3 * c| ≤ 1 := by simpa using abs_mul_le' h3 hc
  have t3 := abs_le.mp (abs_mul_unit (show 0 ≤ 4 * e * y by nlinarith [hy.1]) h3c)
  have t4 := abs_le.mp (abs_mul_unit (show 0 ≤ 1 / 2 * y * y by nlinarith [hy.1]) h4)
  have t5 := abs_le.mp (abs_mul_unit (show 0 ≤ 5 / 4 * e * e by nlinarith) h5)
  have b3 : 4 * e * y ≤ 4 * (1676 / 100000) * (43732 / 1000000) := by nlinarith [hy.1, hy.2, he.2]
  have b4 : 1 / 2 * y * y ≤ 1 / 2 * (43732 / 1000000) * (43732 / 1000000) := by nlinarith [hy.1, hy.2]
  have b5 : 5 / 4 * e * e ≤ 5 / 4 * (1676 / 100000) * (1676 / 100000) := by nlinarith [he.2]
  rw [abs_le]
  constructor <;> nlinarith [t1.1, t1.2, t2.1, t2.2, t3.1, t3.2, t4.1, t4.2, t5.1, t5.2, hy.2, he.2]

/-- **the equation of time is within 18.7 minutes of zero** for every instant of 1899 … 2101 -/
theorem eqOfTime_bound (jc : ℝ) (h : |jc| ≤ 101 / 100) : |eqOfTime jc| ≤ 187 / 10 := by
  unfold eqOfTime
  simp only [trig_sin, trig_cos]
  have hy := varY_bound jc h
  have he := ecc_bound jc h
  have key := etime_abs (varY jc) (eccentricLocationEarthOrbit jc)
    (Real.sin (2.0 * radians (geomMeanLongSun jc))) (Real.sin (radians (geomMeanAnomalySun jc)))
    (Real.sin (radians (geomMeanAnomalySun jc))) (Real.cos (2.0 * radians (geomMeanLongSun jc)))
    (Real.sin (4.0 * radians (geomMeanLongSun jc))) (Real.sin (2.0 * radians (geomMeanAnomalySun jc)))
    hy he (Real.abs_sin_le_one _) (Real.abs_sin_le_one _) (Real.abs_sin_le_one _)
    (Real.abs_cos_le_one _) (Real.abs_sin_le_one _) (Real.abs_sin_le_one _)
  rw [degrees_eq]
  have p0 := Real.pi_gt_d4
  norm_num at p0
  have ppos := Real.pi_pos
  have e2 : (2.0 : ℝ) = 2 := by norm_num
  have e4 : (4.0 : ℝ) = 4 := by norm_num
  have e05 : (0.5 : ℝ) = 1 / 2 := by norm_num
  have e125 : (1.25 : ℝ) = 5 / 4 := by norm_num
  rw [e2, e4, e05, e125]
  set E := varY jc * Real.sin (2 * radians (geomMeanLongSun jc))
    - 2 * eccentricLocationEarthOrbit jc * Real.sin (radians (geomMeanAnomalySun jc))
    + 4 * eccentricLocationEarthOrbit jc * varY jc * Real.sin (radians (geomMeanAnomalySun jc))
        * Real.cos (2 * radians (geomMeanLongSun jc))
    - 1 / 2 * varY jc * varY jc * Real.sin (4 * radians (geomMeanLongSun jc))
    - 5 / 4 * eccentricLocationEarthOrbit jc * eccentricLocationEarthOrbit jc
        * Real.sin (2 * radians (geomMeanAnomalySun jc)) with hE
  rw [e2, e4] at key
  have hk : |E| ≤ 815 / 10000 := key
  have : E * (180 / Real.pi) * 4 = E * (720 / Real.pi) := by ring
  rw [this, abs_mul, abs_of_pos (div_pos (by norm_num) ppos)]
  have h720 : 720 / Real.pi ≤ 720 / (6283 / 2000) :=
    div_le_div_of_nonneg_left (by norm_num) (by norm_num) p0.le
  calc |E| * (720 / Real.pi) ≤ 815 / 10000 * (720 / (6283 / 2000)) :=
        mul_le_mul hk h720 (div_pos (by norm_num) ppos).le (by norm_num)
    _ ≤ 187 / 10 := by norm_num


/-! ### The whole calendar: |T| ≤ 81 centuries (years 1 … 9999, ΔT included) -/

theorem ecc_bound_wide (jc : ℝ) (h : |jc| ≤ 81) :
    12 / 1000 ≤ eccentricLocationEarthOrbit jc ∧ eccentricLocationEarthOrbit jc ≤ 21 / 1000 := by
  unfold eccentricLocationEarthOrbit
  have h1 : |0.0000001267 * jc| ≤ 0.0000001267 * 81 := by
    rw [abs_mul]; norm_num; linarith
  have h2 : |(0.000042037 + 0.0000001267 * jc : ℝ)| ≤ 0.0000524 := by
    refine le_trans (abs_add_le _ _) ?_
    rw [abs_of_nonneg (by norm_num : (0 : ℝ) ≤ 0.000042037)]
    have : (0.0000001267 * 81 : ℝ) ≤ 0.0000103 := by norm_num
    linarith
  have h3 := abs_mul_le' h h2
  rw [abs_le] at h3
  have e : (81 * 0.0000524 : ℝ) = 0.0042444 := by norm_num
  rw [e] at h3
  constructor <;> norm_num <;> [skip; skip] <;> nlinarith [h3.1, h3.2]

theorem obliq_bound_wide (jc : ℝ) (h : |jc| ≤ 81) :
    22 ≤ obliquityCorrection jc ∧ obliquityCorrection jc ≤ 2478 / 100 := by
  unfold obliquityCorrection meanObliquityOfEcliptic
  simp only
  have a1 : |jc * 0.001813| ≤ 81 * 0.001813 := by
    rw [abs_mul]; norm_num; linarith
  have a2 : |(0.00059 - jc * 0.001813 : ℝ)| ≤ 0.1475 := by
    refine le_trans (abs_sub _ _) ?_
    rw [abs_of_nonneg (by norm_num : (0 : ℝ) ≤ 0.00059)]
    have : (81 * 0.001813 : ℝ) ≤ 0.1469 := by norm_num
    linarith
  have a3 := abs_mul_le' h a2
  have a4 : |(46.815 + jc * (0.00059 - jc * 0.001813) : ℝ)| ≤ 58.77 := by
    refine le_trans (abs_add_le _ _) ?_
    rw [abs_of_nonneg (by norm_num : (0 : ℝ) ≤ 46.815)]
    have : (81 * 0.1475 : ℝ) ≤ 11.95 := by norm_num
    linarith
  have a5 := abs_mul_le' h a4
  have e : (81 * 58.77 : ℝ) = 4760.37 := by norm_num
  rw [e, abs_le] at a5
  have c := abs_le.mp (Real.abs_cos_le_one (radians (125.04 - 1934.136 * jc)))
  simp only [trig_cos]
  constructor <;> norm_num <;> nlinarith [a5.1, a5.2, c.1, c.2]

theorem tan_small_wide {x : ℝ} (h0 : 0 ≤ x) (h1 : x ≤ 21625 / 100000) :
    0 ≤ Real.tan x ∧ Real.tan x ≤ 22143 / 100000 := by
  have hs := Real.sin_le h0
  have hs0 : 0 ≤ Real.sin x := Real.sin_nonneg_of_nonneg_of_le_pi h0 (by linarith [Real.pi_gt_three])
  have hc := Real.one_sub_sq_div_two_le_cos (x := x)
  have hx2 : x ^ 2 ≤ (21625 / 100000) ^ 2 := by nlinarith
  have hcpos : (0 : ℝ) < Real.cos x := by nlinarith
  rw [Real.tan_eq_sin_div_cos]
  constructor
  · exact div_nonneg hs0 hcpos.le
  · rw [div_le_iff₀ hcpos]
    nlinarith

theorem varY_bound_wide (jc : ℝ) (h : |jc| ≤ 81) : 0 ≤ varY jc ∧ varY jc ≤ 49032 / 1000000 := by
  unfold varY
  simp only [trig_tan]
  obtain ⟨o1, o2⟩ := obliq_bound_wide jc h
  have hx0 : 0 ≤ radians (obliquityCorrection jc) / 2.0 := by
    rw [radians_eq]; norm_num
    have := Real.pi_pos
    nlinarith
  have hx1 : radians (obliquityCorrection jc) / 2.0 ≤ 21625 / 100000 := by
    rw [radians_eq]; norm_num
    have p1 := Real.pi_lt_d4
    have p0 := Real.pi_pos
    norm_num at p1
    nlinarith
  obtain ⟨t0, t1⟩ := tan_small_wide hx0 hx1
  constructor
  · exact mul_nonneg t0 t0
  · nlinarith

theorem etime_abs_wide (y e s1 s2 s3 c s4 s5 : ℝ) (hy : 0 ≤ y ∧ y ≤ 49032 / 1000000)
    (he : 12 / 1000 ≤ e ∧ e ≤ 21 / 1000)
    (h1 : |s1| ≤ 1) (h2 : |s2| ≤ 1) (h3 : |s3| ≤ 1) (hc : |c| ≤ 1) (h4 : |s4| ≤ 1) (h5 : |s5| ≤ 1) :
    |y * s1 - 2 * e * s2 + 4 * e * y * s3 * c - 1 / 2 * y * y * s4 - 5 / 4 * e * e * s5| ≤ 97 / 1000 := by
  have e0 : 0 ≤ e := by linarith [he.1]
  have t1 := abs_le.mp (abs_mul_unit hy.1 h1)
  have t2 := abs_le.mp (abs_mul_unit (show 0 ≤ 2 * e by linarith) h2)
  have h3c : |s3 * c| ≤ 1 := by simpa using abs_mul_le' h3 hc
  have t3 := abs_le.mp (abs_mul_unit (show 0 ≤ 4 * e * y by nlinarith [hy.1]) h3c)
  have t4 := abs_le.mp (abs_mul_unit (show 0 ≤ 1 / 2 * y * y by nlinarith [hy.1]) h4)
  have t5 := abs_le.mp (abs_mul_unit (show 0 ≤ 5 / 4 * e * e by nlinarith) h5)
  have b3 : 4 * e * y ≤ 4 * (21 / 1000) * (49032 / 1000000) := by nlinarith [hy.1, hy.2, he.2]
  have b4 : 1 / 2 * y * y ≤ 1 / 2 * (49032 / 1000000) * (49032 / 1000000) := by nlinarith [hy.1, hy.2]
  have b5 : 5 / 4 * e * e ≤ 5 / 4 * (21 / 1000) * (21 / 1000) := by nlinarith [he.2]
  rw [abs_le]
  constructor <;> nlinarith [t1.1, t1.2, t2.1, t2.2, t3.1, t3.2, t4.1, t4.2, t5.1, t5.2, hy.2, he.2]

/-- **the equation of time is within 22.5 minutes of zero over the whole calendar** (years 1 … 9999) -/
theorem eqOfTime_bound_wide (jc : ℝ) (h : |jc| ≤ 81) : |eqOfTime jc| ≤ 45 / 2 := by
  unfold eqOfTime
  simp only [trig_sin, trig_cos]
  have hy := varY_bound_wide jc h
  have he := ecc_bound_wide jc h
  have key := etime_abs_wide (varY jc) (eccentricLocationEarthOrbit jc)
    (Real.sin (2.0 * radians (geomMeanLongSun jc))) (Real.sin (radians (geomMeanAnomalySun jc)))
    (Real.sin (radians (geomMeanAnomalySun jc))) (Real.cos (2.0 * radians (geomMeanLongSun jc)))
    (Real.sin (4.0 * radians (geomMeanLongSun jc))) (Real.sin (2.0 * radians (geomMeanAnomalySun jc)))
    hy he (Real.abs_sin_le_one _) (Real.abs_sin_le_one _) (Real.abs_sin_le_one _)
    (Real.abs_cos_le_one _) (Real.abs_sin_le_one _) (Real.abs_sin_le_one _)
  rw [degrees_eq]
  have p0 := Real.pi_gt_d4
  norm_num at p0
  have ppos := Real.pi_pos
  have e2 : (2.0 : ℝ) = 2 := by norm_num
  have e4 : (4.0 : ℝ) = 4 := by norm_num
  have e05 : (0.5 : ℝ) = 1 / 2 := by norm_num
  have e125 : (1.25 : ℝ) = 5 / 4 := by norm_num
  rw [e2, e4, e05, e125]
  set E := varY jc * Real.sin (2 * radians (geomMeanLongSun jc))
    - 2 * eccentricLocationEarthOrbit jc * Real.sin (radians (geomMeanAnomalySun jc))
    + 4 * eccentricLocationEarthOrbit jc * varY jc * Real.sin (radians (geomMeanAnomalySun jc))
        * Real.cos (2 * radians (geomMeanLongSun jc))
    - 1 / 2 * varY jc * varY jc * Real.sin (4 * radians (geomMeanLongSun jc))
    - 5 / 4 * eccentricLocationEarthOrbit jc * eccentricLocationEarthOrbit jc
        * Real.sin (2 * radians (geomMeanAnomalySun jc)) with hE
  rw [e2, e4] at key
  have hk : |E| ≤ 97 / 1000 := key
  have : E * (180 / Real.pi) * 4 = E * (720 / Real.pi) := by ring
  rw [this, abs_mul, abs_of_pos (div_pos (by norm_num) ppos)]
  have h720 : 720 / Real.pi ≤ 720 / (6283 / 2000) :=
    div_le_div_of_nonneg_left (by norm_num) (by norm_num) p0.le
  calc |E| * (720 / Real.pi) ≤ 97 / 1000 * (720 / (6283 / 2000)) :=
        mul_le_mul hk h720 (div_pos (by norm_num) ppos).le (by norm_num)
    _ ≤ 45 / 2 := by norm_num

/-- non-vacuity: the hypothesis covers the property's whole date range -/
example : |(-(1 : ℝ))| ≤ 101 / 100 ∧ |(1 : ℝ)| ≤ 101 / 100 := by norm_num

end Astral.EoT
