import Astral.Props.C12
/-
  C12 (exact reals) — **the reported elevation and azimuth are the horizontal coordinates of the
  moon's equatorial direction**.  `moonXYZ` rotates the unit vector of (declination, hour angle)
  into the observer's horizon frame: x points north, y east, z to the zenith.  The theorems say
  that the pair (elevation e, azimuth A) the library returns satisfies

      sin e = z,   cos e · cos A = x,   cos e · sin A = y,   x² + y² + z² = 1

  for every latitude, declination and hour angle — i.e. the final arctangents have their arguments
  the right way round, the quadrant is right and the reduction into [0°, 360°) does not move the
  direction.  (`why_tests_cant`: "swapping the arguments of the final arctangent passes the suite".)
-/
namespace Astral.C12Horiz
open Astral Real Astral.C08 Astral.C12

/-- the horizon-frame components for latitude φ, declination δ, hour angle H (radians) -/
noncomputable def hx (φ δ H : ℝ) : ℝ := -Real.cos H * Real.cos δ * Real.sin φ + Real.sin δ * Real.cos φ
noncomputable def hy (δ H : ℝ) : ℝ := -Real.sin H * Real.cos δ
noncomputable def hz (φ δ H : ℝ) : ℝ := Real.cos H * Real.cos δ * Real.cos φ + Real.sin δ * Real.sin φ

/-- the rotation keeps the vector on the unit sphere -/
theorem unit (φ δ H : ℝ) : hx φ δ H * hx φ δ H + hy δ H * hy δ H + hz φ δ H * hz φ δ H = 1 := by
  unfold hx hy hz
  have s1 := Real.sin_sq_add_cos_sq φ
  have s2 := Real.sin_sq_add_cos_sq δ
  have s3 := Real.sin_sq_add_cos_sq H
  have : (-Real.cos H * Real.cos δ * Real.sin φ + Real.sin δ * Real.cos φ)
        * (-Real.cos H * Real.cos δ * Real.sin φ + Real.sin δ * Real.cos φ)
      + -Real.sin H * Real.cos δ * (-Real.sin H * Real.cos δ)
      + (Real.cos H * Real.cos δ * Real.cos φ + Real.sin δ * Real.sin φ)
        * (Real.cos H * Real.cos δ * Real.cos φ + Real.sin δ * Real.sin φ)
      = Real.cos δ ^ 2 * (Real.sin H ^ 2 + Real.cos H ^ 2 * (Real.sin φ ^ 2 + Real.cos φ ^ 2))
        + Real.sin δ ^ 2 * (Real.sin φ ^ 2 + Real.cos φ ^ 2) := by ring
  rw [this, s1, mul_one, mul_one, s3, mul_one]; linarith

/-- `moonXYZ` returns exactly those components, with the hour angle LST − RA -/
theorem moonXYZ_components (lat lon : ℝ) (w : Int) (x y z : ℝ)
    (h : moonXYZ lat lon w = .ok (x, y, z)) :
    ∃ δ H, x = hx (radians lat) δ H ∧ y = hy δ H ∧ z = hz (radians lat) δ H := by
  unfold moonXYZ at h
  obtain ⟨p, _, h⟩ := bind_ok h
  simp only [pure, Except.pure, Except.ok.injEq, Prod.mk.injEq, trig_sin, trig_cos] at h
  obtain ⟨rfl, rfl, rfl⟩ := h
  exact ⟨p.dec, radians (lmstOfJd2000 (julianDay2000Wall w) lon) - p.ra, rfl, rfl, rfl⟩

theorem norm_mk (a b : ℝ) : ‖(⟨a, b⟩ : ℂ)‖ = Real.sqrt (a * a + b * b) := by
  rw [Complex.norm_def, Complex.normSq_mk]

/-- elevation from a unit vector: sine is the zenith component, cosine the horizontal length -/
theorem elevation_of_unit (x y z : ℝ) (hu : x * x + y * y + z * z = 1) :
    Real.sin (radians (degrees (Trig.atan2 z (Trig.sqrt (x * x + y * y))))) = z
    ∧ Real.cos (radians (degrees (Trig.atan2 z (Trig.sqrt (x * x + y * y))))) = Real.sqrt (x * x + y * y) := by
  rw [radians_degrees, trig_atan2, trig_sqrt]
  set r := Real.sqrt (x * x + y * y) with hr
  have hr0 : 0 ≤ x * x + y * y := add_nonneg (mul_self_nonneg x) (mul_self_nonneg y)
  have hrr : r * r = x * x + y * y := Real.mul_self_sqrt hr0
  have hn : ‖(⟨r, z⟩ : ℂ)‖ = 1 := by
    rw [norm_mk, hrr, hu, Real.sqrt_one]
  have hne : (⟨r, z⟩ : ℂ) ≠ 0 := by
    intro e; rw [e, norm_zero] at hn; exact zero_ne_one hn
  constructor
  · rw [Complex.sin_arg, hn, div_one]
  · rw [Complex.cos_arg hne, hn, div_one]

/-- the reduction into [0, 360) moves the angle by whole turns only -/
theorem azimuth_mod_turns (a : ℝ) :
    ∃ k : ℤ, radians (let az := Trig.pymod a 360.0; if (360.0 : ℝ) ≤ az then az - 360.0 else az)
      = radians a + k * (2 * π) := by
  have r := pymod_range a 360.0 (by norm_num)
  have hn : ¬ ((360.0 : ℝ) ≤ Trig.pymod a 360.0) := by
    intro hc; norm_num at hc; have := r.2; norm_num at this; linarith
  simp only [if_neg hn]
  refine ⟨-⌊a / 360.0⌋, ?_⟩
  rw [trig_pymod, radians_eq, radians_eq]
  have e : (360.0 : ℝ) = 360 := by norm_num
  rw [e]; push_cast; ring

/-- **horizontal coordinates**: the library's elevation `e` and azimuth `A` point along (x, y, z) -/
theorem moon_horizontal (lat lon : ℝ) (w : Int) (x y z e A : ℝ)
    (hxyz : moonXYZ lat lon w = .ok (x, y, z))
    (he : moonElevation lat lon w = .ok e) (hA : moonAzimuth lat lon w = .ok A) :
    x * x + y * y + z * z = 1
    ∧ Real.sin (radians e) = z
    ∧ Real.cos (radians e) * Real.cos (radians A) = x
    ∧ Real.cos (radians e) * Real.sin (radians A) = y := by
  obtain ⟨δ, H, ex, ey, ez⟩ := moonXYZ_components lat lon w x y z hxyz
  have hu : x * x + y * y + z * z = 1 := by rw [ex, ey, ez]; exact unit _ _ _
  unfold moonElevation at he
  rw [hxyz] at he
  simp only [bind, Except.bind, pure, Except.pure, Except.ok.injEq] at he
  unfold moonAzimuth at hA
  rw [hxyz] at hA
  simp only [bind, Except.bind, pure, Except.pure, Except.ok.injEq] at hA
  obtain ⟨hs, hc⟩ := elevation_of_unit x y z hu
  rw [he] at hs hc
  obtain ⟨k, hk⟩ := azimuth_mod_turns (degrees (Trig.atan2 y x))
  simp only at hk
  rw [hA, radians_degrees, trig_atan2] at hk
  refine ⟨hu, hs, ?_, ?_⟩
  · rw [hc, hk, Real.cos_add_int_mul_two_pi]
    by_cases h0 : (⟨x, y⟩ : ℂ) = 0
    · have hx0 : x = 0 := by simpa using congrArg Complex.re h0
      have hy0 : y = 0 := by simpa using congrArg Complex.im h0
      rw [hx0, hy0]; simp
    · rw [Complex.cos_arg h0, norm_mk]
      have hpos : Real.sqrt (x * x + y * y) ≠ 0 := by
        rw [← norm_mk]; exact norm_ne_zero_iff.mpr h0
      rw [mul_div_assoc', mul_comm, mul_div_assoc, div_self hpos, mul_one]
  · rw [hc, hk, Real.sin_add_int_mul_two_pi, Complex.sin_arg, norm_mk]
    by_cases hpos : Real.sqrt (x * x + y * y) = 0
    · have h0 : x * x + y * y = 0 := by
        have := Real.mul_self_sqrt (add_nonneg (mul_self_nonneg x) (mul_self_nonneg y) : 0 ≤ x * x + y * y)
        rw [hpos] at this; linarith
      have hy0 : y = 0 := by nlinarith [mul_self_nonneg x, mul_self_nonneg y]
      rw [hpos, hy0]; simp
    · simp only []
      rw [mul_div_assoc', mul_comm, mul_div_assoc, div_self hpos, mul_one]

/-- the zenith component is the classical altitude formula
    sin e = sin φ sin δ + cos φ cos δ cos H -/
theorem moon_altitude_formula (lat lon : ℝ) (w : Int) (x y z e : ℝ)
    (hxyz : moonXYZ lat lon w = .ok (x, y, z)) (he : moonElevation lat lon w = .ok e) :
    ∃ δ H, Real.sin (radians e)
      = Real.sin (radians lat) * Real.sin δ + Real.cos (radians lat) * Real.cos δ * Real.cos H := by
  obtain ⟨δ, H, ex, ey, ez⟩ := moonXYZ_components lat lon w x y z hxyz
  have hu : x * x + y * y + z * z = 1 := by rw [ex, ey, ez]; exact unit _ _ _
  unfold moonElevation at he
  rw [hxyz] at he
  simp only [bind, Except.bind, pure, Except.pure, Except.ok.injEq] at he
  obtain ⟨hs, _⟩ := elevation_of_unit x y z hu
  rw [he] at hs
  exact ⟨δ, H, by rw [hs, ez]; unfold hz; ring⟩

/-- non-vacuity: due south on the equator (φ = 0, δ = 0, H = 0) the vector is straight up -/
example : hx 0 0 0 = 0 ∧ hy 0 0 = 0 ∧ hz 0 0 0 = 1 := by
  unfold hx hy hz; simp

end Astral.C12Horiz

namespace Astral.C12Horiz
open Astral Real Astral.C08 Astral.C12

/-- **the moon's side of the meridian**: whenever the moon is not at the zenith/nadir
    (cos e ≠ 0), the sine of the reported azimuth has the sign of the east component: the moon is
    reported in the eastern half (0°, 180°) exactly when `y > 0` (before its transit) and in the
    western half (180°, 360°) exactly when `y < 0` -/
theorem moon_side_of_meridian (lat lon : ℝ) (w : Int) (x y z e A : ℝ)
    (hxyz : moonXYZ lat lon w = .ok (x, y, z))
    (he : moonElevation lat lon w = .ok e) (hA : moonAzimuth lat lon w = .ok A)
    (hne : x * x + y * y ≠ 0) :
    (0 < y → 0 < Real.sin (radians A)) ∧ (y < 0 → Real.sin (radians A) < 0) := by
  obtain ⟨hu, hs, hN, hE⟩ := moon_horizontal lat lon w x y z e A hxyz he hA
  -- cos e = √(x² + y²) > 0
  have hcpos : 0 < Real.cos (radians e) := by
    unfold moonElevation at he
    rw [hxyz] at he
    simp only [bind, Except.bind, pure, Except.pure, Except.ok.injEq] at he
    obtain ⟨_, hc⟩ := elevation_of_unit x y z hu
    rw [he] at hc
    rw [hc]
    apply Real.sqrt_pos.mpr
    have := add_nonneg (mul_self_nonneg x) (mul_self_nonneg y)
    exact lt_of_le_of_ne this (Ne.symm hne)
  constructor
  · intro hy
    by_contra hc
    push Not at hc
    have := mul_nonpos_of_nonneg_of_nonpos hcpos.le hc
    linarith
  · intro hy
    by_contra hc
    push Not at hc
    have := mul_nonneg hcpos.le hc
    linarith

end Astral.C12Horiz
