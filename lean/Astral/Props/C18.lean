import Astral.Gen.Locations
import Astral.Model.Dms
import Astral.Model.Geocoder
/-
  C18 — every built-in location is well-formed and geographically self-consistent.

  Translator-tied proof: `Astral.Gen.locations` is regenerated from the source text on every
  run, and the theorems below are re-checked by the kernel against what the source says now.
  All arithmetic is exact (integer micro-arc-seconds).
-/
namespace Astral.C18
open Astral Astral.Gen

/-- a coordinate field in micro-arc-seconds: degree-minute-second text through the model's
    recogniser, or a plain numeral with at most six decimals -/
def coordMicroArcsec (s : Str) : Option Int :=
  match parseNumeral s with
  | some n =>
    if 0 ≤ n.exp10 + 6 then
      let v : Int := n.mant * 3600 * 10 ^ (n.exp10 + 6).toNat
      some (if n.neg then -v else v)
    else none
  | none =>
    match dmsRecognise s with
    | some m =>
      let v : Int := ((m.deg * 3600 + (m.min.getD 0) * 60 + (m.sec.getD 0) : Nat) : Int) * 1000000
      match m.dir with
      | some c => some (if c == 83 || c == 115 || c == 87 || c == 119 then -v else v)
      | none => some v
    | none => none

def field (r : Row) (i : Nat) : List Nat := r.fields.getD i []

/-- the zone's standard offset is within 2.5 h of the location's mean solar time (longitude/15),
    modulo 24 h.  In micro-arc-seconds: 1 s of time = 15 arc-seconds. -/
def offsetConsistent (stdOffset : Int) (lonMicro : Int) : Bool :=
  let day : Int := 86400 * 15 * 1000000
  let d := (stdOffset * 15 * 1000000 - lonMicro) % day          -- 0 ≤ d < day
  let lim : Int := 9000 * 15 * 1000000                           -- 2.5 h
  d ≤ lim || day - d ≤ lim

def rowOk (r : Row) : Bool :=
  5 ≤ r.fields.length
  && field r 0 != []
  && r.tzResolves
  && (match coordMicroArcsec (field r 3), coordMicroArcsec (field r 4) with
      | some la, some lo =>
        decide (-90 * 3600 * 1000000 ≤ la) && decide (la ≤ 90 * 3600 * 1000000)
        && decide (-180 * 3600 * 1000000 ≤ lo) && decide (lo ≤ 180 * 3600 * 1000000)
        && offsetConsistent r.stdOffset lo
      | _, _ => false)

set_option maxRecDepth 1000000 in
/-- **C18**: every built-in record has a non-empty name, coordinates that parse and lie in range,
    a zone the platform resolves, and a standard offset within 2.5 h of its mean solar time -/
theorem builtin_ok : locations.all rowOk = true := by decide +kernel

set_option maxRecDepth 1000000 in
/-- no (name, region) pair occurs twice -/
theorem builtin_nodup : (locations.map (fun r => (field r 0, field r 1))).Nodup := by
  decide +kernel

/-- mean-time noon of a well-formed row: 12:00 − longitude/15 + offset is within 2.5 h of 12:00
    standard time, i.e. between 09:30 and 14:30 -/
theorem noon_window (std lon : Int) (h : offsetConsistent std lon = true) :
    ∃ k : Int, -(9000 * 15 * 1000000) ≤ (std * 15 * 1000000 - lon) - k * (86400 * 15 * 1000000)
      ∧ (std * 15 * 1000000 - lon) - k * (86400 * 15 * 1000000) ≤ 9000 * 15 * 1000000 := by
  unfold offsetConsistent at h
  simp only [Bool.or_eq_true, decide_eq_true_eq] at h
  have hm := Int.emod_add_mul_ediv (std * 15 * 1000000 - lon) (86400 * 15 * 1000000)
  have h0 := Int.emod_nonneg (std * 15 * 1000000 - lon) (show (86400 * 15 * 1000000 : Int) ≠ 0 by decide)
  rcases h with h | h
  · exact ⟨(std * 15 * 1000000 - lon) / (86400 * 15 * 1000000), by omega, by omega⟩
  · exact ⟨(std * 15 * 1000000 - lon) / (86400 * 15 * 1000000) + 1, by omega, by omega⟩

/-- the time-zone group keys the built-in records create (`_sanitize_key` of the part of the
    zone name before the first `/`) -/
def groupKeys : List (List Nat) := locations.map (fun r => sanitize (timezoneGroup (field r 2)))

set_option maxRecDepth 1000000 in
/-- **no built-in location is shadowed by a group**: `lookup` tries group names first, so a
    record whose (sanitised) name equalled a time-zone group key could not be found by its bare
    name.  No such record exists in the table as it stands in /repo now. -/
theorem builtin_names_not_groups :
    locations.all (fun r => !(groupKeys.contains (sanitize (field r 0)))) = true := by
  decide +kernel


/-- the recogniser is what the parse theorems of C16 are about: e.g. London's row -/
example : coordMicroArcsec [53, 49, 176, 51, 48, 39, 78] = some (185400 * 1000000) := by decide

end Astral.C18
