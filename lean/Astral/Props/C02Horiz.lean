import Astral.Props.C02
import Astral.Props.C12Horiz
/-
  C02 (exact reals) — **the sun's reported zenith and azimuth are the horizontal coordinates of
  its equatorial direction**.  For latitude φ, declination δ (|δ| ≤ 90°) and hour angle H in
  [−180°, 180°] (what `hourAngle_normalised` guarantees), on the non-degenerate branch of the
  NOAA azimuth formula (|cos φ · sin z| > 0.001):

      cos z = up,   sin z · cos A = north,   sin z · sin A = east

  with (north, east, up) the rotation of (cos δ cos H, −cos δ sin H, sin δ) into the horizon frame
  — the same components as the moon's (C12Horiz.hx/hy/hz).  It pins the `180 − acos(…)` form, the
  `hourangle > 0 → −azimuth` side rule, the clamp (which is shown never to act over the reals) and
  the final `+ 360`.
-/
namespace Astral.C02Horiz
open Astral Real Astral.C02 Astral.C12Horiz

/-- the pure-trigonometry core, in radians -/
theorem core (Φ Δ H : ℝ)
    (hnd : Real.cos Φ * Real.sin (Real.arccos (hz Φ Δ H)) ≠ 0) :
    let c := hz Φ Δ H
    let s := Real.sin (Real.arccos c)
    let q := (Real.sin Φ * Real.cos (Real.arccos c) - Real.sin Δ) / (Real.cos Φ * s)
    Real.cos (Real.arccos c) = c ∧ |q| ≤ 1
      ∧ s * Real.cos (π - Real.arccos q) = hx Φ Δ H
      ∧ s * Real.sin (π - Real.arccos q) = |hy Δ H| := by
  intro c s q
  have hu := unit Φ Δ H
  set x := hx Φ Δ H with hxd
  set y := hy Δ H with hyd
  have hc2 : c ^ 2 ≤ 1 := by nlinarith [mul_self_nonneg x, mul_self_nonneg y]
  have hcabs : |c| ≤ 1 := (sq_le_one_iff_abs_le_one c).mp hc2
  obtain ⟨hc1, hc1'⟩ := abs_le.mp hcabs
  have hcos : Real.cos (Real.arccos c) = c := Real.cos_arccos hc1 hc1'
  have hs_def : s = Real.sqrt (1 - c ^ 2) := Real.sin_arccos c
  have hs0 : 0 ≤ s := by rw [hs_def]; exact Real.sqrt_nonneg _
  have hs2 : s * s = x * x + y * y := by
    rw [hs_def, Real.mul_self_sqrt (by linarith)]; nlinarith
  have hcΦ : Real.cos Φ ≠ 0 := left_ne_zero_of_mul hnd
  have hsne : s ≠ 0 := right_ne_zero_of_mul hnd
  have hspos : 0 < s := lt_of_le_of_ne hs0 (Ne.symm hsne)
  -- q = −x / s
  have hq : q = -x / s := by
    show (Real.sin Φ * Real.cos (Real.arccos c) - Real.sin Δ) / (Real.cos Φ * s) = -x / s
    rw [hcos, div_eq_div_iff hnd hsne]
    have e : Real.sin Φ * c - Real.sin Δ = -x * Real.cos Φ := by
      show Real.sin Φ * hz Φ Δ H - Real.sin Δ = -(hx Φ Δ H) * Real.cos Φ
      unfold hz hx
      have s1 := Real.sin_sq_add_cos_sq Φ
      linear_combination (Real.sin Δ) * s1
    rw [e]; ring
  have hq2 : q ^ 2 * (s * s) = x * x := by
    rw [hq]; field_simp
  have hqabs : |q| ≤ 1 := by
    apply (sq_le_one_iff_abs_le_one q).mp
    have : q ^ 2 * (s * s) ≤ 1 * (s * s) := by
      rw [hq2, hs2, one_mul]; nlinarith [mul_self_nonneg y]
    exact le_of_mul_le_mul_right this (mul_pos hspos hspos)
  obtain ⟨hq1, hq1'⟩ := abs_le.mp hqabs
  refine ⟨hcos, hqabs, ?_, ?_⟩
  · rw [Real.cos_pi_sub, Real.cos_arccos hq1 hq1', hq]
    field_simp
  · rw [Real.sin_pi_sub, Real.sin_arccos]
    have h1 : s = Real.sqrt (s * s) := (Real.sqrt_mul_self hs0).symm
    rw [h1, ← Real.sqrt_mul (mul_self_nonneg s)]
    have : s * s * (1 - q ^ 2) = y ^ 2 := by
      have : s * s * (1 - q ^ 2) = s * s - q ^ 2 * (s * s) := by ring
      rw [this, hq2, hs2]; ring
    rw [this, Real.sqrt_sq_eq_abs]

theorem fabs_eq_abs (x : ℝ) : fabs x = |x| := by
  unfold fabs
  have e : (0.0 : ℝ) = 0 := by norm_num
  rw [e]
  split_ifs with h
  · exact (abs_of_neg h).symm
  · exact (abs_of_nonneg (not_lt.mp h)).symm

theorem radians_sub_degrees (t : ℝ) : radians ((180.0 : ℝ) - degrees t) = π - t := by
  rw [radians_eq, degrees_eq]
  have hp := Real.pi_ne_zero
  have e : (180.0 : ℝ) = 180 := by norm_num
  rw [e]; field_simp

/-- **horizontal coordinates of the sun** -/
theorem sun_horizontal (lat dec ha : ℝ) (hdec : |dec| ≤ 90) (hha : -180 ≤ ha ∧ ha ≤ 180)
    (hnd : (0.001 : ℝ) < fabs (Trig.cos (radians lat)
        * Trig.sin (radians (zenithAzimuthOf lat dec ha).1))) :
    Real.cos (radians (zenithAzimuthOf lat dec ha).1) = hz (radians lat) (radians dec) (radians ha)
    ∧ Real.sin (radians (zenithAzimuthOf lat dec ha).1) * Real.cos (radians (zenithAzimuthOf lat dec ha).2)
        = hx (radians lat) (radians dec) (radians ha)
    ∧ Real.sin (radians (zenithAzimuthOf lat dec ha).1) * Real.sin (radians (zenithAzimuthOf lat dec ha).2)
        = hy (radians dec) (radians ha) := by
  have hp := Real.pi_pos
  set Φ := radians lat with hΦ
  set Δ := radians dec with hΔd
  set H := radians ha with hHd
  -- the zenith is arccos of the up component
  have hcz : cosZenith lat dec ha = hz Φ Δ H := by
    unfold cosZenith hz; simp only [trig_cos, trig_sin]; ring
  have hu := unit Φ Δ H
  have hc2 : (hz Φ Δ H) ^ 2 ≤ 1 := by
    nlinarith [mul_self_nonneg (hx Φ Δ H), mul_self_nonneg (hy Δ H)]
  obtain ⟨hc1, hc1'⟩ := abs_le.mp ((sq_le_one_iff_abs_le_one _).mp hc2)
  have hclamp : clampUnit (hz Φ Δ H) = hz Φ Δ H := by
    unfold clampUnit
    rw [if_neg (by norm_num; exact hc1'), if_neg (by norm_num; exact hc1)]
  have hzen : radians (zenithAzimuthOf lat dec ha).1 = Real.arccos (hz Φ Δ H) := by
    unfold zenithAzimuthOf zenithOfCos
    simp only [hcz, hclamp, trig_acos, radians_degrees]
  rw [hzen]
  rw [hzen, fabs_eq_abs] at hnd
  simp only [trig_cos, trig_sin] at hnd
  have hnd0 : Real.cos Φ * Real.sin (Real.arccos (hz Φ Δ H)) ≠ 0 := by
    intro e; rw [e, abs_zero] at hnd; norm_num at hnd
  -- cos Δ ≥ 0 and the side of the hour angle
  have hΔ0 : 0 ≤ Real.cos Δ := by
    apply Real.cos_nonneg_of_neg_pi_div_two_le_of_le
    · rw [hΔd, radians_eq]; have := (abs_le.mp hdec).1; nlinarith
    · rw [hΔd, radians_eq]; have := (abs_le.mp hdec).2; nlinarith
  obtain ⟨hcos, hqabs, hN, hE⟩ := core Φ Δ H hnd0
  refine ⟨hcos, ?_⟩
  -- unfold the azimuth on the non-degenerate, unclamped branch
  set q := (Real.sin Φ * Real.cos (Real.arccos (hz Φ Δ H)) - Real.sin Δ)
      / (Real.cos Φ * Real.sin (Real.arccos (hz Φ Δ H))) with hqd
  have hraw : azimuthRaw lat dec (zenithAzimuthOf lat dec ha).1 ha
      = if (0.0 : ℝ) < ha then -((180.0 : ℝ) - degrees (Real.arccos q))
        else (180.0 : ℝ) - degrees (Real.arccos q) := by
    unfold azimuthRaw
    simp only [trig_cos, trig_sin, trig_acos]
    have h1 : (0.001 : ℝ) < fabs (Real.cos Φ * Real.sin (Real.arccos (hz Φ Δ H))) := by
      rw [fabs_eq_abs]; exact hnd
    have h2 : ¬ ((1.0 : ℝ) < fabs q) := by
      rw [fabs_eq_abs]; norm_num; exact hqabs
    simp only [hzen, ← hΦ, ← hΔd]
    simp only [← hqd, if_pos h1, if_neg h2]
  have haz : (zenithAzimuthOf lat dec ha).2
      = normAzimuth (azimuthRaw lat dec (zenithAzimuthOf lat dec ha).1 ha) := rfl
  rw [haz, hraw]
  have e0 : (0.0 : ℝ) = 0 := by norm_num
  have e360 : (360.0 : ℝ) = 360 := by norm_num
  have r360 : ∀ a : ℝ, radians (a + 360) = radians a + 2 * π := by
    intro a; rw [radians_eq, radians_eq]; ring
  have rneg : ∀ a : ℝ, radians (-a) = -radians a := by
    intro a; rw [radians_eq, radians_eq]; ring
  by_cases hpos : (0.0 : ℝ) < ha
  · -- afternoon: the sun is to the west, east component ≤ 0
    rw [if_pos hpos]
    have hsinH : 0 ≤ Real.sin H := by
      apply Real.sin_nonneg_of_nonneg_of_le_pi
      · rw [hHd, radians_eq]; rw [e0] at hpos; positivity
      · rw [hHd, radians_eq]; have := hha.2; nlinarith
    have hy0 : hy Δ H ≤ 0 := by unfold hy; nlinarith
    rw [abs_of_nonpos hy0] at hE
    have hA : ∃ k : ℤ, radians (normAzimuth (-((180.0 : ℝ) - degrees (Real.arccos q))))
        = -(π - Real.arccos q) + k * (2 * π) := by
      unfold normAzimuth
      split_ifs
      · exact ⟨1, by rw [e360, r360, rneg, radians_sub_degrees]; push_cast; ring⟩
      · exact ⟨0, by rw [rneg, radians_sub_degrees]; push_cast; ring⟩
    obtain ⟨k, hk⟩ := hA
    rw [hk, Real.cos_add_int_mul_two_pi, Real.sin_add_int_mul_two_pi, Real.cos_neg, Real.sin_neg]
    exact ⟨hN, by rw [mul_neg, hE, neg_neg]⟩
  · -- morning (or the meridian): east component ≥ 0
    rw [if_neg hpos]
    have hle : ha ≤ 0 := by rw [e0] at hpos; exact not_lt.mp hpos
    have hsinH : Real.sin H ≤ 0 := by
      apply Real.sin_nonpos_of_nonpos_of_neg_pi_le
      · rw [hHd, radians_eq]; exact mul_nonpos_of_nonpos_of_nonneg hle (by positivity)
      · rw [hHd, radians_eq]; have := hha.1; nlinarith
    have hy0 : 0 ≤ hy Δ H := by unfold hy; nlinarith
    rw [abs_of_nonneg hy0] at hE
    have hA : ∃ k : ℤ, radians (normAzimuth ((180.0 : ℝ) - degrees (Real.arccos q)))
        = (π - Real.arccos q) + k * (2 * π) := by
      unfold normAzimuth
      split_ifs
      · exact ⟨1, by rw [e360, r360, radians_sub_degrees]; push_cast; ring⟩
      · exact ⟨0, by rw [radians_sub_degrees]; push_cast; ring⟩
    obtain ⟨k, hk⟩ := hA
    rw [hk, Real.cos_add_int_mul_two_pi, Real.sin_add_int_mul_two_pi]
    exact ⟨hN, hE⟩

/-- the NOAA declination is an arcsine in degrees: |δ| ≤ 90 -/
theorem sunDeclination_range (jc : ℝ) : |sunDeclination jc| ≤ 90 := by
  unfold sunDeclination
  simp only [trig_asin, degrees_eq]
  have hp := Real.pi_pos
  set v := Real.arcsin (Trig.sin (radians (obliquityCorrection jc)) * Trig.sin (radians (sunApparentLong jc)))
  have h1 : -(π / 2) ≤ v := Real.neg_pi_div_two_le_arcsin _
  have h2 : v ≤ π / 2 := Real.arcsin_le_pi_div_two _
  rw [abs_le]
  constructor
  · have : -(π / 2) * (180 / π) ≤ v * (180 / π) := mul_le_mul_of_nonneg_right h1 (by positivity)
    have e : -(π / 2) * (180 / π) = -90 := by field_simp; ring
    linarith
  · have : v * (180 / π) ≤ (π / 2) * (180 / π) := mul_le_mul_of_nonneg_right h2 (by positivity)
    have e : (π / 2) * (180 / π) = 90 := by field_simp; ring
    linarith

/-- **the public functions**: for every observer and datetime (naive or aware), off the
    degenerate branch, `zenith(…, with_refraction=False)` and `azimuth(…)` are the horizontal
    coordinates of the sun's (declination, hour angle) at the clamped latitude -/
theorem sun_api_horizontal (obs : Obs ℝ) (wall : Int) (off : Option Int) :
    ∃ δ H : ℝ,
      ((0.001 : ℝ) < fabs (Trig.cos (radians (clampLatitude obs.lat))
          * Trig.sin (radians (sunZenith obs wall off false))) →
        Real.cos (radians (sunZenith obs wall off false)) = hz (radians (clampLatitude obs.lat)) δ H
        ∧ Real.sin (radians (sunZenith obs wall off false)) * Real.cos (radians (sunAzimuth obs wall off))
            = hx (radians (clampLatitude obs.lat)) δ H
        ∧ Real.sin (radians (sunZenith obs wall off false)) * Real.sin (radians (sunAzimuth obs wall off))
            = hy δ H) := by
  refine ⟨radians (sunDeclination (julianDayToCentury (julianDayWall (utcWallOf wall off)))),
    radians (hourAngleOfTst (trueSolarTime wall off obs.lon
      (eqOfTime (julianDayToCentury (julianDayWall (utcWallOf wall off)))))), ?_⟩
  intro hnd
  have hH := C08.hourAngle_normalised wall off obs.lon
    (eqOfTime (julianDayToCentury (julianDayWall (utcWallOf wall off))))
  have := sun_horizontal (clampLatitude obs.lat)
    (sunDeclination (julianDayToCentury (julianDayWall (utcWallOf wall off))))
    (hourAngleOfTst (trueSolarTime wall off obs.lon
      (eqOfTime (julianDayToCentury (julianDayWall (utcWallOf wall off))))))
    (sunDeclination_range _) ⟨hH.1, le_of_lt hH.2⟩
  unfold sunZenith sunAzimuth zenithAndAzimuth applyRefraction at *
  simp only [Bool.false_eq_true, if_false] at *
  exact this hnd

end Astral.C02Horiz

namespace Astral.C02Horiz
open Astral Real Astral.C02 Astral.C12Horiz

/-- an angle of [0°, 360°) with negative sine lies strictly between 180° and 360° -/
theorem west_of_sin_neg (A : ℝ) (h0 : 0 ≤ A) (h1 : A < 360) (hs : Real.sin (radians A) < 0) :
    180 < A ∧ A < 360 := by
  refine ⟨?_, h1⟩
  by_contra hle
  push Not at hle
  have hp := Real.pi_pos
  have r0 : 0 ≤ radians A := by rw [radians_eq]; positivity
  have r1 : radians A ≤ π := by
    rw [radians_eq]
    have : A * (π / 180) ≤ 180 * (π / 180) := mul_le_mul_of_nonneg_right hle (by positivity)
    have e : (180 : ℝ) * (π / 180) = π := by field_simp
    linarith
  have := Real.sin_nonneg_of_nonneg_of_le_pi r0 r1
  linarith

/-- an angle of [0°, 360°) with positive sine lies strictly between 0° and 180° -/
theorem east_of_sin_pos (A : ℝ) (h0 : 0 ≤ A) (h1 : A < 360) (hs : 0 < Real.sin (radians A)) :
    0 < A ∧ A < 180 := by
  have hp := Real.pi_pos
  constructor
  · rcases eq_or_lt_of_le h0 with e | l
    · rw [← e, radians_eq] at hs; simp at hs
    · exact l
  · by_contra hge
    push Not at hge
    have r0 : π ≤ radians A := by
      rw [radians_eq]
      have : 180 * (π / 180) ≤ A * (π / 180) := mul_le_mul_of_nonneg_right hge (by positivity)
      have e : (180 : ℝ) * (π / 180) = π := by field_simp
      linarith
    have r1 : radians A ≤ 2 * π := by
      rw [radians_eq]
      have : A * (π / 180) ≤ 360 * (π / 180) := mul_le_mul_of_nonneg_right h1.le (by positivity)
      have e : (360 : ℝ) * (π / 180) = 2 * π := by field_simp; ring
      linarith
    have : Real.sin (radians A) ≤ 0 := by
      have e : Real.sin (radians A) = -Real.sin (radians A - π) := by rw [Real.sin_sub_pi]; ring
      rw [e]
      have := Real.sin_nonneg_of_nonneg_of_le_pi (by linarith : 0 ≤ radians A - π) (by linarith)
      linarith
    linarith

/-- **after the meridian passage the sun is in the western half of the sky, before it in the
    eastern half**: with the hour angle strictly between 0° and 180° the reported azimuth lies in
    (180°, 360°); strictly between −180° and 0° it lies in (0°, 180°) — off the degenerate branch,
    for |δ| < 90° -/
theorem sun_side_of_meridian (lat dec ha : ℝ) (hdec : |dec| < 90)
    (hnd : (0.001 : ℝ) < fabs (Trig.cos (radians lat)
        * Trig.sin (radians (zenithAzimuthOf lat dec ha).1))) :
    (0 < ha ∧ ha < 180 → 180 < (zenithAzimuthOf lat dec ha).2 ∧ (zenithAzimuthOf lat dec ha).2 < 360)
    ∧ (-180 < ha ∧ ha < 0 → 0 < (zenithAzimuthOf lat dec ha).2 ∧ (zenithAzimuthOf lat dec ha).2 < 180) := by
  have hp := Real.pi_pos
  have rng := zenithAzimuthOf_range lat dec ha
  have hz0 : 0 ≤ Real.sin (radians (zenithAzimuthOf lat dec ha).1) := by
    apply Real.sin_nonneg_of_nonneg_of_le_pi
    · rw [radians_eq]; exact mul_nonneg rng.1 (by positivity)
    · rw [radians_eq]
      have : (zenithAzimuthOf lat dec ha).1 * (π / 180) ≤ 180 * (π / 180) :=
        mul_le_mul_of_nonneg_right rng.2.1 (by positivity)
      have e : (180 : ℝ) * (π / 180) = π := by field_simp
      linarith
  have hzpos : 0 < Real.sin (radians (zenithAzimuthOf lat dec ha).1) := by
    rcases eq_or_lt_of_le hz0 with e | l
    · rw [fabs_eq_abs] at hnd
      simp only [trig_cos, trig_sin] at hnd
      rw [← e, mul_zero, abs_zero] at hnd; norm_num at hnd
    · exact l
  have hcd : 0 < Real.cos (radians dec) := by
    apply Real.cos_pos_of_mem_Ioo
    obtain ⟨a, b⟩ := abs_lt.mp hdec
    constructor
    · rw [radians_eq]; nlinarith
    · rw [radians_eq]; nlinarith
  constructor
  · intro ⟨h0, h1⟩
    obtain ⟨_, _, hE⟩ := sun_horizontal lat dec ha hdec.le ⟨by linarith, h1.le⟩ hnd
    have hsH : 0 < Real.sin (radians ha) := by
      apply Real.sin_pos_of_pos_of_lt_pi
      · rw [radians_eq]; positivity
      · rw [radians_eq]
        have : ha * (π / 180) < 180 * (π / 180) := mul_lt_mul_of_pos_right h1 (by positivity)
        have e : (180 : ℝ) * (π / 180) = π := by field_simp
        linarith
    have hneg : Real.sin (radians (zenithAzimuthOf lat dec ha).2) < 0 := by
      have hy : hy (radians dec) (radians ha) < 0 := by unfold hy; nlinarith
      by_contra hc
      push Not at hc
      have := mul_nonneg hzpos.le hc
      linarith
    exact west_of_sin_neg _ rng.2.2.1 rng.2.2.2 hneg
  · intro ⟨h0, h1⟩
    obtain ⟨_, _, hE⟩ := sun_horizontal lat dec ha hdec.le ⟨h0.le, by linarith⟩ hnd
    have hsH : Real.sin (radians ha) < 0 := by
      apply Real.sin_neg_of_neg_of_neg_pi_lt
      · rw [radians_eq]; exact mul_neg_of_neg_of_pos h1 (by positivity)
      · rw [radians_eq]
        have : -180 * (π / 180) < ha * (π / 180) := mul_lt_mul_of_pos_right h0 (by positivity)
        have e : (-180 : ℝ) * (π / 180) = -π := by field_simp
        linarith
    have hpos : 0 < Real.sin (radians (zenithAzimuthOf lat dec ha).2) := by
      have hy : 0 < hy (radians dec) (radians ha) := by unfold hy; nlinarith
      by_contra hc
      push Not at hc
      have := mul_nonpos_of_nonneg_of_nonpos hzpos.le hc
      linarith
    exact east_of_sin_pos _ rng.2.2.1 rng.2.2.2 hpos

end Astral.C02Horiz
