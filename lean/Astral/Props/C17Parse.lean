import Astral.Model.Geocoder
import Mathlib.Tactic
/-
  C17 — the text front end of the geocoder: `str.split` as modelled is the exact inverse of
  joining with the separator, blank lines and `#` comments add nothing, and a well-formed line
  `name,region,zone,lat,lon` adds exactly the record with those fields (coordinates through
  `dms_to_float` with limits 90 / 180).  Every statement is for arbitrary strings.
-/
set_option linter.unusedSectionVars false
namespace Astral.C17Parse
open Astral

/-- `sep.join(pieces)` -/
def joinWith (sep : Nat) : List Str → Str
  | [] => []
  | [p] => p
  | p :: q :: r => p ++ sep :: joinWith sep (q :: r)

theorem split_ne_nil (sep : Nat) (s : Str) : splitOnChar sep s ≠ [] := by
  induction s with
  | nil => simp [splitOnChar]
  | cons c s ih =>
    unfold splitOnChar
    split_ifs
    · simp
    · split <;> simp

theorem joinWith_cons_head (sep c : Nat) (p : Str) (ps : List Str) :
    joinWith sep ((c :: p) :: ps) = c :: joinWith sep (p :: ps) := by
  cases ps with
  | nil => rfl
  | cons q r => rfl

/-- **join ∘ split = id**: nothing is lost or invented by splitting -/
theorem join_split (sep : Nat) (s : Str) : joinWith sep (splitOnChar sep s) = s := by
  induction s with
  | nil => rfl
  | cons c s ih =>
    unfold splitOnChar
    split_ifs with h
    · rcases hs : splitOnChar sep s with _ | ⟨q, r⟩
      · exact absurd hs (split_ne_nil sep s)
      · rw [hs] at ih
        show ([] : Str) ++ sep :: joinWith sep (q :: r) = c :: s
        rw [ih, h]; rfl
    · rcases hs : splitOnChar sep s with _ | ⟨q, r⟩
      · exact absurd hs (split_ne_nil sep s)
      · rw [hs] at ih
        simp only
        rw [joinWith_cons_head, ih]

/-- no piece contains the separator -/
theorem split_pieces_free (sep : Nat) (s : Str) : ∀ p ∈ splitOnChar sep s, sep ∉ p := by
  induction s with
  | nil => intro p hp; simp [splitOnChar] at hp; subst hp; simp
  | cons c s ih =>
    unfold splitOnChar
    split_ifs with h
    · intro p hp
      rcases List.mem_cons.mp hp with rfl | hp
      · simp
      · exact ih p hp
    · rcases hs : splitOnChar sep s with _ | ⟨q, r⟩
      · exact absurd hs (split_ne_nil sep s)
      · rw [hs] at ih
        simp only
        intro p hp
        rcases List.mem_cons.mp hp with rfl | hp
        · intro hm
          rcases List.mem_cons.mp hm with e | hm
          · exact h e.symm
          · exact ih q (by simp) hm
        · exact ih p (by simp [hp])

theorem split_piece_append (sep : Nat) (p : Str) (hp : sep ∉ p) (rest : Str) :
    splitOnChar sep (p ++ sep :: rest) = p :: splitOnChar sep rest := by
  induction p with
  | nil => simp [splitOnChar]
  | cons c p ih =>
    have hc : c ≠ sep := by intro e; apply hp; simp [e]
    have hp' : sep ∉ p := by intro m; apply hp; simp [m]
    show splitOnChar sep (c :: (p ++ sep :: rest)) = _
    rw [splitOnChar, if_neg hc, ih hp']

theorem split_free (sep : Nat) (p : Str) (hp : sep ∉ p) : splitOnChar sep p = [p] := by
  induction p with
  | nil => rfl
  | cons c p ih =>
    have hc : c ≠ sep := by intro e; apply hp; simp [e]
    have hp' : sep ∉ p := by intro m; apply hp; simp [m]
    rw [splitOnChar, if_neg hc, ih hp']

/-- **split ∘ join = id** on separator-free pieces (at least one piece) -/
theorem split_join (sep : Nat) (ps : List Str) (hne : ps ≠ []) (hfree : ∀ p ∈ ps, sep ∉ p) :
    splitOnChar sep (joinWith sep ps) = ps := by
  induction ps with
  | nil => exact absurd rfl hne
  | cons p r ih =>
    cases r with
    | nil => exact split_free sep p (hfree p (by simp))
    | cons q r =>
      show splitOnChar sep (p ++ sep :: joinWith sep (q :: r)) = _
      rw [split_piece_append sep p (hfree p (by simp)), ih (by simp) (fun x hx => hfree x (by simp [hx]))]

section
variable {α : Type} [Add α] [Sub α] [Mul α] [Div α] [Neg α] [LT α] [LE α] [OfScientific α]
  [Trig α] [DecidableRel (α := α) (· < ·)] [DecidableRel (α := α) (· ≤ ·)]

/-- blank lines add nothing -/
theorem blank_line_skipped (db : Db α) (line : Str) (rest : List Str) (h : stripWs line = []) :
    addLines db (line :: rest) = addLines db rest := by
  rw [addLines]
  simp only [h]

/-- `#` comment lines add nothing -/
theorem comment_line_skipped (db : Db α) (line : Str) (rest : List Str) (tail : Str)
    (h : stripWs line = 35 :: tail) : addLines db (line :: rest) = addLines db rest := by
  rw [addLines]
  simp only [h, if_true]

/-- five (or more) fields make the record of the first five, coordinates through
    `dms_to_float` with limits 90 and 180 -/
theorem fields_record (n r t la lo : Str) (more : List Str) (x y : α)
    (hx : dmsToFloat (.str la) (some (90.0 : α)) = .ok x)
    (hy : dmsToFloat (.str lo) (some (180.0 : α)) = .ok y) :
    recFromFields (α := α) (n :: r :: t :: la :: lo :: more) = .ok ⟨n, r, t, x, y⟩ := by
  unfold recFromFields
  simp only [hx, hy, bind, Except.bind, pure, Except.pure]

/-- fewer than five fields: IndexError (nothing is added) -/
theorem too_few_fields (fs : List Str) (h : fs.length < 4) :
    recFromFields (α := α) fs = .error .indexError := by
  unfold recFromFields
  rcases fs with _ | ⟨a, _ | ⟨b, _ | ⟨c, _ | ⟨d, e⟩⟩⟩⟩ <;> simp at h ⊢ <;> omega

/-- **a well-formed line adds exactly its record**: the text `name,region,zone,lat,lon`
    (comma-free fields, no surrounding white space, not a comment) followed by other lines -/
theorem line_adds_record (db : Db α) (n r t la lo : Str) (rest : List Str) (x y : α)
    (hfree : ∀ p ∈ [n, r, t, la, lo], (44 : Nat) ∉ p)
    (hstrip : stripWs (joinWith 44 [n, r, t, la, lo]) = joinWith 44 [n, r, t, la, lo])
    (hnc : ∀ tail, joinWith 44 [n, r, t, la, lo] ≠ 35 :: tail)
    (hne : joinWith 44 [n, r, t, la, lo] ≠ [])
    (hx : dmsToFloat (.str la) (some (90.0 : α)) = .ok x)
    (hy : dmsToFloat (.str lo) (some (180.0 : α)) = .ok y) :
    addLines db (joinWith 44 [n, r, t, la, lo] :: rest) = addLines (addRec db ⟨n, r, t, x, y⟩) rest := by
  rw [addLines]
  simp only [hstrip]
  rcases hl : joinWith 44 [n, r, t, la, lo] with _ | ⟨c, tl⟩
  · exact absurd hl hne
  · have hc : c ≠ 35 := by
      intro e; exact hnc tl (by rw [hl, e])
    simp only [if_neg hc]
    rw [← hl, split_join 44 [n, r, t, la, lo] (by simp) hfree, fields_record n r t la lo [] x y hx hy]

end

/-- non-vacuity: a concrete line splits into its five fields -/
example : splitOnChar 44 [76, 44, 69, 44, 85, 44, 53, 49, 44, 48] = [[76], [69], [85], [53, 49], [48]] := by
  decide

end Astral.C17Parse
