import Astral.Props.EoT
/-
  C05 support (exact reals): **the equation of time changes by at most 0.53 minutes from one day
  to the next** (|T| ≤ 1.01, i.e. 1899 … 2101, step exactly 1/36525 century).

  With the carry/date-roll theorems this is what makes "consecutive solar midnights are 24 h
  apart to within 34 s", hence "midnight is within 12 h 0 min 34 s of 00:00 of the requested
  date in the requested zone" (C05Noon.midnight_nearest_tight).

  Proof: every sine/cosine of the series moves by at most its argument's increment
  (`|sin a − sin b| ≤ |a − b|`), the mean longitude and anomaly advance by 0.9856°…0.9857°, the
  eccentricity by < 2·10⁻⁹ and y = tan²(ε/2) by < 2·10⁻⁸ (tan a − tan b = sin(a − b)/(cos a cos b)),
  and |a'b' − ab| ≤ |a|·|b' − b| + |b'|·|a' − a| term by term.
-/
namespace Astral.EoTStep
open Astral Real Astral.EoT

/-- |a'b' − ab| ≤ A·db + B·da -/
theorem mul_step {a a' b b' A B da db : ℝ} (ha : |a| ≤ A) (hb : |b'| ≤ B)
    (hda : |a' - a| ≤ da) (hdb : |b' - b| ≤ db) : |a' * b' - a * b| ≤ A * db + B * da := by
  have e : a' * b' - a * b = a * (b' - b) + b' * (a' - a) := by ring
  rw [e]
  refine le_trans (abs_add_le _ _) ?_
  have h1 := abs_mul_le' ha hdb
  have h2 := abs_mul_le' hb hda
  linarith

/-! ### The unreduced arguments -/

noncomputable def Lp (jc : ℝ) : ℝ := 280.46646 + jc * (36000.76983 + 0.0003032 * jc)

theorem geomMeanLong_eq (jc : ℝ) :
    ∃ k : ℤ, geomMeanLongSun jc = Lp jc - 360 * (k : ℝ) := by
  unfold geomMeanLongSun Lp
  simp only
  refine ⟨⌊(280.46646 + jc * (36000.76983 + 0.0003032 * jc)) / 360⌋, ?_⟩
  rw [trig_pymod]; norm_num

theorem radians_turns (x : ℝ) (k : ℤ) (c : ℕ) :
    (c : ℝ) * radians (x - 360 * (k : ℝ)) = (c : ℝ) * radians x - ((c * k : ℤ) : ℝ) * (2 * π) := by
  rw [radians_eq, radians_eq]; push_cast; ring

theorem sin_mult_long (jc : ℝ) (c : ℕ) :
    Real.sin ((c : ℝ) * radians (geomMeanLongSun jc)) = Real.sin ((c : ℝ) * radians (Lp jc)) := by
  obtain ⟨k, hk⟩ := geomMeanLong_eq jc
  rw [hk, radians_turns, Real.sin_sub_int_mul_two_pi]

theorem cos_mult_long (jc : ℝ) (c : ℕ) :
    Real.cos ((c : ℝ) * radians (geomMeanLongSun jc)) = Real.cos ((c : ℝ) * radians (Lp jc)) := by
  obtain ⟨k, hk⟩ := geomMeanLong_eq jc
  rw [hk, radians_turns, Real.cos_sub_int_mul_two_pi]

/-- the series in plain numerals, with the mean longitude unreduced -/
noncomputable def Eser (jc : ℝ) : ℝ :=
  varY jc * Real.sin (2 * radians (Lp jc))
    - 2 * eccentricLocationEarthOrbit jc * Real.sin (radians (geomMeanAnomalySun jc))
    + 4 * eccentricLocationEarthOrbit jc * varY jc * Real.sin (radians (geomMeanAnomalySun jc))
        * Real.cos (2 * radians (Lp jc))
    - 1 / 2 * varY jc * varY jc * Real.sin (4 * radians (Lp jc))
    - 5 / 4 * eccentricLocationEarthOrbit jc * eccentricLocationEarthOrbit jc
        * Real.sin (2 * radians (geomMeanAnomalySun jc))

theorem eqOfTime_eq (jc : ℝ) : eqOfTime jc = Eser jc * (720 / π) := by
  unfold eqOfTime Eser
  simp only [trig_sin, trig_cos]
  have e2 : (2.0 : ℝ) = ((2 : ℕ) : ℝ) := by norm_num
  have e4 : (4.0 : ℝ) = ((4 : ℕ) : ℝ) := by norm_num
  have e05 : (0.5 : ℝ) = 1 / 2 := by norm_num
  have e125 : (1.25 : ℝ) = 5 / 4 := by norm_num
  rw [degrees_eq, e05, e125]
  have s2 : Real.sin (2.0 * radians (geomMeanLongSun jc)) = Real.sin (2 * radians (Lp jc)) := by
    rw [e2, sin_mult_long]; norm_num
  have c2 : Real.cos (2.0 * radians (geomMeanLongSun jc)) = Real.cos (2 * radians (Lp jc)) := by
    rw [e2, cos_mult_long]; norm_num
  have s4 : Real.sin (4.0 * radians (geomMeanLongSun jc)) = Real.sin (4 * radians (Lp jc)) := by
    rw [e4, sin_mult_long]; norm_num
  have sm2 : Real.sin (2.0 * radians (geomMeanAnomalySun jc)) = Real.sin (2 * radians (geomMeanAnomalySun jc)) := by
    norm_num
  rw [s2, c2, s4, sm2]
  have t2 : (2.0 : ℝ) = 2 := by norm_num
  have t4 : (4.0 : ℝ) = 4 := by norm_num
  rw [t2, t4]
  ring

/-! ### One day's increments -/

/-- the step: exactly one day in Julian centuries -/
noncomputable def δ : ℝ := 1 / 36525

theorem long_step (jc : ℝ) (h : |jc| ≤ 101 / 100) :
    9856 / 10000 ≤ Lp (jc + δ) - Lp jc ∧ Lp (jc + δ) - Lp jc ≤ 9857 / 10000 := by
  have e : Lp (jc + δ) - Lp jc = δ * (36000.76983 + 0.0003032 * (2 * jc + δ)) := by
    unfold Lp; ring
  rw [abs_le] at h
  rw [e]; unfold δ
  constructor <;> norm_num <;> linarith [h.1, h.2]

theorem anom_step (jc : ℝ) (h : |jc| ≤ 101 / 100) :
    9855 / 10000 ≤ geomMeanAnomalySun (jc + δ) - geomMeanAnomalySun jc
    ∧ geomMeanAnomalySun (jc + δ) - geomMeanAnomalySun jc ≤ 9857 / 10000 := by
  have e : geomMeanAnomalySun (jc + δ) - geomMeanAnomalySun jc
      = δ * (35999.05029 - 0.0001537 * (2 * jc + δ)) := by
    unfold geomMeanAnomalySun; ring
  rw [abs_le] at h
  rw [e]; unfold δ
  constructor <;> norm_num <;> linarith [h.1, h.2]

theorem ecc_step (jc : ℝ) (h : |jc| ≤ 101 / 100) :
    |eccentricLocationEarthOrbit (jc + δ) - eccentricLocationEarthOrbit jc| ≤ 2 / 1000000000 := by
  have e : eccentricLocationEarthOrbit (jc + δ) - eccentricLocationEarthOrbit jc
      = -(δ * (0.000042037 + 0.0000001267 * (2 * jc + δ))) := by
    unfold eccentricLocationEarthOrbit; ring
  rw [abs_le] at h
  rw [e, abs_neg, abs_le]; unfold δ
  constructor <;> norm_num <;> linarith [h.1, h.2]

/-- the corrected obliquity moves by less than 3·10⁻⁶ degrees per day -/
theorem obliq_step (jc : ℝ) (h : |jc| ≤ 101 / 100) (h' : |jc + δ| ≤ 101 / 100) :
    |obliquityCorrection (jc + δ) - obliquityCorrection jc| ≤ 3 / 1000000 := by
  unfold obliquityCorrection meanObliquityOfEcliptic
  simp only [trig_cos]
  -- the cubic in the arc-seconds term
  set P : ℝ → ℝ := fun x => x * (46.815 + x * (0.00059 - x * 0.001813)) with hP
  have hb := abs_le.mp h
  have hb' := abs_le.mp h'
  have dpos : (0 : ℝ) < δ := by unfold δ; norm_num
  have dval : δ ≤ 274 / 10000000 := by unfold δ; norm_num
  have hPd : |P (jc + δ) - P jc| ≤ δ * 47 := by
    have e : P (jc + δ) - P jc
        = δ * (46.815 + 0.00059 * (2 * jc + δ) - 0.001813 * ((jc + δ) ^ 2 + (jc + δ) * jc + jc ^ 2)) := by
      simp only [hP]; ring
    rw [e, abs_mul, abs_of_pos dpos]
    apply mul_le_mul_of_nonneg_left _ dpos.le
    have q1 : (jc + δ) ^ 2 ≤ 1.0201 := by nlinarith [hb'.1, hb'.2]
    have q2 : jc ^ 2 ≤ 1.0201 := by nlinarith [hb.1, hb.2]
    have q3 : |(jc + δ) * jc| ≤ 101 / 100 * (101 / 100) := abs_mul_le' h' h
    rw [abs_le] at q3
    rw [abs_le]
    constructor <;> nlinarith [sq_nonneg (jc + δ), sq_nonneg jc, q3.1, q3.2, hb.1, hb.2]
  have hc : |Real.cos (radians (125.04 - 1934.136 * (jc + δ))) - Real.cos (radians (125.04 - 1934.136 * jc))|
      ≤ 93 / 100000 := by
    refine le_trans (Real.abs_cos_sub_cos_le _ _) ?_
    have e : radians (125.04 - 1934.136 * (jc + δ)) - radians (125.04 - 1934.136 * jc)
        = -(1934.136 * δ * (π / 180)) := by
      rw [radians_eq, radians_eq]; ring
    rw [e, abs_neg, abs_of_nonneg (by positivity)]
    have p1 := Real.pi_lt_d4
    norm_num at p1
    unfold δ
    have : (1934.136 : ℝ) * (1 / 36525) * (π / 180) = 1934.136 / (36525 * 180) * π := by ring
    rw [this]
    have : (1934.136 : ℝ) / (36525 * 180) * π ≤ 1934.136 / (36525 * 180) * (3927 / 1250) :=
      mul_le_mul_of_nonneg_left p1.le (by norm_num)
    have k : (1934.136 : ℝ) / (36525 * 180) * (3927 / 1250) ≤ 93 / 100000 := by norm_num
    norm_num at this k ⊢
    linarith
  rw [abs_le] at hPd hc ⊢
  have e : (23.0 + (26.0 + (21.448 - (jc + δ) * (46.815 + (jc + δ) * (0.00059 - (jc + δ) * 0.001813))) / 60.0) / 60.0
        + 0.00256 * Real.cos (radians (125.04 - 1934.136 * (jc + δ))))
      - (23.0 + (26.0 + (21.448 - jc * (46.815 + jc * (0.00059 - jc * 0.001813))) / 60.0) / 60.0
        + 0.00256 * Real.cos (radians (125.04 - 1934.136 * jc)))
      = -(P (jc + δ) - P jc) / 3600
        + 256 / 100000 * (Real.cos (radians (125.04 - 1934.136 * (jc + δ)))
            - Real.cos (radians (125.04 - 1934.136 * jc))) := by
    simp only [hP]; norm_num; ring
  rw [e]
  constructor <;> nlinarith [hPd.1, hPd.2, hc.1, hc.2, dval, dpos]

/-- tan a − tan b = sin(a − b) / (cos a · cos b) -/
theorem tan_sub_tan {a b : ℝ} (ha : Real.cos a ≠ 0) (hb : Real.cos b ≠ 0) :
    Real.tan a - Real.tan b = Real.sin (a - b) / (Real.cos a * Real.cos b) := by
  rw [Real.tan_eq_sin_div_cos, Real.tan_eq_sin_div_cos, Real.sin_sub]
  field_simp

theorem cos_small {x : ℝ} (h0 : 0 ≤ x) (h1 : x ≤ 20473 / 100000) : 979 / 1000 ≤ Real.cos x := by
  have hc := Real.one_sub_sq_div_two_le_cos (x := x)
  have hx2 : x ^ 2 ≤ (20473 / 100000) ^ 2 := by nlinarith
  nlinarith

theorem half_obliq_range (jc : ℝ) (h : |jc| ≤ 101 / 100) :
    0 ≤ radians (obliquityCorrection jc) / 2.0 ∧ radians (obliquityCorrection jc) / 2.0 ≤ 20473 / 100000 := by
  obtain ⟨o1, o2⟩ := obliq_bound jc h
  constructor
  · rw [radians_eq]; norm_num
    have := Real.pi_pos
    nlinarith
  · rw [radians_eq]; norm_num
    have p1 := Real.pi_lt_d4
    have p0 := Real.pi_pos
    norm_num at p1
    nlinarith

/-- y = tan²(ε/2) moves by less than 2·10⁻⁸ per day -/
theorem varY_step (jc : ℝ) (h : |jc| ≤ 101 / 100) (h' : |jc + δ| ≤ 101 / 100) :
    |varY (jc + δ) - varY jc| ≤ 2 / 100000000 := by
  unfold varY
  simp only [trig_tan]
  set a := radians (obliquityCorrection (jc + δ)) / 2.0 with ha
  set b := radians (obliquityCorrection jc) / 2.0 with hb
  obtain ⟨a0, a1⟩ := half_obliq_range (jc + δ) h'
  obtain ⟨b0, b1⟩ := half_obliq_range jc h
  rw [← ha] at a0 a1
  rw [← hb] at b0 b1
  have ca := cos_small a0 a1
  have cb := cos_small b0 b1
  have ta := tan_small a0 a1
  have tb := tan_small b0 b1
  have hab : |a - b| ≤ 27 / 1000000000 := by
    have e : a - b = (obliquityCorrection (jc + δ) - obliquityCorrection jc) * (π / 360) := by
      rw [ha, hb, radians_eq, radians_eq]; norm_num; ring
    rw [e, abs_mul, abs_of_nonneg (by positivity : (0 : ℝ) ≤ π / 360)]
    have p1 := Real.pi_lt_d4
    norm_num at p1
    have k : π / 360 ≤ 873 / 100000 := by rw [div_le_iff₀ (by norm_num)]; linarith
    calc |obliquityCorrection (jc + δ) - obliquityCorrection jc| * (π / 360)
          ≤ (3 / 1000000) * (873 / 100000) :=
            mul_le_mul (obliq_step jc h h') k (by positivity) (by norm_num)
      _ ≤ 27 / 1000000000 := by norm_num
  have htan : |Real.tan a - Real.tan b| ≤ 29 / 1000000000 := by
    rw [tan_sub_tan (by linarith) (by linarith), abs_div]
    have hs : |Real.sin (a - b)| ≤ |a - b| := by
      have := Real.abs_sin_sub_sin_le (a - b) 0
      simpa using this
    have hcc : (958 / 1000 : ℝ) ≤ |Real.cos a * Real.cos b| := by
      rw [abs_of_nonneg (by nlinarith)]; nlinarith
    rw [div_le_iff₀ (by linarith)]
    nlinarith [abs_nonneg (Real.sin (a - b)), abs_nonneg (a - b)]
  have e : Real.tan a * Real.tan a - Real.tan b * Real.tan b
      = (Real.tan a - Real.tan b) * (Real.tan a + Real.tan b) := by ring
  rw [e, abs_mul]
  have hsum : |Real.tan a + Real.tan b| ≤ 42 / 100 := by
    rw [abs_of_nonneg (by linarith [ta.1, tb.1])]; linarith [ta.2, tb.2]
  calc |Real.tan a - Real.tan b| * |Real.tan a + Real.tan b| ≤ (29 / 1000000000) * (42 / 100) :=
        mul_le_mul htan hsum (abs_nonneg _) (by norm_num)
    _ ≤ 2 / 100000000 := by norm_num

/-! ### The series -/

theorem sin_arg_step (c : ℝ) (x x' lo hi : ℝ) (hc : 0 ≤ c) (h : lo ≤ x' - x ∧ x' - x ≤ hi) (hlo : 0 ≤ lo) :
    |Real.sin (c * radians x') - Real.sin (c * radians x)| ≤ c * hi * (17454 / 1000000)
    ∧ |Real.cos (c * radians x') - Real.cos (c * radians x)| ≤ c * hi * (17454 / 1000000) := by
  have p1 := Real.pi_lt_d4
  norm_num at p1
  have k : π / 180 ≤ 17454 / 1000000 := by rw [div_le_iff₀ (by norm_num)]; linarith
  have kpos : 0 ≤ π / 180 := by positivity
  have e : c * radians x' - c * radians x = c * (x' - x) * (π / 180) := by
    rw [radians_eq, radians_eq]; ring
  have hd : |c * radians x' - c * radians x| ≤ c * hi * (17454 / 1000000) := by
    rw [e, abs_mul, abs_of_nonneg kpos, abs_of_nonneg (mul_nonneg hc (by linarith))]
    exact mul_le_mul (mul_le_mul_of_nonneg_left h.2 hc) k kpos (mul_nonneg hc (by linarith))
  exact ⟨le_trans (Real.abs_sin_sub_sin_le _ _) hd, le_trans (Real.abs_cos_sub_cos_le _ _) hd⟩

/-- **one day's change of the equation of time is at most 0.53 minutes** -/
theorem eqOfTime_step (jc : ℝ) (h : |jc| ≤ 101 / 100) (h' : |jc + δ| ≤ 101 / 100) :
    |eqOfTime (jc + δ) - eqOfTime jc| ≤ 53 / 100 := by
  rw [eqOfTime_eq, eqOfTime_eq]
  have hy := varY_bound jc h
  have hy' := varY_bound (jc + δ) h'
  have he := ecc_bound jc h
  have he' := ecc_bound (jc + δ) h'
  have dy := varY_step jc h h'
  have de := ecc_step jc h
  have L := long_step jc h
  have M := anom_step jc h
  -- abbreviations
  set y := varY jc
  set y' := varY (jc + δ)
  set e := eccentricLocationEarthOrbit jc
  set e' := eccentricLocationEarthOrbit (jc + δ)
  have ay : |y| ≤ 43732 / 1000000 := by rw [abs_of_nonneg hy.1]; exact hy.2
  have ay' : |y'| ≤ 43732 / 1000000 := by rw [abs_of_nonneg hy'.1]; exact hy'.2
  have ae : |e| ≤ 1676 / 100000 := by rw [abs_of_nonneg (by linarith [he.1])]; exact he.2
  have ae' : |e'| ≤ 1676 / 100000 := by rw [abs_of_nonneg (by linarith [he'.1])]; exact he'.2
  -- the five trigonometric factors
  obtain ⟨S1, C1⟩ := sin_arg_step 2 (Lp jc) (Lp (jc + δ)) _ _ (by norm_num) L (by norm_num)
  obtain ⟨S4, _⟩ := sin_arg_step 4 (Lp jc) (Lp (jc + δ)) _ _ (by norm_num) L (by norm_num)
  obtain ⟨S2, _⟩ := sin_arg_step 1 (geomMeanAnomalySun jc) (geomMeanAnomalySun (jc + δ)) _ _ (by norm_num) M
    (by norm_num)
  obtain ⟨S5, _⟩ := sin_arg_step 2 (geomMeanAnomalySun jc) (geomMeanAnomalySun (jc + δ)) _ _ (by norm_num) M
    (by norm_num)
  simp only [one_mul] at S2
  set s1 := Real.sin (2 * radians (Lp jc))
  set s1' := Real.sin (2 * radians (Lp (jc + δ)))
  set c1 := Real.cos (2 * radians (Lp jc))
  set c1' := Real.cos (2 * radians (Lp (jc + δ)))
  set s4 := Real.sin (4 * radians (Lp jc))
  set s4' := Real.sin (4 * radians (Lp (jc + δ)))
  set s2 := Real.sin (radians (geomMeanAnomalySun jc))
  set s2' := Real.sin (radians (geomMeanAnomalySun (jc + δ)))
  set s5 := Real.sin (2 * radians (geomMeanAnomalySun jc))
  set s5' := Real.sin (2 * radians (geomMeanAnomalySun (jc + δ)))
  have b1 : |s1'| ≤ 1 := Real.abs_sin_le_one _
  have b2 : |s2| ≤ 1 := Real.abs_sin_le_one _
  have b2' : |s2'| ≤ 1 := Real.abs_sin_le_one _
  have bc' : |c1'| ≤ 1 := Real.abs_cos_le_one _
  have b4' : |s4'| ≤ 1 := Real.abs_sin_le_one _
  have b5' : |s5'| ≤ 1 := Real.abs_sin_le_one _
  -- products
  have T1 := mul_step ay b1 dy S1                                  -- y s1
  have T2 := mul_step ae b2' de S2                                 -- e s2
  have U := mul_step ae ay' de dy                                  -- e y
  have W := mul_step b2 bc' S2 C1                                  -- s2 c1
  have aU : |e * y| ≤ 1676 / 100000 * (43732 / 1000000) := abs_mul_le' ae ay
  have aW' : |s2' * c1'| ≤ 1 := by simpa using abs_mul_le' b2' bc'
  have T3 := mul_step aU aW' U W                                   -- (e y)(s2 c1)
  have V := mul_step ay ay' dy dy                                  -- y y
  have aV : |y * y| ≤ 43732 / 1000000 * (43732 / 1000000) := abs_mul_le' ay ay
  have T4 := mul_step aV b4' V S4                                  -- (y y) s4
  have Q := mul_step ae ae' de de                                  -- e e
  have aQ : |e * e| ≤ 1676 / 100000 * (1676 / 100000) := abs_mul_le' ae ae
  have T5 := mul_step aQ b5' Q S5                                  -- (e e) s5
  have key : |Eser (jc + δ) - Eser jc| ≤ 2311 / 1000000 := by
    have ex : Eser (jc + δ) - Eser jc
        = (y' * s1' - y * s1) - 2 * (e' * s2' - e * s2) + 4 * (e' * y' * (s2' * c1') - e * y * (s2 * c1))
          - 1 / 2 * (y' * y' * s4' - y * y * s4) - 5 / 4 * (e' * e' * s5' - e * e * s5) := by
      unfold Eser; ring
    rw [ex]
    rw [abs_le] at T1 T2 T3 T4 T5 ⊢
    norm_num at T1 T2 T3 T4 T5 ⊢
    constructor <;> linarith [T1.1, T1.2, T2.1, T2.2, T3.1, T3.2, T4.1, T4.2, T5.1, T5.2]
  have ppos := Real.pi_pos
  have p0 := Real.pi_gt_d4
  norm_num at p0
  have e2 : Eser (jc + δ) * (720 / π) - Eser jc * (720 / π) = (Eser (jc + δ) - Eser jc) * (720 / π) := by ring
  rw [e2, abs_mul, abs_of_pos (div_pos (by norm_num) ppos)]
  have h720 : 720 / π ≤ 720 / (6283 / 2000) :=
    div_le_div_of_nonneg_left (by norm_num) (by norm_num) p0.le
  calc |Eser (jc + δ) - Eser jc| * (720 / π) ≤ 2311 / 1000000 * (720 / (6283 / 2000)) :=
        mul_le_mul key h720 (div_pos (by norm_num) ppos).le (by norm_num)
    _ ≤ 53 / 100 := by norm_num

end Astral.EoTStep
