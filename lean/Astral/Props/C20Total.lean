import Astral.Props.C05Noon
/-
  C20 (exact reals) — **what can escape from the sun event functions**: for every observer
  with longitude in [−180, 180] (float or tuple elevation), every date 0001-01-03 … 9999-12-28,
  every depression / elevation and every zone function,

    dawn, dusk, time_at_elevation   return an instant, or raise "never reaches", or
                                    "Unable to find … on the date specified";
    sunrise, sunset                 return an instant, or raise "always above" / "always below",
                                    or "Unable to find …".

  No raw "math domain error", no ZeroDivisionError, no OverflowError / out-of-range datetime
  field: the minutes computed by `time_of_transit` lie in [−23, 2183] (hour angle in [−180°,
  180°], equation of time within 22.5 min over the whole calendar), so the constructed instant
  stays inside year 1 … 9999.
-/
namespace Astral.C20Total
open Astral Real Astral.C03 Astral.EoT Astral.C05Noon

/-! ### The leaves -/

theorem acos?_cases (x : ℝ) :
    (∃ v, acos? x = .ok v ∧ 0 ≤ v ∧ v ≤ π) ∨ acos? x = .error .mathDomain := by
  unfold acos?
  split_ifs
  · exact Or.inl ⟨_, rfl, Real.arccos_nonneg x, Real.arccos_le_pi x⟩
  · exact Or.inr rfl

theorem hourAngle_cases (φ δ z : ℝ) (dir : Dir) :
    (∃ H, hourAngle φ δ z dir = .ok H ∧ -π ≤ H ∧ H ≤ π) ∨ hourAngle φ δ z dir = .error .mathDomain := by
  unfold hourAngle
  rcases acos?_cases (hourAngleArg φ δ z) with ⟨v, hv, v0, v1⟩ | h
  · left
    rw [hv]
    simp only [bind, Except.bind, pure, Except.pure]
    have := Real.pi_pos
    split_ifs
    · exact ⟨_, rfl, by linarith, by linarith⟩
    · exact ⟨_, rfl, by linarith, by linarith⟩
  · right
    rw [h]; rfl

/-- the dip / obscuring-feature adjustment never fails at exact reals -/
theorem elevationAdjustment_ok (e : Elev ℝ) : ∃ a, elevationAdjustment e = .ok a := by
  unfold elevationAdjustment
  rcases e with h | ⟨dh, dist⟩
  · simp only; split_ifs <;> exact ⟨_, rfl⟩
  · simp only
    unfold adjustToObscuringFeature
    by_cases h0 : ¬ (dh < 0.0) ∧ ¬ (0.0 < dh)
    · rw [if_pos h0]; exact ⟨_, rfl⟩
    · rw [if_neg h0]
      have hne : dh ≠ 0 := by
        intro e; apply h0; rw [e]; norm_num
      have hyp_pos : 0 < Real.sqrt (dh * dh + dist * dist) := by
        apply Real.sqrt_pos.mpr
        have := mul_self_pos.mpr hne
        nlinarith [mul_self_nonneg dist]
      have hd : div? (fabs dh) (Trig.hypot dh dist)
          = .ok (fabs dh / Real.sqrt (dh * dh + dist * dist)) := by
        unfold div?
        rw [trig_hypot, if_pos (Or.inr (by simpa using hyp_pos))]
      have fab : fabs dh = |dh| := by
        unfold fabs
        split_ifs with hneg
        · rw [abs_of_neg (by simpa using hneg)]
        · rw [abs_of_nonneg (by simpa using hneg)]
      have q0 : 0 ≤ |dh| / Real.sqrt (dh * dh + dist * dist) := div_nonneg (abs_nonneg _) hyp_pos.le
      have q1 : |dh| / Real.sqrt (dh * dh + dist * dist) ≤ 1 := by
        rw [div_le_one hyp_pos]
        apply Real.abs_le_sqrt
        nlinarith [mul_self_nonneg dist]
      have hac : acos? (fabs dh / Real.sqrt (dh * dh + dist * dist))
          = .ok (Real.arccos (|dh| / Real.sqrt (dh * dh + dist * dist))) := by
        unfold acos?
        rw [fab, if_pos ⟨by norm_num; linarith, by norm_num; linarith⟩]
        rfl
      simp only [hd, hac, bind, Except.bind, pure, Except.pure]
      exact ⟨_, rfl⟩

theorem effectiveZenith_ok (e : Elev ℝ) (z : ℝ) (wr : Bool) : ∃ a, effectiveZenith e z wr = .ok a := by
  unfold effectiveZenith
  obtain ⟨a, ha⟩ := elevationAdjustment_ok e
  rw [ha]
  exact ⟨_, rfl⟩

/-! ### One pass, two passes -/

/-- one pass: a math-domain error, or minutes in [−23, 2183] -/
theorem transitPass_cases (φ lon zen : ℝ) (dir : Dir) (jd adj : ℝ)
    (hlon : -180 ≤ lon ∧ lon ≤ 180) (hjc : |julianDayToCentury (jd + adj)| ≤ 81) :
    (∃ m, transitPass φ lon zen dir jd adj = .ok m ∧ -23 ≤ m ∧ m ≤ 2183)
    ∨ transitPass φ lon zen dir jd adj = .error .mathDomain := by
  unfold transitPass
  simp only
  rcases hourAngle_cases φ (sunDeclination (julianDayToCentury (jd + adj))) zen dir with ⟨H, hH, H0, H1⟩ | h
  · left
    rw [hH]
    simp only [bind, Except.bind, pure, Except.pure]
    have he := abs_le.mp (eqOfTime_bound_wide _ hjc)
    have pp := Real.pi_pos
    have dH : -180 ≤ degrees H ∧ degrees H ≤ 180 := by
      rw [degrees_eq]
      constructor
      · have : -π * (180 / π) ≤ H * (180 / π) :=
          mul_le_mul_of_nonneg_right H0 (by positivity)
        have e : -π * (180 / π) = -180 := by field_simp
        linarith
      · have : H * (180 / π) ≤ π * (180 / π) :=
          mul_le_mul_of_nonneg_right H1 (by positivity)
        have e : π * (180 / π) = 180 := by field_simp
        linarith
    refine ⟨_, rfl, ?_, ?_⟩
    · norm_num
      split_ifs with hw <;> linarith [dH.1, dH.2, he.1, he.2, hlon.1, hlon.2]
    · norm_num
      split_ifs with hw <;> linarith [dH.1, dH.2, he.1, he.2, hlon.1, hlon.2]
  · right
    rw [h]; rfl

theorem century_shift (d : Int) (hd : 1 ≤ d ∧ d ≤ 3652059) (adj : ℝ) (h0 : -1 ≤ adj) (h1 : adj ≤ 2) :
    |julianDayToCentury (α := ℝ) (julianDayDate d + adj)| ≤ 81 := by
  rw [C15Date.jd_date d (by omega)]
  unfold julianDayToCentury
  have a : (1 : ℝ) ≤ (d : ℝ) := by exact_mod_cast hd.1
  have b : (d : ℝ) ≤ 3652059 := by exact_mod_cast hd.2
  rw [abs_le]
  constructor
  · rw [le_div_iff₀ (by norm_num)]; norm_num; linarith
  · rw [div_le_iff₀ (by norm_num)]; norm_num; linarith

theorem bind_err {β γ : Type} {x : Except Err β} {f : β → Except Err γ} {e : Err}
    (h : (x >>= f) = .error e) : x = .error e ∨ ∃ a, x = .ok a ∧ f a = .error e := by
  cases x with
  | error e' => left; simpa [bind, Except.bind] using h
  | ok a => right; exact ⟨a, rfl, h⟩

theorem transitPass_ok {φ lon zen : ℝ} {dir : Dir} {jd adj m : ℝ}
    (hlon : -180 ≤ lon ∧ lon ≤ 180) (hjc : |julianDayToCentury (jd + adj)| ≤ 81)
    (h : transitPass φ lon zen dir jd adj = .ok m) : -23 ≤ m ∧ m ≤ 2183 := by
  rcases transitPass_cases φ lon zen dir jd adj hlon hjc with ⟨m', h', a, b⟩ | h'
  · rw [h'] at h; cases h; exact ⟨a, b⟩
  · rw [h'] at h; cases h

theorem transitPass_err {φ lon zen : ℝ} {dir : Dir} {jd adj : ℝ} {e : Err}
    (hlon : -180 ≤ lon ∧ lon ≤ 180) (hjc : |julianDayToCentury (jd + adj)| ≤ 81)
    (h : transitPass φ lon zen dir jd adj = .error e) : e = .mathDomain := by
  rcases transitPass_cases φ lon zen dir jd adj hlon hjc with ⟨m', h', a, b⟩ | h'
  · rw [h'] at h; cases h
  · rw [h'] at h; cases h; rfl

theorem transitMinutes_cases (obs : Obs ℝ) (d : Int) (zenith : ℝ) (dir : Dir) (wr : Bool)
    (hd : 1 ≤ d ∧ d ≤ 3652059) (hlon : -180 ≤ obs.lon ∧ obs.lon ≤ 180) :
    (∃ m, timeOfTransitMinutes obs d zenith dir wr = .ok m ∧ -23 ≤ m ∧ m ≤ 2183)
    ∨ timeOfTransitMinutes obs d zenith dir wr = .error .mathDomain := by
  have e1440 : (1440.0 : ℝ) = 1440 := by norm_num
  have c0 := century_shift d hd 0.0 (by norm_num) (by norm_num)
  have c1 : ∀ m1 : ℝ, -23 ≤ m1 → m1 ≤ 2183 →
      |julianDayToCentury (α := ℝ) (julianDayDate d + m1 / 1440.0)| ≤ 81 := by
    intro m1 a1 b1
    apply century_shift d hd
    · rw [e1440, le_div_iff₀ (by norm_num)]; linarith
    · rw [e1440, div_le_iff₀ (by norm_num)]; linarith
  obtain ⟨zen, hz⟩ := effectiveZenith_ok obs.elev zenith wr
  rcases hres : timeOfTransitMinutes obs d zenith dir wr with err | m
  · right
    unfold timeOfTransitMinutes at hres
    rw [hz] at hres
    have hres' : (transitPass (clampLatitude obs.lat) obs.lon zen dir (julianDayDate d) 0.0 >>= fun t1 =>
        transitPass (clampLatitude obs.lat) obs.lon zen dir (julianDayDate d) (t1 / 1440.0))
          = .error err := hres
    rcases bind_err hres' with h1 | ⟨m1, h1, h2⟩
    · rw [transitPass_err hlon c0 h1]
    · obtain ⟨a1, b1⟩ := transitPass_ok hlon c0 h1
      rw [transitPass_err hlon (c1 m1 a1 b1) h2]
  · left
    refine ⟨m, rfl, ?_⟩
    unfold timeOfTransitMinutes at hres
    rw [hz] at hres
    have hres' : (transitPass (clampLatitude obs.lat) obs.lon zen dir (julianDayDate d) 0.0 >>= fun t1 =>
        transitPass (clampLatitude obs.lat) obs.lon zen dir (julianDayDate d) (t1 / 1440.0))
          = .ok m := hres
    obtain ⟨m1, h1, h2⟩ := bind_ok hres'
    obtain ⟨a1, b1⟩ := transitPass_ok hlon c0 h1
    exact transitPass_ok hlon (c1 m1 a1 b1) h2

/-! ### minutes → µs, and the range check -/

theorem minutesToTimedelta_range (m : ℝ) (h0 : -23 ≤ m) (h1 : m ≤ 2183) :
    -usPerDay < minutesToTimedelta m ∧ minutesToTimedelta m < 2 * usPerDay := by
  have e1440 : (1440.0 : ℝ) = 1440 := by norm_num
  have e60 : (60.0 : ℝ) = 60 := by norm_num
  have e6 : (1000000.0 : ℝ) = 1000000 := by norm_num
  unfold minutesToTimedelta
  simp only [trig_ofInt, e1440, e60, e6]
  set dd := (Trig.trunc (m / 1440) : ℤ) with hdd
  set mm := (m - ((dd * 1440 : ℤ) : ℝ)) * 60 with hmm
  set s := (Trig.trunc mm : ℤ) with hs
  set us := (Trig.trunc ((mm - (s : ℝ)) * 1000000) : ℤ) with hus
  -- the day count is 0 or 1 (or 0 for the negative sliver) and the remainder stays on its side
  rcases le_total 0 m with p | p
  · have q0 : 0 ≤ m / 1440 := by positivity
    obtain ⟨a1, a2, a3⟩ := (trunc_facts (m / 1440)).1 q0
    rw [← hdd] at a1 a2 a3
    have dle : dd ≤ 1 := by
      have : (dd : ℝ) < 2 := by
        have : m / 1440 < 2 := by rw [div_lt_iff₀ (by norm_num)]; linarith
        linarith
      have : dd < 2 := by exact_mod_cast this
      omega
    have r0 : 0 ≤ mm := by
      rw [hmm]; push_cast
      have : (dd : ℝ) * 1440 ≤ m := by
        have := (le_div_iff₀ (by norm_num : (0 : ℝ) < 1440)).mp a1
        linarith
      nlinarith
    have r1 : mm < 86400 := by
      rw [hmm]; push_cast
      have : m < ((dd : ℝ) + 1) * 1440 := (div_lt_iff₀ (by norm_num : (0 : ℝ) < 1440)).mp a2
      nlinarith
    obtain ⟨b1, b2, b3⟩ := (trunc_facts mm).1 r0
    rw [← hs] at b1 b2 b3
    have sle : s ≤ 86399 := by
      have : (s : ℝ) < 86400 := lt_of_le_of_lt b1 r1
      have : s < 86400 := by exact_mod_cast this
      omega
    have f0 : 0 ≤ (mm - (s : ℝ)) * 1000000 := by nlinarith
    have f1 : (mm - (s : ℝ)) * 1000000 < 1000000 := by nlinarith
    obtain ⟨c1, c2, c3⟩ := (trunc_facts ((mm - (s : ℝ)) * 1000000)).1 f0
    rw [← hus] at c1 c2 c3
    have usle : us ≤ 999999 := by
      have : (us : ℝ) < 1000000 := lt_of_le_of_lt c1 f1
      have : us < 1000000 := by exact_mod_cast this
      omega
    unfold usPerDay usPerSec
    constructor <;> omega
  · have q0 : m / 1440 ≤ 0 := by
      rw [div_le_iff₀ (by norm_num)]; linarith
    obtain ⟨a1, a2, a3⟩ := (trunc_facts (m / 1440)).2 q0
    rw [← hdd] at a1 a2 a3
    have dge : 0 ≤ dd := by
      have : (-1 : ℝ) < (dd : ℝ) := by
        have : -1 < m / 1440 := by rw [lt_div_iff₀ (by norm_num)]; linarith
        linarith
      have : -1 < dd := by exact_mod_cast this
      omega
    have d0 : dd = 0 := by omega
    have r0 : mm ≤ 0 := by rw [hmm, d0]; push_cast; nlinarith
    have r1 : -1380 ≤ mm := by rw [hmm, d0]; push_cast; nlinarith
    obtain ⟨b1, b2, b3⟩ := (trunc_facts mm).2 r0
    rw [← hs] at b1 b2 b3
    have sge : -1380 ≤ s := by
      have : (-1381 : ℝ) < (s : ℝ) := by linarith
      have : -1381 < s := by exact_mod_cast this
      omega
    have f0 : (mm - (s : ℝ)) * 1000000 ≤ 0 := by nlinarith
    have f1 : -1000000 < (mm - (s : ℝ)) * 1000000 := by nlinarith
    obtain ⟨c1, c2, c3⟩ := (trunc_facts ((mm - (s : ℝ)) * 1000000)).2 f0
    rw [← hus] at c1 c2 c3
    have usge : -999999 ≤ us := by
      have : (-1000000 : ℝ) < (us : ℝ) := lt_of_lt_of_le f1 c1
      have : -1000000 < us := by exact_mod_cast this
      omega
    unfold usPerDay usPerSec
    rw [d0]
    constructor <;> omega

/-- `time_of_transit`: an instant, or a math-domain error — nothing else, for every date
    0001-01-02 … 9999-12-29 -/
theorem timeOfTransit_cases (obs : Obs ℝ) (d : Int) (zenith : ℝ) (dir : Dir) (wr : Bool)
    (hd : 2 ≤ d ∧ d ≤ 3652057) (hlon : -180 ≤ obs.lon ∧ obs.lon ≤ 180) :
    (∃ t, timeOfTransit obs d zenith dir wr = .ok t)
    ∨ timeOfTransit obs d zenith dir wr = .error .mathDomain := by
  unfold timeOfTransit
  rcases transitMinutes_cases obs d zenith dir wr ⟨by omega, by omega⟩ hlon with ⟨m, hm, a, b⟩ | h
  · left
    rw [hm]
    simp only [bind, Except.bind]
    obtain ⟨r0, r1⟩ := minutesToTimedelta_range m a b
    unfold checkInstant? dateStart minOrdinal maxOrdinal
    unfold usPerDay at *
    rw [if_pos ⟨by omega, by omega⟩]
    exact ⟨_, rfl⟩
  · right
    rw [h]; rfl

/-! ### The re-matching block and the handlers -/

theorem transit_err (obs : Obs ℝ) (k : Int) (zenith : ℝ) (dir : Dir) (wr : Bool) (e : Err)
    (hk : 2 ≤ k ∧ k ≤ 3652057) (hlon : -180 ≤ obs.lon ∧ obs.lon ≤ 180)
    (h : timeOfTransit obs k zenith dir wr = .error e) : e = .mathDomain := by
  rcases timeOfTransit_cases obs k zenith dir wr hk hlon with ⟨t, ht⟩ | hm
  · rw [ht] at h; cases h
  · rw [hm] at h; cases h; rfl

/-- outcomes of the date re-matching block over `time_of_transit` -/
theorem rematch_cases (obs : Obs ℝ) (d : Int) (zenith : ℝ) (dir : Dir) (wr : Bool) (z : Zone)
    (hd : 3 ≤ d ∧ d ≤ 3652056) (hlon : -180 ≤ obs.lon ∧ obs.lon ≤ 180) :
    (∃ t, rematch (fun k => timeOfTransit obs k zenith dir wr) z d = .ok t)
    ∨ rematch (fun k => timeOfTransit obs k zenith dir wr) z d = .error .mathDomain
    ∨ rematch (fun k => timeOfTransit obs k zenith dir wr) z d = .error .unableToFind := by
  rcases hres : rematch (fun k => timeOfTransit obs k zenith dir wr) z d with err | t
  · right
    have key : err = .mathDomain ∨ err = .unableToFind := by
      unfold rematch at hres
      rcases bind_err hres with h1 | ⟨t, _, h2⟩
      · exact Or.inl (transit_err obs d zenith dir wr err ⟨by omega, by omega⟩ hlon h1)
      · simp only at h2
        by_cases e : localDate z t = d
        · rw [if_pos e] at h2; cases h2
        · rw [if_neg e] at h2
          rcases bind_err h2 with h3 | ⟨nd, hnd, h4⟩
          · exfalso
            unfold dateAdd? minOrdinal maxOrdinal at h3
            simp only at h3
            split_ifs at h3 <;> omega
          · have hnd' := dateAdd_ok hnd
            have hr : 2 ≤ nd ∧ nd ≤ 3652057 := by
              split_ifs at hnd' <;> constructor <;> omega
            rcases bind_err h4 with h5 | ⟨t2, _, h6⟩
            · exact Or.inl (transit_err obs nd zenith dir wr err hr hlon h5)
            · split_ifs at h6
              · cases h6
              · cases h6; exact Or.inr rfl
    rcases key with rfl | rfl
    · exact Or.inl rfl
    · exact Or.inr rfl
  · exact Or.inl ⟨t, rfl⟩

/-- **C20: dawn** returns an instant or raises one of its two documented ValueErrors -/
theorem dawn_outcomes (obs : Obs ℝ) (d : Int) (dep : ℝ) (tz : TZ)
    (hd : 3 ≤ d ∧ d ≤ 3652056) (hlon : -180 ≤ obs.lon ∧ obs.lon ≤ 180) :
    (∃ t, dawn obs d dep tz = .ok t) ∨ dawn obs d dep tz = .error .neverReaches
    ∨ dawn obs d dep tz = .error .unableToFind := by
  unfold dawn onMathDomain
  rcases rematch_cases obs d (90.0 + dep) .rising true tz.utc hd hlon with ⟨t, h⟩ | h | h <;> rw [h]
  · exact Or.inl ⟨t, rfl⟩
  · exact Or.inr (Or.inl rfl)
  · exact Or.inr (Or.inr rfl)

theorem dusk_outcomes (obs : Obs ℝ) (d : Int) (dep : ℝ) (tz : TZ)
    (hd : 3 ≤ d ∧ d ≤ 3652056) (hlon : -180 ≤ obs.lon ∧ obs.lon ≤ 180) :
    (∃ t, dusk obs d dep tz = .ok t) ∨ dusk obs d dep tz = .error .neverReaches
    ∨ dusk obs d dep tz = .error .unableToFind := by
  unfold dusk onMathDomain
  rcases rematch_cases obs d (90.0 + dep) .setting true tz.utc hd hlon with ⟨t, h⟩ | h | h <;> rw [h]
  · exact Or.inl ⟨t, rfl⟩
  · exact Or.inr (Or.inl rfl)
  · exact Or.inr (Or.inr rfl)

theorem timeAtElevation_outcomes (obs : Obs ℝ) (el : ℝ) (d : Int) (dir : Dir) (tz : TZ) (wr : Bool)
    (hd : 3 ≤ d ∧ d ≤ 3652056) (hlon : -180 ≤ obs.lon ∧ obs.lon ≤ 180) :
    (∃ t, timeAtElevation obs el d dir tz wr = .ok t)
    ∨ timeAtElevation obs el d dir tz wr = .error .neverReaches
    ∨ timeAtElevation obs el d dir tz wr = .error .unableToFind := by
  unfold timeAtElevation onMathDomain
  simp only
  rcases rematch_cases obs d (90.0 - (if 90.0 < el then 180.0 - el else el))
    (if 90.0 < el then Dir.setting else dir) wr tz.utc hd hlon with ⟨t, h⟩ | h | h <;> rw [h]
  · exact Or.inl ⟨t, rfl⟩
  · exact Or.inr (Or.inl rfl)
  · exact Or.inr (Or.inr rfl)

/-- the handler of sunrise/sunset always raises one of the two "always" verdicts -/
theorem alwaysVerdict_outcomes (obs : Obs ℝ) (d : Int)
    (hd : 3 ≤ d ∧ d ≤ 3652057) (hlon : -180 ≤ obs.lon ∧ obs.lon ≤ 180) :
    alwaysVerdict obs d = .error .alwaysBelow ∨ alwaysVerdict obs d = .error .alwaysAbove := by
  unfold alwaysVerdict
  obtain ⟨n, hn⟩ := noon_total obs d TZ.UTC hd hlon
  obtain ⟨a, ha⟩ := elevationAdjustment_ok obs.elev
  rw [hn, ha]
  simp only [bind, Except.bind]
  split_ifs
  · exact Or.inl rfl
  · exact Or.inr rfl

/-- **C20: sunrise** returns an instant or raises one of its three documented ValueErrors -/
theorem sunrise_outcomes (obs : Obs ℝ) (d : Int) (tz : TZ)
    (hd : 3 ≤ d ∧ d ≤ 3652056) (hlon : -180 ≤ obs.lon ∧ obs.lon ≤ 180) :
    (∃ t, sunrise obs d tz = .ok t) ∨ sunrise obs d tz = .error .alwaysBelow
    ∨ sunrise obs d tz = .error .alwaysAbove ∨ sunrise obs d tz = .error .unableToFind := by
  unfold sunrise onMathDomain
  rcases rematch_cases obs d (90.0 + sunApparentRadius) .rising true tz.utc hd hlon with ⟨t, h⟩ | h | h <;> rw [h]
  · exact Or.inl ⟨t, rfl⟩
  · rcases alwaysVerdict_outcomes obs d ⟨by omega, by omega⟩ hlon with a | a
    · exact Or.inr (Or.inl a)
    · exact Or.inr (Or.inr (Or.inl a))
  · exact Or.inr (Or.inr (Or.inr rfl))

theorem sunset_outcomes (obs : Obs ℝ) (d : Int) (tz : TZ)
    (hd : 3 ≤ d ∧ d ≤ 3652056) (hlon : -180 ≤ obs.lon ∧ obs.lon ≤ 180) :
    (∃ t, sunset obs d tz = .ok t) ∨ sunset obs d tz = .error .alwaysBelow
    ∨ sunset obs d tz = .error .alwaysAbove ∨ sunset obs d tz = .error .unableToFind := by
  unfold sunset onMathDomain
  rcases rematch_cases obs d (90.0 + sunApparentRadius) .setting true tz.utc hd hlon with ⟨t, h⟩ | h | h <;> rw [h]
  · exact Or.inl ⟨t, rfl⟩
  · rcases alwaysVerdict_outcomes obs d ⟨by omega, by omega⟩ hlon with a | a
    · exact Or.inr (Or.inl a)
    · exact Or.inr (Or.inr (Or.inl a))
  · exact Or.inr (Or.inr (Or.inr rfl))

end Astral.C20Total
