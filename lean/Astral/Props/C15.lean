import Astral.Model.Julian
import Astral.Lemmas.Floor
/-
  C15 — Julian-day and time-unit conversions are exact and mutually inverse.
  All statements are about the model at α := ℝ (exact arithmetic).
-/
namespace Astral.C15
open Astral

/-- the shifted year/month Meeus uses -/
private theorem meeus_year_nonneg {y m : ℤ} (hy : 1 ≤ y) : 0 ≤ (if m ≤ 2 then y - 1 else y) := by
  split <;> omega

theorem trunc_365_25 (n : ℤ) (hn : 0 ≤ n) :
    Trig.trunc ((365.25 : ℝ) * (n : ℝ)) = 1461 * n / 4 := by
  have : (365.25 : ℝ) * (n : ℝ) = ((1461 * n : ℤ) : ℝ) / ((4 : ℤ) : ℝ) := by
    push_cast; ring
  rw [this, trunc_int_div _ _ (by positivity) (by norm_num)]

theorem trunc_30_6001 (n : ℤ) (hn : 0 ≤ n) :
    Trig.trunc ((30.6001 : ℝ) * (n : ℝ)) = 306001 * n / 10000 := by
  have : (30.6001 : ℝ) * (n : ℝ) = ((306001 * n : ℤ) : ℝ) / ((10000 : ℤ) : ℝ) := by
    push_cast; ring
  rw [this, trunc_int_div _ _ (by positivity) (by norm_num)]

theorem trunc_div_100 (n : ℤ) (hn : 0 ≤ n) : Trig.trunc ((n : ℝ) / 100.0) = n / 100 := by
  have : (n : ℝ) / 100.0 = (n : ℝ) / ((100 : ℤ) : ℝ) := by norm_num
  rw [this, trunc_int_div _ _ hn (by norm_num)]

theorem trunc_div_4 (n : ℤ) (hn : 0 ≤ n) : Trig.trunc ((n : ℝ) / 4.0) = n / 4 := by
  have : (n : ℝ) / 4.0 = (n : ℝ) / ((4 : ℤ) : ℝ) := by norm_num
  rw [this, trunc_int_div _ _ hn (by norm_num)]

/-- the integer part of the Meeus formula (Gregorian) -/
def meeusInt (y m d : ℤ) : ℤ :=
  let year := if m ≤ 2 then y - 1 else y
  let month := if m ≤ 2 then m + 12 else m
  let a := year / 100
  1461 * (year + 4716) / 4 + 306001 * (month + 1) / 10000 + d + (2 - a + a / 4)

theorem julianDayYMD_eq (y m d : ℤ) (hy : 1 ≤ y) (hm1 : 1 ≤ m) :
    julianDayYMD (α := ℝ) y m d none .gregorian = (meeusInt y m d : ℝ) - 1524.5 := by
  have hyn := meeus_year_nonneg (m := m) hy
  unfold julianDayYMD meeusInt
  simp only [trig_ofInt, sci_zero]
  have hmn : (0 : ℤ) ≤ (if m ≤ 2 then m + 12 else m) + 1 := by split <;> omega
  rw [trunc_365_25 _ (by omega), trunc_30_6001 _ hmn, trunc_div_100 _ hyn,
    trunc_div_4 _ (Int.ediv_nonneg hyn (by norm_num))]
  push_cast
  ring


theorem isLeap_iff (y : ℤ) : isLeap y = true ↔ (y % 4 = 0 ∧ (y % 100 ≠ 0 ∨ y % 400 = 0)) := by
  unfold isLeap
  simp [Bool.and_eq_true, Bool.or_eq_true, bne_iff_ne]

theorem div_100_div_4 (n : ℤ) : n / 100 / 4 = n / 400 := by
  rw [Int.ediv_ediv_of_nonneg (by norm_num)]; norm_num

theorem pred_div (y k : ℤ) (hk : 0 < k) :
    (y % k = 0 ∧ (y - 1) / k = y / k - 1) ∨ (y % k ≠ 0 ∧ (y - 1) / k = y / k) := by
  have h1 := Int.emod_add_mul_ediv y k
  have h2 := Int.emod_nonneg y hk.ne'
  have h3 := Int.emod_lt_of_pos y hk
  by_cases h0 : y % k = 0
  · left
    refine ⟨h0, ?_⟩
    have : y - 1 = (k - 1) + k * (y / k - 1) := by rw [h0] at h1; linarith
    rw [this, Int.add_mul_ediv_left _ _ hk.ne', Int.ediv_eq_zero_of_lt (by omega) (by omega)]
    ring
  · right
    refine ⟨h0, ?_⟩
    have : y - 1 = (y % k - 1) + k * (y / k) := by linarith
    rw [this, Int.add_mul_ediv_left _ _ hk.ne', Int.ediv_eq_zero_of_lt (by omega) (by omega)]
    ring

theorem meeus_year_term (n : ℤ) : 1461 * (n + 4716) / 4 = 365 * n + n / 4 + 1722519 := by omega

/-- leap days up to and including year `y` versus up to year `y - 1` -/
theorem leap_corr (y : ℤ) :
    (y - 1) / 4 - (y - 1) / 100 + (y - 1) / 400 + (if isLeap y = true then 1 else 0)
      = y / 4 - y / 100 + y / 400 := by
  have e1 : y % 100 % 4 = y % 4 := Int.emod_emod_of_dvd y (by norm_num)
  have e2 : y % 400 % 100 = y % 100 := Int.emod_emod_of_dvd y (by norm_num)
  rcases pred_div y 4 (by norm_num) with ⟨a4, b4⟩ | ⟨a4, b4⟩ <;>
  rcases pred_div y 100 (by norm_num) with ⟨a100, b100⟩ | ⟨a100, b100⟩ <;>
  rcases pred_div y 400 (by norm_num) with ⟨a400, b400⟩ | ⟨a400, b400⟩ <;>
  rw [b4, b100, b400]
  all_goals
    first
    | (exfalso; omega)
    | (have hl : isLeap y = true := (isLeap_iff y).mpr ⟨by omega, by omega⟩
       rw [if_pos hl]; omega)
    | (have hl : ¬ isLeap y = true := fun h => by
         have := (isLeap_iff y).mp h; omega
       rw [if_neg hl]; omega)

/-- the Meeus day number is the proleptic-Gregorian ordinal plus a constant -/
theorem meeusInt_eq_ord (y m d : ℤ) (hm1 : 1 ≤ m) (hm12 : m ≤ 12) :
    meeusInt y m d = ymdToOrd y m d + 1722949 := by
  unfold meeusInt ymdToOrd daysBeforeYear daysBeforeMonth
  have h1 := div_100_div_4 (y - 1)
  have h2 := div_100_div_4 y
  have t1 := meeus_year_term y
  have t2 := meeus_year_term (y - 1)
  have lc := leap_corr y
  by_cases hl : isLeap y = true
  · rw [if_pos hl] at lc
    interval_cases m <;> simp [hl] <;> omega
  · rw [if_neg hl] at lc
    have hl2 : isLeap y = false := by simpa using hl
    interval_cases m <;> simp [hl2] <;> omega

/-- **C15 (1)**: the Julian day of a Gregorian calendar date is its proleptic-Gregorian day
    count plus 1721424.5 — for every year ≥ 1, every month, every day number. -/
theorem jd_gregorian (y m d : ℤ) (hy : 1 ≤ y) (hm1 : 1 ≤ m) (hm12 : m ≤ 12) :
    julianDayYMD (α := ℝ) y m d none .gregorian = (ymdToOrd y m d : ℝ) + 1721424.5 := by
  rw [julianDayYMD_eq y m d hy hm1, meeusInt_eq_ord y m d hm1 hm12]
  push_cast; norm_num; ring


/-- **C15 (2)**: the time of day is added as seconds/86400 -/
theorem jd_time (y m d t : ℤ) (cal : CalendarKind) :
    julianDayYMD (α := ℝ) y m d (some t) cal
      = julianDayYMD (α := ℝ) y m d none cal + (t : ℝ) / 86400 := by
  unfold julianDayYMD
  simp only [trig_ofInt, sci_zero]
  norm_num
  ring

/-- **C15 (3)**: the Julian-calendar variant differs from the Gregorian one by the
    historical calendar offset `2 - A + ⌊A/4⌋`, `A` the century of the (Meeus-shifted) year -/
theorem jd_julian_offset (y m d : ℤ) (hy : 1 ≤ y) (secs : Option ℤ) :
    julianDayYMD (α := ℝ) y m d secs .julian
      = julianDayYMD (α := ℝ) y m d secs .gregorian
        - ((2 - (if m ≤ 2 then y - 1 else y) / 100 + (if m ≤ 2 then y - 1 else y) / 100 / 4 : ℤ) : ℝ) := by
  have hyn := meeus_year_nonneg (m := m) hy
  unfold julianDayYMD
  simp only [trig_ofInt]
  rw [trunc_div_100 _ hyn, trunc_div_4 _ (Int.ediv_nonneg hyn (by norm_num))]
  push_cast
  ring

/-- day ↔ century conversions are mutually inverse -/
theorem century_inverse (x : ℝ) : julianCenturyToDay (julianDayToCentury x) = x := by
  unfold julianCenturyToDay julianDayToCentury; norm_num
theorem century_inverse' (x : ℝ) : julianDayToCentury (julianCenturyToDay x) = x := by
  unfold julianCenturyToDay julianDayToCentury; norm_num

/-- the integer part of the modified Julian date as the code computes it (Gregorian branch) -/
def mjdInt (y m d : ℤ) : ℤ :=
  let year := if m ≤ 2 then y - 1 else y
  let month := if m ≤ 2 then m + 12 else m
  365 * year - 679004 + (year / 400 - year / 100 + year / 4) + 306001 * (month + 1) / 10000 + d

theorem mjdInt_eq (y m d : ℤ) : mjdInt y m d = meeusInt y m d - 2401525 := by
  unfold mjdInt meeusInt
  have t := meeus_year_term (if m ≤ 2 then y - 1 else y)
  have h := div_100_div_4 (if m ≤ 2 then y - 1 else y)
  simp only
  rw [t, h]
  ring


/-- **C15 (4)**: the modified Julian date is the Julian day minus 2400000.5 at the whole
    hour, for every datetime after 1582-10-04 (whatever fields `ordToYMD` reports, provided
    year ≥ 1 and month ≥ 1 — which `date.fromordinal` guarantees). -/
theorem mjd_eq (w : ℤ)
    (hy : 1 ≤ (ordToYMD (wallDate w)).1) (hm : 1 ≤ (ordToYMD (wallDate w)).2.1)
    (hg : 15821004 < 10000 * (ordToYMD (wallDate w)).1 + 100 * (ordToYMD (wallDate w)).2.1
            + (ordToYMD (wallDate w)).2.2) :
    julianDayModified (α := ℝ) w
      = julianDayYMD (α := ℝ) (ordToYMD (wallDate w)).1 (ordToYMD (wallDate w)).2.1
          (ordToYMD (wallDate w)).2.2 none .gregorian - 2400000.5 + (wallHour w : ℝ) / 24 := by
  rcases h : ordToYMD (wallDate w) with ⟨y, m, d⟩
  simp only [h] at hy hm hg
  rw [julianDayYMD_eq y m d hy hm]
  unfold julianDayModified
  simp only [h, trig_ofInt]
  rw [if_neg (show ¬ (10000 * y + 100 * m + d ≤ 15821004) by omega)]
  have hmn : (0 : ℤ) ≤ (if m ≤ 2 then m + 12 else m) + 1 := by split <;> omega
  rw [trunc_30_6001 _ hmn]
  have := mjdInt_eq y m d
  unfold mjdInt at this
  simp only at this
  have e : (365 * (if m ≤ 2 then y - 1 else y) - 679004 +
      ((if m ≤ 2 then y - 1 else y) / 400 - (if m ≤ 2 then y - 1 else y) / 100 +
        (if m ≤ 2 then y - 1 else y) / 4) +
      306001 * ((if m ≤ 2 then m + 12 else m) + 1) / 10000 + d : ℤ) = meeusInt y m d - 2401525 := this
  have e' : ((365 * (if m ≤ 2 then y - 1 else y) - 679004 +
      ((if m ≤ 2 then y - 1 else y) / 400 - (if m ≤ 2 then y - 1 else y) / 100 +
        (if m ≤ 2 then y - 1 else y) / 4) +
      306001 * ((if m ≤ 2 then m + 12 else m) + 1) / 10000 + d : ℤ) : ℝ)
      = ((meeusInt y m d - 2401525 : ℤ) : ℝ) := by rw [e]
  rw [e']
  push_cast
  norm_num
  ring

end Astral.C15
