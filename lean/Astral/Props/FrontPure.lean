import Astral.Gen.Effects
/-
  C19 / C16 — state hygiene of the object-oriented front end, from the effect table regenerated
  from the AST of /repo/src/astral on every run (harness/effects.py; `self.m(...)` calls and
  `self.<property>` reads are resolved to the methods of the class).
-/
namespace Astral.FrontPure
open Astral.Gen

def rowAt (i : Nat) : FnRow := effectTable.getD i ⟨[], []⟩

def reach : Nat → List Nat → List Nat → List Nat
  | 0, seen, _ => seen
  | _ + 1, seen, [] => seen
  | fuel + 1, seen, x :: todo =>
    if seen.contains x then reach fuel seen todo
    else reach fuel (x :: seen) ((rowAt x).calls ++ todo)

/-- effects of `f` and of everything it reaches; `mutatesParam` from `f`'s own row only (the
    extractor has already propagated parameter mutation through calls by argument position) -/
def closureEffects (f : Nat) : List Eff :=
  (rowAt f).effects ++
  ((reach (4 * effectTable.length + 16) [] [f]).flatMap
    (fun i => (rowAt i).effects.filter (fun e => e != .mutatesParam)))

/-- a query may read the clock (the date defaults to today) and nothing else -/
def queryOk (f : Nat) : Bool := (closureEffects f).all (fun e => e == .readsClock)

/-- **C19 state hygiene**: no `Location` method other than `__init__` and the property setters —
    and nothing it calls — stores anything on the location (or on any argument), keeps hidden
    state, writes module state, reads the environment or does I/O.  Every query is therefore a
    function of the attribute values at the time of the call (and of the clock where the date
    is omitted): whatever was called before cannot change its answer. -/
theorem location_queries_pure : locationQueryFns.all queryOk = true := by decide +kernel

theorem location_nonempty :
    25 ≤ locationQueryFns.length ∧ locationQueryFns.all (fun i => i < effectTable.length) = true := by
  decide +kernel

/-- **C16 state hygiene**: `dms_to_float`, the validating `__setattr__` of Observer and
    LocationInfo and LocationInfo's derived properties have no effect at all beyond the
    attribute store `object.__setattr__` performs -/
theorem coords_pure : coordFns.all (fun f => (closureEffects f).isEmpty) = true := by decide +kernel

theorem coords_nonempty : 6 ≤ coordFns.length ∧ coordFns.all (fun i => i < effectTable.length) = true := by
  decide +kernel

end Astral.FrontPure
