import Astral.Model.Norm
import Astral.Props.C03
/-
  C09 — equivalent ways of writing a request give the identical answer.
-/
namespace Astral.C09
open Astral Astral.C03

section
variable {α : Type} [Add α] [Sub α] [Mul α] [Div α] [Neg α] [LT α] [LE α] [OfScientific α]
  [Trig α] [DecidableRel (α := α) (· < ·)] [DecidableRel (α := α) (· ≤ ·)]

/-- **a zone given by name or as the tzinfo object it resolves to** -/
theorem name_or_object (resolve : Nat → TZ) (n : Nat) :
    normTz resolve (.name n) = normTz resolve (.obj (resolve n)) := rfl

theorem event_name_or_object (resolve : Nat → TZ) (now : Int) (fn : SunFn) (obs : Obs α)
    (date : DateSpec) (dep : DepSpec α) (n : Nat) :
    sunEventPublic resolve now fn obs date dep (.name n)
      = sunEventPublic resolve now fn obs date dep (.obj (resolve n)) := rfl

theorem period_name_or_object (resolve : Nat → TZ) (now : Int) (fn : PeriodFn) (obs : Obs α)
    (date : Option Int) (dir : Dir) (n : Nat) :
    periodPublic resolve now fn obs date dir (.name n)
      = periodPublic resolve now fn obs date dir (.obj (resolve n)) := rfl

theorem sunBundle_name_or_object (resolve : Nat → TZ) (now : Int) (obs : Obs α)
    (date : Option Int) (dep : DepSpec α) (n : Nat) :
    sunBundlePublic resolve now obs date dep (.name n)
      = sunBundlePublic resolve now obs date dep (.obj (resolve n)) := rfl

/-- the date omitted is today's date in the requested zone — for the periods and the bundle too -/
theorem period_omitted_is_today (resolve : Nat → TZ) (now : Int) (fn : PeriodFn) (obs : Obs α)
    (dir : Dir) (tz : TzArg) :
    periodPublic resolve now fn obs none dir tz
      = periodPublic resolve now fn obs (some (todayIn now (normTz resolve tz))) dir tz := rfl

theorem sunBundle_omitted_is_today (resolve : Nat → TZ) (now : Int) (obs : Obs α)
    (dep : DepSpec α) (tz : TzArg) :
    sunBundlePublic resolve now obs none dep tz
      = sunBundlePublic resolve now obs (some (todayIn now (normTz resolve tz))) dep tz := rfl

/-- `midnight` with the date spelled as a datetime — naive or aware, at any time of day — is
    `midnight` for that datetime's calendar date in the requested zone; an aware datetime's own zone
    plays no part; omitted means today in the requested zone -/
theorem midnight_datetime_is_its_date (resolve : Nat → TZ) (now : Int) (obs : Obs α) (tz : TzArg)
    (w : Int) (z : TZ) :
    midnightPublicSpec resolve now obs (.naive w) tz = midnightPublic resolve now obs (some (wallDate w)) tz
    ∧ midnightPublicSpec resolve now obs (.aware w z) tz = midnightPublic resolve now obs (some (wallDate w)) tz
    ∧ midnightPublicSpec resolve now obs (.date (wallDate w)) tz
        = midnightPublic resolve now obs (some (wallDate w)) tz
    ∧ midnightPublicSpec resolve now obs .omitted tz = midnightPublic resolve now obs none tz :=
  ⟨rfl, rfl, rfl, rfl⟩

/-- a named depression equals its number of degrees in the bundle -/
theorem sunBundle_named_depression (resolve : Nat → TZ) (now : Int) (obs : Obs α)
    (date : Option Int) (tz : TzArg) :
    sunBundlePublic resolve now obs date .civil tz = sunBundlePublic resolve now obs date (.num 6.0) tz
    ∧ sunBundlePublic resolve now obs date .nautical tz = sunBundlePublic resolve now obs date (.num 12.0) tz
    ∧ sunBundlePublic resolve now obs date .astronomical tz
        = sunBundlePublic resolve now obs date (.num 18.0) tz := ⟨rfl, rfl, rfl⟩

theorem tae_name_or_object (resolve : Nat → TZ) (now : Int) (obs : Obs α) (e : α)
    (date : Option Int) (dir : Dir) (n : Nat) (r : Bool) :
    timeAtElevationPublic resolve now obs e date dir (.name n) r
      = timeAtElevationPublic resolve now obs e date dir (.obj (resolve n)) r := rfl

theorem moon_name_or_object (resolve : Nat → TZ) (now : Int) (rise : Bool) (lat lon : α)
    (date : DateSpec) (n : Nat) :
    moonPublic resolve now rise lat lon date (.name n)
      = moonPublic resolve now rise lat lon date (.obj (resolve n)) := rfl

/-- **a named depression equals its number of degrees** -/
theorem named_depression :
    normDep (α := α) .civil = normDep (.num 6.0) ∧ normDep (α := α) .nautical = normDep (.num 12.0)
      ∧ normDep (α := α) .astronomical = normDep (.num 18.0) := ⟨rfl, rfl, rfl⟩

/-- **a datetime passed as the date** to dawn/sunrise/sunset/dusk means its calendar date — in
    its own zone, which is then also the output zone, if it is aware; in the requested zone's
    labelling if it is naive -/
theorem datetime_as_date (now : Int) (tz z' : TZ) (w : Int) :
    normDateFull now tz (.aware w z') = (wallDate w, z')
      ∧ normDateFull now tz (.naive w) = (wallDate w, tz)
      ∧ normDateFull now tz (.date (wallDate w)) = (wallDate w, tz) := ⟨rfl, rfl, rfl⟩

/-- **omitting the date means today's date in the requested zone** (not the UTC date) -/
theorem default_date (now : Int) (tz : TZ) :
    normDateFull now tz .omitted = (localDate tz.utc now, tz)
      ∧ normDatePlain now tz none = localDate tz.utc now
      ∧ normDateMoon now tz .omitted = localDate tz.utc now := ⟨rfl, rfl, rfl⟩

/-- the result of an event function is expressed in the zone the request resolves to -/
theorem event_zone (resolve : Nat → TZ) (now : Int) (fn : SunFn) (obs : Obs α)
    (date : DateSpec) (dep : DepSpec α) (tz : TzArg) (t : Int) (z : TZ)
    (h : sunEventPublic resolve now fn obs date dep tz = .ok (t, z)) :
    z = (normDateFull now (normTz resolve tz) date).2 := by
  have key : ∀ (r : Except Err Int) (z0 : TZ), r.map (fun t => (t, z0)) = .ok (t, z) → z = z0 := by
    intro r z0 hh
    cases r with
    | error e => simp [Except.map] at hh
    | ok v => simp [Except.map] at hh; exact hh.2.symm
  unfold sunEventPublic at h
  exact key _ _ h

end

/-! ### Two zones with the same offsets on that date give the same instant -/

/-- **same offsets ⇒ same instant**: the re-matching block consults the zone only at the (at
    most two) candidate instants; two zone functions that agree there give the same result -/
theorem rematch_congr (f : Int → Except Err Int) (z1 z2 : Zone) (d : Int)
    (hagree : ∀ k t, f k = .ok t → z1 t = z2 t) :
    rematch f z1 d = rematch f z2 d := by
  unfold rematch
  cases h1 : f d with
  | error e => simp [bind, Except.bind]
  | ok t =>
    have e1 : localDate z1 t = localDate z2 t := by unfold localDate; rw [hagree d t h1]
    simp only [bind, Except.bind, pure, Except.pure, e1]
    split_ifs with hd hlt
    · rfl
    · cases hadd : dateAdd? d 1 with
      | error e => rfl
      | ok nd =>
        simp only
        cases h2 : f nd with
        | error e => rfl
        | ok t2 =>
          have e2 : localDate z1 t2 = localDate z2 t2 := by unfold localDate; rw [hagree nd t2 h2]
          simp only [e2]
    · cases hadd : dateAdd? d (-1) with
      | error e => rfl
      | ok nd =>
        simp only
        cases h2 : f nd with
        | error e => rfl
        | ok t2 =>
          have e2 : localDate z1 t2 = localDate z2 t2 := by unfold localDate; rw [hagree nd t2 h2]
          simp only [e2]

section
variable {α : Type} [Add α] [Sub α] [Mul α] [Div α] [Neg α] [LT α] [LE α] [OfScientific α]
  [Trig α] [DecidableRel (α := α) (· < ·)] [DecidableRel (α := α) (· ≤ ·)]

/-- in particular two tzinfo objects with pointwise equal offsets (same zone under two names,
    a fixed offset equal to the zone's offset around that date) -/
theorem dawn_same_offsets (obs : Obs α) (d : Int) (dep : α) (tz1 tz2 : TZ)
    (h : ∀ t, tz1.utc t = tz2.utc t) : dawn obs d dep tz1 = dawn obs d dep tz2 := by
  unfold dawn
  rw [rematch_congr _ tz1.utc tz2.utc d (fun _ t _ => h t)]

theorem sunrise_same_offsets (obs : Obs α) (d : Int) (tz1 tz2 : TZ)
    (h : ∀ t, tz1.utc t = tz2.utc t) : sunrise obs d tz1 = sunrise obs d tz2 := by
  unfold sunrise
  rw [rematch_congr _ tz1.utc tz2.utc d (fun _ t _ => h t)]

theorem sunset_same_offsets (obs : Obs α) (d : Int) (tz1 tz2 : TZ)
    (h : ∀ t, tz1.utc t = tz2.utc t) : sunset obs d tz1 = sunset obs d tz2 := by
  unfold sunset
  rw [rematch_congr _ tz1.utc tz2.utc d (fun _ t _ => h t)]

theorem dusk_same_offsets (obs : Obs α) (d : Int) (dep : α) (tz1 tz2 : TZ)
    (h : ∀ t, tz1.utc t = tz2.utc t) : dusk obs d dep tz1 = dusk obs d dep tz2 := by
  unfold dusk
  rw [rematch_congr _ tz1.utc tz2.utc d (fun _ t _ => h t)]

end

/-! ### An elevation above 90° is the setting event at 180° minus it (α := ℝ) -/

/-- for 90 < e ≤ 180 the folded call is literally the same computation -/
theorem elevation_fold (obs : Obs ℝ) (e : ℝ) (d : Int) (dir : Dir) (tz : TZ) (r : Bool)
    (h90 : 90 < e) (h180 : 90 ≤ e - 0) (hle : 180 - e ≤ 90) :
    timeAtElevation obs e d dir tz r = timeAtElevation obs (180 - e) d .setting tz r := by
  unfold timeAtElevation
  have c1 : (90.0 : ℝ) < e := by norm_num; exact h90
  have c2 : ¬ ((90.0 : ℝ) < 180 - e) := by norm_num; linarith
  simp only [c1, c2, ↓reduceIte]
  norm_num

end Astral.C09
