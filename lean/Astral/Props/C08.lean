import Astral.Props.C02
/-
  C08 — solar position depends on the instant only, not on how it is written.  α := ℝ.
-/
namespace Astral.C08
open Astral Real Astral.C02

/-- Python's float `%` at ℝ is periodic in whole multiples of the modulus -/
theorem pymod_add_mul (x m : ℝ) (k : ℤ) (hm : m ≠ 0) :
    Trig.pymod (x + m * k) m = Trig.pymod x m := by
  rw [trig_pymod, trig_pymod]
  have : (x + m * k) / m = x / m + k := by field_simp
  rw [this, Int.floor_add_intCast]
  push_cast
  ring

theorem pymod_range (x m : ℝ) (hm : 0 < m) : 0 ≤ Trig.pymod x m ∧ Trig.pymod x m < m := by
  rw [trig_pymod]
  have h1 := Int.floor_le (x / m)
  have h2 := Int.lt_floor_add_one (x / m)
  have e : x = m * (x / m) := by field_simp
  constructor
  · nlinarith
  · nlinarith

/-- seconds after local midnight that the datetime's own fields denote -/
def fieldSeconds (w : Int) : Int := wallHour w * 3600 + wallMinute w * 60 + wallSecond w

theorem fieldSeconds_eq (w : Int) : fieldSeconds w = (w % usPerDay) / usPerSec := by
  unfold fieldSeconds wallHour wallMinute wallSecond usPerDay usPerHour usPerMin usPerSec
  omega

/-- for whole-second wall readings and offsets, the local fields minus the offset differ from
    the UTC fields by a whole number of days -/
theorem fieldSeconds_shift (w o : Int) (hw : w % usPerSec = 0) (ho : o % usPerSec = 0) :
    ∃ k : Int, fieldSeconds w - o / usPerSec = fieldSeconds (w - o) + 86400 * k := by
  rw [fieldSeconds_eq, fieldSeconds_eq]
  unfold usPerDay usPerSec at *
  refine ⟨(w % 86400000000 / 1000000 - o / 1000000 - (w - o) % 86400000000 / 1000000) / 86400, ?_⟩
  omega

/-- the minutes of the day the code builds from the fields -/
theorem field_minutes (w : Int) :
    ((wallHour w : ℤ) : ℝ) * 60.0 + ((wallMinute w : ℤ) : ℝ) + ((wallSecond w : ℤ) : ℝ) / 60.0
      = (fieldSeconds w : ℝ) / 60 := by
  unfold fieldSeconds
  push_cast
  norm_num
  ring

/-- **the true solar time does not depend on the zone the instant is written in** -/
theorem trueSolarTime_invariant (w o : Int) (lon eq : ℝ)
    (hw : w % usPerSec = 0) (ho : o % usPerSec = 0) :
    trueSolarTime w (some o) lon eq = trueSolarTime (w - o) (some 0) lon eq := by
  obtain ⟨k, hk⟩ := fieldSeconds_shift w o hw ho
  unfold trueSolarTime zoneHours
  simp only [trig_ofInt]
  rw [field_minutes w, field_minutes (w - o)]
  have ho' : ((o : ℤ) : ℝ) = ((o / usPerSec : ℤ) : ℝ) * 1000000 := by
    have : o = o / usPerSec * 1000000 := by unfold usPerSec at *; omega
    conv_lhs => rw [this]
    push_cast; ring
  have hk' : (fieldSeconds w : ℝ) - ((o / usPerSec : ℤ) : ℝ)
      = (fieldSeconds (w - o) : ℝ) + 86400 * (k : ℝ) := by exact_mod_cast hk
  have e : (fieldSeconds w : ℝ) / 60 + (eq + 4.0 * lon + 60.0 * (-(((o : ℤ) : ℝ) / 1000000.0) / 3600.0))
      = ((fieldSeconds (w - o) : ℝ) / 60 + (eq + 4.0 * lon + 60.0 * (-(((0 : ℤ) : ℝ) / 1000000.0) / 3600.0)))
        + 1440.0 * (k : ℝ) := by
    rw [ho']
    push_cast
    norm_num
    linarith
  rw [e, pymod_add_mul _ _ k (by norm_num)]

/-- a naive datetime is read as UTC: same as the aware datetime with offset 0 -/
theorem naive_is_utc (obs : Obs ℝ) (w : Int) (r : Bool) :
    zenithAndAzimuth obs w none r = zenithAndAzimuth obs w (some 0) r := by
  unfold zenithAndAzimuth trueSolarTime zoneHours utcWallOf
  simp

/-- **C08**: zenith and azimuth (hence elevation) are the same for every representation of one
    instant — any offset, any zone — for whole-second datetimes -/
theorem angles_instant_only (obs : Obs ℝ) (w o : Int) (r : Bool)
    (hw : w % usPerSec = 0) (ho : o % usPerSec = 0) :
    zenithAndAzimuth obs w (some o) r = zenithAndAzimuth obs (w - o) (some 0) r := by
  unfold zenithAndAzimuth
  simp only [utcWallOf, sub_zero]
  rw [trueSolarTime_invariant w o _ _ hw ho]

theorem elevation_instant_only (obs : Obs ℝ) (w o : Int) (r : Bool)
    (hw : w % usPerSec = 0) (ho : o % usPerSec = 0) :
    sunElevation obs w (some o) r = sunElevation obs (w - o) none r
      ∧ sunZenith obs w (some o) r = sunZenith obs (w - o) none r
      ∧ sunAzimuth obs w (some o) = sunAzimuth obs (w - o) none := by
  unfold sunElevation sunZenith sunAzimuth
  rw [angles_instant_only obs w o r hw ho, angles_instant_only obs w o true hw ho,
    naive_is_utc, naive_is_utc]
  exact ⟨rfl, rfl, rfl⟩

/-- the hour angle is always brought into [−180°, 180°) (the repair of the single-step
    normalisation) -/
theorem hourAngle_normalised (w : Int) (off : Option Int) (lon eq : ℝ) :
    -180 ≤ hourAngleOfTst (trueSolarTime w off lon eq)
      ∧ hourAngleOfTst (trueSolarTime w off lon eq) < 180 := by
  unfold hourAngleOfTst trueSolarTime
  simp only
  have := pymod_range ((Trig.ofInt (wallHour w) : ℝ) * 60.0 + Trig.ofInt (wallMinute w)
      + (Trig.ofInt (wallSecond w) : ℝ) / 60.0 + (eq + 4.0 * lon + 60.0 * zoneHours off)) 1440.0 (by norm_num)
  constructor <;> norm_num at this ⊢ <;> linarith [this.1, this.2]

end Astral.C08
