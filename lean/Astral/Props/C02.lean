import Astral.Model.Sun
import Astral.Lemmas.Floor
import Mathlib.Analysis.SpecialFunctions.Trigonometric.Bounds
import Mathlib.Analysis.Real.Pi.Bounds
/-
  C02 — solar elevation, zenith, azimuth; the refraction model.  α := ℝ.
-/
namespace Astral.C02
open Astral Real

/-! ### Ranges -/

theorem clampUnit_range (x : ℝ) : -1 ≤ clampUnit x ∧ clampUnit x ≤ 1 := by
  unfold clampUnit
  split_ifs <;> constructor <;> norm_num at * <;> linarith

theorem degrees_arccos_range (x : ℝ) : 0 ≤ degrees (Real.arccos x) ∧ degrees (Real.arccos x) ≤ 180 := by
  rw [degrees_eq]
  have h0 := Real.arccos_nonneg x
  have h1 := Real.arccos_le_pi x
  have hp := Real.pi_pos
  constructor
  · positivity
  · rw [mul_div_assoc']
    rw [div_le_iff₀ hp]
    nlinarith

/-- **zenith ∈ [0, 180]** for every cosine value (clamped as the code does) -/
theorem zenithOfCos_range (c : ℝ) : 0 ≤ zenithOfCos c ∧ zenithOfCos c ≤ 180 := by
  unfold zenithOfCos
  exact degrees_arccos_range _

theorem az_piece (x : ℝ) :
    0 ≤ (180.0 : ℝ) - degrees (Trig.acos x) ∧ (180.0 : ℝ) - degrees (Trig.acos x) ≤ 180 := by
  have := degrees_arccos_range x
  simp only [trig_acos]
  constructor <;> norm_num <;> linarith [this.1, this.2]

theorem azimuthRaw_range (lat dec zen ha : ℝ) :
    -180 ≤ azimuthRaw lat dec zen ha ∧ azimuthRaw lat dec zen ha ≤ 180 := by
  unfold azimuthRaw
  simp only
  split_ifs
  all_goals
    first
    | (have h := az_piece (-1.0); constructor <;> linarith [h.1, h.2])
    | (have h := az_piece (1.0); constructor <;> linarith [h.1, h.2])
    | (have h := az_piece ((Trig.sin (radians lat) * Trig.cos (radians zen) - Trig.sin (radians dec)) /
          (Trig.cos (radians lat) * Trig.sin (radians zen)))
       constructor <;> linarith [h.1, h.2])
    | (constructor <;> norm_num)

theorem normAzimuth_range (a : ℝ) (h1 : -180 ≤ a) (h2 : a ≤ 180) :
    0 ≤ normAzimuth a ∧ normAzimuth a < 360 := by
  unfold normAzimuth
  split_ifs with h <;> constructor <;> norm_num at * <;> linarith

/-- **azimuth ∈ [0, 360)** and **zenith ∈ [0, 180]** (true zenith, before refraction) for every
    latitude, declination and hour angle -/
theorem zenithAzimuthOf_range (lat dec ha : ℝ) :
    0 ≤ (zenithAzimuthOf lat dec ha).1 ∧ (zenithAzimuthOf lat dec ha).1 ≤ 180
      ∧ 0 ≤ (zenithAzimuthOf lat dec ha).2 ∧ (zenithAzimuthOf lat dec ha).2 < 360 := by
  unfold zenithAzimuthOf
  simp only
  obtain ⟨a1, a2⟩ := azimuthRaw_range lat dec (zenithOfCos (cosZenith lat dec ha)) ha
  exact ⟨(zenithOfCos_range _).1, (zenithOfCos_range _).2, normAzimuth_range _ a1 a2⟩

/-- the public functions: true zenith in [0, 180], azimuth in [0, 360), for every observer and
    every datetime (naive or aware) -/
theorem sun_angle_ranges (obs : Obs ℝ) (wall : Int) (off : Option Int) :
    0 ≤ sunZenith obs wall off false ∧ sunZenith obs wall off false ≤ 180
      ∧ 0 ≤ sunAzimuth obs wall off ∧ sunAzimuth obs wall off < 360 := by
  unfold sunZenith sunAzimuth zenithAndAzimuth applyRefraction
  simp only [Bool.false_eq_true, ↓reduceIte]
  exact zenithAzimuthOf_range _ _ _

/-- **zenith is exactly 90° minus elevation** -/
theorem elevation_def (obs : Obs ℝ) (wall : Int) (off : Option Int) (r : Bool) :
    sunElevation obs wall off r = 90 - sunZenith obs wall off r := by
  unfold sunElevation; norm_num

/-- **with refraction the apparent zenith is the true one minus the refraction model's value
    at the true zenith** — hence the apparent elevation exceeds the true one by exactly it -/
theorem apparent_is_true_minus_model (obs : Obs ℝ) (wall : Int) (off : Option Int) :
    sunZenith obs wall off true
      = sunZenith obs wall off false - refractionAtZenith (sunZenith obs wall off false) := by
  unfold sunZenith zenithAndAzimuth applyRefraction
  simp

theorem apparent_elevation (obs : Obs ℝ) (wall : Int) (off : Option Int) :
    sunElevation obs wall off true
      = sunElevation obs wall off false + refractionAtZenith (sunZenith obs wall off false) := by
  rw [elevation_def, elevation_def, apparent_is_true_minus_model]; ring

/-- azimuth does not depend on the refraction setting -/
theorem azimuth_refraction_free (obs : Obs ℝ) (wall : Int) (off : Option Int) (r : Bool) :
    (zenithAndAzimuth obs wall off r).2 = sunAzimuth obs wall off := by
  unfold sunAzimuth zenithAndAzimuth; rfl


/-! ### The refraction model -/

/-- the near-horizon quartic stays in [0, 2160) arc-seconds on (−0.575, 5] -/
theorem quartic_bounds (e : ℝ) (h1 : -0.575 < e) (h2 : e ≤ 5) :
    0 ≤ 1735.0 + e * (-518.2 + e * (103.4 + e * (-12.79 + e * 0.711))) ∧
    1735.0 + e * (-518.2 + e * (103.4 + e * (-12.79 + e * 0.711))) < 2160 := by
  constructor
  · nlinarith [sq_nonneg e, sq_nonneg (e - 5), sq_nonneg (e * e), mul_nonneg (sub_nonneg.mpr h2) (sq_nonneg e),
      mul_nonneg (sub_nonneg.mpr h2) (sq_nonneg (e - 3)), sq_nonneg (e - 3), sq_nonneg (e*e - 9)]
  · nlinarith [sq_nonneg e, sq_nonneg (e - 5), sq_nonneg (e * e), mul_nonneg (sub_nonneg.mpr h2) (sq_nonneg e),
      mul_pos (sub_pos.mpr h1) (sub_pos.mpr h1)]

theorem pi_gt_314 : (3.14 : ℝ) < π := by have := Real.pi_gt_d2; linarith
theorem pi_lt_315 : π < (3.15 : ℝ) := by have := Real.pi_lt_d2; linarith

/-- `tan` of an angle in (0°, 90°) exceeds the angle in radians -/
theorem tan_radians_gt (e : ℝ) (h0 : 0 < e) (h90 : e < 90) :
    radians e < Real.tan (radians e) := by
  rw [radians_eq]
  have hp := Real.pi_pos
  apply Real.lt_tan
  · positivity
  · have : e * (π / 180) < 90 * (π / 180) := by
      apply mul_lt_mul_of_pos_right h90; positivity
    linarith

/-- high branch: 5° < elevation < 85° -/
theorem refraction_high (e : ℝ) (h5 : 5 < e) (h85 : e < 85) :
    let te := Real.tan (radians e)
    0 ≤ 58.1 / te - 0.07 / (te * te * te) + 0.000086 / (te * te * te * te * te) ∧
    58.1 / te - 0.07 / (te * te * te) + 0.000086 / (te * te * te * te * te) < 2160 := by
  intro te
  have hlt := tan_radians_gt e (by linarith) (by linarith)
  have hr : (0.0872 : ℝ) < radians e := by
    rw [radians_eq]
    have := pi_gt_314
    nlinarith
  have hte : (0.0872 : ℝ) < te := lt_trans hr hlt
  have hpos : 0 < te := by linarith
  have e1 : 58.1 / te - 0.07 / (te * te * te) + 0.000086 / (te * te * te * te * te)
      = (58.1 * te ^ 4 - 0.07 * te ^ 2 + 0.000086) / te ^ 5 := by
    field_simp
  rw [e1]
  have h5pos : 0 < te ^ 5 := by positivity
  constructor
  · apply div_nonneg _ h5pos.le
    have : (0.0076 : ℝ) < te ^ 2 := by nlinarith
    nlinarith [sq_nonneg (te ^ 2)]
  · rw [div_lt_iff₀ h5pos]
    have h2 : (0.0076 : ℝ) < te ^ 2 := by nlinarith
    have h4 : 0 < te ^ 4 := by positivity
    -- 2160·te⁵ > 2160·0.0872·te⁴ = 188.35·te⁴ > 58.1·te⁴ + 0.000086
    have : te ^ 5 = te * te ^ 4 := by ring
    have h44 : (0.0000577 : ℝ) < te ^ 4 := by nlinarith
    nlinarith

/-- low branch: −90° ≤ elevation ≤ −0.575° -/
theorem refraction_low (e : ℝ) (hm90 : -90 ≤ e) (hl : e ≤ -0.575) :
    0 ≤ -20.774 / Real.tan (radians e) ∧ -20.774 / Real.tan (radians e) < 2160 := by
  rcases eq_or_lt_of_le hm90 with h | h
  · -- tan(−90°) = 0 in Mathlib; the quotient is 0
    subst h
    have : radians (-90 : ℝ) = -(π / 2) := by rw [radians_eq]; ring
    rw [this, Real.tan_neg, Real.tan_pi_div_two]
    norm_num
  · have hpos : 0 < -e := by linarith
    have hlt := tan_radians_gt (-e) hpos (by linarith)
    have hneg : radians (-e) = -radians e := by rw [radians_eq, radians_eq]; ring
    have htan : Real.tan (radians e) = -Real.tan (radians (-e)) := by
      rw [hneg, Real.tan_neg]; ring
    have hr : (0.01003 : ℝ) < radians (-e) := by
      rw [radians_eq]
      have := pi_gt_314
      nlinarith
    set t := Real.tan (radians (-e)) with ht
    have htpos : (0.01003 : ℝ) < t := lt_trans hr hlt
    rw [htan]
    have : -20.774 / -t = 20.774 / t := by rw [neg_div_neg_eq]
    rw [this]
    have tp : 0 < t := by linarith
    constructor
    · positivity
    · rw [div_lt_iff₀ tp]; nlinarith

/-- **C02 refraction**: on the whole range of a true zenith, the published model's value is
    never negative, below 0.6°, and zero from 85° of elevation upward. -/
theorem refraction_bounds (z : ℝ) (h0 : 0 ≤ z) (h180 : z ≤ 180) :
    0 ≤ refractionAtZenith z ∧ refractionAtZenith z < 0.6
      ∧ (z ≤ 5 → refractionAtZenith z = 0) := by
  unfold refractionAtZenith
  simp only [trig_tan]
  refine ⟨?_, ?_, ?_⟩
  · split_ifs with h1 h2 h3
    · norm_num
    · have := refraction_high (90.0 - z) (by norm_num at h2 ⊢; linarith) (by norm_num at h1 ⊢; linarith)
      simp only at this
      have h := this.1
      apply div_nonneg h; norm_num
    · have := quartic_bounds (90.0 - z) (by norm_num at h3 ⊢; linarith) (by norm_num at h2 ⊢; linarith)
      apply div_nonneg this.1; norm_num
    · have := refraction_low (90.0 - z) (by norm_num; linarith) (by norm_num at h3 ⊢; linarith)
      apply div_nonneg this.1; norm_num
  · split_ifs with h1 h2 h3
    · norm_num
    · have := refraction_high (90.0 - z) (by norm_num at h2 ⊢; linarith) (by norm_num at h1 ⊢; linarith)
      simp only at this
      have h := this.2
      rw [div_lt_iff₀ (by norm_num)]; norm_num at h ⊢; linarith
    · have := quartic_bounds (90.0 - z) (by norm_num at h3 ⊢; linarith) (by norm_num at h2 ⊢; linarith)
      have h := this.2
      rw [div_lt_iff₀ (by norm_num)]; norm_num at h ⊢; linarith
    · have := refraction_low (90.0 - z) (by norm_num; linarith) (by norm_num at h3 ⊢; linarith)
      have h := this.2
      rw [div_lt_iff₀ (by norm_num)]; norm_num at h ⊢; linarith
  · intro h5
    rw [if_pos (by norm_num; linarith)]
    norm_num

/-- the apparent elevation exceeds the true one by an amount in [0, 0.6°), zero from 85° up -/
theorem apparent_minus_true (obs : Obs ℝ) (wall : Int) (off : Option Int) :
    0 ≤ sunElevation obs wall off true - sunElevation obs wall off false
      ∧ sunElevation obs wall off true - sunElevation obs wall off false < 0.6
      ∧ (85 ≤ sunElevation obs wall off false →
          sunElevation obs wall off true = sunElevation obs wall off false) := by
  obtain ⟨z0, z1, _, _⟩ := sun_angle_ranges obs wall off
  obtain ⟨r0, r1, r2⟩ := refraction_bounds _ z0 z1
  rw [apparent_elevation]
  refine ⟨by linarith, by linarith, ?_⟩
  intro h
  rw [elevation_def] at h
  rw [r2 (by linarith)]; ring

end Astral.C02
