import Astral.Model.Location
import Astral.Real
/-
  C19 — the Location object and the command line are faithful front-ends.
  The specification table below is written from the property text, by rule, independently of
  the method-by-method transcription in Model/Location.lean; the theorem says they coincide
  for every state, every method and every argument combination.
-/
namespace Astral.C19
open Astral

def targetOf : Method → Target
  | .sun => .sun | .dawn => .dawn | .sunrise => .sunrise | .noon => .noon | .sunset => .sunset
  | .dusk => .dusk | .midnight => .midnight | .daylight => .daylight | .night => .night
  | .twilight => .twilight | .moonrise => .moonrise | .moonset => .moonset
  | .timeAtElevation => .timeAtElevation | .rahukaalam => .rahukaalam
  | .goldenHour => .goldenHour | .blueHour => .blueHour | .solarAzimuth => .azimuth
  | .solarElevation => .elevation | .solarZenith => .elevation | .moonPhase => .phase

/-- methods that take an `observer_elevation` and must hand it on -/
def takesElevation : Method → Bool
  | .sun | .dawn | .sunrise | .sunset | .dusk | .daylight | .night | .twilight | .rahukaalam
  | .goldenHour | .blueHour | .solarAzimuth | .solarElevation | .solarZenith => true
  | _ => false

/-- methods whose observer is explicitly at ground level -/
def groundLevel : Method → Bool
  | .moonrise | .moonset | .timeAtElevation => true
  | _ => false

def usesDepression : Method → Bool
  | .sun | .dawn | .dusk => true
  | _ => false

def isAngle : Method → Bool
  | .solarAzimuth | .solarElevation | .solarZenith => true
  | _ => false

def hasDirection : Method → Bool
  | .twilight | .goldenHour | .blueHour | .timeAtElevation => true
  | _ => false

section
variable {α : Type} [Add α] [Sub α] [Mul α] [Div α] [Neg α] [LT α] [LE α] [OfScientific α]
  [Trig α] [DecidableRel (α := α) (· < ·)] [DecidableRel (α := α) (· ≤ ·)]

/-- the specification, by rule -/
def specCall (s : LocState α) (m : Method) (a : MArgs α) : Call α :=
  { target := targetOf m
    lat := s.lat                               -- the location's coordinates …
    lon := s.lon
    elev :=                                    -- … the given observer elevation …
      if takesElevation m then some (elevOf a)
      else if groundLevel m then some (.one (.num 0.0)) else none
    date := if isAngle m then none else some (dateOf s a)
    dep := if usesDepression m then some s.dep else none      -- … the configured depression …
    zone :=                                    -- … and the location's zone or UTC
      if isAngle m ∨ m = .moonPhase then none else some (zoneOf s a.localTime)
    dir :=
      if m = .timeAtElevation then
        some (if 90.0 < a.elevation.getD 0.0 then Dir.setting else a.dir)
      else if hasDirection m then some a.dir else none
    elevationArg :=
      if m = .timeAtElevation then
        some (if 90.0 < a.elevation.getD 0.0 then 180.0 - a.elevation.getD 0.0 else a.elevation.getD 0.0)
      else none }

/-- **C19, Location**: every method delegates exactly as the rules say — for every state
    (hence after any sequence of attribute changes), every argument combination -/
theorem location_delegates (s : LocState α) (m : Method) (a : MArgs α) :
    Location.call s m a = specCall s m a := by
  cases m <;> simp [Location.call, specCall, targetOf, takesElevation, groundLevel, usesDepression,
    isAngle, hasDirection]

/-- the depression setter: names, enum members and numbers agree -/
theorem depression_setter :
    setDepression (α := α) (.name strCivil) = setDepression (α := α) .civil
    ∧ setDepression (α := α) (.name strNautical) = setDepression (α := α) .nautical
    ∧ setDepression (α := α) (.name strAstronomical) = setDepression (α := α) .astronomical
    ∧ setDepression (α := α) .civil = .ok 6.0
    ∧ setDepression (α := α) .nautical = .ok 12.0
    ∧ setDepression (α := α) .astronomical = .ok 18.0
    ∧ ∀ x : α, setDepression (.num (.num x)) = .ok x := by
  refine ⟨?_, ?_, ?_, rfl, rfl, rfl, fun x => rfl⟩ <;> simp [setDepression, strCivil, strNautical, strAstronomical]

/-- **C19, command line**: the single `sun.sun` call is made for the given coordinates, date,
    elevation and zone; the labels are the zone's name (or "UTC") and "name, region" -/
theorem cli_output (a : CliArgs α) :
    (Cli.run a).call.target = .sun ∧ (Cli.run a).call.lat = a.lat ∧ (Cli.run a).call.lon = a.lon
    ∧ (Cli.run a).call.elev = some (.one (.num a.elev))
    ∧ (Cli.run a).call.date = a.date.map DateArg.given
    ∧ (Cli.run a).call.zone = some (match a.tzname with | some t => ZoneArg.named t | none => .omitted)
    ∧ ((Cli.run a).utcSuffix = true ↔ a.tzname = none)
    ∧ (Cli.run a).timezoneLabel = a.tzname.getD strUTC
    ∧ (Cli.run a).locationLabel = a.name ++ [44, 32] ++ a.region := by
  refine ⟨rfl, rfl, rfl, rfl, rfl, rfl, ?_, rfl, rfl⟩
  simp [Cli.run]

end

/-- **the zone setter**: a name the zone database does not know raises ValueError and leaves the
    location exactly as it was; a known name replaces the zone and nothing else -/
theorem setTimezone_rejected {α : Type} (st : LocState α) (name : Str) :
    setTimezone st name false = (st, some .bareValueError) := rfl

theorem setTimezone_accepted {α : Type} (st : LocState α) (name : Str) :
    (setTimezone st name true).2 = none ∧ (setTimezone st name true).1.tz = name
    ∧ (setTimezone st name true).1.lat = st.lat ∧ (setTimezone st name true).1.lon = st.lon
    ∧ (setTimezone st name true).1.dep = st.dep := ⟨rfl, rfl, rfl, rfl, rfl⟩

end Astral.C19
