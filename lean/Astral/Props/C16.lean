import Astral.Model.Dms
import Astral.Lemmas.Floor
/-
  C16 — coordinates are parsed correctly and always held within range.
-/
namespace Astral.C16
open Astral

/-! ### Clamping and the range invariant (α := ℝ) -/

theorem clamp_range (x lim : ℝ) (hl : 0 ≤ lim) :
    -lim ≤ clamp x (some lim) ∧ clamp x (some lim) ≤ lim := by
  unfold clamp
  simp only
  split
  · constructor <;> linarith
  · split
    · constructor <;> linarith
    · constructor <;> linarith

theorem clamp_id_of_in_range (x lim : ℝ) (h1 : -lim ≤ x) (h2 : x ≤ lim) :
    clamp x (some lim) = x := by
  unfold clamp
  simp only
  rw [if_neg (not_lt.mpr h2), if_neg (not_lt.mpr h1)]

/-- whatever is handed to `dms_to_float` with a limit, a returned value is within ±limit -/
theorem dmsToFloat_range (a : Arg ℝ) (lim v : ℝ) (hl : 0 ≤ lim)
    (h : dmsToFloat a (some lim) = .ok v) : -lim ≤ v ∧ v ≤ lim := by
  unfold dmsToFloat at h
  split at h
  · injection h with h; subst h; exact clamp_range _ _ hl
  · split at h
    · split at h
      · injection h with h; subst h; exact clamp_range _ _ hl
      · cases h
    · cases h

def ObsInv (o : Obs ℝ) : Prop := -90 ≤ o.lat ∧ o.lat ≤ 90 ∧ -180 ≤ o.lon ∧ o.lon ≤ 180
def CoordsInv (c : Coords ℝ) : Prop := -90 ≤ c.lat ∧ c.lat ≤ 90 ∧ -180 ≤ c.lon ∧ c.lon ≤ 180

theorem obs_mk_inv (la lo : Arg ℝ) (el : ElevArg ℝ) (o : Obs ℝ)
    (h : Obs.mk? la lo el = .ok o) : ObsInv o := by
  unfold Obs.mk? at h
  simp only [bind, Except.bind, pure, Except.pure] at h
  split at h
  · cases h
  · rename_i x hx
    split at h
    · cases h
    · rename_i y hy
      split at h
      · cases h
      · injection h with h; subst h
        have h1 := dmsToFloat_range la 90.0 x (by norm_num) hx
        have h2 := dmsToFloat_range lo 180.0 y (by norm_num) hy
        norm_num at h1 h2
        exact ⟨h1.1, h1.2, h2.1, h2.2⟩

/-- one assignment preserves the invariant (a failed one leaves the object unchanged) -/
theorem obs_set_inv (o o' : Obs ℝ) (f : ObsField) (v : ObsVal ℝ) (hi : ObsInv o)
    (h : o.set f v = .ok o') : ObsInv o' := by
  obtain ⟨i1, i2, i3, i4⟩ := hi
  cases f <;> cases v <;> simp only [Obs.set, bind, Except.bind, pure, Except.pure] at h
  · split at h
    · cases h
    · rename_i x hx
      injection h with h; subst h
      have h1 := dmsToFloat_range _ 90.0 x (by norm_num) hx
      norm_num at h1
      exact ⟨h1.1, h1.2, i3, i4⟩
  · cases h
  · split at h
    · cases h
    · rename_i x hx
      injection h with h; subst h
      have h1 := dmsToFloat_range _ 180.0 x (by norm_num) hx
      norm_num at h1
      exact ⟨i1, i2, h1.1, h1.2⟩
  · cases h
  · split at h
    · cases h
    · injection h with h; subst h; exact ⟨i1, i2, i3, i4⟩
  · split at h
    · cases h
    · injection h with h; subst h; exact ⟨i1, i2, i3, i4⟩

/-- **C16 invariant, Observer**: after any sequence of assignments (failed ones ignored)
    latitude ∈ [−90, 90] and longitude ∈ [−180, 180]; the elevation is a float or a pair of
    floats by construction of the state type. -/
theorem observer_inv (o : Obs ℝ) (ops : List (ObsField × ObsVal ℝ)) (hi : ObsInv o) :
    ObsInv (o.run ops) := by
  unfold Obs.run
  induction ops generalizing o with
  | nil => simpa
  | cons op ops ih =>
    simp only [List.foldl_cons]
    apply ih
    cases hs : o.set op.1 op.2 with
    | ok o' => exact obs_set_inv o o' _ _ hi hs
    | error e => exact hi

theorem coords_set_inv (c c' : Coords ℝ) (f : CoordField) (a : Arg ℝ) (hi : CoordsInv c)
    (h : c.set f a = .ok c') : CoordsInv c' := by
  unfold Coords.set at h
  obtain ⟨i1, i2, i3, i4⟩ := hi
  split at h <;> simp only [bind, Except.bind, pure, Except.pure] at h
  · split at h
    · cases h
    · rename_i x hx
      injection h with h; subst h
      have h1 := dmsToFloat_range _ 90.0 x (by norm_num) hx
      norm_num at h1
      exact ⟨h1.1, h1.2, i3, i4⟩
  · split at h
    · cases h
    · rename_i x hx
      injection h with h; subst h
      have h1 := dmsToFloat_range _ 180.0 x (by norm_num) hx
      norm_num at h1
      exact ⟨i1, i2, h1.1, h1.2⟩

/-- **C16 invariant, LocationInfo / Location** -/
theorem coords_inv (c : Coords ℝ) (ops : List (CoordField × Arg ℝ)) (hi : CoordsInv c) :
    CoordsInv (c.run ops) := by
  unfold Coords.run
  induction ops generalizing c with
  | nil => simpa
  | cons op ops ih =>
    simp only [List.foldl_cons]
    apply ih
    cases hs : c.set op.1 op.2 with
    | ok c' => exact coords_set_inv c c' _ _ hi hs
    | error e => exact hi

/-- the default Observer / LocationInfo (Greenwich) satisfies the invariant: the
    hypotheses above are not vacuous -/
example : ObsInv ⟨51.4733, -0.0008333, .flt 0.0⟩ := by
  unfold ObsInv; norm_num

/-! ### A plain number parses to itself -/

theorem dms_number_identity (x : ℝ) : dmsToFloat (.num x) none = .ok x := by
  unfold dmsToFloat pyFloat? clamp; rfl

theorem dms_number_clamped (x lim : ℝ) :
    dmsToFloat (.num x) (some lim) = .ok (clamp x (some lim)) := by
  unfold dmsToFloat pyFloat?; rfl

/-! ### Degrees-minutes-seconds -/

/-- the value a regular-expression match denotes: ±(deg + min/60 + sec/3600), negative
    exactly for S/W in either case -/
theorem dmsMatch_value (deg : Nat) (mn sc : Option Nat) (dir : Option Nat) :
    (DmsMatch.mk deg mn sc dir).value (α := ℝ)
      = (if dir = some 83 ∨ dir = some 115 ∨ dir = some 87 ∨ dir = some 119 then (-1 : ℝ) else 1)
        * ((deg : ℝ) + (match mn with | some v => (v : ℝ) / 60 | none => 0)
            + (match sc with | some v => (v : ℝ) / 3600 | none => 0)) := by
  unfold DmsMatch.value
  cases mn <;> cases sc <;> cases dir <;> simp <;> (try split_ifs) <;> (try simp_all) <;>
    norm_num <;> (try ring)


/-! ### The recogniser on well-formed degree-minute-second text -/

def digitsVal (ds : Str) : Nat := ds.foldl (fun acc c => acc * 10 + digitVal c) 0

/-- a field of `lo … hi` decimal digits -/
def IsField (ds : Str) (hi : Nat) : Prop :=
  1 ≤ ds.length ∧ ds.length ≤ hi ∧ ∀ c ∈ ds, isDigit c = true

theorem takeDigits3_field (ds : Str) (h : IsField ds 3) (c : Nat) (rest : Str)
    (hc : isDigit c = false) :
    takeDigits 3 (ds ++ c :: rest) = (digitsVal ds, ds.length, c :: rest) := by
  obtain ⟨h1, h2, h3⟩ := h
  match ds, h1, h2, h3 with
  | [a], _, _, h3 =>
    have ha := h3 a (by simp)
    simp [takeDigits, takeDigits.go, ha, hc, digitsVal]
  | [a, b], _, _, h3 =>
    have ha := h3 a (by simp); have hb := h3 b (by simp)
    simp [takeDigits, takeDigits.go, ha, hb, hc, digitsVal]
  | [a, b, d], _, _, h3 =>
    have ha := h3 a (by simp); have hb := h3 b (by simp); have hd := h3 d (by simp)
    simp [takeDigits, takeDigits.go, ha, hb, hd, digitsVal]

theorem takeDigits2_field (ds : Str) (h : IsField ds 2) (c : Nat) (rest : Str)
    (hc : isDigit c = false) :
    takeDigits 2 (ds ++ c :: rest) = (digitsVal ds, ds.length, c :: rest) := by
  obtain ⟨h1, h2, h3⟩ := h
  match ds, h1, h2, h3 with
  | [a], _, _, h3 =>
    have ha := h3 a (by simp)
    simp [takeDigits, takeDigits.go, ha, hc, digitsVal]
  | [a, b], _, _, h3 =>
    have ha := h3 a (by simp); have hb := h3 b (by simp)
    simp [takeDigits, takeDigits.go, ha, hb, hc, digitsVal]

/-- a present minutes/seconds field: one or two digits followed by one of its two marks -/
theorem optField_present (ds : Str) (h : IsField ds 2) (a b c : Nat) (rest : Str)
    (hc : c = a ∨ c = b) (hd : isDigit c = false) :
    optField (ds ++ c :: rest) a b = some (digitsVal ds, rest) := by
  unfold optField
  rw [takeDigits2_field ds h c rest hd]
  obtain ⟨h1, _, _⟩ := h
  have : ds ≠ [] := by intro h0; simp [h0] at h1
  split
  · rename_i heq; simp at heq; exact absurd heq.2.1 this
  · rename_i heq
    simp only [Prod.mk.injEq, List.cons.injEq] at heq
    obtain ⟨rfl, _, rfl, rfl⟩ := heq
    rcases hc with rfl | rfl <;> simp
  · rename_i heq; simp at heq

/-- the optional hemisphere letter and what follows it -/
inductive Tail where
  | dir (c : Nat) (rest : Str)     -- one of N S E W n s e w, then anything
  | other (rest : Str)             -- anything not starting with such a letter

def Tail.str : Tail → Str
  | .dir c rest => c :: rest
  | .other rest => rest

def Tail.Ok : Tail → Prop
  | .dir c _ => isDirLetter c = true
  | .other rest => match rest with | [] => True | c :: _ => isDirLetter c = false

def Tail.dirOpt : Tail → Option Nat
  | .dir c _ => some c
  | .other _ => none

theorem dir_parse (t : Tail) (ht : t.Ok) : dirOfRest t.str = t.dirOpt := by
  cases t with
  | dir c rest => simp [Tail.str, Tail.dirOpt, Tail.Ok, dirOfRest] at *; simp [ht]
  | other rest =>
    cases rest with
    | nil => simp [Tail.str, Tail.dirOpt, dirOfRest]
    | cons c r => simp [Tail.str, Tail.dirOpt, Tail.Ok, dirOfRest] at *; simp [ht]

theorem isDigit_marks : isDigit cDeg = false ∧ isDigit cPrime = false ∧ isDigit cApos = false
    ∧ isDigit cDPrime = false ∧ isDigit cQuote = false := by decide

/-- **C16 parse, all four field shapes**: degrees (1–3 digits) `°`, then optionally minutes
    (1–2 digits, `′` or `'`), optionally seconds (1–2 digits, `″` or `"`), optionally a
    hemisphere letter: the recogniser returns exactly those fields. -/
theorem recognise_deg_min_sec (dd md sd : Str) (hd : IsField dd 3) (hm : IsField md 2)
    (hs : IsField sd 2) (pm ps : Nat) (hpm : pm = cPrime ∨ pm = cApos)
    (hps : ps = cDPrime ∨ ps = cQuote) (t : Tail) (ht : t.Ok) :
    dmsRecognise (dd ++ cDeg :: (md ++ pm :: (sd ++ ps :: t.str)))
      = some ⟨digitsVal dd, some (digitsVal md), some (digitsVal sd), t.dirOpt⟩ := by
  obtain ⟨d1, d2, d3, d4, d5⟩ := isDigit_marks
  have hpmd : isDigit pm = false := by rcases hpm with rfl | rfl <;> assumption
  have hpsd : isDigit ps = false := by rcases hps with rfl | rfl <;> assumption
  unfold dmsRecognise
  rw [takeDigits3_field dd hd cDeg _ d1]
  have : dd ≠ [] := by intro h0; have := hd.1; simp [h0] at this
  split
  · rename_i heq; simp at heq; exact absurd heq.2.1 this
  · rename_i heq
    simp only [Prod.mk.injEq, List.cons.injEq] at heq
    obtain ⟨rfl, _, rfl, rfl⟩ := heq
    simp only [bne_self_eq_false, Bool.false_eq_true, ↓reduceIte]
    rw [optField_present md hm cPrime cApos pm _ hpm hpmd]
    simp only
    rw [optField_present sd hs cDPrime cQuote ps _ hps hpsd]
    simp only
    rw [dir_parse t ht]
  · rename_i heq; simp at heq

theorem optField_absent (s : Str) (a b : Nat)
    (h : match s with | [] => True | c :: _ => isDigit c = false) : optField s a b = none := by
  unfold optField
  cases s with
  | nil => simp [takeDigits]
  | cons c r => simp only at h; simp [takeDigits, h]

/-- degrees only (plus optional hemisphere letter) -/
theorem recognise_deg (dd : Str) (hd : IsField dd 3) (t : Tail) (ht : t.Ok)
    (hnd : match t.str with | [] => True | c :: _ => isDigit c = false) :
    dmsRecognise (dd ++ cDeg :: t.str) = some ⟨digitsVal dd, none, none, t.dirOpt⟩ := by
  obtain ⟨d1, _⟩ := isDigit_marks
  unfold dmsRecognise
  rw [takeDigits3_field dd hd cDeg _ d1]
  have : dd ≠ [] := by intro h0; have := hd.1; simp [h0] at this
  split
  · rename_i heq; simp at heq; exact absurd heq.2.1 this
  · rename_i heq
    simp only [Prod.mk.injEq, List.cons.injEq] at heq
    obtain ⟨rfl, _, rfl, rfl⟩ := heq
    simp only [bne_self_eq_false, Bool.false_eq_true, ↓reduceIte]
    rw [optField_absent _ cPrime cApos hnd, optField_absent _ cDPrime cQuote hnd]
    simp only
    rw [dir_parse t ht]
  · rename_i heq; simp at heq

/-- degrees and minutes -/
theorem recognise_deg_min (dd md : Str) (hd : IsField dd 3) (hm : IsField md 2)
    (pm : Nat) (hpm : pm = cPrime ∨ pm = cApos) (t : Tail) (ht : t.Ok)
    (hnd : match t.str with | [] => True | c :: _ => isDigit c = false) :
    dmsRecognise (dd ++ cDeg :: (md ++ pm :: t.str))
      = some ⟨digitsVal dd, some (digitsVal md), none, t.dirOpt⟩ := by
  obtain ⟨d1, d2, d3, d4, d5⟩ := isDigit_marks
  have hpmd : isDigit pm = false := by rcases hpm with rfl | rfl <;> assumption
  unfold dmsRecognise
  rw [takeDigits3_field dd hd cDeg _ d1]
  have : dd ≠ [] := by intro h0; have := hd.1; simp [h0] at this
  split
  · rename_i heq; simp at heq; exact absurd heq.2.1 this
  · rename_i heq
    simp only [Prod.mk.injEq, List.cons.injEq] at heq
    obtain ⟨rfl, _, rfl, rfl⟩ := heq
    simp only [bne_self_eq_false, Bool.false_eq_true, ↓reduceIte]
    rw [optField_present md hm cPrime cApos pm _ hpm hpmd]
    simp only
    rw [optField_absent _ cDPrime cQuote hnd]
    simp only
    rw [dir_parse t ht]
  · rename_i heq; simp at heq

/-- a digit field followed by a mark of the *other* kind is not this optional group -/
theorem optField_wrong_mark (ds : Str) (h : IsField ds 2) (a b c : Nat) (rest : Str)
    (hd : isDigit c = false) (ha : c ≠ a) (hb : c ≠ b) :
    optField (ds ++ c :: rest) a b = none := by
  unfold optField
  rw [takeDigits2_field ds h c rest hd]
  split
  · rfl
  · rename_i heq
    simp only [Prod.mk.injEq, List.cons.injEq] at heq
    obtain ⟨_, _, rfl, _⟩ := heq
    simp [ha, hb]
  · rfl

/-- degrees and seconds without minutes — the fourth field shape the pattern admits -/
theorem recognise_deg_sec (dd sd : Str) (hd : IsField dd 3) (hs : IsField sd 2)
    (ps : Nat) (hps : ps = cDPrime ∨ ps = cQuote) (t : Tail) (ht : t.Ok) :
    dmsRecognise (dd ++ cDeg :: (sd ++ ps :: t.str))
      = some ⟨digitsVal dd, none, some (digitsVal sd), t.dirOpt⟩ := by
  obtain ⟨d1, d2, d3, d4, d5⟩ := isDigit_marks
  have hpsd : isDigit ps = false := by rcases hps with rfl | rfl <;> assumption
  have n1 : ps ≠ cPrime := by rcases hps with rfl | rfl <;> decide
  have n2 : ps ≠ cApos := by rcases hps with rfl | rfl <;> decide
  unfold dmsRecognise
  rw [takeDigits3_field dd hd cDeg _ d1]
  have : dd ≠ [] := by intro h0; have := hd.1; simp [h0] at this
  split
  · rename_i heq; simp at heq; exact absurd heq.2.1 this
  · rename_i heq
    simp only [Prod.mk.injEq, List.cons.injEq] at heq
    obtain ⟨rfl, _, rfl, rfl⟩ := heq
    simp only [bne_self_eq_false, Bool.false_eq_true, ↓reduceIte]
    rw [optField_wrong_mark sd hs cPrime cApos ps _ hpsd n1 n2]
    simp only
    rw [optField_present sd hs cDPrime cQuote ps _ hps hpsd]
    simp only
    rw [dir_parse t ht]
  · rename_i heq; simp at heq

/-! ### Rejection -/

/-- text that does not begin with 1–3 digits followed by `°` is not recognised -/
theorem recognise_none_of_no_digit (s : Str)
    (h : match s with | [] => True | c :: _ => isDigit c = false) : dmsRecognise s = none := by
  unfold dmsRecognise
  cases s with
  | nil => simp [takeDigits]
  | cons c r => simp only at h; simp [takeDigits, h]

/-- **C16 reject**: text that is neither a numeral of the modelled grammar nor recognised
    by the degree pattern raises ValueError("Unable to convert degrees/minutes/seconds") -/
theorem reject (s : Str) (lim : Option ℝ) (hn : parseNumeral s = none)
    (hr : dmsRecognise s = none) : dmsToFloat (.str s) lim = .error .cannotConvertDms := by
  unfold dmsToFloat pyFloat?
  simp [hn, hr]

/-- and conversely an accepted string is a numeral or matches the degree pattern -/
theorem accept_cases (s : Str) (lim : Option ℝ) (v : ℝ) (h : dmsToFloat (.str s) lim = .ok v) :
    (∃ n, parseNumeral s = some n ∧ v = clamp n.toNum lim)
      ∨ (parseNumeral s = none ∧ ∃ m, dmsRecognise s = some m ∧ v = clamp m.value lim) := by
  unfold dmsToFloat pyFloat? at h
  cases hp : parseNumeral s with
  | some n => simp [hp] at h; exact Or.inl ⟨n, rfl, h.symm⟩
  | none =>
    simp only [hp] at h
    cases hr : dmsRecognise s with
    | some m => simp [hr] at h; exact Or.inr ⟨rfl, m, rfl, h.symm⟩
    | none => simp [hr] at h

/-- concrete instances: the hypotheses are satisfiable and the pieces compose -/
example : dmsRecognise [53, 49, 176, 51, 49, 39, 78] = some ⟨51, some 31, none, some 78⟩ := by
  decide   -- "51°31'N"
example : parseNumeral [53, 49, 176, 51, 49, 39, 78] = none := by decide
example : parseNumeral [45, 49, 50, 46, 53] = some ⟨true, 125, -1⟩ := by decide   -- "-12.5"

end Astral.C16
