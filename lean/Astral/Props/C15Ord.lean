import Astral.Props.C15
/-
  C15, calendar layer: the model's ordinal → (year, month, day) conversion (a transcription of
  CPython's `_ord2ymd`) is a right inverse of `ymdToOrd` and produces valid dates, so the
  field-level theorem `jd_gregorian` applies to every `datetime.date`:
  `julianday(date) = date.toordinal() + 1721424.5`, rising by exactly 1 per calendar day.
-/
namespace Astral.C15Ord
open Astral Astral.C15

def dimL (m : Int) (leap : Bool) : Int := daysInMonth (if leap then 4 else 1) m

def monthDayOk (r : Nat) (leap : Bool) : Bool :=
  let md := monthDay r leap
  1 ≤ md.1 && md.1 ≤ 12 && 1 ≤ md.2 && md.2 ≤ dimL md.1 leap && dbmL md.1 leap + md.2 == (r : Int) + 1

/-- every day-of-year 0…364 (365 in a leap year) splits into a valid month and day whose
    day count is the day-of-year again — kernel evaluation over the finite domain -/
theorem monthDay_table : ∀ r, r < 366 → ∀ leap : Bool, (leap = true ∨ r < 365) →
    monthDayOk r leap = true := by decide +kernel


theorem monthDay_spec (r : Int) (leap : Bool) (h0 : 0 ≤ r) (h1 : r < 365) :
    1 ≤ (monthDay r leap).1 ∧ (monthDay r leap).1 ≤ 12 ∧ 1 ≤ (monthDay r leap).2
      ∧ (monthDay r leap).2 ≤ dimL (monthDay r leap).1 leap
      ∧ dbmL (monthDay r leap).1 leap + (monthDay r leap).2 = r + 1 := by
  have h := monthDay_table r.toNat (by omega) leap (Or.inr (by omega))
  have hr : ((r.toNat : Nat) : Int) = r := by omega
  unfold monthDayOk at h
  simp only [hr, Bool.and_eq_true, decide_eq_true_eq, beq_iff_eq] at h
  obtain ⟨⟨⟨⟨a, b⟩, c⟩, d⟩, e⟩ := h
  exact ⟨a, b, c, d, e⟩

theorem leap_tables (y : Int) (L : Bool) (h : isLeap y = L) (m : Int) :
    daysBeforeMonth y m = dbmL m L ∧ daysInMonth y m = dimL m L := by
  have l4 : isLeap 4 = true := by decide
  have l1 : isLeap 1 = false := by decide
  unfold dbmL dimL daysBeforeMonth daysInMonth
  cases L <;> simp [h, l4, l1]

/-- **the calendar layer is coherent**: for every ordinal ≥ 1 the fields `ordToYMD` reports are
    a valid date whose ordinal is the one we started from -/
theorem ordToYMD_spec (n0 : Int) (h1 : 1 ≤ n0) :
    ymdToOrd (ordToYMD n0).1 (ordToYMD n0).2.1 (ordToYMD n0).2.2 = n0
      ∧ 1 ≤ (ordToYMD n0).1 ∧ 1 ≤ (ordToYMD n0).2.1 ∧ (ordToYMD n0).2.1 ≤ 12
      ∧ 1 ≤ (ordToYMD n0).2.2
      ∧ (ordToYMD n0).2.2 ≤ daysInMonth (ordToYMD n0).1 (ordToYMD n0).2.1 := by
  -- name the pieces of the decomposition
  obtain ⟨a, ha⟩ : ∃ a, a = (n0 - 1) / 146097 := ⟨_, rfl⟩
  obtain ⟨r, hr⟩ : ∃ r, r = (n0 - 1) % 146097 := ⟨_, rfl⟩
  obtain ⟨b, hb⟩ : ∃ b, b = r / 36524 := ⟨_, rfl⟩
  obtain ⟨r2, hr2⟩ : ∃ r2, r2 = r % 36524 := ⟨_, rfl⟩
  obtain ⟨c, hc⟩ : ∃ c, c = r2 / 1461 := ⟨_, rfl⟩
  obtain ⟨r3, hr3⟩ : ∃ r3, r3 = r2 % 1461 := ⟨_, rfl⟩
  obtain ⟨e, he⟩ : ∃ e, e = r3 / 365 := ⟨_, rfl⟩
  obtain ⟨r4, hr4⟩ : ∃ r4, r4 = r3 % 365 := ⟨_, rfl⟩
  have hn : n0 - 1 = 146097 * a + 36524 * b + 1461 * c + 365 * e + r4 := by omega
  have hb4 : 0 ≤ b ∧ b ≤ 4 := by omega
  have hc24 : 0 ≤ c ∧ c ≤ 24 := by omega
  have he4 : 0 ≤ e ∧ e ≤ 4 := by omega
  have hr4b : 0 ≤ r4 ∧ r4 < 365 := by omega
  have ha0 : 0 ≤ a := by omega
  have hY : ordToYMD n0 =
      if e = 4 ∨ b = 4 then (a * 400 + 1 + b * 100 + c * 4 + e - 1, 12, 31)
      else (a * 400 + 1 + b * 100 + c * 4 + e,
            (monthDay r4 (e == 3 && (c != 24 || b == 3))).1,
            (monthDay r4 (e == 3 && (c != 24 || b == 3))).2) := by
    unfold ordToYMD
    simp only [← ha, ← hr, ← hb, ← hr2, ← hc, ← hr3, ← he, ← hr4]
  rw [hY]
  by_cases hA : e = 4 ∨ b = 4
  · rw [if_pos hA]
    simp only
    -- the last day of a leap year
    have hyear : a * 400 + 1 + b * 100 + c * 4 + e - 1 = 400 * a + 100 * b + 4 * c + e := by ring
    rw [hyear]
    have hleap : isLeap (400 * a + 100 * b + 4 * c + e) = true := by
      rw [isLeap_iff]
      rcases hA with h | h
      · have : c ≤ 23 := by omega
        constructor <;> omega
      · have : b = 4 ∧ c = 0 ∧ e = 0 := by omega
        obtain ⟨rfl, rfl, rfl⟩ := this
        constructor <;> omega
    refine ⟨?_, by omega, by norm_num, by norm_num, by norm_num, ?_⟩
    · unfold ymdToOrd daysBeforeYear daysBeforeMonth
      simp only [hleap]
      norm_num
      rcases hA with h | h
      · have : c ≤ 23 := by omega
        have h4 : (400 * a + 100 * b + 4 * c + e - 1) / 4 = 100 * a + 25 * b + c := by omega
        have h100 : (400 * a + 100 * b + 4 * c + e - 1) / 100 = 4 * a + b := by omega
        have h400 : (400 * a + 100 * b + 4 * c + e - 1) / 400 = a := by omega
        rw [h4, h100, h400]; omega
      · have : b = 4 ∧ c = 0 ∧ e = 0 ∧ r4 = 0 := by omega
        obtain ⟨rfl, rfl, rfl, rfl⟩ := this
        have h4 : (400 * a + 100 * 4 + 4 * 0 + 0 - 1) / 4 = 100 * a + 99 := by omega
        have h100 : (400 * a + 100 * 4 + 4 * 0 + 0 - 1) / 100 = 4 * a + 3 := by omega
        have h400 : (400 * a + 100 * 4 + 4 * 0 + 0 - 1) / 400 = a := by omega
        rw [h4, h100, h400]; omega
    · unfold daysInMonth; norm_num
  · rw [if_neg hA]
    simp only
    push Not at hA
    obtain ⟨hne4, hnb4⟩ := hA
    set L : Bool := (e == 3 && (c != 24 || b == 3)) with hL
    have hyear : a * 400 + 1 + b * 100 + c * 4 + e = 400 * a + 100 * b + 4 * c + e + 1 := by ring
    rw [hyear]
    have hleap : isLeap (400 * a + 100 * b + 4 * c + e + 1) = L := by
      cases hLv : L
      · -- not leap
        have hnl : ¬ (e = 3 ∧ (c ≠ 24 ∨ b = 3)) := by
          intro hh
          have : L = true := by
            rw [hL]; simp [hh.1]; rcases hh.2 with h | h
            · left; exact h
            · right; exact h
          rw [this] at hLv; cases hLv
        have : ¬ isLeap (400 * a + 100 * b + 4 * c + e + 1) = true := by
          rw [isLeap_iff]; intro hh; apply hnl; constructor
          · omega
          · by_cases hc24' : c = 24
            · right; omega
            · left; exact hc24'
        simpa using this
      · have hl : e = 3 ∧ (c ≠ 24 ∨ b = 3) := by
          rw [hL] at hLv
          simp only [Bool.and_eq_true, beq_iff_eq, Bool.or_eq_true, bne_iff_ne] at hLv
          exact hLv
        rw [isLeap_iff]
        obtain ⟨h3, h24⟩ := hl
        constructor
        · omega
        · rcases h24 with h | h
          · left; omega
          · by_cases hc24' : c = 24
            · right; omega
            · left; omega
    obtain ⟨t1, t2⟩ := leap_tables _ L hleap (monthDay r4 L).1
    obtain ⟨m1, m2, m3, m4, m5⟩ := monthDay_spec r4 L hr4b.1 hr4b.2
    refine ⟨?_, by omega, m1, m2, m3, by rw [t2]; exact m4⟩
    unfold ymdToOrd daysBeforeYear
    rw [t1]
    have h4 : (400 * a + 100 * b + 4 * c + e + 1 - 1) / 4 = 100 * a + 25 * b + c := by omega
    have h100 : (400 * a + 100 * b + 4 * c + e + 1 - 1) / 100 = 4 * a + b := by omega
    have h400 : (400 * a + 100 * b + 4 * c + e + 1 - 1) / 400 = a := by omega
    simp only
    rw [h4, h100, h400]
    omega

end Astral.C15Ord
