import Astral.Model.Moon
import Astral.Props.C08
/-
  C12 — moon azimuth, elevation, zenith: ranges and definitions.  α := ℝ.
-/
namespace Astral.C12
open Astral Real Astral.C08

theorem bind_ok {β γ : Type} {x : Except Err β} {f : β → Except Err γ} {v : γ}
    (h : (x >>= f) = .ok v) : ∃ a, x = .ok a ∧ f a = .ok v := by
  cases x with
  | error e => simp [bind, Except.bind] at h
  | ok a => exact ⟨a, rfl, h⟩

/-- **elevation ∈ [−90°, 90°]**: `atan2 z r` with `r = √(x² + y²) ≥ 0` -/
theorem moon_elevation_range (lat lon : ℝ) (w : Int) (e : ℝ)
    (h : moonElevation lat lon w = .ok e) : -90 ≤ e ∧ e ≤ 90 := by
  unfold moonElevation at h
  obtain ⟨⟨x, y, z⟩, _, h⟩ := bind_ok h
  simp only [pure, Except.pure, Except.ok.injEq] at h
  subst h
  simp only [trig_atan2, trig_sqrt, degrees_eq]
  have hre : 0 ≤ (⟨Real.sqrt (x * x + y * y), z⟩ : ℂ).re := Real.sqrt_nonneg _
  have := Complex.abs_arg_le_pi_div_two_iff.mpr hre
  rw [abs_le] at this
  have hp := Real.pi_pos
  constructor
  · have : -(π / 2) * (180 / π) ≤ Complex.arg ⟨Real.sqrt (x * x + y * y), z⟩ * (180 / π) :=
      mul_le_mul_of_nonneg_right this.1 (by positivity)
    have e : -(π / 2) * (180 / π) = -90 := by field_simp; ring
    linarith
  · have : Complex.arg ⟨Real.sqrt (x * x + y * y), z⟩ * (180 / π) ≤ (π / 2) * (180 / π) :=
      mul_le_mul_of_nonneg_right this.2 (by positivity)
    have e : (π / 2) * (180 / π) = 90 := by field_simp; ring
    linarith

/-- **zenith is exactly 90° minus elevation** -/
theorem moon_zenith_def (lat lon : ℝ) (w : Int) :
    moonZenith lat lon w = (moonElevation lat lon w).map (fun e => 90 - e) := by
  unfold moonZenith
  cases moonElevation lat lon w <;> simp [bind, Except.bind, pure, Except.pure, Except.map]
  norm_num

/-- **azimuth ∈ [0°, 360°)** (exact reals; the IEEE rounding of the modulo to exactly 360.0 is
    what the repaired wrap in the code removes) -/
theorem moon_azimuth_range (lat lon : ℝ) (w : Int) (a : ℝ)
    (h : moonAzimuth lat lon w = .ok a) : 0 ≤ a ∧ a < 360 := by
  unfold moonAzimuth at h
  obtain ⟨⟨x, y, z⟩, _, h⟩ := bind_ok h
  simp only [pure, Except.pure, Except.ok.injEq] at h
  subst h
  have r := pymod_range (degrees (Trig.atan2 y x)) 360.0 (by norm_num)
  have r2 : Trig.pymod (degrees (Trig.atan2 y x)) 360.0 < 360 := by
    have := r.2; norm_num at this ⊢; exact this
  have hn : ¬ ((360.0 : ℝ) ≤ Trig.pymod (degrees (Trig.atan2 y x)) 360.0) := by
    intro hc; norm_num at hc; linarith
  rw [if_neg hn]
  exact ⟨r.1, r2⟩

/-- the final wrap is the identity on [0, 360): it only acts on the IEEE corner case -/
theorem wrap_identity (a : ℝ) (h : a < 360) : (if (360.0 : ℝ) ≤ a then a - 360.0 else a) = a := by
  rw [if_neg (by norm_num; exact h)]

/-- zenith ∈ [0°, 180°] -/
theorem moon_zenith_range (lat lon : ℝ) (w : Int) (z : ℝ)
    (h : moonZenith lat lon w = .ok z) : 0 ≤ z ∧ z ≤ 180 := by
  rw [moon_zenith_def] at h
  cases he : moonElevation lat lon w with
  | error e => simp [he, Except.map] at h
  | ok e =>
    simp only [he, Except.map, Except.ok.injEq] at h
    subst h
    have := moon_elevation_range lat lon w e he
    constructor <;> linarith [this.1, this.2]

end Astral.C12
