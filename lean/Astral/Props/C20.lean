import Astral.Gen.Effects
import Astral.Props.C13
import Astral.Props.C01
/-
  C20 — calls are total, pure and fail only with ValueError.

  Purity: `Astral.Gen.effectTable` is regenerated from the AST of /repo/src/astral on every
  run; the theorem below computes, in the kernel, the transitive effect set of every public
  sun and moon function and checks that it contains nothing but "reads the clock" (which
  happens only through now()/today(), only when no date is given).
-/
namespace Astral.C20
open Astral Astral.Gen

def rowAt (i : Nat) : FnRow := effectTable.getD i ⟨[], []⟩

/-- functions reachable from `start` through package calls (fuel = table size) -/
def reach : Nat → List Nat → List Nat → List Nat
  | 0, seen, _ => seen
  | _ + 1, seen, [] => seen
  | fuel + 1, seen, x :: todo =>
    if seen.contains x then reach fuel seen todo
    else reach fuel (x :: seen) ((rowAt x).calls ++ todo)

/-- effects of `f` and of everything it reaches.  `mutatesParam` is taken from `f`'s own row
    only: the extractor has already propagated parameter mutation through calls *by argument*
    (a callee that mutates an object its caller allocated does not make the caller impure). -/
def closureEffects (f : Nat) : List Eff :=
  (rowAt f).effects ++
  ((reach (4 * effectTable.length + 16) [] [f]).flatMap
    (fun i => (rowAt i).effects.filter (fun e => e != .mutatesParam)))

/-- the only effect a public sun/moon function may have: reading the clock (through `now()`) -/
def allowed (e : Eff) : Bool := e == .readsClock

def pureFn (f : Nat) : Bool := (closureEffects f).all allowed

/-- **C20 purity**: no public sun or moon function — nor anything it calls inside the package —
    writes module state, mutates an argument, keeps hidden state (caches, mutable defaults),
    reads the environment or performs I/O.  Hence its result is a function of its arguments
    (and of the clock only where the date is omitted), under any call order, any interleaving
    and any process time zone. -/
theorem pure_by_effects : publicFns.all pureFn = true := by decide +kernel

/-- the table is not vacuous: the public list is non-empty and every entry is a row -/
theorem public_nonempty : 20 ≤ publicFns.length ∧ publicFns.all (fun i => i < effectTable.length) = true := by
  decide +kernel

/-! ### Error kinds (exact reals): what can escape from the model's event functions -/

section
variable {α : Type} [Add α] [Sub α] [Mul α] [Div α] [Neg α] [LT α] [LE α] [OfScientific α]
  [Trig α] [DecidableRel (α := α) (· < ·)] [DecidableRel (α := α) (· ≤ ·)]

/-- a "math domain error" never escapes the handler of dawn/dusk/time_at_elevation: it is
    translated into the documented "never reaches" ValueError -/
theorem no_raw_domain_error {β : Type} (r : Except Err β) :
    onMathDomain r (.error .neverReaches) ≠ .error .mathDomain := by
  unfold onMathDomain
  split <;> simp_all

theorem dawn_no_domain_error (obs : Obs α) (d : Int) (dep : α) (tz : TZ) :
    dawn obs d dep tz ≠ .error .mathDomain := no_raw_domain_error _

theorem dusk_no_domain_error (obs : Obs α) (d : Int) (dep : α) (tz : TZ) :
    dusk obs d dep tz ≠ .error .mathDomain := no_raw_domain_error _

theorem tae_no_domain_error (obs : Obs α) (e : α) (d : Int) (dir : Dir) (tz : TZ) (r : Bool) :
    timeAtElevation obs e d dir tz r ≠ .error .mathDomain := no_raw_domain_error _

end
end Astral.C20
