import Astral.Props.C02
/-
  C06 — events of one solar day occur in their physical order.
  C10 — a higher observer sees sunrise earlier and sunset later (shares the monotonicity core).
  α := ℝ, with one declination and equation of time for the day (the "shared δ" idealisation;
  the implementation evaluates them at each event's own first-pass time — see DESIGN §7).
-/
namespace Astral.C06
open Astral Real Astral.C02

theorem acos?_ok {x v : ℝ} (h : acos? x = .ok v) : -1 ≤ x ∧ x ≤ 1 ∧ v = Real.arccos x := by
  unfold acos? at h
  split at h
  · rename_i hd
    obtain ⟨h1, h2⟩ := hd
    refine ⟨by norm_num at h1; linarith, by norm_num at h2; linarith, ?_⟩
    injection h with h; exact h.symm
  · cases h

theorem acos?_of_mem {x : ℝ} (h1 : -1 ≤ x) (h2 : x ≤ 1) : acos? x = .ok (Real.arccos x) := by
  unfold acos?
  rw [if_pos ⟨by norm_num; linarith, by norm_num; linarith⟩]
  rfl

theorem acos?_error {x : ℝ} (h : x < -1 ∨ 1 < x) : acos? x = .error .mathDomain := by
  unfold acos?
  rw [if_neg]
  rintro ⟨h1, h2⟩
  norm_num at h1 h2
  rcases h with h | h <;> linarith

/-- characterisation of `hour_angle` -/
theorem hourAngle_ok {φ δ z H : ℝ} {dir : Dir} (h : hourAngle φ δ z dir = .ok H) :
    -1 ≤ hourAngleArg φ δ z ∧ hourAngleArg φ δ z ≤ 1 ∧
    H = if dir = .setting then -Real.arccos (hourAngleArg φ δ z) else Real.arccos (hourAngleArg φ δ z) := by
  unfold hourAngle at h
  simp only [bind, Except.bind, pure, Except.pure] at h
  split at h
  · cases h
  · rename_i v hv
    obtain ⟨h1, h2, h3⟩ := acos?_ok hv
    injection h with h
    subst h3
    exact ⟨h1, h2, h.symm⟩

theorem hourAngleArg_eq (φ δ z : ℝ) :
    hourAngleArg φ δ z = (cos (radians z) - sin (radians φ) * sin (radians δ))
      / (cos (radians φ) * cos (radians δ)) := rfl

/-- the cosine of the zenith angle is strictly decreasing on [0°, 180°] -/
theorem cos_radians_strictAnti {z1 z2 : ℝ} (h0 : 0 ≤ z1) (h12 : z1 < z2) (h180 : z2 ≤ 180) :
    cos (radians z2) < cos (radians z1) := by
  rw [radians_eq, radians_eq]
  have hp := Real.pi_pos
  apply Real.cos_lt_cos_of_nonneg_of_le_pi
  · positivity
  · have : z2 * (π / 180) ≤ 180 * (π / 180) := by
      apply mul_le_mul_of_nonneg_right h180; positivity
    linarith
  · apply mul_lt_mul_of_pos_right h12; positivity

/-- **C06 core**: for a fixed latitude and declination (cos φ · cos δ > 0), a larger target
    zenith gives a strictly larger hour angle |H| — a rising event strictly earlier, a setting
    event strictly later. -/
theorem hourAngle_strictMono (φ δ z1 z2 H1 H2 : ℝ)
    (hden : 0 < cos (radians φ) * cos (radians δ))
    (h0 : 0 ≤ z1) (h12 : z1 < z2) (h180 : z2 ≤ 180)
    (e1 : hourAngle φ δ z1 .rising = .ok H1) (e2 : hourAngle φ δ z2 .rising = .ok H2) :
    H1 < H2 := by
  obtain ⟨a1, b1, c1⟩ := hourAngle_ok e1
  obtain ⟨a2, b2, c2⟩ := hourAngle_ok e2
  simp only [reduceCtorEq, ↓reduceIte] at c1 c2
  subst c1; subst c2
  have hcos := cos_radians_strictAnti h0 h12 h180
  have harg : hourAngleArg φ δ z2 < hourAngleArg φ δ z1 := by
    rw [hourAngleArg_eq, hourAngleArg_eq]
    apply div_lt_div_of_pos_right _ hden
    linarith
  exact Real.arccos_lt_arccos a2 harg b1

theorem hourAngle_setting_neg (φ δ z : ℝ) :
    hourAngle φ δ z .setting = (hourAngle φ δ z .rising).map (fun h => -h) := by
  unfold hourAngle
  cases acos? (hourAngleArg φ δ z) <;> simp [bind, Except.bind, pure, Except.pure, Except.map]

/-- the sign of the hour angle selects the morning or the evening crossing -/
theorem hourAngle_sign (φ δ z H : ℝ) (dir : Dir) (h : hourAngle φ δ z dir = .ok H) :
    (dir = .rising → 0 ≤ H ∧ H ≤ π) ∧ (dir = .setting → -π ≤ H ∧ H ≤ 0) := by
  obtain ⟨_, _, c⟩ := hourAngle_ok h
  have n := Real.arccos_nonneg (hourAngleArg φ δ z)
  have p := Real.arccos_le_pi (hourAngleArg φ δ z)
  constructor
  · intro hd; subst hd; simp only [reduceCtorEq, ↓reduceIte] at c; subst c; exact ⟨n, p⟩
  · intro hd; subst hd; simp only [↓reduceIte] at c; subst c; constructor <;> linarith

/-- minutes after 00:00 UTC of one pass, without the UTC-day wrap:
    `720 + 4·(−lon − H°) − eqtime` -/
noncomputable def unwrappedMinutes (lon eqtime H : ℝ) : ℝ := 720 + ((-lon - degrees H) * 4 - eqtime)

/-- **event order from zenith order**: with shared declination and equation of time, a larger
    target zenith puts the rising event strictly earlier and the setting event strictly later;
    and every rising event is before (every setting event after) the transit `H = 0`. -/
theorem event_order (φ δ lon eqt z1 z2 H1 H2 : ℝ)
    (hden : 0 < cos (radians φ) * cos (radians δ))
    (h0 : 0 ≤ z1) (h12 : z1 < z2) (h180 : z2 ≤ 180)
    (e1 : hourAngle φ δ z1 .rising = .ok H1) (e2 : hourAngle φ δ z2 .rising = .ok H2) :
    unwrappedMinutes lon eqt H2 < unwrappedMinutes lon eqt H1
      ∧ unwrappedMinutes lon eqt H1 ≤ unwrappedMinutes lon eqt 0
      ∧ unwrappedMinutes lon eqt (-H1) < unwrappedMinutes lon eqt (-H2)
      ∧ unwrappedMinutes lon eqt 0 ≤ unwrappedMinutes lon eqt (-H1) := by
  have hlt := hourAngle_strictMono φ δ z1 z2 H1 H2 hden h0 h12 h180 e1 e2
  have hs := (hourAngle_sign φ δ z1 H1 .rising e1).1 rfl
  unfold unwrappedMinutes
  simp only [degrees_eq]
  have hp := Real.pi_pos
  have k : 0 < 180 / π := by positivity
  refine ⟨?_, ?_, ?_, ?_⟩ <;> nlinarith [mul_lt_mul_of_pos_right hlt k, mul_nonneg hs.1 k.le]

/-- the UTC-day wrap moves an event by exactly one day (why C06 restricts itself to events
    within 11.5 h of noon) -/
theorem wrap_is_one_day (offset : ℝ) :
    (if offset < -720.0 then offset + 1440.0 else offset) = offset
      ∨ (if offset < -720.0 then offset + 1440.0 else offset) = offset + 1440 := by
  split_ifs
  · right; norm_num
  · left; rfl

/-! ### The chain of effective zeniths -/

/-- effective zenith for a depression `d` with elevation adjustment `adj` -/
noncomputable def zEff (d adj : ℝ) (r : Bool) : ℝ :=
  90 + d + adj + (if r then refractionAtZenith (90 + d + adj) else 0)

/-- **zenith grows with depression**: as long as the adjusted zeniths stay in [0°, 180°] the
    refraction term (in [0, 0.6)) cannot undo a gap of more than 0.6° between depressions:
    18 > 12 > 6 > 16′ > −4 > −6 (time-at-elevation +6 is depression −6), refraction on or off. -/
theorem zEff_lt (d1 d2 adj : ℝ) (r : Bool) (hgap : d1 + 0.6 ≤ d2)
    (h0 : 0 ≤ 90 + d1 + adj) (h180 : 90 + d2 + adj ≤ 180) :
    zEff d1 adj r < zEff d2 adj r := by
  unfold zEff
  cases r
  · simp; linarith
  · simp only [↓reduceIte]
    have b1 := refraction_bounds (90 + d1 + adj) h0 (by linarith)
    have b2 := refraction_bounds (90 + d2 + adj) (by linarith) h180
    linarith [b1.1, b1.2.1, b2.1, b2.2.1]

/-- the six depressions of the C06 chain are separated by more than 0.6° -/
theorem chain_gaps :
    (-6 : ℝ) + 0.6 ≤ -4 ∧ (-4 : ℝ) + 0.6 ≤ 32 / 120 ∧ (32 / 120 : ℝ) + 0.6 ≤ 6
      ∧ (6 : ℝ) + 0.6 ≤ 12 ∧ (12 : ℝ) + 0.6 ≤ 18 := by
  norm_num

end Astral.C06
