import Astral.Model.Sun
import Astral.Model.Moon
import Astral.Real
import Mathlib.Tactic
/-
  C03 — every reported sun or moon event lies on the requested calendar date.

  The ephemeris is an *uninterpreted* function and the zone an arbitrary function
  `Instant → offset`: the theorems hold for every observer, every date, every time zone
  (fixed, fractional, DST, historical) and every numeric behaviour of the astronomy.
-/
namespace Astral.C03
open Astral

/-! ### The re-matching block -/

theorem rematch_ok {f : Date → Except Err Instant} {z : Zone} {d : Date} {t : Instant}
    (h : rematch f z d = .ok t) : localDate z t = d := by
  unfold rematch at h
  simp only [bind, Except.bind, pure, Except.pure] at h
  split at h
  · cases h
  · rename_i t1 _
    split at h
    · rename_i hd
      injection h with h; subst h; exact hd
    · split at h
      · cases h
      · split at h
        · cases h
        · rename_i t2 _
          split at h
          · rename_i hd
            injection h with h; subst h; exact hd
          · cases h

/-- **C03 core**: whatever the transit function and the zone, a time returned by the
    re-matching block is on the requested date in that zone. -/
theorem rematch_on_date (f : Date → Except Err Instant) (z : Zone) (d : Date) (t : Instant) :
    rematch f z d = .ok t → localDate z t = d := rematch_ok

theorem onMathDomain_ok {β : Type} {r h : Except Err β} {v : β}
    (hh : ∀ v, h ≠ .ok v) (hr : onMathDomain r h = .ok v) : r = .ok v := by
  unfold onMathDomain at hr
  split at hr
  · exact absurd hr (hh v)
  · exact hr

section
variable {α : Type} [Add α] [Sub α] [Mul α] [Div α] [Neg α] [LT α] [LE α] [OfScientific α]
  [Trig α] [DecidableRel (α := α) (· < ·)] [DecidableRel (α := α) (· ≤ ·)]

theorem alwaysVerdict_not_ok (obs : Obs α) (date : Date) (v : Instant) :
    alwaysVerdict obs date ≠ .ok v := by
  unfold alwaysVerdict
  simp only [bind, Except.bind]
  split
  · simp
  · split
    · simp
    · split <;> simp [throw, throwThe, MonadExceptOf.throw]

/-- dawn: any numeric type, any observer, date, depression, zone -/
theorem dawn_on_date (obs : Obs α) (d : Date) (dep : α) (tz : TZ) (t : Instant)
    (h : dawn obs d dep tz = .ok t) : localDate tz.utc t = d :=
  rematch_ok (onMathDomain_ok (fun _ => by simp) h)

theorem dusk_on_date (obs : Obs α) (d : Date) (dep : α) (tz : TZ) (t : Instant)
    (h : dusk obs d dep tz = .ok t) : localDate tz.utc t = d :=
  rematch_ok (onMathDomain_ok (fun _ => by simp) h)

theorem sunrise_on_date (obs : Obs α) (d : Date) (tz : TZ) (t : Instant)
    (h : sunrise obs d tz = .ok t) : localDate tz.utc t = d :=
  rematch_ok (onMathDomain_ok (alwaysVerdict_not_ok obs d) h)

theorem sunset_on_date (obs : Obs α) (d : Date) (tz : TZ) (t : Instant)
    (h : sunset obs d tz = .ok t) : localDate tz.utc t = d :=
  rematch_ok (onMathDomain_ok (alwaysVerdict_not_ok obs d) h)

theorem timeAtElevation_on_date (obs : Obs α) (e : α) (d : Date) (dir : Dir) (tz : TZ)
    (r : Bool) (t : Instant) (h : timeAtElevation obs e d dir tz r = .ok t) :
    localDate tz.utc t = d :=
  rematch_ok (onMathDomain_ok (fun _ => by simp) h)


theorem bind_ok {β γ : Type} {x : Except Err β} {f : β → Except Err γ} {v : γ}
    (h : (x >>= f) = .ok v) : ∃ a, x = .ok a ∧ f a = .ok v := by
  cases x with
  | error e => simp [bind, Except.bind] at h
  | ok a => exact ⟨a, rfl, h⟩

/-- daylight = (sunrise, sunset), both on the date -/
theorem daylight_on_date (obs : Obs α) (d : Date) (tz : TZ) (s e : Instant)
    (h : daylight obs d tz = .ok (s, e)) : localDate tz.utc s = d ∧ localDate tz.utc e = d := by
  unfold daylight at h
  obtain ⟨a, ha, h⟩ := bind_ok h
  obtain ⟨b, hb, h⟩ := bind_ok h
  simp only [pure, Except.pure, Except.ok.injEq, Prod.mk.injEq] at h
  obtain ⟨rfl, rfl⟩ := h
  exact ⟨sunrise_on_date obs d tz a ha, sunset_on_date obs d tz b hb⟩

theorem dateAdd_ok {d k r : Int} (h : dateAdd? d k = .ok r) : r = d + k := by
  unfold dateAdd? at h
  simp only at h
  split at h
  · injection h with h; exact h.symm
  · cases h

/-- night starts on the date and ends on the next one -/
theorem night_dates (obs : Obs α) (d : Date) (tz : TZ) (s e : Instant)
    (h : night obs d tz = .ok (s, e)) :
    localDate tz.utc s = d ∧ localDate tz.utc e = d + 1 := by
  unfold night at h
  obtain ⟨a, ha, h⟩ := bind_ok h
  obtain ⟨tm, htm, h⟩ := bind_ok h
  obtain ⟨b, hb, h⟩ := bind_ok h
  simp only [pure, Except.pure, Except.ok.injEq, Prod.mk.injEq] at h
  obtain ⟨rfl, rfl⟩ := h
  have := dateAdd_ok htm
  subst this
  exact ⟨dusk_on_date obs d _ tz a ha, dawn_on_date obs (d + 1) _ tz b hb⟩

theorem twilight_on_date (obs : Obs α) (d : Date) (dir : Dir) (tz : TZ) (s e : Instant)
    (h : twilight obs d dir tz = .ok (s, e)) :
    localDate tz.utc s = d ∧ localDate tz.utc e = d := by
  unfold twilight at h
  cases dir with
  | rising =>
    simp only at h
    obtain ⟨a, ha, h⟩ := bind_ok h
    obtain ⟨b, hb, h⟩ := bind_ok h
    simp only [pure, Except.pure, Except.ok.injEq, Prod.mk.injEq] at h
    obtain ⟨rfl, rfl⟩ := h
    exact ⟨dawn_on_date obs d _ tz a ha, sunrise_on_date obs d tz b hb⟩
  | setting =>
    simp only at h
    obtain ⟨a, ha, h⟩ := bind_ok h
    obtain ⟨b, hb, h⟩ := bind_ok h
    simp only [pure, Except.pure, Except.ok.injEq, Prod.mk.injEq] at h
    obtain ⟨rfl, rfl⟩ := h
    exact ⟨sunset_on_date obs d tz b hb, dusk_on_date obs d _ tz a ha⟩

theorem goldenHour_on_date (obs : Obs α) (d : Date) (dir : Dir) (tz : TZ) (s e : Instant)
    (h : goldenHour obs d dir tz = .ok (s, e)) :
    localDate tz.utc s = d ∧ localDate tz.utc e = d := by
  unfold goldenHour at h
  obtain ⟨a, ha, h⟩ := bind_ok h
  obtain ⟨b, hb, h⟩ := bind_ok h
  have h1 := timeAtElevation_on_date obs _ d dir tz true a ha
  have h2 := timeAtElevation_on_date obs _ d dir tz true b hb
  cases dir <;>
    (simp only [pure, Except.pure, Except.ok.injEq, Prod.mk.injEq] at h
     obtain ⟨rfl, rfl⟩ := h
     first | exact ⟨h1, h2⟩ | exact ⟨h2, h1⟩)

theorem blueHour_on_date (obs : Obs α) (d : Date) (dir : Dir) (tz : TZ) (s e : Instant)
    (h : blueHour obs d dir tz = .ok (s, e)) :
    localDate tz.utc s = d ∧ localDate tz.utc e = d := by
  unfold blueHour at h
  obtain ⟨a, ha, h⟩ := bind_ok h
  obtain ⟨b, hb, h⟩ := bind_ok h
  have h1 := timeAtElevation_on_date obs _ d dir tz true a ha
  have h2 := timeAtElevation_on_date obs _ d dir tz true b hb
  cases dir <;>
    (simp only [pure, Except.pure, Except.ok.injEq, Prod.mk.injEq] at h
     obtain ⟨rfl, rfl⟩ := h
     first | exact ⟨h1, h2⟩ | exact ⟨h2, h1⟩)

/-- the five-event bundle: dawn, sunrise, sunset, dusk on the date -/
theorem sunBundle_on_date (obs : Obs α) (d : Date) (dep : α) (tz : TZ) (r : SunTimes)
    (h : sunBundle obs d dep tz = .ok r) :
    localDate tz.utc r.dawn = d ∧ localDate tz.utc r.sunrise = d
      ∧ localDate tz.utc r.sunset = d ∧ localDate tz.utc r.dusk = d := by
  unfold sunBundle at h
  obtain ⟨a, ha, h⟩ := bind_ok h
  obtain ⟨b, hb, h⟩ := bind_ok h
  obtain ⟨c, _, h⟩ := bind_ok h
  obtain ⟨e, he, h⟩ := bind_ok h
  obtain ⟨f, hf, h⟩ := bind_ok h
  simp only [pure, Except.pure, Except.ok.injEq] at h
  subst h
  exact ⟨dawn_on_date obs d dep tz a ha, sunrise_on_date obs d tz b hb,
    sunset_on_date obs d tz e he, dusk_on_date obs d dep tz f hf⟩

end

/-! ### The moon's variant: `None` instead of an error -/

/-- **C03, moon**: whatever the hourly scan finds, an instant returned by the
    moonrise/moonset date logic is on the requested date. -/
theorem moonWrapper_on_date (scan : Date → Except Err (Option Instant)) (z : Zone) (d : Date)
    (t : Instant) (h : moonWrapper scan z d = .ok (some t)) : localDate z t = d := by
  unfold moonWrapper at h
  simp only [bind, Except.bind, pure, Except.pure] at h
  repeat' split at h
  all_goals simp_all

section
variable {α : Type} [Add α] [Sub α] [Mul α] [Div α] [Neg α] [LT α] [LE α] [OfScientific α]
  [Trig α] [DecidableRel (α := α) (· < ·)] [DecidableRel (α := α) (· ≤ ·)]

theorem moonrise_on_date (lat lon : α) (d : Date) (tz : TZ) (t : Instant)
    (h : moonrise lat lon d tz = .ok (some t)) : localDate tz.utc t = d :=
  moonWrapper_on_date _ _ _ _ h

theorem moonset_on_date (lat lon : α) (d : Date) (tz : TZ) (t : Instant)
    (h : moonset lat lon d tz = .ok (some t)) : localDate tz.utc t = d :=
  moonWrapper_on_date _ _ _ _ h

end

/-! ### Non-vacuity: the retry path is taken and succeeds -/

/-- a fixed +9 h zone and a transit at 19:40 UTC of the day before: the first candidate is
    on the next local date, the retry lands on the requested one. -/
example :
    rematch (fun d => .ok (d * usPerDay + 19 * usPerHour + 40 * usPerMin))
      (fun _ => 9 * usPerHour) 738000 = .ok (737999 * usPerDay + 19 * usPerHour + 40 * usPerMin)
    ∧ localDate (fun _ => 9 * usPerHour) (737999 * usPerDay + 19 * usPerHour + 40 * usPerMin)
        = 738000 := by
  decide

end Astral.C03
