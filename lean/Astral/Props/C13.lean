import Astral.Model.Moon
import Astral.Props.C07
import Astral.Lemmas.Floor
/-
  C13 — moonrise and moonset are true horizon crossings (of the interpolated altitude).
  C14 — moonrise/moonset find every event their scan offers and fail only as documented.
-/
namespace Astral.C13
open Astral Real

/-! ### The quadratic through the three samples of the hour -/

/-- **C13 core**: if the altitude function changes sign over the hour (`d0·d2 < 0`) and the
    parabola through (0,d0), (½,d1), (1,d2) is not degenerate, then its discriminant is
    positive and the root the code selects (the first unless it is outside [0,1], else the
    second) lies in [0,1] and is a zero of the interpolant. -/
theorem quad_root_in_unit (d0 d1 d2 : ℝ) (hs : d0 * d2 < 0)
    (a b : ℝ) (ha_def : a = 2 * d2 - 4 * d1 + 2 * d0) (hb_def : b = 4 * d1 - 3 * d0 - d2)
    (ha : a ≠ 0) :
    0 ≤ b * b - 4 * a * d0 ∧
    ∀ e1 e2 e : ℝ,
      e1 = (-b + sqrt (b * b - 4 * a * d0)) / (2 * a) →
      e2 = (-b - sqrt (b * b - 4 * a * d0)) / (2 * a) →
      e = (if e1 > 1 ∨ e1 < 0 then e2 else e1) →
      0 ≤ e ∧ e ≤ 1 ∧ d0 + b * e + a * e * e = 0 := by
  have hd2 : d2 = d0 + b + a := by rw [ha_def, hb_def]; ring
  have hdisc : b * b - 4 * a * d0 = (b + 2 * d0) ^ 2 - 4 * (d0 * d2) := by rw [hd2]; ring
  have hpos : 0 < b * b - 4 * a * d0 := by rw [hdisc]; nlinarith [sq_nonneg (b + 2 * d0)]
  refine ⟨hpos.le, ?_⟩
  intro e1 e2 e h1 h2 he
  set s := sqrt (b * b - 4 * a * d0) with hs_def
  have hss : s * s = b * b - 4 * a * d0 := Real.mul_self_sqrt hpos.le
  have h2a : (2 * a) ≠ 0 := by positivity
  have r1 : d0 + b * e1 + a * e1 * e1 = 0 := by
    rw [h1]; field_simp; nlinarith [hss]
  have r2 : d0 + b * e2 + a * e2 * e2 = 0 := by
    rw [h2]; field_simp; nlinarith [hss]
  have hsum : e1 + e2 = -b / a := by rw [h1, h2]; field_simp; ring
  have hprod : e1 * e2 = d0 / a := by
    rw [h1, h2]; field_simp; nlinarith [hss]
  have hd0 : d0 = a * (e1 * e2) := by rw [hprod]; field_simp
  have hb : b = -a * (e1 + e2) := by rw [hsum]; field_simp
  have hd2' : d2 = a * ((1 - e1) * (1 - e2)) := by rw [hd2, hd0, hb]; ring
  have hsign : (e1 * (1 - e1)) * (e2 * (1 - e2)) < 0 := by
    have : d0 * d2 = a ^ 2 * ((e1 * (1 - e1)) * (e2 * (1 - e2))) := by
      rw [hd2']; conv_lhs => rw [hd0]
      ring
    have ha2 : 0 < a ^ 2 := by positivity
    rw [this] at hs
    by_contra hcon
    push Not at hcon
    nlinarith
  by_cases hc : e1 > 1 ∨ e1 < 0
  · rw [if_pos hc] at he; rw [he]
    have hneg : e1 * (1 - e1) < 0 := by
      rcases hc with h | h <;> nlinarith
    have hpos2 : 0 < e2 * (1 - e2) := by
      by_contra hcon; push Not at hcon; nlinarith
    refine ⟨?_, ?_, r2⟩ <;> nlinarith
  · rw [if_neg hc] at he; rw [he]
    push Not at hc
    exact ⟨hc.2, hc.1, r1⟩

/-- the interpolant really passes through the three samples -/
theorem interpolant_samples (d0 d1 d2 a b : ℝ) (ha_def : a = 2 * d2 - 4 * d1 + 2 * d0)
    (hb_def : b = 4 * d1 - 3 * d0 - d2) :
    d0 + b * 0 + a * 0 * 0 = d0 ∧ d0 + b * (1 / 2) + a * (1 / 2) * (1 / 2) = d1
      ∧ d0 + b * 1 + a * 1 * 1 = d2 := by
  subst ha_def; subst hb_def
  refine ⟨by ring, by ring, by ring⟩

/-- **event time fields**: a root in [0,1] within hour `hour` (0…23), rounded up by half a
    minute, gives an hour field equal to `hour` or `hour + 1` and a minute field in 0…59 -/
theorem event_time_fields (hour : ℤ) (e : ℝ) (h0 : 0 ≤ hour) (he0 : 0 ≤ e) (he1 : e ≤ 1) :
    let time : ℝ := (hour : ℝ) + e + 1 / 120
    let h := Trig.trunc time
    let m := Trig.trunc ((time - (h : ℝ)) * 60)
    (h = hour ∨ h = hour + 1) ∧ 0 ≤ m ∧ m ≤ 59 := by
  intro time h m
  have hh : (0 : ℝ) ≤ (hour : ℝ) := by exact_mod_cast h0
  have t0 : 0 ≤ time := by simp only [time]; linarith
  have hfl : h = ⌊time⌋ := trunc_of_nonneg t0
  have l1 : (hour : ℝ) ≤ time := by simp only [time]; linarith
  have l2 : time < (hour : ℝ) + 2 := by simp only [time]; linarith
  have f1 : hour ≤ ⌊time⌋ := Int.le_floor.mpr l1
  have f2 : ⌊time⌋ < hour + 2 := by
    apply Int.floor_lt.mpr; push_cast; exact l2
  have frac0 := Int.floor_le time
  have frac1 := Int.lt_floor_add_one time
  have g0 : 0 ≤ time - (⌊time⌋ : ℝ) := by linarith
  have g1 : time - (⌊time⌋ : ℝ) < 1 := by linarith
  have m0 : 0 ≤ (time - (h : ℝ)) * 60 := by rw [hfl]; nlinarith
  have m1 : (time - (h : ℝ)) * 60 < 60 := by rw [hfl]; nlinarith
  refine ⟨by rw [hfl]; omega, ?_, ?_⟩
  · simp only [m]; rw [trunc_of_nonneg m0]; exact Int.floor_nonneg.mpr m0
  · simp only [m]; rw [trunc_of_nonneg m0]
    have : ⌊(time - (h : ℝ)) * 60⌋ < 60 := Int.floor_lt.mpr (by exact_mod_cast m1)
    omega

/-- the rise/set altitude: the scan's zero level is the cosine of
    `90° + 1896″ − 41.685/distance` (semi-diameter and parallax) -/
theorem threshold_def : (moonApparentRadius : ℝ) = 1896 / 3600 := by
  unfold moonApparentRadius; norm_num

/-! ### C14: the date logic around the scan -/

open Astral.C07 in
/-- **outcomes**: if the scan itself never fails, moonrise/moonset can only return a time,
    return None, or raise "Moon never rises/sets on this date" -/
theorem moonWrapper_outcomes (scan : Date → Except Err (Option Instant)) (z : Zone) (d : Int)
    (hd : 2 ≤ d ∧ d ≤ 3652058)
    (hscan : ∀ k, ∃ r, scan k = .ok r) :
    (∃ t, moonWrapper scan z d = .ok (some t)) ∨ moonWrapper scan z d = .ok none
      ∨ moonWrapper scan z d = .error .moonNever := by
  have hadd : ∀ k : Int, (k = 1 ∨ k = -1) → dateAdd? d k = .ok (d + k) := by
    intro k hk
    unfold dateAdd? minOrdinal maxOrdinal
    simp only
    obtain ⟨h1, h2⟩ := hd
    rw [if_pos (by rcases hk with rfl | rfl <;> constructor <;> omega)]
  have hnoerr : ∀ k e, scan k ≠ .error e := by
    intro k e hc; obtain ⟨r, hr⟩ := hscan k; rw [hr] at hc; cases hc
  have haddne : ∀ k : Int, (k = 1 ∨ k = -1) → ∀ e, dateAdd? d k ≠ .error e := by
    intro k hk e hc; rw [hadd k hk] at hc; cases hc
  unfold moonWrapper
  simp only [bind, Except.bind, pure, Except.pure]
  repeat' split
  all_goals
    first
    | exact Or.inl ⟨_, rfl⟩
    | exact Or.inr (Or.inl rfl)
    | exact Or.inr (Or.inr rfl)
    | (exfalso; exact hnoerr _ _ ‹_›)
    | (exfalso; exact haddne _ (Or.inl rfl) _ ‹_›)
    | (exfalso; exact haddne _ (Or.inr rfl) _ ‹_›)
    | (exfalso
       rename_i hh
       exact haddne _ (by split_ifs <;> simp) _ hh)

/-- **completeness of the date logic** (after the repair of D6): if the scan of the requested
    UTC day has no event, an event of either neighbouring UTC day that falls on the requested
    local date is returned; and an event of the requested UTC day that is on the date is
    returned at once. -/
theorem moonWrapper_complete (scan : Date → Except Err (Option Instant)) (z : Zone) (d : Int)
    (hd : 2 ≤ d ∧ d ≤ 3652058) (hscan : ∀ k, ∃ r, scan k = .ok r) :
    (∀ t, scan d = .ok (some t) → localDate z t = d → moonWrapper scan z d = .ok (some t))
    ∧ (scan d = .ok none →
        (∀ t, scan (d + -1) = .ok (some t) → localDate z t = d →
            moonWrapper scan z d = .ok (some t))
        ∧ (∀ t, scan (d + 1) = .ok (some t) → localDate z t = d →
            (∀ t', scan (d + -1) = .ok (some t') → localDate z t' ≠ d) →
            moonWrapper scan z d = .ok (some t))) := by
  have hadd : ∀ k : Int, (k = 1 ∨ k = -1) → dateAdd? d k = .ok (d + k) := by
    intro k hk
    unfold dateAdd? minOrdinal maxOrdinal
    simp only
    obtain ⟨h1, h2⟩ := hd
    rw [if_pos (by rcases hk with rfl | rfl <;> constructor <;> omega)]
  refine ⟨?_, ?_⟩
  · intro t h0 hl
    unfold moonWrapper
    simp [bind, Except.bind, pure, Except.pure, h0, hl]
  · intro h0
    refine ⟨?_, ?_⟩
    · intro t hm hl
      unfold moonWrapper
      simp [bind, Except.bind, pure, Except.pure, h0, hadd (-1) (Or.inr rfl), hm, hl]
    · intro t hp hl hnot
      obtain ⟨rm, hm⟩ := hscan (d + -1)
      unfold moonWrapper
      simp only [bind, Except.bind, pure, Except.pure, h0, hadd (-1) (Or.inr rfl),
        hadd 1 (Or.inl rfl), hm, hp]
      cases rm with
      | some t' =>
        have := hnot t' hm
        simp [this, hl]
      | none => simp [hl]

/-- the choice among several events of one UTC day keeps one of them (never invents a time) -/
theorem moon_choice (cur ev query : Int) (other : Option Int) :
    (if moonUpdate cur ev query other then ev else cur) = ev
      ∨ (if moonUpdate cur ev query other then ev else cur) = cur := by
  split_ifs <;> simp

end Astral.C13
