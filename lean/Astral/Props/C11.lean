import Astral.Model.Moon
import Astral.Props.C08
/-
  C11 — moon phase stays in [0, 28).  α := ℝ; the last stage is also checked in IEEE
  arithmetic for all 360 integer elongations (C11Float.lean).
-/
namespace Astral.C11
open Astral Real Astral.C08

theorem trunc_range_of_nonneg_lt (x : ℝ) (n : ℤ) (h0 : 0 ≤ x) (hn : x < n) :
    0 ≤ Trig.trunc x ∧ Trig.trunc x ≤ n - 1 := by
  rw [trunc_of_nonneg h0]
  constructor
  · exact Int.floor_nonneg.mpr h0
  · have : ⌊x⌋ < n := Int.floor_lt.mpr hn
    omega

/-- the last stage: an integer elongation 0…359 maps into [0.5, 28.43) 28ths -/
theorem last_stage (e : ℤ) (h0 : 0 ≤ e) (h359 : e ≤ 359) :
    (0.5 : ℝ) ≤ (((e : ℝ) + 6.43) / 360.0) * 28.0 ∧ (((e : ℝ) + 6.43) / 360.0) * 28.0 < 28.43 := by
  have a : (0 : ℝ) ≤ (e : ℝ) := by exact_mod_cast h0
  have b : (e : ℝ) ≤ 359 := by exact_mod_cast h359
  constructor <;> norm_num <;> linarith

theorem elongation_range (d : Int) : 0 ≤ elongation (α := ℝ) d ∧ elongation (α := ℝ) d < 360 := by
  unfold elongation
  simp only
  have h := C08.pymod_range
  constructor
  · exact (h _ 360.0 (by norm_num)).1
  · have h2 : ∀ x : ℝ, Trig.pymod x 360.0 < 360 := by
      intro x
      have := (h x 360.0 (by norm_num)).2
      norm_num at this ⊢
      exact this
    exact h2 _

/-- **C11 range**: for every calendar date the phase is in [0, 28) -/
theorem phase_range (d : Int) : 0 ≤ phase (α := ℝ) d ∧ phase (α := ℝ) d < 28 := by
  unfold phase phaseAsFloat phaseOfElong
  simp only
  obtain ⟨e0, e1⟩ := elongation_range d
  obtain ⟨t0, t1⟩ := trunc_range_of_nonneg_lt (elongation (α := ℝ) d) 360 e0 (by exact_mod_cast e1)
  have ls := last_stage (Trig.trunc (elongation (α := ℝ) d)) t0 (by omega)
  simp only [trig_ofInt]
  split_ifs with h
  · constructor <;> norm_num at h ls ⊢ <;> linarith [ls.1, ls.2]
  · constructor <;> norm_num at h ls ⊢ <;> linarith [ls.1, ls.2]

end Astral.C11
