import Astral.Model.Moon
import Astral.Model.FloatInst
/-
  C11, last stage in IEEE binary64: for every integer elongation 0…359 the value
  ((e + 6.43) / 360) * 28, wrapped once at 28, is in [0, 28).  Lean 4.33's kernel reduces
  Float + − × ÷ and comparisons, so this is a kernel-checked statement about the IEEE
  operations themselves (no `native_decide`).
-/
namespace Astral.C11Float
open Astral

def wrapF (e : Nat) : Float :=
  let m := ((Float.ofNat e) + 6.43) / 360.0 * 28.0
  if m >= 28.0 then m - 28.0 else m

def okF (e : Nat) : Bool := let w := wrapF e; 0.0 ≤ w && w < 28.0

set_option maxRecDepth 100000 in
theorem phase_table : ∀ e, e < 360 → okF e = true := by decide +kernel

end Astral.C11Float
