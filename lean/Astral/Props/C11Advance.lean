import Astral.Props.C11
import Astral.Props.C15Date
import Astral.Props.C05Noon
import Mathlib.Analysis.SpecialFunctions.Trigonometric.Bounds
/-
  C11 (exact reals) — **the phase advances by between 0.71 and 1.19 per calendar day**
  (circularly: after adding the right multiple of 28), for every pair of consecutive dates
  0001-01-01 … 9999-12-31.

  Proof: the Julian day rises by exactly one per day (C15Date.jd_date), so the dynamical-time
  argument T rises by 1/36525 (1 + ε), |ε| < 2·10⁻⁶; the mean elongation polynomial then
  rises by 12.1905° … 12.1910°, the four periodic terms change by at most
  6.29·Δm1 + 2.10·Δm + 1.27·Δ(2d − m1) + 0.66·Δ(2d) ≤ 2.003° (|sin a − sin b| ≤ |a − b|),
  truncation to whole degrees costs less than 1° on either side, and 28/360 scales the result.
-/
namespace Astral.C11Advance
open Astral Real Astral.EoT

/-! ### The unreduced series -/

noncomputable def Dp (t : ℝ) : ℝ := 297.85 + 445267.1115 * t - 0.0016300 * t ^ 2 + t ^ 3 / 545868.0
noncomputable def Mp (t : ℝ) : ℝ := 357.53 + 35999.0503 * t
noncomputable def M1p (t : ℝ) : ℝ := 134.96 + 477198.8676 * t + 0.0089970 * t ^ 2 + t ^ 3 / 69699.0

/-- the argument T of the series for Julian day `jd` (ΔT model included) -/
noncomputable def tOf (jd : ℝ) : ℝ :=
  (jd + (jd - 2382148.0) ^ 2 / (((41048480 * 86400 : ℤ)) : ℝ) - 2451545.0) / 36525.0

/-- the series before any reduction modulo 360 -/
noncomputable def Eraw (t : ℝ) : ℝ :=
  Dp t + 6.29 * Real.sin (radians (M1p t)) - 2.10 * Real.sin (radians (Mp t))
    + 1.27 * Real.sin (2 * radians (Dp t) - radians (M1p t)) + 0.66 * Real.sin (2 * radians (Dp t))

theorem radians_sub_turns (x : ℝ) (k : ℤ) :
    radians (x - 360 * (k : ℝ)) = radians x - (k : ℝ) * (2 * π) := by
  rw [radians_eq, radians_eq]; ring

theorem pymod360 (x : ℝ) : Trig.pymod x 360.0 = x - 360 * ((⌊x / 360⌋ : ℤ) : ℝ) := by
  rw [trig_pymod]; norm_num

/-- the model's elongation is the unreduced series minus whole turns -/
theorem elongation_eq (date : Int) :
    ∃ k : ℤ, elongation (α := ℝ) date = Eraw (tOf (julianDayDate date)) - 360 * (k : ℝ) := by
  unfold elongation
  simp only [trig_powi, trig_ofInt, trig_sin]
  set jd : ℝ := julianDayDate date with hjd
  have ht : (jd + (jd - 2382148.0) ^ 2 / (((41048480 * 86400 : ℤ)) : ℝ) - 2451545.0) / 36525.0 = tOf jd := rfl
  rw [ht]
  set t := tOf jd with htt
  have hD : (297.85 + 445267.1115 * t - 0.0016300 * t ^ 2 + t ^ 3 / 545868.0 : ℝ) = Dp t := rfl
  have hM : (357.53 + 35999.0503 * t : ℝ) = Mp t := rfl
  have hM1 : (134.96 + 477198.8676 * t + 0.0089970 * t ^ 2 + t ^ 3 / 69699.0 : ℝ) = M1p t := rfl
  rw [hD, hM, hM1]
  rw [pymod360 (Dp t), pymod360 (Mp t), pymod360 (M1p t)]
  set kd := ⌊Dp t / 360⌋
  set km := ⌊Mp t / 360⌋
  set k1 := ⌊M1p t / 360⌋
  rw [degrees_radians, radians_sub_turns, radians_sub_turns, radians_sub_turns]
  have s1 : Real.sin (radians (M1p t) - (k1 : ℝ) * (2 * π)) = Real.sin (radians (M1p t)) :=
    Real.sin_sub_int_mul_two_pi _ _
  have s2 : Real.sin (radians (Mp t) - (km : ℝ) * (2 * π)) = Real.sin (radians (Mp t)) :=
    Real.sin_sub_int_mul_two_pi _ _
  have s3 : Real.sin (2.0 * (radians (Dp t) - (kd : ℝ) * (2 * π)) - (radians (M1p t) - (k1 : ℝ) * (2 * π)))
      = Real.sin (2 * radians (Dp t) - radians (M1p t)) := by
    have : (2.0 : ℝ) * (radians (Dp t) - (kd : ℝ) * (2 * π)) - (radians (M1p t) - (k1 : ℝ) * (2 * π))
        = (2 * radians (Dp t) - radians (M1p t)) - ((2 * kd - k1 : ℤ) : ℝ) * (2 * π) := by
      push_cast; norm_num; ring
    rw [this, Real.sin_sub_int_mul_two_pi]
  have s4 : Real.sin (2.0 * (radians (Dp t) - (kd : ℝ) * (2 * π))) = Real.sin (2 * radians (Dp t)) := by
    have : (2.0 : ℝ) * (radians (Dp t) - (kd : ℝ) * (2 * π))
        = 2 * radians (Dp t) - ((2 * kd : ℤ) : ℝ) * (2 * π) := by
      push_cast; norm_num; ring
    rw [this, Real.sin_sub_int_mul_two_pi]
  rw [s1, s2, s3, s4, pymod360]
  refine ⟨kd + ⌊(Dp t - 360 * (kd : ℝ) + 6.29 * Real.sin (radians (M1p t))
      - 2.10 * Real.sin (radians (Mp t)) + 1.27 * Real.sin (2 * radians (Dp t) - radians (M1p t))
      + 0.66 * Real.sin (2 * radians (Dp t))) / 360⌋, ?_⟩
  unfold Eraw
  push_cast
  ring

/-! ### One day's change of T and of the polynomials -/

theorem tOf_step (jd : ℝ) :
    tOf (jd + 1) - tOf jd = (1 + (2 * (jd - 2382148) + 1) / 3546588672000) / 36525 := by
  unfold tOf
  push_cast
  norm_num
  ring

/-- T and its daily increment over the whole calendar -/
theorem t_bounds (jd : ℝ) (h0 : 1721425 ≤ jd) (h1 : jd ≤ 5373484) :
    -20 ≤ tOf jd ∧ tOf jd ≤ 81 := by
  unfold tOf
  push_cast
  have q0 : 0 ≤ (jd - 2382148.0) ^ 2 / (41048480 * 86400 : ℝ) := by positivity
  have q1 : (jd - 2382148.0) ^ 2 / (41048480 * 86400 : ℝ) ≤ 3 := by
    rw [div_le_iff₀ (by norm_num)]
    have a : -660723 ≤ jd - 2382148.0 := by norm_num; linarith
    have b : jd - 2382148.0 ≤ 2991336 := by norm_num; linarith
    nlinarith
  constructor
  · rw [le_div_iff₀ (by norm_num)]; linarith
  · rw [div_le_iff₀ (by norm_num)]; linarith

theorem delta_bounds (jd : ℝ) (h0 : 1721425 ≤ jd) (h1 : jd ≤ 5373484) :
    27378 / 1000000000 ≤ tOf (jd + 1) - tOf jd ∧ tOf (jd + 1) - tOf jd ≤ 27379 / 1000000000 := by
  rw [tOf_step]
  have a : -4 / 10000000 ≤ (2 * (jd - 2382148) + 1) / 3546588672000 := by
    rw [le_div_iff₀ (by norm_num)]; linarith
  have b : (2 * (jd - 2382148) + 1) / 3546588672000 ≤ 2 / 1000000 := by
    rw [div_le_iff₀ (by norm_num)]; linarith
  constructor
  · rw [le_div_iff₀ (by norm_num)]; linarith
  · rw [div_le_iff₀ (by norm_num)]; linarith

/-- the three polynomial increments for T in [−20, 81] and a step δ of one day -/
theorem poly_steps (t δ : ℝ) (ht : -20 ≤ t ∧ t ≤ 81) (ht' : -20 ≤ t + δ ∧ t + δ ≤ 81)
    (hδ : 27378 / 1000000000 ≤ δ ∧ δ ≤ 27379 / 1000000000) :
    (12190 / 1000 ≤ Dp (t + δ) - Dp t ∧ Dp (t + δ) - Dp t ≤ 12192 / 1000)
    ∧ (985 / 1000 ≤ Mp (t + δ) - Mp t ∧ Mp (t + δ) - Mp t ≤ 986 / 1000)
    ∧ (13064 / 1000 ≤ M1p (t + δ) - M1p t ∧ M1p (t + δ) - M1p t ≤ 13066 / 1000) := by
  obtain ⟨d0, d1⟩ := hδ
  have δpos : 0 ≤ δ := by linarith
  -- |(t+δ)² − t²| = δ·|2t + δ| ≤ δ·163 and |(t+δ)³ − t³| = δ·|3t² + 3tδ + δ²| ≤ δ·19700
  have sq : |(t + δ) ^ 2 - t ^ 2| ≤ δ * 163 := by
    have : (t + δ) ^ 2 - t ^ 2 = δ * (2 * t + δ) := by ring
    rw [this, abs_mul, abs_of_nonneg δpos]
    apply mul_le_mul_of_nonneg_left _ δpos
    rw [abs_le]; constructor <;> linarith [ht.1, ht.2]
  have cu : |(t + δ) ^ 3 - t ^ 3| ≤ δ * 19700 := by
    have : (t + δ) ^ 3 - t ^ 3 = δ * ((t + δ) ^ 2 + (t + δ) * t + t ^ 2) := by ring
    rw [this, abs_mul, abs_of_nonneg δpos]
    apply mul_le_mul_of_nonneg_left _ δpos
    rw [abs_le]
    have a1 : (t + δ) ^ 2 ≤ 6561 := by nlinarith [ht'.1, ht'.2]
    have a2 : t ^ 2 ≤ 6561 := by nlinarith [ht.1, ht.2]
    have a3 : |(t + δ) * t| ≤ 81 * 81 := by
      apply abs_mul_le' <;> rw [abs_le] <;> constructor <;> linarith [ht.1, ht.2, ht'.1, ht'.2]
    rw [abs_le] at a3
    constructor <;> nlinarith [sq_nonneg (t + δ), sq_nonneg t, a3.1, a3.2]
  rw [abs_le] at sq cu
  have eD : Dp (t + δ) - Dp t = 445267.1115 * δ - 0.0016300 * ((t + δ) ^ 2 - t ^ 2)
      + ((t + δ) ^ 3 - t ^ 3) / 545868.0 := by
    unfold Dp
    first | (norm_num; done) | (norm_num; ring)
  have eM : Mp (t + δ) - Mp t = 35999.0503 * δ := by
    unfold Mp
    first | (norm_num; done) | (norm_num; ring)
  have eM1 : M1p (t + δ) - M1p t = 477198.8676 * δ + 0.0089970 * ((t + δ) ^ 2 - t ^ 2)
      + ((t + δ) ^ 3 - t ^ 3) / 69699.0 := by
    unfold M1p
    first | (norm_num; done) | (norm_num; ring)
  have c1 : -(δ * 19700) / 545868.0 ≤ ((t + δ) ^ 3 - t ^ 3) / 545868.0 :=
    div_le_div_of_nonneg_right (by linarith [cu.1]) (by norm_num)
  have c2 : ((t + δ) ^ 3 - t ^ 3) / 545868.0 ≤ (δ * 19700) / 545868.0 :=
    div_le_div_of_nonneg_right cu.2 (by norm_num)
  have c3 : -(δ * 19700) / 69699.0 ≤ ((t + δ) ^ 3 - t ^ 3) / 69699.0 :=
    div_le_div_of_nonneg_right (by linarith [cu.1]) (by norm_num)
  have c4 : ((t + δ) ^ 3 - t ^ 3) / 69699.0 ≤ (δ * 19700) / 69699.0 :=
    div_le_div_of_nonneg_right cu.2 (by norm_num)
  have k1 : (δ * 19700) / 545868.0 ≤ 1 / 1000000 := by
    rw [div_le_iff₀ (by norm_num)]; norm_num; linarith
  have k2 : (δ * 19700) / 69699.0 ≤ 8 / 1000000 := by
    rw [div_le_iff₀ (by norm_num)]; norm_num; linarith
  have n1 : -(δ * 19700) / (545868.0 : ℝ) = -((δ * 19700) / 545868.0) := neg_div _ _
  have n2 : -(δ * 19700) / (69699.0 : ℝ) = -((δ * 19700) / 69699.0) := neg_div _ _
  rw [n1] at c1
  rw [n2] at c3
  refine ⟨⟨?_, ?_⟩, ⟨?_, ?_⟩, ⟨?_, ?_⟩⟩
  · rw [eD]; norm_num at sq ⊢; linarith [sq.1, sq.2]
  · rw [eD]; norm_num at sq ⊢; linarith [sq.1, sq.2]
  · rw [eM]; norm_num; linarith
  · rw [eM]; norm_num; linarith
  · rw [eM1]; norm_num at sq ⊢; linarith [sq.1, sq.2]
  · rw [eM1]; norm_num at sq ⊢; linarith [sq.1, sq.2]

/-! ### One day's change of the series -/

theorem radians_diff (x y : ℝ) : radians x - radians y = (x - y) * (π / 180) := by
  rw [radians_eq, radians_eq]; ring

theorem sin_step (c a b B : ℝ) (hc : 0 ≤ c) (h : |a - b| ≤ B) :
    |c * Real.sin a - c * Real.sin b| ≤ c * B := by
  have : c * Real.sin a - c * Real.sin b = c * (Real.sin a - Real.sin b) := by ring
  rw [this, abs_mul, abs_of_nonneg hc]
  exact mul_le_mul_of_nonneg_left (le_trans (Real.abs_sin_sub_sin_le a b) h) hc

theorem Eraw_step (t δ : ℝ) (ht : -20 ≤ t ∧ t ≤ 81) (ht' : -20 ≤ t + δ ∧ t + δ ≤ 81)
    (hδ : 27378 / 1000000000 ≤ δ ∧ δ ≤ 27379 / 1000000000) :
    10186 / 1000 ≤ Eraw (t + δ) - Eraw t ∧ Eraw (t + δ) - Eraw t ≤ 14196 / 1000 := by
  obtain ⟨⟨D0, D1⟩, ⟨M0, M1⟩, ⟨N0, N1⟩⟩ := poly_steps t δ ht ht' hδ
  have pp := Real.pi_pos
  have p1 := Real.pi_lt_d4
  norm_num at p1
  have k : π / 180 ≤ 17454 / 1000000 := by rw [div_le_iff₀ (by norm_num)]; linarith
  have kpos : 0 ≤ π / 180 := by positivity
  -- the four angle increments, in radians
  have a1 : |radians (M1p (t + δ)) - radians (M1p t)| ≤ 22806 / 100000 := by
    rw [radians_diff, abs_mul, abs_of_nonneg kpos, abs_of_nonneg (by linarith)]
    calc (M1p (t + δ) - M1p t) * (π / 180) ≤ (13066 / 1000) * (17454 / 1000000) :=
          mul_le_mul N1 k kpos (by norm_num)
      _ ≤ 22806 / 100000 := by norm_num
  have a2 : |radians (Mp (t + δ)) - radians (Mp t)| ≤ 1721 / 100000 := by
    rw [radians_diff, abs_mul, abs_of_nonneg kpos, abs_of_nonneg (by linarith)]
    calc (Mp (t + δ) - Mp t) * (π / 180) ≤ (986 / 1000) * (17454 / 1000000) :=
          mul_le_mul M1 k kpos (by norm_num)
      _ ≤ 1721 / 100000 := by norm_num
  have a3 : |(2 * radians (Dp (t + δ)) - radians (M1p (t + δ))) - (2 * radians (Dp t) - radians (M1p t))|
      ≤ 19759 / 100000 := by
    have : (2 * radians (Dp (t + δ)) - radians (M1p (t + δ))) - (2 * radians (Dp t) - radians (M1p t))
        = (2 * (Dp (t + δ) - Dp t) - (M1p (t + δ) - M1p t)) * (π / 180) := by
      rw [radians_eq, radians_eq, radians_eq, radians_eq]; ring
    rw [this, abs_mul, abs_of_nonneg kpos, abs_of_nonneg (by linarith)]
    calc (2 * (Dp (t + δ) - Dp t) - (M1p (t + δ) - M1p t)) * (π / 180)
          ≤ (11320 / 1000) * (17454 / 1000000) := mul_le_mul (by linarith) k kpos (by norm_num)
      _ ≤ 19759 / 100000 := by norm_num
  have a4 : |2 * radians (Dp (t + δ)) - 2 * radians (Dp t)| ≤ 42560 / 100000 := by
    have : 2 * radians (Dp (t + δ)) - 2 * radians (Dp t) = (2 * (Dp (t + δ) - Dp t)) * (π / 180) := by
      rw [radians_eq, radians_eq]; ring
    rw [this, abs_mul, abs_of_nonneg kpos, abs_of_nonneg (by linarith)]
    calc (2 * (Dp (t + δ) - Dp t)) * (π / 180) ≤ (24384 / 1000) * (17454 / 1000000) :=
          mul_le_mul (by linarith) k kpos (by norm_num)
      _ ≤ 42560 / 100000 := by norm_num
  have s1 := abs_le.mp (sin_step 6.29 _ _ _ (by norm_num) a1)
  have s2 := abs_le.mp (sin_step 2.10 _ _ _ (by norm_num) a2)
  have s3 := abs_le.mp (sin_step 1.27 _ _ _ (by norm_num) a3)
  have s4 := abs_le.mp (sin_step 0.66 _ _ _ (by norm_num) a4)
  unfold Eraw
  norm_num at s1 s2 s3 s4 ⊢
  constructor <;> linarith [s1.1, s1.2, s2.1, s2.2, s3.1, s3.2, s4.1, s4.2]

/-! ### The phase -/

/-- the phase as 28/360 of the truncated elongation plus the offset, minus 28 or not -/
theorem phase_eq (d : Int) :
    ∃ j : ℤ, (j = 0 ∨ j = 1) ∧ phase (α := ℝ) d
      = ((Trig.trunc (elongation (α := ℝ) d) : ℤ) + 6.43) / 360 * 28 - 28 * (j : ℝ) := by
  unfold phase phaseAsFloat phaseOfElong
  simp only [trig_ofInt]
  split_ifs
  · exact ⟨1, Or.inr rfl, by push_cast; norm_num⟩
  · exact ⟨0, Or.inl rfl, by push_cast; norm_num⟩

/-- **C11: the phase advances by between 0.71 and 1.19 per calendar day**, circularly, for every
    pair of consecutive dates 0001-01-01 … 9999-12-31 -/
theorem phase_daily_advance (d : Int) (hd : 1 ≤ d ∧ d ≤ 3652058) :
    ∃ n : ℤ, (71 / 100 : ℝ) < phase (α := ℝ) (d + 1) - phase (α := ℝ) d + 28 * (n : ℝ)
      ∧ phase (α := ℝ) (d + 1) - phase (α := ℝ) d + 28 * (n : ℝ) < 119 / 100 := by
  -- Julian days of the two dates
  have j0 := C15Date.jd_date d (by omega)
  have j1 := C15Date.jd_date (d + 1) (by omega)
  have dr0 : (1 : ℝ) ≤ (d : ℝ) := by exact_mod_cast hd.1
  have dr1 : (d : ℝ) ≤ 3652058 := by exact_mod_cast hd.2
  set jd : ℝ := (d : ℝ) + 1721424.5 with hjd
  have jstep : ((d + 1 : ℤ) : ℝ) + 1721424.5 = jd + 1 := by push_cast; ring
  have b0 : (1721425 : ℝ) ≤ jd := by rw [hjd]; norm_num; linarith
  have b1 : jd + 1 ≤ 5373484 := by rw [hjd]; norm_num; linarith
  obtain ⟨k0, e0⟩ := elongation_eq d
  obtain ⟨k1, e1⟩ := elongation_eq (d + 1)
  rw [j0] at e0
  rw [j1, jstep] at e1
  have tb0 := t_bounds jd b0 (by linarith)
  have tb1 := t_bounds (jd + 1) (by linarith) b1
  have db := delta_bounds jd b0 (by linarith)
  have st := Eraw_step (tOf jd) (tOf (jd + 1) - tOf jd) tb0 (by simpa using tb1) db
  have es : tOf jd + (tOf (jd + 1) - tOf jd) = tOf (jd + 1) := by ring
  rw [es] at st
  -- truncation
  obtain ⟨r0, r0'⟩ := C11.elongation_range d
  obtain ⟨r1, r1'⟩ := C11.elongation_range (d + 1)
  have f0 := (Astral.C05Noon.trunc_facts (elongation (α := ℝ) d)).1 r0
  have f1 := (Astral.C05Noon.trunc_facts (elongation (α := ℝ) (d + 1))).1 r1
  obtain ⟨ja, hja, pa⟩ := phase_eq d
  obtain ⟨jb, hjb, pb⟩ := phase_eq (d + 1)
  refine ⟨(k1 - k0) + (jb - ja), ?_⟩
  rw [pa, pb]
  set A := (Trig.trunc (elongation (α := ℝ) d) : ℤ) with hA
  set B := (Trig.trunc (elongation (α := ℝ) (d + 1)) : ℤ) with hB
  -- B − A + 360 (k1 − k0) is within 1 of Eraw' − Eraw
  have key : ((B : ℝ) + 6.43) / 360 * 28 - 28 * (jb : ℝ) - (((A : ℝ) + 6.43) / 360 * 28 - 28 * (ja : ℝ))
      + 28 * (((k1 - k0) + (jb - ja) : ℤ) : ℝ)
      = ((B : ℝ) - (A : ℝ) + 360 * ((k1 : ℝ) - (k0 : ℝ))) * (28 / 360) := by
    push_cast; ring
  rw [key]
  have lo : (B : ℝ) - (A : ℝ) + 360 * ((k1 : ℝ) - (k0 : ℝ)) > 9186 / 1000 := by
    linarith [f0.1, f0.2.1, f1.1, f1.2.1, st.1, st.2]
  have hi : (B : ℝ) - (A : ℝ) + 360 * ((k1 : ℝ) - (k0 : ℝ)) < 15196 / 1000 := by
    linarith [f0.1, f0.2.1, f1.1, f1.2.1, st.1, st.2]
  constructor <;> nlinarith

end Astral.C11Advance
