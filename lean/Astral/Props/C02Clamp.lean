import Mathlib.Geometry.Euclidean.Angle.Unoriented.TriangleInequality
import Mathlib.Analysis.InnerProductSpace.PiL2
import Astral.Props.C01
/-
  C02 (exact reals) — **what substituting latitude ±89.8° for a latitude beyond it can cost**:
  the zenith distance of a body with declination δ and hour angle H, seen from latitude φ, is the
  angle between two unit vectors; by the triangle inequality on the sphere it changes by at most
  |φ₁ − φ₂| when the latitude does.  Hence the clamp used by `zenith_and_azimuth` and
  `time_of_transit` moves the true zenith (and elevation) by at most 0.2° — the reason the
  property widens its tolerance to 0.26° for the last 0.2° of latitude before either pole.
-/
namespace Astral.C02Clamp
open Real InnerProductGeometry

abbrev V := EuclideanSpace ℝ (Fin 3)

/-- the observer's zenith direction at latitude φ (on the meridian plane) -/
noncomputable def zenVec (φ : ℝ) : V := !₂[Real.cos φ, 0, Real.sin φ]

/-- the body's direction at declination δ, hour angle H -/
noncomputable def bodyVec (δ H : ℝ) : V := !₂[Real.cos δ * Real.cos H, Real.cos δ * Real.sin H, Real.sin δ]

theorem inner_zen_body (φ δ H : ℝ) :
    inner ℝ (zenVec φ) (bodyVec δ H)
      = Real.sin φ * Real.sin δ + Real.cos φ * Real.cos δ * Real.cos H := by
  simp [zenVec, bodyVec, PiLp.inner_apply, Fin.sum_univ_three]
  ring

theorem inner_zen_zen (a b : ℝ) : inner ℝ (zenVec a) (zenVec b) = Real.cos (a - b) := by
  simp [zenVec, PiLp.inner_apply, Fin.sum_univ_three, Real.cos_sub]
  ring

theorem norm_zen (φ : ℝ) : ‖zenVec φ‖ = 1 := by
  have h : ‖zenVec φ‖ ^ 2 = 1 := by
    rw [← real_inner_self_eq_norm_sq, inner_zen_zen]; simp
  have h0 := norm_nonneg (zenVec φ)
  nlinarith

theorem inner_body_body (δ H : ℝ) : inner ℝ (bodyVec δ H) (bodyVec δ H) = 1 := by
  have e : inner ℝ (bodyVec δ H) (bodyVec δ H)
      = Real.cos δ * Real.cos H * (Real.cos δ * Real.cos H)
        + Real.cos δ * Real.sin H * (Real.cos δ * Real.sin H) + Real.sin δ * Real.sin δ := by
    simp only [bodyVec, PiLp.inner_apply, Fin.sum_univ_three]
    simp [mul_pow, sq_abs]
    ring
  rw [e]
  have s1 := Real.sin_sq_add_cos_sq δ
  have s2 := Real.sin_sq_add_cos_sq H
  have : Real.cos δ * Real.cos H * (Real.cos δ * Real.cos H)
        + Real.cos δ * Real.sin H * (Real.cos δ * Real.sin H) + Real.sin δ * Real.sin δ
      = Real.cos δ ^ 2 * (Real.sin H ^ 2 + Real.cos H ^ 2) + Real.sin δ ^ 2 := by ring
  rw [this, s2]; linarith

theorem norm_body (δ H : ℝ) : ‖bodyVec δ H‖ = 1 := by
  have h : ‖bodyVec δ H‖ ^ 2 = 1 := by
    rw [← real_inner_self_eq_norm_sq, inner_body_body]
  have h0 := norm_nonneg (bodyVec δ H)
  nlinarith

/-- the zenith distance the library's formula gives is the angle between the two directions -/
theorem angle_zen_body (φ δ H : ℝ) :
    angle (zenVec φ) (bodyVec δ H)
      = Real.arccos (Real.sin φ * Real.sin δ + Real.cos φ * Real.cos δ * Real.cos H) := by
  unfold angle
  rw [norm_zen, norm_body, inner_zen_body]; simp

theorem angle_zen_zen (a b : ℝ) (h : |a - b| ≤ π) : angle (zenVec a) (zenVec b) = |a - b| := by
  unfold angle
  rw [norm_zen, norm_zen, inner_zen_zen]
  simp only [mul_one, div_one]
  rw [← Real.cos_abs (a - b)]
  exact Real.arccos_cos (abs_nonneg _) h

/-- **the zenith distance is 1-Lipschitz in the latitude** -/
theorem zenith_lipschitz_in_latitude (φ₁ φ₂ δ H : ℝ) (h : |φ₁ - φ₂| ≤ π) :
    |Real.arccos (Real.sin φ₁ * Real.sin δ + Real.cos φ₁ * Real.cos δ * Real.cos H)
      - Real.arccos (Real.sin φ₂ * Real.sin δ + Real.cos φ₂ * Real.cos δ * Real.cos H)|
      ≤ |φ₁ - φ₂| := by
  rw [← angle_zen_body, ← angle_zen_body]
  have t1 := angle_le_angle_add_angle (zenVec φ₁) (zenVec φ₂) (bodyVec δ H)
  have t2 := angle_le_angle_add_angle (zenVec φ₂) (zenVec φ₁) (bodyVec δ H)
  rw [angle_zen_zen φ₁ φ₂ h] at t1
  rw [angle_zen_zen φ₂ φ₁ (by rw [abs_sub_comm]; exact h), abs_sub_comm] at t2
  rw [abs_le]
  constructor <;> linarith

/-- **the polar clamp costs at most 0.2°**: for a latitude between 89.8° and 90° (either sign) the
    true zenith distance computed at ±89.8° is within 0.2° of the one at the latitude itself,
    whatever the declination and hour angle -/
theorem clamp_cost (lat δ H : ℝ) (h : 89.8 ≤ |lat| ∧ |lat| ≤ 90) :
    |degrees (Real.arccos (Real.sin (radians (clampLatitude lat)) * Real.sin δ
        + Real.cos (radians (clampLatitude lat)) * Real.cos δ * Real.cos H))
      - degrees (Real.arccos (Real.sin (radians lat) * Real.sin δ
        + Real.cos (radians lat) * Real.cos δ * Real.cos H))| ≤ 0.2 := by
  have hcl : |clampLatitude lat - lat| ≤ 0.2 := by
    unfold clampLatitude
    rcases abs_cases lat with ⟨e, _⟩ | ⟨e, _⟩
    · rw [e] at h
      split_ifs <;> rw [abs_le] <;> constructor <;> norm_num at * <;> linarith
    · rw [e] at h
      split_ifs <;> rw [abs_le] <;> constructor <;> norm_num at * <;> linarith
  have pp := Real.pi_pos
  have hr : |radians (clampLatitude lat) - radians lat| ≤ 0.2 * (π / 180) := by
    rw [radians_eq, radians_eq]
    have : clampLatitude lat * (π / 180) - lat * (π / 180) = (clampLatitude lat - lat) * (π / 180) := by ring
    rw [this, abs_mul, abs_of_pos (by positivity : (0 : ℝ) < π / 180)]
    exact mul_le_mul_of_nonneg_right hcl (by positivity)
  have hπ : |radians (clampLatitude lat) - radians lat| ≤ π := by
    refine le_trans hr ?_
    nlinarith
  have key := zenith_lipschitz_in_latitude (radians (clampLatitude lat)) (radians lat) δ H hπ
  rw [degrees_eq, degrees_eq, ← sub_mul, abs_mul, abs_of_pos (by positivity : (0 : ℝ) < 180 / π)]
  calc _ ≤ (0.2 * (π / 180)) * (180 / π) :=
        mul_le_mul_of_nonneg_right (le_trans key hr) (by positivity)
    _ = 0.2 := by field_simp

/-- the same statement about the model's own position kernel `cosZenith` (latitude, declination
    and hour angle in degrees, as `zenith_and_azimuth` calls it) -/
theorem clamp_cost_model (lat δ Hd : ℝ) (h : 89.8 ≤ |lat| ∧ |lat| ≤ 90) :
    |degrees (Real.arccos (cosZenith (clampLatitude lat) δ Hd))
      - degrees (Real.arccos (cosZenith lat δ Hd))| ≤ 0.2 := by
  have e : Hd = degrees (radians Hd) := (degrees_radians Hd).symm
  rw [e, C01.cosZenith_of_degrees, C01.cosZenith_of_degrees]
  have := clamp_cost lat (radians δ) (radians Hd) h
  rw [add_comm (Real.cos (radians (clampLatitude lat)) * _ * _),
      add_comm (Real.cos (radians lat) * _ * _)]
  exact this

/-- non-vacuity: latitude 89.95° is in the clamped band and the clamp really moves it -/
example : (89.8 : ℝ) ≤ |89.95| ∧ |(89.95 : ℝ)| ≤ 90 ∧ clampLatitude (89.95 : ℝ) = 89.8 := by
  refine ⟨?_, ?_, ?_⟩
  · rw [abs_of_pos] <;> norm_num
  · rw [abs_of_pos] <;> norm_num
  · unfold clampLatitude; rw [if_pos]; norm_num

end Astral.C02Clamp
