import Astral.Props.C03
/-
  C05 — solar noon and solar midnight.  The wrapper logic (carries, date roll, date
  matching, "nearest midnight") is exact integer reasoning, for every zone function and with
  the equation of time uninterpreted.
-/
namespace Astral.C05
open Astral Astral.C03

/-! ### The hour/minute/second carry block -/

/-- seconds denoted by an (hour, minute, second) triple -/
def hmsSeconds (h m s : Int) : Int := h * 3600 + m * 60 + s

/-- the carries keep the denoted time and normalise minute and second into 0…59, whenever
    the truncated pieces are within one unit of range (|minute|, |second| ≤ 60 — which
    truncation of a fraction below one guarantees) -/
theorem carrySM_spec (h m s : Int) (hm : -60 ≤ m ∧ m ≤ 60) (hs : -60 ≤ s ∧ s ≤ 60) :
    let r := carrySM h m s
    hmsSeconds r.1 r.2.1 r.2.2 = hmsSeconds h m s
      ∧ 0 ≤ r.2.2 ∧ r.2.2 ≤ 59 ∧ -1 ≤ r.2.1 ∧ r.2.1 ≤ 59 ∧ h - 1 ≤ r.1 ∧ r.1 ≤ h + 1 := by
  unfold carrySM hmsSeconds
  simp only
  split_ifs <;> simp <;> omega

/-- with the minute in range after the second-carry, everything is in range -/
theorem carrySM_minute_range (h m s : Int) (hm : -59 ≤ m ∧ m ≤ 59) (hs : -59 ≤ s ∧ s ≤ 59) :
    let r := carrySM h m s
    0 ≤ r.2.1 ∧ r.2.1 ≤ 59 ∧ 0 ≤ r.2.2 ∧ r.2.2 ≤ 59 := by
  unfold carrySM
  simp only
  split_ifs <;> simp <;> omega

/-- **noon's date roll is exact**: for any truncated triple with hour in −24…47 the constructed
    instant is `date 00:00 + (h·3600 + m·60 + s) seconds` — no field error, no lost day -/
theorem mkNoon_spec (date h m s : Int) (hd : 2 ≤ date ∧ date ≤ 3652058)
    (hh : -23 ≤ h ∧ h ≤ 46) (hm : -59 ≤ m ∧ m ≤ 59) (hs : -59 ≤ s ∧ s ≤ 59) :
    mkNoon? date (h, m, s) = .ok (dateStart date + hmsSeconds h m s * usPerSec) := by
  have c1 := carrySM_spec h m s ⟨by omega, by omega⟩ ⟨by omega, by omega⟩
  have c2 := carrySM_minute_range h m s hm hs
  unfold mkNoon?
  simp only at c1 c2 ⊢
  obtain ⟨e, _, _, _, _, l1, l2⟩ := c1
  obtain ⟨m0, m1, s0, s1⟩ := c2
  rcases hc : carrySM h m s with ⟨h', m', s'⟩
  rw [hc] at e l1 l2 m0 m1 s0 s1
  simp only at e l1 l2 m0 m1 s0 s1 ⊢
  unfold hmsSeconds at e ⊢
  unfold dateStart usPerSec
  have hd1 := hd.1
  have hd2 := hd.2
  split_ifs with g1 g2
  · have : dateAdd? date 1 = .ok (date + 1) := by
      unfold dateAdd? minOrdinal maxOrdinal; simp only; rw [if_pos (by omega)]
    simp only [this, bind, Except.bind]
    unfold mkDateTime?
    rw [if_pos (by omega)]
    unfold usPerDay usPerHour usPerMin usPerSec
    congr 1; omega
  · have : dateAdd? date (-1) = .ok (date + -1) := by
      unfold dateAdd? minOrdinal maxOrdinal; simp only; rw [if_pos (by omega)]
    simp only [this, bind, Except.bind]
    unfold mkDateTime?
    rw [if_pos (by omega)]
    unfold usPerDay usPerHour usPerMin usPerSec
    congr 1; omega
  · unfold mkDateTime?
    rw [if_pos (by omega)]
    unfold usPerDay usPerHour usPerMin usPerSec
    congr 1; omega

/-- **midnight's date roll is exact** for hour in −24…22 — it has no `hour > 23` carry, and
    needs none, because |time| ≤ 12 h 20 min for every longitude -/
theorem mkMidnight_spec (date h m s : Int) (hd : 2 ≤ date ∧ date ≤ 3652058)
    (hh : -23 ≤ h ∧ h ≤ 22) (hm : -59 ≤ m ∧ m ≤ 59) (hs : -59 ≤ s ∧ s ≤ 59) :
    mkMidnight? date (h, m, s) = .ok (dateStart date + hmsSeconds h m s * usPerSec) := by
  have c1 := carrySM_spec h m s ⟨by omega, by omega⟩ ⟨by omega, by omega⟩
  have c2 := carrySM_minute_range h m s hm hs
  unfold mkMidnight?
  simp only at c1 c2 ⊢
  obtain ⟨e, _, _, _, _, l1, l2⟩ := c1
  obtain ⟨m0, m1, s0, s1⟩ := c2
  rcases hc : carrySM h m s with ⟨h', m', s'⟩
  rw [hc] at e l1 l2 m0 m1 s0 s1
  simp only at e l1 l2 m0 m1 s0 s1 ⊢
  unfold hmsSeconds at e ⊢
  unfold dateStart usPerSec
  have hd1 := hd.1
  have hd2 := hd.2
  split_ifs with g1
  · have : dateAdd? date (-1) = .ok (date + -1) := by
      unfold dateAdd? minOrdinal maxOrdinal; simp only; rw [if_pos (by omega)]
    simp only [this, bind, Except.bind]
    unfold mkDateTime?
    rw [if_pos (by omega)]
    unfold usPerDay usPerHour usPerMin usPerSec
    congr 1; omega
  · unfold mkDateTime?
    rw [if_pos (by omega)]
    unfold usPerDay usPerHour usPerMin usPerSec
    congr 1; omega

/-! ### Date matching of noon -/

section
variable {α : Type} [Add α] [Sub α] [Mul α] [Div α] [Neg α] [LT α] [LE α] [OfScientific α]
  [Trig α] [DecidableRel (α := α) (· < ·)] [DecidableRel (α := α) (· ≤ ·)]

/-- **noon falls on the requested date** whenever the UTC candidate of the date — or, if that
    one reads a different date in the zone, the neighbouring day's candidate the code then
    takes — reads the requested date in the zone.  The zone is an arbitrary function. -/
theorem noon_on_date (obs : Obs α) (d : Int) (tz : TZ) (t : Int)
    (hd : 2 ≤ d ∧ d ≤ 3652058) (h : noon obs d tz = .ok t) :
    (∃ c, noonUtc obs d = .ok c ∧ localDate tz.utc c = d ∧ t = c)
    ∨ (∃ c, noonUtc obs d = .ok c ∧ localDate tz.utc c < d ∧ noonUtc obs (d + 1) = .ok t)
    ∨ (∃ c, noonUtc obs d = .ok c ∧ d < localDate tz.utc c ∧ noonUtc obs (d - 1) = .ok t) := by
  unfold noon at h
  obtain ⟨c, hc, h⟩ := bind_ok h
  by_cases e : localDate tz.utc c = d
  · simp only [e, ↓reduceIte, pure, Except.pure, Except.ok.injEq] at h
    exact Or.inl ⟨c, hc, e, h.symm⟩
  · simp only [e, ↓reduceIte] at h
    obtain ⟨nd, hnd, h⟩ := bind_ok h
    have := dateAdd_ok hnd
    by_cases l : localDate tz.utc c < d
    · simp only [l, ↓reduceIte] at this
      subst this
      exact Or.inr (Or.inl ⟨c, hc, l, h⟩)
    · simp only [l, ↓reduceIte] at this
      subst this
      refine Or.inr (Or.inr ⟨c, hc, ?_, h⟩)
      omega

/-- corollary in the shape the property states it: if the zone's clock is close enough to
    mean solar time that *every* day's candidate reads its own date, noon is on the date -/
theorem noon_on_date_of_aligned (obs : Obs α) (d : Int) (tz : TZ) (t : Int)
    (hd : 2 ≤ d ∧ d ≤ 3652058) (h : noon obs d tz = .ok t)
    (aligned : ∀ k c, noonUtc obs k = .ok c → localDate tz.utc c = k) :
    localDate tz.utc t = d := by
  rcases noon_on_date obs d tz t hd h with ⟨c, hc, e, rfl⟩ | ⟨c, hc, l, _⟩ | ⟨c, hc, l, _⟩
  · exact e
  · have := aligned d c hc; omega
  · have := aligned d c hc; omega

/-! ### Midnight is the one nearest to 00:00 of the date in the zone -/

/-- **nearest midnight**: whatever `midnight` returns is within 12 h + ε of 00:00:00 of the
    requested date in the requested zone, where ε bounds how far consecutive solar midnights
    deviate from being exactly 24 h apart (ε ≈ 30 s in reality).  Zone arbitrary, provided the
    UTC candidate is within 36 h of the zone's 00:00 (|candidate − 00:00 UTC| ≤ 12 h 20 min and
    |offset| < 24 h give that). -/
theorem midnight_nearest (obs : Obs α) (d : Int) (tz : TZ) (t ε : Int)
    (h : midnight obs d tz = .ok t) (hε : 0 ≤ ε)
    (bounded : ∀ c, midnightUtc obs d = .ok c → |c - startOfDay tz d| ≤ 36 * usPerHour)
    (spacing : ∀ c c', midnightUtc obs d = .ok c →
        (midnightUtc obs (d + -1) = .ok c' → |c' - (c - usPerDay)| ≤ ε)
        ∧ (midnightUtc obs (d + 1) = .ok c' → |c' - (c + usPerDay)| ≤ ε)) :
    |t - startOfDay tz d| ≤ 12 * usPerHour + ε := by
  unfold midnight at h
  obtain ⟨c, hc, h⟩ := bind_ok h
  simp only at h
  have hb := bounded c hc
  rw [abs_le] at hb
  unfold usPerHour usPerDay at *
  split_ifs at h with g1 g2
  · obtain ⟨nd, hnd, h⟩ := bind_ok h
    have e := dateAdd_ok hnd; subst e
    have := (spacing c t hc).1 h
    rw [abs_le] at this ⊢
    constructor <;> omega
  · obtain ⟨nd, hnd, h⟩ := bind_ok h
    have e := dateAdd_ok hnd; subst e
    have := (spacing c t hc).2 h
    rw [abs_le] at this ⊢
    constructor <;> omega
  · simp only [pure, Except.pure, Except.ok.injEq] at h
    subst h
    rw [abs_le]
    constructor <;> omega

end
end Astral.C05
