import Astral.Props.EoTStep
import Mathlib.Analysis.Calculus.MeanValue
import Mathlib.Analysis.SpecialFunctions.Trigonometric.InverseDeriv
/-
  **The NOAA solar declination moves by less than 0.46° per day** (1899 … 2101, exact reals).

  `sun.declination` is `asin(sin ε · sin λ)` with ε the corrected obliquity and λ the apparent
  longitude (mean longitude reduced mod 360 + equation of centre − aberration/nutation).  Over one
  day λ advances by at most 1.02°, ε by 3·10⁻⁶°, and `asin` is Lipschitz with constant
  1/√(1 − 0.41²) on the range its argument can take.  This is the quantity by which the
  declinations used at different points of one day's computation (the verdict at noon, the hour
  angle at 00:00 UTC plus the first-pass time, the second pass) can differ — the "two-pass drift"
  of C01/C04/C06/C07.
-/
namespace Astral.DeclStep
open Astral Real Astral.EoT Astral.EoTStep

theorem pi180 : π / 180 ≤ 17454 / 1000000 := by
  have p1 := Real.pi_lt_d4
  norm_num at p1
  rw [div_le_iff₀ (by norm_num)]; linarith

/-- sine and cosine of an angle in degrees are Lipschitz with constant π/180 -/
theorem sin_rad_lip (x x' : ℝ) :
    |Real.sin (radians x') - Real.sin (radians x)| ≤ |x' - x| * (17454 / 1000000) := by
  refine le_trans (Real.abs_sin_sub_sin_le _ _) ?_
  have e : radians x' - radians x = (x' - x) * (π / 180) := by rw [radians_eq, radians_eq]; ring
  rw [e, abs_mul, abs_of_nonneg (by positivity : 0 ≤ π / 180)]
  exact mul_le_mul_of_nonneg_left pi180 (abs_nonneg _)

/-- the equation of centre in plain numerals -/
noncomputable def Ceq (jc : ℝ) : ℝ :=
  Real.sin (radians (geomMeanAnomalySun jc)) * (1.914602 - jc * (0.004817 + 0.000014 * jc))
    + Real.sin (radians (2 * geomMeanAnomalySun jc)) * (0.019993 - 0.000101 * jc)
    + Real.sin (radians (3 * geomMeanAnomalySun jc)) * 0.000289

theorem eqOfCenter_eq (jc : ℝ) : sunEqOfCenter jc = Ceq jc := by
  unfold sunEqOfCenter Ceq
  simp only [trig_sin]
  have e2 : radians (geomMeanAnomalySun jc) + radians (geomMeanAnomalySun jc)
      = radians (2 * geomMeanAnomalySun jc) := by rw [radians_eq, radians_eq]; ring
  have e3 : radians (geomMeanAnomalySun jc) + radians (geomMeanAnomalySun jc)
      + radians (geomMeanAnomalySun jc) = radians (3 * geomMeanAnomalySun jc) := by
    rw [radians_eq, radians_eq]; ring
  rw [e3, e2]

/-- one day's change of the equation of centre: at most 0.034° -/
theorem center_step (jc : ℝ) (h : |jc| ≤ 101 / 100) (h' : |jc + δ| ≤ 101 / 100) :
    |sunEqOfCenter (jc + δ) - sunEqOfCenter jc| ≤ 34 / 1000 := by
  rw [eqOfCenter_eq, eqOfCenter_eq]
  unfold Ceq
  obtain ⟨m1, m2⟩ := anom_step jc h
  set M := geomMeanAnomalySun jc
  set M' := geomMeanAnomalySun (jc + δ)
  have dM : |M' - M| ≤ 9857 / 10000 := by rw [abs_le]; constructor <;> linarith
  have hb := abs_le.mp h
  have hb' := abs_le.mp h'
  have dpos : (0 : ℝ) < δ := by unfold δ; norm_num
  have dval : δ ≤ 274 / 10000000 := by unfold δ; norm_num
  -- the three sines
  have s1 : |Real.sin (radians M') - Real.sin (radians M)| ≤ 17205 / 1000000 := by
    refine le_trans (sin_rad_lip M M') ?_
    have := mul_le_mul_of_nonneg_right dM (by norm_num : (0 : ℝ) ≤ 17454 / 1000000)
    linarith
  have s2 : |Real.sin (radians (2 * M')) - Real.sin (radians (2 * M))| ≤ 34410 / 1000000 := by
    refine le_trans (sin_rad_lip (2 * M) (2 * M')) ?_
    have e : 2 * M' - 2 * M = 2 * (M' - M) := by ring
    rw [e, abs_mul, abs_of_pos (by norm_num : (0 : ℝ) < 2)]
    have := mul_le_mul_of_nonneg_right dM (by norm_num : (0 : ℝ) ≤ 17454 / 1000000)
    linarith
  have s3 : |Real.sin (radians (3 * M')) - Real.sin (radians (3 * M))| ≤ 51615 / 1000000 := by
    refine le_trans (sin_rad_lip (3 * M) (3 * M')) ?_
    have e : 3 * M' - 3 * M = 3 * (M' - M) := by ring
    rw [e, abs_mul, abs_of_pos (by norm_num : (0 : ℝ) < 3)]
    have := mul_le_mul_of_nonneg_right dM (by norm_num : (0 : ℝ) ≤ 17454 / 1000000)
    linarith
  -- the coefficients
  have a1b : |(1.914602 - (jc + δ) * (0.004817 + 0.000014 * (jc + δ)) : ℝ)| ≤ 192 / 100 := by
    have q : |(jc + δ) * (0.004817 + 0.000014 * (jc + δ))| ≤ 101 / 100 * (5 / 1000) := by
      apply abs_mul_le' h'
      rw [abs_le]; constructor <;> norm_num <;> linarith [hb'.1, hb'.2]
    rw [abs_le] at q ⊢
    constructor <;> norm_num at q ⊢ <;> linarith [q.1, q.2]
  have da1 : |(1.914602 - (jc + δ) * (0.004817 + 0.000014 * (jc + δ)) : ℝ)
      - (1.914602 - jc * (0.004817 + 0.000014 * jc))| ≤ 1 / 1000000 := by
    have e : (1.914602 - (jc + δ) * (0.004817 + 0.000014 * (jc + δ)) : ℝ)
        - (1.914602 - jc * (0.004817 + 0.000014 * jc))
        = -(δ * (0.004817 + 0.000014 * (2 * jc + δ))) := by ring
    have q : |δ * (0.004817 + 0.000014 * (2 * jc + δ))| ≤ 274 / 10000000 * (5 / 1000) := by
      apply abs_mul_le' (by rw [abs_of_pos dpos]; exact dval)
      rw [abs_le]; constructor <;> norm_num <;> linarith [hb.1, hb.2, dpos, dval]
    rw [e, abs_neg]
    refine le_trans q (by norm_num)
  have a2b : |(0.019993 - 0.000101 * (jc + δ) : ℝ)| ≤ 21 / 1000 := by
    rw [abs_le]; constructor <;> norm_num <;> linarith [hb'.1, hb'.2]
  have da2 : |(0.019993 - 0.000101 * (jc + δ) : ℝ) - (0.019993 - 0.000101 * jc)| ≤ 1 / 1000000 := by
    have e : (0.019993 - 0.000101 * (jc + δ) : ℝ) - (0.019993 - 0.000101 * jc) = -(0.000101 * δ) := by ring
    rw [e, abs_neg, abs_le]; constructor <;> norm_num <;> linarith [dpos, dval]
  have t1 := mul_step (a := Real.sin (radians M)) (a' := Real.sin (radians M'))
    (b := (1.914602 - jc * (0.004817 + 0.000014 * jc) : ℝ))
    (b' := (1.914602 - (jc + δ) * (0.004817 + 0.000014 * (jc + δ)) : ℝ))
    (Real.abs_sin_le_one _) a1b s1 da1
  have t2 := mul_step (a := Real.sin (radians (2 * M))) (a' := Real.sin (radians (2 * M')))
    (b := (0.019993 - 0.000101 * jc : ℝ)) (b' := (0.019993 - 0.000101 * (jc + δ) : ℝ))
    (Real.abs_sin_le_one _) a2b s2 da2
  have t3 : |Real.sin (radians (3 * M')) * 0.000289 - Real.sin (radians (3 * M)) * 0.000289|
      ≤ 15 / 1000000 := by
    rw [← sub_mul, abs_mul, abs_of_pos (by norm_num : (0 : ℝ) < 0.000289)]
    have := mul_le_mul_of_nonneg_right s3 (by norm_num : (0 : ℝ) ≤ 0.000289)
    refine le_trans this (by norm_num)
  have k1 : (1 : ℝ) * (1 / 1000000) + 192 / 100 * (17205 / 1000000) ≤ 33036 / 1000000 := by norm_num
  have k2 : (1 : ℝ) * (1 / 1000000) + 21 / 1000 * (34410 / 1000000) ≤ 724 / 1000000 := by norm_num
  rw [abs_le] at t1 t2 t3 ⊢
  constructor <;> linarith [t1.1, t1.2, t2.1, t2.2, t3.1, t3.2, k1, k2]

/-- the apparent longitude with the mean longitude left unreduced -/
noncomputable def lam (jc : ℝ) : ℝ :=
  Lp jc + sunEqOfCenter jc - 0.00569 - 0.00478 * Real.sin (radians (125.04 - 1934.136 * jc))

theorem sin_apparentLong (jc : ℝ) :
    Real.sin (radians (sunApparentLong jc)) = Real.sin (radians (lam jc)) := by
  obtain ⟨k, hk⟩ := geomMeanLong_eq jc
  unfold sunApparentLong sunTrueLong lam
  simp only [trig_sin]
  rw [hk]
  have e : radians (Lp jc - 360 * (k : ℝ) + sunEqOfCenter jc - 0.00569
        - 0.00478 * Real.sin (radians (125.04 - 1934.136 * jc)))
      = radians (Lp jc + sunEqOfCenter jc - 0.00569
        - 0.00478 * Real.sin (radians (125.04 - 1934.136 * jc))) - (k : ℝ) * (2 * π) := by
    generalize Real.sin (radians (125.04 - 1934.136 * jc)) = w
    simp only [radians_eq]; ring
  rw [e, Real.sin_sub_int_mul_two_pi]

/-- one day's advance of the apparent longitude: at most 1.02° -/
theorem lam_step (jc : ℝ) (h : |jc| ≤ 101 / 100) (h' : |jc + δ| ≤ 101 / 100) :
    |lam (jc + δ) - lam jc| ≤ 102 / 100 := by
  unfold lam
  obtain ⟨l1, l2⟩ := long_step jc h
  have c := abs_le.mp (center_step jc h h')
  have w : |Real.sin (radians (125.04 - 1934.136 * (jc + δ))) - Real.sin (radians (125.04 - 1934.136 * jc))|
      ≤ 1 / 1000 := by
    refine le_trans (sin_rad_lip _ _) ?_
    have e : (125.04 - 1934.136 * (jc + δ) : ℝ) - (125.04 - 1934.136 * jc) = -(1934.136 * δ) := by ring
    rw [e, abs_neg, abs_of_nonneg (by unfold δ; norm_num)]
    unfold δ; norm_num
  rw [abs_le] at w ⊢
  constructor <;> nlinarith [w.1, w.2, c.1, c.2]

/-- `arcsin` is Lipschitz with constant 11/10 on [−0.41, 0.41] -/
theorem arcsin_lip {a b : ℝ} (ha : |a| ≤ 41 / 100) (hb : |b| ≤ 41 / 100) :
    |Real.arcsin b - Real.arcsin a| ≤ 11 / 10 * |b - a| := by
  have hconv : Convex ℝ (Set.Icc (-(41 / 100 : ℝ)) (41 / 100)) := convex_Icc _ _
  have hmem : ∀ x, |x| ≤ 41 / 100 → x ∈ Set.Icc (-(41 / 100 : ℝ)) (41 / 100) := fun x hx => abs_le.mp hx
  have hd : ∀ x ∈ Set.Icc (-(41 / 100 : ℝ)) (41 / 100), DifferentiableAt ℝ Real.arcsin x := by
    intro x hx
    rw [Real.differentiableAt_arcsin]
    constructor <;> intro e <;> rw [e] at hx <;> norm_num at hx
  have hb' : ∀ x ∈ Set.Icc (-(41 / 100 : ℝ)) (41 / 100), ‖deriv Real.arcsin x‖ ≤ 11 / 10 := by
    intro x hx
    rw [Real.deriv_arcsin, Real.norm_eq_abs]
    have hx2 : x ^ 2 ≤ (41 / 100) ^ 2 := by
      have := abs_le.mpr hx
      exact sq_le_sq' (by linarith [hx.1]) hx.2
    have hpos : (0 : ℝ) < 1 - x ^ 2 := by nlinarith
    have hs : (10 / 11 : ℝ) ≤ Real.sqrt (1 - x ^ 2) := by
      apply Real.le_sqrt_of_sq_le
      nlinarith
    have hspos : 0 < Real.sqrt (1 - x ^ 2) := lt_of_lt_of_le (by norm_num) hs
    rw [abs_of_pos (by positivity)]
    rw [div_le_iff₀ hspos]
    nlinarith
  have := hconv.norm_image_sub_le_of_norm_deriv_le hd hb' (hmem a ha) (hmem b hb)
  simpa [Real.norm_eq_abs] using this

/-- **one day's change of the declination is at most 0.46°** -/
theorem declination_step (jc : ℝ) (h : |jc| ≤ 101 / 100) (h' : |jc + δ| ≤ 101 / 100) :
    |sunDeclination (jc + δ) - sunDeclination jc| ≤ 46 / 100 := by
  unfold sunDeclination
  simp only [trig_asin, trig_sin]
  rw [sin_apparentLong, sin_apparentLong]
  obtain ⟨o1, o2⟩ := obliq_bound jc h
  obtain ⟨o1', o2'⟩ := obliq_bound (jc + δ) h'
  have ostep := obliq_step jc h h'
  set e0 := obliquityCorrection jc
  set e1 := obliquityCorrection (jc + δ)
  have hp := Real.pi_pos
  -- sin ε ∈ [0, 0.4095]
  have sinle : ∀ e : ℝ, 2342 / 100 ≤ e → e ≤ 2346 / 100 → |Real.sin (radians e)| ≤ 4095 / 10000 := by
    intro e l u
    have r0 : 0 ≤ radians e := by rw [radians_eq]; positivity
    have r1 : radians e ≤ 4095 / 10000 := by
      rw [radians_eq]
      have := mul_le_mul u pi180 (by positivity) (by norm_num : (0 : ℝ) ≤ 2346 / 100)
      linarith
    have rpi : radians e ≤ π := by linarith [Real.pi_gt_three]
    rw [abs_of_nonneg (Real.sin_nonneg_of_nonneg_of_le_pi r0 rpi)]
    exact le_trans (Real.sin_le r0) r1
  have se0 := sinle e0 o1 o2
  have se1 := sinle e1 o1' o2'
  have dse : |Real.sin (radians e1) - Real.sin (radians e0)| ≤ 1 / 10000000 := by
    refine le_trans (sin_rad_lip e0 e1) ?_
    have := mul_le_mul_of_nonneg_right ostep (by norm_num : (0 : ℝ) ≤ 17454 / 1000000)
    linarith
  have dsl : |Real.sin (radians (lam (jc + δ))) - Real.sin (radians (lam jc))| ≤ 17804 / 1000000 := by
    refine le_trans (sin_rad_lip _ _) ?_
    have := mul_le_mul_of_nonneg_right (lam_step jc h h') (by norm_num : (0 : ℝ) ≤ 17454 / 1000000)
    linarith
  -- the arcsine's argument and its step
  set s0 := Real.sin (radians e0) * Real.sin (radians (lam jc)) with hs0
  set s1 := Real.sin (radians e1) * Real.sin (radians (lam (jc + δ))) with hs1
  have b0 : |s0| ≤ 41 / 100 := by
    have := abs_mul_le' se0 (Real.abs_sin_le_one (radians (lam jc)))
    linarith
  have b1 : |s1| ≤ 41 / 100 := by
    have := abs_mul_le' se1 (Real.abs_sin_le_one (radians (lam (jc + δ))))
    linarith
  have ds : |s1 - s0| ≤ 7292 / 1000000 := by
    have := mul_step (a := Real.sin (radians e0)) (a' := Real.sin (radians e1))
      (b := Real.sin (radians (lam jc))) (b' := Real.sin (radians (lam (jc + δ))))
      se0 (Real.abs_sin_le_one _) dse dsl
    linarith
  have lip := arcsin_lip b0 b1
  rw [degrees_eq, degrees_eq, ← sub_mul, abs_mul, abs_of_pos (by positivity : (0 : ℝ) < 180 / π)]
  have hdeg : 180 / π ≤ 573 / 10 := by
    rw [div_le_iff₀ hp]; nlinarith [Real.pi_gt_d4]
  calc |Real.arcsin s1 - Real.arcsin s0| * (180 / π)
      ≤ (11 / 10 * (7292 / 1000000)) * (573 / 10) := by
        apply mul_le_mul _ hdeg (by positivity) (by norm_num)
        exact le_trans lip (mul_le_mul_of_nonneg_left ds (by norm_num))
    _ ≤ 46 / 100 := by norm_num

end Astral.DeclStep
