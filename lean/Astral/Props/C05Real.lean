import Astral.Props.C08
import Astral.Props.C01
/-
  C01/C05 (exact reals): the clock time the transit computation produces and the hour angle
  the position function derives from a clock time are consistent — same longitude sign, same
  equation-of-time sign, same 1440-minute wrap.
-/
namespace Astral.C05Real
open Astral Real Astral.C08 Astral.C06

/-- the hour angle `zenith_and_azimuth` derives from `t` minutes after 00:00 UTC -/
noncomputable def hourAngleAtMinutes (t lon eq : ℝ) : ℝ :=
  hourAngleOfTst (Trig.pymod (t + (eq + 4.0 * lon)) 1440.0)

theorem pymod_eq (x : ℝ) : ∃ k : ℤ, Trig.pymod x 1440.0 = x - 1440 * (k : ℝ) := by
  refine ⟨⌊x / 1440.0⌋, ?_⟩
  rw [trig_pymod]; norm_num

/-- **C01 `transit_hourangle_consistent`**: if the transit computation puts the event with hour
    angle `H` (radians, as `hour_angle` returns it) at `720 + 4(−lon − H°) − eqtime` minutes UTC,
    wrapped by 1440 or not, then the position function — fed that clock time, the same
    longitude and the same equation of time — derives the hour angle `−H°` up to whole turns.
    A wrong sign of the longitude, of the equation of time or of `H`, or a wrap by anything but
    a whole day, falsifies this. -/
theorem transit_hourangle_consistent (lon eq H : ℝ) (wrap : Bool) :
    ∃ k : ℤ, hourAngleAtMinutes (720.0 + ((-lon - degrees H) * 4.0 - eq
        + (if wrap then 1440.0 else 0.0))) lon eq = -degrees H + 360 * (k : ℝ) := by
  unfold hourAngleAtMinutes hourAngleOfTst
  obtain ⟨k, hk⟩ := pymod_eq (720.0 + ((-lon - degrees H) * 4.0 - eq
        + (if wrap then 1440.0 else 0.0)) + (eq + 4.0 * lon))
  rw [hk]
  cases wrap
  · refine ⟨-k, ?_⟩
    simp only [Bool.false_eq_true, ↓reduceIte]
    push_cast; norm_num; ring
  · refine ⟨1 - k, ?_⟩
    simp only [↓reduceIte]
    push_cast; norm_num; ring

/-- **C05 `noon_is_transit`**: at the computed noon (before truncation to whole seconds) the
    position function derives hour angle 0 with the same equation of time … -/
theorem noon_is_transit (lon eq : ℝ) :
    ∃ k : ℤ, hourAngleAtMinutes (720.0 - 4.0 * lon - eq) lon eq = 0 + 360 * (k : ℝ) := by
  unfold hourAngleAtMinutes hourAngleOfTst
  obtain ⟨k, hk⟩ := pymod_eq (720.0 - 4.0 * lon - eq + (eq + 4.0 * lon))
  rw [hk]
  refine ⟨-k, ?_⟩
  push_cast; norm_num; ring

/-- … and at the computed midnight, hour angle ±180 -/
theorem midnight_is_antitransit (lon eq : ℝ) :
    ∃ k : ℤ, hourAngleAtMinutes (-lon * 4.0 - eq) lon eq = -180 + 360 * (k : ℝ) := by
  unfold hourAngleAtMinutes hourAngleOfTst
  obtain ⟨k, hk⟩ := pymod_eq (-lon * 4.0 - eq + (eq + 4.0 * lon))
  rw [hk]
  refine ⟨-k, ?_⟩
  push_cast; norm_num; ring

/-- the noon formula: the hours `noon` splits into h/m/s are (720 − 4·lon − eqtime)/60 with the
    equation of time of 00:00 UTC of the date -/
theorem noon_formula (lon : ℝ) (d : Int) :
    noonHours lon d = (720 - 4 * lon - eqOfTime (julianDayToCentury (julianDayDate d))) / 60 := by
  unfold noonHours; norm_num

/-- the sun is not higher at any other hour angle than at the transit (fixed declination):
    sin(alt) is maximal at H = 0 -/
theorem noon_is_highest (φ δ H : ℝ) (hden : 0 ≤ cos (radians φ) * cos (radians δ)) :
    Astral.C01.sinAlt φ δ H ≤ Astral.C01.sinAlt φ δ 0 := by
  unfold Astral.C01.sinAlt
  have := Real.cos_le_one H
  rw [Real.cos_zero]
  nlinarith

end Astral.C05Real
