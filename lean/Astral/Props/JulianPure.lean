import Astral.Gen.Effects
/-
  C15 — the Julian-day functions and the time-unit helpers are pure, from the effect table
  regenerated from the AST of /repo/src/astral on every run (harness/effects.py): no caches,
  no module state, no clock, no environment.  Hence every theorem of C15 about "the value of
  julianday(x)" is about a function of x alone, whatever was called before.
-/
namespace Astral.JulianPure
open Astral.Gen

def rowAt (i : Nat) : FnRow := effectTable.getD i ⟨[], []⟩

def reach : Nat → List Nat → List Nat → List Nat
  | 0, seen, _ => seen
  | _ + 1, seen, [] => seen
  | fuel + 1, seen, x :: todo =>
    if seen.contains x then reach fuel seen todo
    else reach fuel (x :: seen) ((rowAt x).calls ++ todo)

def pureFn (f : Nat) : Bool :=
  ((reach (4 * effectTable.length + 16) [] [f]).flatMap (fun i => (rowAt i).effects)).isEmpty

theorem julian_pure : julianFns.all pureFn = true := by decide +kernel

theorem julian_nonempty : 8 ≤ julianFns.length ∧ julianFns.all (fun i => i < effectTable.length) = true := by
  decide +kernel

end Astral.JulianPure
