import Astral.Props.C03
/-
  C07 — derived periods are exactly the primitive events they are defined by.
-/
namespace Astral.C07
open Astral Astral.C03

section
variable {α : Type} [Add α] [Sub α] [Mul α] [Div α] [Neg α] [LT α] [LE α] [OfScientific α]
  [Trig α] [DecidableRel (α := α) (· < ·)] [DecidableRel (α := α) (· ≤ ·)]

theorem bind_ok_iff {β γ : Type} {x : Except Err β} {f : β → Except Err γ} {v : γ} :
    (x >>= f) = .ok v ↔ ∃ a, x = .ok a ∧ f a = .ok v := by
  constructor
  · exact bind_ok
  · rintro ⟨a, rfl, h⟩; exact h

/-- daylight is exactly (sunrise, sunset) for the same observer, date and zone -/
theorem daylight_eq (obs : Obs α) (d : Date) (tz : TZ) (s e : Instant) :
    daylight obs d tz = .ok (s, e) ↔ sunrise obs d tz = .ok s ∧ sunset obs d tz = .ok e := by
  unfold daylight
  constructor
  · intro h
    obtain ⟨a, ha, h⟩ := bind_ok h
    obtain ⟨b, hb, h⟩ := bind_ok h
    simp only [pure, Except.pure, Except.ok.injEq, Prod.mk.injEq] at h
    obtain ⟨rfl, rfl⟩ := h
    exact ⟨ha, hb⟩
  · rintro ⟨h1, h2⟩
    simp [h1, h2, bind, Except.bind, pure, Except.pure]

/-- night is exactly (dusk of the date, dawn of the next date), depression 6 as the code passes it -/
theorem night_eq (obs : Obs α) (d : Date) (tz : TZ) (s e : Instant)
    (hd : minOrdinal ≤ d + 1 ∧ d + 1 ≤ maxOrdinal) :
    night obs d tz = .ok (s, e) ↔ dusk obs d 6.0 tz = .ok s ∧ dawn obs (d + 1) 6.0 tz = .ok e := by
  have hadd : dateAdd? d 1 = .ok (d + 1) := by unfold dateAdd?; simp [hd]
  unfold night
  constructor
  · intro h
    obtain ⟨a, ha, h⟩ := bind_ok h
    obtain ⟨t, ht, h⟩ := bind_ok h
    obtain ⟨b, hb, h⟩ := bind_ok h
    simp only [pure, Except.pure, Except.ok.injEq, Prod.mk.injEq] at h
    obtain ⟨rfl, rfl⟩ := h
    rw [hadd] at ht; injection ht with ht; subst ht
    exact ⟨ha, hb⟩
  · rintro ⟨h1, h2⟩
    simp [h1, h2, hadd, bind, Except.bind, pure, Except.pure]

/-- rising twilight is (civil dawn, sunrise); setting twilight is (sunset, civil dusk) -/
theorem twilight_rising_eq (obs : Obs α) (d : Date) (tz : TZ) (s e : Instant) :
    twilight obs d .rising tz = .ok (s, e) ↔ dawn obs d 6.0 tz = .ok s ∧ sunrise obs d tz = .ok e := by
  unfold twilight
  constructor
  · intro h
    simp only at h
    obtain ⟨a, ha, h⟩ := bind_ok h
    obtain ⟨b, hb, h⟩ := bind_ok h
    simp only [pure, Except.pure, Except.ok.injEq, Prod.mk.injEq] at h
    obtain ⟨rfl, rfl⟩ := h
    exact ⟨ha, hb⟩
  · rintro ⟨h1, h2⟩
    simp [h1, h2, bind, Except.bind, pure, Except.pure]

theorem twilight_setting_eq (obs : Obs α) (d : Date) (tz : TZ) (s e : Instant) :
    twilight obs d .setting tz = .ok (s, e) ↔ sunset obs d tz = .ok s ∧ dusk obs d 6.0 tz = .ok e := by
  unfold twilight
  constructor
  · intro h
    simp only at h
    obtain ⟨a, ha, h⟩ := bind_ok h
    obtain ⟨b, hb, h⟩ := bind_ok h
    simp only [pure, Except.pure, Except.ok.injEq, Prod.mk.injEq] at h
    obtain ⟨rfl, rfl⟩ := h
    exact ⟨hb, ha⟩
  · rintro ⟨h1, h2⟩
    simp [h1, h2, bind, Except.bind, pure, Except.pure]

/-- the blue hour spans the −6° and −4° crossings, in chronological order for its direction -/
theorem blueHour_eq (obs : Obs α) (d : Date) (dir : Dir) (tz : TZ) (s e : Instant) :
    blueHour obs d dir tz = .ok (s, e) ↔
      match dir with
      | .rising => timeAtElevation obs (-6.0) d .rising tz = .ok s
                    ∧ timeAtElevation obs (-4.0) d .rising tz = .ok e
      | .setting => timeAtElevation obs (-4.0) d .setting tz = .ok s
                    ∧ timeAtElevation obs (-6.0) d .setting tz = .ok e := by
  unfold blueHour
  cases dir <;>
  · constructor
    · intro h
      obtain ⟨a, ha, h⟩ := bind_ok h
      obtain ⟨b, hb, h⟩ := bind_ok h
      simp only [pure, Except.pure, Except.ok.injEq, Prod.mk.injEq] at h
      obtain ⟨rfl, rfl⟩ := h
      first | exact ⟨ha, hb⟩ | exact ⟨hb, ha⟩
    · rintro ⟨h1, h2⟩
      simp [h1, h2, bind, Except.bind, pure, Except.pure]

/-- the golden hour spans the −4° and +6° crossings, in chronological order for its direction -/
theorem goldenHour_eq (obs : Obs α) (d : Date) (dir : Dir) (tz : TZ) (s e : Instant) :
    goldenHour obs d dir tz = .ok (s, e) ↔
      match dir with
      | .rising => timeAtElevation obs (-4.0) d .rising tz = .ok s
                    ∧ timeAtElevation obs 6.0 d .rising tz = .ok e
      | .setting => timeAtElevation obs 6.0 d .setting tz = .ok s
                    ∧ timeAtElevation obs (-4.0) d .setting tz = .ok e := by
  unfold goldenHour
  cases dir <;>
  · constructor
    · intro h
      obtain ⟨a, ha, h⟩ := bind_ok h
      obtain ⟨b, hb, h⟩ := bind_ok h
      simp only [pure, Except.pure, Except.ok.injEq, Prod.mk.injEq] at h
      obtain ⟨rfl, rfl⟩ := h
      first | exact ⟨ha, hb⟩ | exact ⟨hb, ha⟩
    · rintro ⟨h1, h2⟩
      simp [h1, h2, bind, Except.bind, pure, Except.pure]

/-- the five-event bundle returns exactly the five individual events, same depression and zone -/
theorem sunBundle_eq (obs : Obs α) (d : Date) (dep : α) (tz : TZ) (r : SunTimes) :
    sunBundle obs d dep tz = .ok r ↔
      dawn obs d dep tz = .ok r.dawn ∧ sunrise obs d tz = .ok r.sunrise ∧
      noon obs d tz = .ok r.noon ∧ sunset obs d tz = .ok r.sunset ∧ dusk obs d dep tz = .ok r.dusk := by
  unfold sunBundle
  constructor
  · intro h
    obtain ⟨a, ha, h⟩ := bind_ok h
    obtain ⟨b, hb, h⟩ := bind_ok h
    obtain ⟨c, hc, h⟩ := bind_ok h
    obtain ⟨e, he, h⟩ := bind_ok h
    obtain ⟨f, hf, h⟩ := bind_ok h
    simp only [pure, Except.pure, Except.ok.injEq] at h
    subst h
    exact ⟨ha, hb, hc, he, hf⟩
  · rintro ⟨h1, h2, h3, h4, h5⟩
    simp [h1, h2, h3, h4, h5, bind, Except.bind, pure, Except.pure]

end

/-! ### Night always starts before it ends -/

/-- the calendar date shown by the zone never goes backwards as time advances
    (true of every fixed offset and of every IANA zone in 1900–2100; the harness checks it
    on the extracted zone tables) -/
def DateMono (z : Zone) : Prop := ∀ a b : Instant, a ≤ b → localDate z a ≤ localDate z b

theorem dateMono_fixed (off : Int) : DateMono (fun _ => off) := by
  intro a b h
  simp only [localDate, usPerDay]
  have : ∀ x y o : Int, x ≤ y → (x + o) / 86400000000 ≤ (y + o) / 86400000000 := by
    intro x y o hxy; omega
  exact this a b off h

section
variable {α : Type} [Add α] [Sub α] [Mul α] [Div α] [Neg α] [LT α] [LE α] [OfScientific α]
  [Trig α] [DecidableRel (α := α) (· < ·)] [DecidableRel (α := α) (· ≤ ·)]

/-- **night is ordered** — no astronomy needed: the start is on the date, the end on the
    next one, and dates do not go backwards. -/
theorem night_ordered (obs : Obs α) (d : Date) (tz : TZ) (s e : Instant)
    (hz : DateMono tz.utc) (h : night obs d tz = .ok (s, e)) : s < e := by
  obtain ⟨h1, h2⟩ := night_dates obs d tz s e h
  by_contra hc
  have h3 : localDate tz.utc e ≤ localDate tz.utc s := hz e s (not_lt.mp hc)
  rw [h1, h2] at h3
  have : ∀ x : Int, ¬ (x + 1 ≤ x) := by intro x; omega
  exact this d h3

/-! ### rahukaalam -/

/-- The traditional table, pinned here and not read from the code:
    Monday…Sunday ↦ 2nd, 7th, 5th, 6th, 4th, 3rd, 8th eighth (0-based 1, 6, 4, 5, 3, 2, 7). -/
def traditionalOctant : Int → Int
  | 0 => 1 | 1 => 6 | 2 => 4 | 3 => 5 | 4 => 3 | 5 => 2 | _ => 7

theorem octantIndex_traditional (wd : Int) (h0 : 0 ≤ wd) (h6 : wd ≤ 6) :
    octantIndex wd = traditionalOctant wd := by
  interval_cases wd <;> rfl

/-- rahukaalam is the weekday's traditional eighth of the sunrise–sunset (day) or
    sunset–next-sunrise (night) span, the eighth being the whole-second span divided by 8 -/
theorem rahukaalam_spec (obs : Obs α) (d : Date) (daytime : Bool) (tz : TZ) (rs re : Instant)
    (hd : minOrdinal ≤ d + 1 ∧ d + 1 ≤ maxOrdinal)
    (h : rahukaalam obs d daytime tz = .ok (rs, re)) :
    ∃ s e : Instant,
      (if daytime then sunrise obs d tz = .ok s ∧ sunset obs d tz = .ok e
       else sunset obs d tz = .ok s ∧ sunrise obs (d + 1) tz = .ok e) ∧
      let o := timedeltaSecondsField (e - s) * 125000
      rs = s + o * traditionalOctant (weekday d) ∧ re = rs + o := by
  have hadd : dateAdd? d 1 = .ok (d + 1) := by unfold dateAdd?; simp [hd]
  have hwd : octantIndex (weekday d) = traditionalOctant (weekday d) :=
    octantIndex_traditional _ (by unfold weekday; omega) (by unfold weekday; omega)
  unfold rahukaalam at h
  cases daytime
  · simp only [Bool.false_eq_true, ↓reduceIte, bind, Except.bind, pure, Except.pure, hadd] at h ⊢
    split at h
    · cases h
    · rename_i a ha
      split at h
      · cases h
      · rename_i b hb
        simp only [Except.ok.injEq, Prod.mk.injEq] at h
        obtain ⟨rfl, rfl⟩ := h
        exact ⟨a, b, ⟨ha, hb⟩, by simp only [hwd], by simp only [hwd]⟩
  · simp only [↓reduceIte, bind, Except.bind, pure, Except.pure] at h ⊢
    split at h
    · cases h
    · rename_i a ha
      split at h
      · cases h
      · rename_i b hb
        simp only [Except.ok.injEq, Prod.mk.injEq] at h
        obtain ⟨rfl, rfl⟩ := h
        exact ⟨a, b, ⟨ha, hb⟩, by simp only [hwd], by simp only [hwd]⟩

/-- the eighth is within 1/8 s of an eighth of the elapsed span when the span is below a day -/
theorem octant_close (span : Int) (h0 : 0 ≤ span) (h1 : span < usPerDay) :
    let o := timedeltaSecondsField span * 125000
    8 * o ≤ span ∧ span - 8 * o < usPerSec := by
  unfold timedeltaSecondsField usPerSec
  unfold usPerDay at h1
  constructor <;> omega

end
end Astral.C07
