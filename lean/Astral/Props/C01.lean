import Astral.Props.C10
/-
  C01 — sun event times are true altitude crossings in the right direction.
  C04 — never-rises / never-sets verdicts are truthful (shares the crossing identity).
  α := ℝ.  These are exact statements about the algorithm: with the declination and equation
  of time of the second pass, the returned instant is an exact crossing of the target zenith
  *by the library's own position kernel*; agreement with an independent ephemeris is not a
  theorem (DESIGN §9).
-/
namespace Astral.C01
open Astral Real Astral.C02 Astral.C06

/-- **hour angle is a solution of the altitude equation** with the right sign -/
theorem hourAngle_sound (φ δ z H : ℝ) (dir : Dir)
    (hden : cos (radians φ) * cos (radians δ) ≠ 0)
    (h : hourAngle φ δ z dir = .ok H) :
    cos (radians z) = sin (radians φ) * sin (radians δ) + cos (radians φ) * cos (radians δ) * cos H
    ∧ |H| ≤ π ∧ (dir = .rising → 0 ≤ H) ∧ (dir = .setting → H ≤ 0) := by
  obtain ⟨h1, h2, h3⟩ := hourAngle_ok h
  rw [hourAngleArg_eq] at h1 h2 h3
  set x := (cos (radians z) - sin (radians φ) * sin (radians δ)) / (cos (radians φ) * cos (radians δ)) with hx
  have hcos := Real.cos_arccos h1 h2
  have hnn := Real.arccos_nonneg x
  have hpi := Real.arccos_le_pi x
  have key : cos (radians z) = sin (radians φ) * sin (radians δ) + cos (radians φ) * cos (radians δ) * x := by
    rw [hx, mul_div_cancel₀ _ hden]; ring
  by_cases hd : dir = .setting
  · rw [if_pos hd] at h3; subst h3
    refine ⟨by rw [Real.cos_neg, hcos]; exact key, by rw [abs_neg, abs_of_nonneg hnn]; exact hpi, ?_, fun _ => by linarith⟩
    intro h'; rw [hd] at h'; cases h'
  · rw [if_neg hd] at h3; subst h3
    exact ⟨by rw [hcos]; exact key, by rw [abs_of_nonneg hnn]; exact hpi, fun _ => hnn, fun h' => absurd h' hd⟩

/-- the position kernel's cosine of the zenith, in terms of an hour angle in *radians* -/
theorem cosZenith_of_degrees (φ δ H : ℝ) :
    cosZenith φ δ (degrees H)
      = cos (radians φ) * cos (radians δ) * cos H + sin (radians φ) * sin (radians δ) := by
  unfold cosZenith
  simp only [trig_cos, trig_sin, radians_degrees]

/-- **exact crossing**: fed the latitude, declination and the hour angle that `hour_angle`
    produced, the library's own position kernel returns exactly the target zenith
    (for target zeniths in [0°, 180°]). -/
theorem zenith_at_hourAngle (φ δ z H : ℝ) (dir : Dir)
    (hden : cos (radians φ) * cos (radians δ) ≠ 0) (hz0 : 0 ≤ z) (hz180 : z ≤ 180)
    (h : hourAngle φ δ z dir = .ok H) :
    zenithOfCos (cosZenith φ δ (degrees H)) = z := by
  obtain ⟨hc, _, _, _⟩ := hourAngle_sound φ δ z H dir hden h
  rw [cosZenith_of_degrees]
  have e : cos (radians φ) * cos (radians δ) * cos H + sin (radians φ) * sin (radians δ)
      = cos (radians z) := by rw [hc]; ring
  rw [e]
  unfold zenithOfCos clampUnit
  have hle := Real.cos_le_one (radians z)
  have hge := Real.neg_one_le_cos (radians z)
  rw [if_neg (by norm_num; exact hle), if_neg (by norm_num; linarith)]
  simp only [trig_acos]
  have hp := Real.pi_pos
  have hr0 : 0 ≤ radians z := by rw [radians_eq]; positivity
  have hrpi : radians z ≤ π := by
    rw [radians_eq]
    have : z * (π / 180) ≤ 180 * (π / 180) := mul_le_mul_of_nonneg_right hz180 (by positivity)
    linarith
  rw [Real.arccos_cos hr0 hrpi, degrees_radians]

/-- **the defining altitude**: the zenith handed to `hour_angle` is the requested zenith plus
    the horizon dip plus (if enabled) the published refraction at that adjusted zenith -/
theorem target_zenith (h z : ℝ) (r : Bool) :
    effectiveZenith (.flt h) z r
      = .ok (z + adjustToHorizon h + (if r then refractionAtZenith (z + adjustToHorizon h) else 0)) :=
  Astral.C10.effectiveZenith_flt h z r

/-- sunrise/sunset use the upper limb: 16 arc-minutes -/
theorem upper_limb : (sunApparentRadius : ℝ) = 16 / 60 := by
  unfold sunApparentRadius; norm_num

/-- time-at-elevation asks for zenith 90 − elevation, and folds elevations above 90° onto the
    setting side -/
theorem fold_elevation (e : ℝ) (he : 90 < e) :
    (if (90.0 : ℝ) < e then (180.0 : ℝ) - e else e) = 180 - e := by
  rw [if_pos (by norm_num; exact he)]; norm_num

/-- **direction**: at a rising event the sun climbs (d/dH of the altitude's sine is
    −cos φ cos δ sin H > 0 for H ∈ (0, π) measured towards the morning side), at a setting
    event it descends.  Stated on the sine of the hour angle returned: -/
theorem direction_sign (φ δ z H : ℝ) (dir : Dir) (h : hourAngle φ δ z dir = .ok H)
    (hin : -1 < hourAngleArg φ δ z ∧ hourAngleArg φ δ z < 1) :
    (dir = .rising → 0 < sin H) ∧ (dir = .setting → sin H < 0) := by
  obtain ⟨_, _, c⟩ := hourAngle_ok h
  have hpos : 0 < Real.arccos (hourAngleArg φ δ z) := Real.arccos_pos.mpr hin.2
  have hlt : Real.arccos (hourAngleArg φ δ z) < π := by
    rcases lt_or_eq_of_le (Real.arccos_le_pi (hourAngleArg φ δ z)) with h1 | h1
    · exact h1
    · rw [Real.arccos_eq_pi] at h1; linarith [hin.1]
  constructor
  · intro hd; subst hd; simp only [reduceCtorEq, ↓reduceIte] at c; subst c
    exact Real.sin_pos_of_pos_of_lt_pi hpos hlt
  · intro hd; subst hd; simp only [↓reduceIte] at c; subst c
    rw [Real.sin_neg]; linarith [Real.sin_pos_of_pos_of_lt_pi hpos hlt]

/-! ### C04: the domain error is exactly "altitude never reached on that day" -/

/-- `hour_angle` succeeds iff the target lies between the day's extreme altitudes
    (for that declination): cos z ∈ [sinφ sinδ − cosφ cosδ, sinφ sinδ + cosφ cosδ] -/
theorem hourAngle_defined_iff (φ δ z : ℝ) (dir : Dir)
    (hden : 0 < cos (radians φ) * cos (radians δ)) :
    (∃ H, hourAngle φ δ z dir = .ok H) ↔
      sin (radians φ) * sin (radians δ) - cos (radians φ) * cos (radians δ) ≤ cos (radians z)
      ∧ cos (radians z) ≤ sin (radians φ) * sin (radians δ) + cos (radians φ) * cos (radians δ) := by
  constructor
  · rintro ⟨H, h⟩
    obtain ⟨h1, h2, _⟩ := hourAngle_ok h
    rw [hourAngleArg_eq] at h1 h2
    rw [le_div_iff₀ hden] at h1
    rw [div_le_iff₀ hden] at h2
    constructor <;> linarith
  · rintro ⟨h1, h2⟩
    have a1 : -1 ≤ hourAngleArg φ δ z := by
      rw [hourAngleArg_eq, le_div_iff₀ hden]; linarith
    have a2 : hourAngleArg φ δ z ≤ 1 := by
      rw [hourAngleArg_eq, div_le_iff₀ hden]; linarith
    unfold hourAngle
    rw [acos?_of_mem a1 a2]
    exact ⟨_, rfl⟩

/-- the sine of the altitude at hour angle `H` (radians) -/
noncomputable def sinAlt (φ δ H : ℝ) : ℝ :=
  sin (radians φ) * sin (radians δ) + cos (radians φ) * cos (radians δ) * cos H

/-- **domain error ⇒ truthfully never reached, and on which side**: if the acos argument
    exceeds 1 the sun stays *below* the target altitude at every hour angle; if it is below −1
    the sun stays *above* it all day. -/
theorem never_reaches_side (φ δ z : ℝ) (hden : 0 < cos (radians φ) * cos (radians δ)) :
    (1 < hourAngleArg φ δ z → ∀ H, sinAlt φ δ H < cos (radians z))
    ∧ (hourAngleArg φ δ z < -1 → ∀ H, cos (radians z) < sinAlt φ δ H) := by
  constructor
  · intro h H
    rw [hourAngleArg_eq, lt_div_iff₀ hden] at h
    unfold sinAlt
    have := Real.cos_le_one H
    nlinarith
  · intro h H
    rw [hourAngleArg_eq, div_lt_iff₀ hden] at h
    unfold sinAlt
    have := Real.neg_one_le_cos H
    nlinarith

/-- and the error is raised in exactly those two cases -/
theorem hourAngle_error_iff (φ δ z : ℝ) (dir : Dir) :
    hourAngle φ δ z dir = .error .mathDomain ↔
      (hourAngleArg φ δ z < -1 ∨ 1 < hourAngleArg φ δ z) := by
  constructor
  · intro h
    by_contra hc
    push Not at hc
    unfold hourAngle at h
    rw [acos?_of_mem hc.1 hc.2] at h
    simp [bind, Except.bind, pure, Except.pure] at h
  · intro h
    unfold hourAngle
    rw [acos?_error h]
    rfl

/-- **date re-matching never discards an event one of its candidates places on the date**:
    if the first candidate is on the date it is returned; if the neighbouring-day candidate the
    block picks is on the date it is returned; "Unable to find" means neither was. -/
theorem rematch_complete (f : Date → Except Err Instant) (z : Zone) (d : Int)
    (t1 : Instant) (h1 : f d = .ok t1) (hd : 2 ≤ d ∧ d ≤ 3652058) :
    (localDate z t1 = d → rematch f z d = .ok t1)
    ∧ (localDate z t1 ≠ d →
        ∀ t2, f (d + (if localDate z t1 < d then 1 else -1)) = .ok t2 →
          localDate z t2 = d → rematch f z d = .ok t2)
    ∧ (rematch f z d = .error .unableToFind →
        localDate z t1 ≠ d ∧
        ∀ t2, f (d + (if localDate z t1 < d then 1 else -1)) = .ok t2 → localDate z t2 ≠ d) := by
  have hadd : ∀ k : Int, (k = 1 ∨ k = -1) → dateAdd? d k = .ok (d + k) := by
    intro k hk
    unfold dateAdd?
    simp only
    unfold minOrdinal maxOrdinal
    obtain ⟨hd1, hd2⟩ := hd
    rw [if_pos (by rcases hk with rfl | rfl <;> constructor <;> omega)]
  refine ⟨?_, ?_, ?_⟩
  · intro hl
    unfold rematch
    simp [h1, hl, bind, Except.bind, pure, Except.pure]
  · intro hl t2 h2 hl2
    unfold rematch
    have hk := hadd (if localDate z t1 < d then 1 else -1) (by split_ifs <;> simp)
    simp [h1, hl, h2, hl2, hk, bind, Except.bind, pure, Except.pure]
  · intro he
    unfold rematch at he
    simp only [h1, bind, Except.bind, pure, Except.pure] at he
    by_cases hl : localDate z t1 = d
    · simp [hl] at he
    · refine ⟨hl, ?_⟩
      intro t2 h2 hl2
      have hk := hadd (if localDate z t1 < d then 1 else -1) (by split_ifs <;> simp)
      simp [hl, h2, hl2, hk] at he

end Astral.C01
