import Astral.Model.Geocoder
import Mathlib.Data.List.Perm.Basic
import Mathlib.Data.List.Nodup
import Mathlib.Tactic
/-
  C17 — geocoder lookups return what was stored, for any history of additions.
  Everything here is parametric in the number type (coordinates are opaque payload).
-/
namespace Astral.C17
open Astral

/-! ### Association lists as insertion-ordered dicts -/

section assoc
variable {β : Type}

theorem assocGet_assocSet_same (k : Str) (v : β) (l : List (Str × β)) :
    assocGet k (assocSet k v l) = some v := by
  induction l with
  | nil => simp [assocSet, assocGet]
  | cons p r ih =>
    obtain ⟨k', v'⟩ := p
    by_cases h : k' = k
    · simp [assocSet, assocGet, h]
    · simp [assocSet, assocGet, h, ih]

theorem assocGet_assocSet_other (k k2 : Str) (v : β) (l : List (Str × β)) (h : k2 ≠ k) :
    assocGet k2 (assocSet k v l) = assocGet k2 l := by
  induction l with
  | nil => simp [assocSet, assocGet, h.symm]
  | cons p r ih =>
    obtain ⟨k', v'⟩ := p
    by_cases h1 : k' = k
    · subst h1
      simp [assocSet, assocGet, h.symm]
    · simp only [assocSet, h1, ↓reduceIte, assocGet]
      split <;> simp [ih]

def keys (l : List (Str × β)) : List Str := l.map Prod.fst

theorem assocGet_none_iff (k : Str) (l : List (Str × β)) : assocGet k l = none ↔ k ∉ keys l := by
  induction l with
  | nil => simp [assocGet, keys]
  | cons p r ih =>
    obtain ⟨k', v'⟩ := p
    by_cases h : k' = k
    · simp [assocGet, keys, h]
    · simp only [assocGet, h, ↓reduceIte, ih, keys, List.map_cons, List.mem_cons, not_or]
      constructor
      · intro hh; exact ⟨fun e => h e.symm, hh⟩
      · intro hh; exact hh.2

theorem assocGet_some_mem {k : Str} {v : β} {l : List (Str × β)} (h : assocGet k l = some v) :
    (k, v) ∈ l := by
  induction l with
  | nil => simp [assocGet] at h
  | cons p r ih =>
    obtain ⟨k', v'⟩ := p
    by_cases h1 : k' = k
    · simp [assocGet, h1] at h; subst h; subst h1; simp
    · simp [assocGet, h1] at h; exact List.mem_cons_of_mem _ (ih h)

/-- keys after `d[k] = v`: unchanged if present, appended at the end if new -/
theorem keys_assocSet (k : Str) (v : β) (l : List (Str × β)) :
    keys (assocSet k v l) = if k ∈ keys l then keys l else keys l ++ [k] := by
  induction l with
  | nil => simp [assocSet, keys]
  | cons p r ih =>
    obtain ⟨k', v'⟩ := p
    by_cases h : k' = k
    · subst h; simp [assocSet, keys]
    · have h' : ¬ k = k' := fun e => h e.symm
      simp only [assocSet, h, ↓reduceIte, keys, List.map_cons, List.mem_cons, h', false_or] at ih ⊢
      rw [ih]
      split <;> simp_all

theorem nodup_keys_assocSet (k : Str) (v : β) (l : List (Str × β)) (h : (keys l).Nodup) :
    (keys (assocSet k v l)).Nodup := by
  rw [keys_assocSet]
  split
  · exact h
  · rename_i hk
    exact List.Nodup.append h (by simp) (by simpa using hk)

/-- with unique keys, membership and lookup coincide -/
theorem assocGet_of_mem {k : Str} {v : β} {l : List (Str × β)} (hn : (keys l).Nodup)
    (h : (k, v) ∈ l) : assocGet k l = some v := by
  induction l with
  | nil => simp at h
  | cons p r ih =>
    obtain ⟨k', v'⟩ := p
    simp only [keys, List.map_cons, List.nodup_cons] at hn
    rcases List.mem_cons.mp h with h1 | h1
    · injection h1 with h2 h3; subst h2; subst h3; simp [assocGet]
    · have : k' ≠ k := by
        intro e; subst e
        exact hn.1 (List.mem_map.mpr ⟨(k', v), h1, rfl⟩)
      simp [assocGet, this, ih hn.2 h1]

theorem mem_assocSet {k : Str} {v : β} {l : List (Str × β)} {p : Str × β}
    (h : p ∈ assocSet k v l) : p = (k, v) ∨ p ∈ l := by
  induction l with
  | nil => simp [assocSet] at h; exact Or.inl h
  | cons q r ih =>
    obtain ⟨k', v'⟩ := q
    by_cases h1 : k' = k
    · simp only [assocSet, h1, ↓reduceIte, List.mem_cons] at h
      rcases h with h | h
      · exact Or.inl h
      · exact Or.inr (List.mem_cons_of_mem _ h)
    · simp only [assocSet, h1, ↓reduceIte, List.mem_cons] at h
      rcases h with h | h
      · subst h; exact Or.inr (by simp)
      · rcases ih h with h2 | h2
        · exact Or.inl h2
        · exact Or.inr (List.mem_cons_of_mem _ h2)

/-- shape of `d[k] = v` when the key is new: appended at the end -/
theorem assocSet_new {k : Str} {v : β} {l : List (Str × β)} (h : assocGet k l = none) :
    assocSet k v l = l ++ [(k, v)] := by
  induction l with
  | nil => simp [assocSet]
  | cons p r ih =>
    obtain ⟨k', v'⟩ := p
    by_cases h1 : k' = k
    · simp [assocGet, h1] at h
    · simp only [assocGet, h1, ↓reduceIte] at h
      simp [assocSet, h1, ih h]

/-- shape of `d[k] = v` when the key exists: the first entry with that key is replaced in place -/
theorem assocSet_existing {k : Str} {v v0 : β} {l : List (Str × β)} (h : assocGet k l = some v0) :
    ∃ pre post, l = pre ++ (k, v0) :: post ∧ assocSet k v l = pre ++ (k, v) :: post
      ∧ k ∉ keys pre := by
  induction l with
  | nil => simp [assocGet] at h
  | cons p r ih =>
    obtain ⟨k', v'⟩ := p
    by_cases h1 : k' = k
    · subst h1
      simp only [assocGet, ↓reduceIte, Option.some.injEq] at h
      subst h
      exact ⟨[], r, by simp, by simp [assocSet], by simp [keys]⟩
    · simp only [assocGet, h1, ↓reduceIte] at h
      obtain ⟨pre, post, e1, e2, e3⟩ := ih h
      refine ⟨(k', v') :: pre, post, by simp [e1], by simp [assocSet, h1, e2], ?_⟩
      simp only [keys, List.map_cons, List.mem_cons, not_or]
      exact ⟨fun e => h1 e.symm, e3⟩

end assoc

/-! ### Additions -/

section
variable {α : Type}

def groupRecs (g : Group α) : List (Rec α) := g.flatMap (fun e => e.2)

theorem allLocations_eq (db : Db α) : allLocations db = db.flatMap (fun g => groupRecs g.2) := rfl

/-- adding under a name key: the group's records gain exactly `r`, at the end of its name's list -/
theorem groupRecs_add (g : Group α) (r : Rec α) :
    (groupRecs (addToGroup g r)).Perm (groupRecs g ++ [r]) := by
  unfold addToGroup
  cases h : assocGet (sanitize r.name) g with
  | none =>
    simp only
    rw [assocSet_new h]
    simp [groupRecs]
  | some l =>
    simp only
    obtain ⟨pre, post, e1, e2, _⟩ := assocSet_existing (v := l ++ [r]) h
    rw [e2]
    conv_rhs => rw [e1]
    simp only [groupRecs, List.flatMap_append, List.flatMap_cons, List.append_assoc]
    apply List.Perm.append_left
    apply List.Perm.append_left
    exact List.perm_append_comm

/-- **C17 listing**: after adding a record, listing all locations yields the previous
    records and the new one, each exactly once (as a permutation — the new record sits inside
    its group), with the fields it was given. Holds for every database value. -/
theorem all_after_addRec (db : Db α) (r : Rec α) :
    (allLocations (addRec db r)).Perm (allLocations db ++ [r]) := by
  unfold addRec groupOrNew
  simp only
  cases hg : assocGet (sanitize (timezoneGroup r.tz)) db with
  | none =>
    simp only
    rw [assocSet_new hg]
    simp [allLocations, addToGroup, assocGet, assocSet]
  | some g =>
    simp only
    have hge : (if g.isEmpty = true then ([] : Group α) else g) = g := by
      cases g <;> simp
    rw [hge]
    obtain ⟨pre, post, e1, e2, _⟩ := assocSet_existing (v := addToGroup g r) hg
    rw [e2]
    conv_rhs => rw [e1]
    simp only [allLocations_eq, List.flatMap_append, List.flatMap_cons, List.append_assoc]
    apply List.Perm.append_left
    have hp := groupRecs_add g r
    refine (List.Perm.append_right _ hp).trans ?_
    simp only [List.append_assoc]
    apply List.Perm.append_left
    exact List.perm_append_comm

/-! ### Well-formedness: an invariant of every reachable database -/

/-- a group is well-formed for key `k`: unique name keys, no empty list, every record filed
    under its own sanitised name and belonging to time-zone group `k` -/
def WFGroup (k : Str) (g : Group α) : Prop :=
  (keys g).Nodup ∧ ∀ n l, (n, l) ∈ g →
    l ≠ [] ∧ ∀ r ∈ l, sanitize r.name = n ∧ sanitize (timezoneGroup r.tz) = k

def WF (db : Db α) : Prop :=
  (keys db).Nodup ∧ ∀ k g, (k, g) ∈ db → g ≠ [] ∧ WFGroup k g

theorem wf_empty : WF ([] : Db α) := by simp [WF, keys]

theorem addToGroup_ne_nil (g : Group α) (r : Rec α) : addToGroup g r ≠ [] := by
  unfold addToGroup
  cases h : assocGet (sanitize r.name) g with
  | none => simp only; rw [assocSet_new h]; simp
  | some l =>
    simp only
    obtain ⟨pre, post, _, e2, _⟩ := assocSet_existing (v := l ++ [r]) h
    rw [e2]; simp

theorem wf_addToGroup (k : Str) (g : Group α) (r : Rec α) (hg : WFGroup k g)
    (hk : sanitize (timezoneGroup r.tz) = k) : WFGroup k (addToGroup g r) := by
  obtain ⟨hn, hr⟩ := hg
  unfold addToGroup
  cases h : assocGet (sanitize r.name) g with
  | none =>
    simp only
    refine ⟨nodup_keys_assocSet _ _ _ hn, ?_⟩
    intro n l hm
    rcases mem_assocSet hm with h1 | h1
    · injection h1 with h2 h3; subst h2; subst h3
      exact ⟨by simp, by intro r' hr'; simp at hr'; subst hr'; exact ⟨rfl, hk⟩⟩
    · exact hr n l h1
  | some l0 =>
    simp only
    refine ⟨nodup_keys_assocSet _ _ _ hn, ?_⟩
    intro n l hm
    rcases mem_assocSet hm with h1 | h1
    · injection h1 with h2 h3; subst h2; subst h3
      have := hr _ _ (assocGet_some_mem h)
      refine ⟨by simp, ?_⟩
      intro r' hr'
      rcases List.mem_append.mp hr' with h4 | h4
      · exact this.2 r' h4
      · simp at h4; subst h4; exact ⟨rfl, hk⟩
    · exact hr n l h1

theorem wf_groupOrNew (db : Db α) (key : Str) (h : WF db) : WFGroup key (groupOrNew db key) := by
  unfold groupOrNew
  cases hg : assocGet key db with
  | none => simp [WFGroup, keys]
  | some g =>
    simp only
    split
    · simp [WFGroup, keys]
    · exact (h.2 key g (assocGet_some_mem hg)).2

/-- **C17 invariant**: adding a record keeps the database well-formed -/
theorem wf_addRec (db : Db α) (r : Rec α) (h : WF db) : WF (addRec db r) := by
  unfold addRec
  simp only
  refine ⟨nodup_keys_assocSet _ _ _ h.1, ?_⟩
  intro k g hm
  rcases mem_assocSet hm with h1 | h1
  · injection h1 with h2 h3; subst h2; subst h3
    exact ⟨addToGroup_ne_nil _ _, wf_addToGroup _ _ _ (wf_groupOrNew db _ h) rfl⟩
  · exact h.2 k g h1

/-- … hence after any list of additions starting from a well-formed database
    (the empty one, or the built-in one) -/
theorem wf_addMany (db : Db α) (rs : List (Rec α)) (h : WF db) : WF (rs.foldl addRec db) := by
  induction rs generalizing db with
  | nil => simpa
  | cons r rs ih => exact ih _ (wf_addRec db r h)

/-- and listing after any list of additions: the old records plus exactly the added ones -/
theorem all_after_addMany (db : Db α) (rs : List (Rec α)) :
    (allLocations (rs.foldl addRec db)).Perm (allLocations db ++ rs) := by
  induction rs generalizing db with
  | nil => simp
  | cons r rs ih =>
    simp only [List.foldl_cons]
    refine (ih (addRec db r)).trans ?_
    refine (List.Perm.append_right rs (all_after_addRec db r)).trans ?_
    simp

/-! ### Lookups -/

theorem mem_groupRecs {g : Group α} {n : Str} {l : List (Rec α)} {r : Rec α}
    (h1 : (n, l) ∈ g) (h2 : r ∈ l) : r ∈ groupRecs g := by
  unfold groupRecs
  exact List.mem_flatMap.mpr ⟨(n, l), h1, h2⟩

theorem mem_allLocations {db : Db α} {k : Str} {g : Group α} {r : Rec α}
    (h1 : (k, g) ∈ db) (h2 : r ∈ groupRecs g) : r ∈ allLocations db := by
  rw [allLocations_eq]
  exact List.mem_flatMap.mpr ⟨(k, g), h1, h2⟩

/-- **lookup in a group is sound**: a returned record is stored in the group, has the
    queried name and — if a region was given — the queried region (all after sanitising) -/
theorem lookupInGroup_sound (k : Str) (g : Group α) (q : Str) (r : Rec α) (hg : WFGroup k g)
    (h : lookupInGroup q g = .ok r) :
    r ∈ groupRecs g ∧ sanitize r.name = (parseQuery q).1
      ∧ ((parseQuery q).2 = [] ∨ sanitize r.region = (parseQuery q).2) := by
  unfold lookupInGroup at h
  simp only at h
  cases ha : assocGet (parseQuery q).1 g with
  | none => simp [ha] at h
  | some l =>
    simp only [ha] at h
    have hm := assocGet_some_mem ha
    have hw := hg.2 _ _ hm
    split at h
    · rename_i hq
      cases l with
      | nil => simp at h
      | cons r0 rest =>
        simp only [Except.ok.injEq] at h; subst h
        exact ⟨mem_groupRecs hm (by simp), (hw.2 r0 (by simp)).1, Or.inl hq⟩
    · cases hf : l.find? (fun r => sanitize r.region = (parseQuery q).2) with
      | none => simp [hf] at h
      | some r1 =>
        simp only [hf, Except.ok.injEq] at h; subst h
        have hmem := List.mem_of_find?_eq_some hf
        have hp := List.find?_some hf
        exact ⟨mem_groupRecs hm hmem, (hw.2 r1 hmem).1, Or.inr (by simpa using hp)⟩

/-- a bare name returns the head of that name's list: the earliest-added record of that
    name in the group (additions append) -/
theorem lookupInGroup_bare (g : Group α) (q : Str) (l : List (Rec α)) (r : Rec α)
    (hq : (parseQuery q).2 = []) (ha : assocGet (parseQuery q).1 g = some (r :: l)) :
    lookupInGroup q g = .ok r := by
  unfold lookupInGroup; simp [ha, hq]

/-- **lookup in a group is complete**: if the group stores a record with the queried name and
    region, some record with that name and region is returned -/
theorem lookupInGroup_complete (k : Str) (g : Group α) (q : Str) (r : Rec α) (hg : WFGroup k g)
    (hr : r ∈ groupRecs g) (hn : sanitize r.name = (parseQuery q).1)
    (hreg : (parseQuery q).2 = [] ∨ sanitize r.region = (parseQuery q).2) :
    ∃ r', lookupInGroup q g = .ok r' := by
  unfold groupRecs at hr
  obtain ⟨⟨n, l⟩, hm, hrl⟩ := List.mem_flatMap.mp hr
  have hw := hg.2 n l hm
  have hnn : n = (parseQuery q).1 := by rw [← hn]; exact ((hw.2 r hrl).1).symm
  subst hnn
  have ha := assocGet_of_mem hg.1 hm
  unfold lookupInGroup
  simp only [ha]
  by_cases hq : (parseQuery q).2 = []
  · simp only [hq, ↓reduceIte]
    cases l with
    | nil => simp at hrl
    | cons r0 rest => exact ⟨r0, rfl⟩
  · simp only [hq, ↓reduceIte]
    have hreg' := hreg.resolve_left hq
    cases hf : l.find? (fun r => sanitize r.region = (parseQuery q).2) with
    | some r1 => exact ⟨r1, rfl⟩
    | none =>
      have := List.find?_eq_none.mp hf r hrl
      simp [hreg'] at this

/-- the only errors `lookup_in_group` produces on a well-formed group are KeyErrors -/
theorem lookupInGroup_error (k : Str) (g : Group α) (q : Str) (e : Err) (hg : WFGroup k g)
    (h : lookupInGroup q g = .error e) : e = .keyError := by
  unfold lookupInGroup at h
  simp only at h
  cases ha : assocGet (parseQuery q).1 g with
  | none => simp [ha] at h; exact h.symm
  | some l =>
    simp only [ha] at h
    have hw := hg.2 _ _ (assocGet_some_mem ha)
    split at h
    · cases l with
      | nil => exact absurd rfl hw.1
      | cons r0 rest => simp at h
    · split at h
      · simp at h
      · simp at h; exact h.symm

/-- **C17 group lookup** (after the repair of N4): a group name returns that group,
    whatever locations exist -/
theorem lookup_group (db : Db α) (q : Str) (g : Group α)
    (h : assocGet (sanitize q) db = some g) : ∃ g', lookup q db = .ok (.group g') ∧ g' = g := by
  unfold lookup; simp [h]

theorem lookupLoc_sound (db : Db α) (q : Str) (r : Rec α) (hw : WF db)
    (h : lookupLoc q db = .ok r) :
    r ∈ allLocations db ∧ sanitize r.name = (parseQuery q).1
      ∧ ((parseQuery q).2 = [] ∨ sanitize r.region = (parseQuery q).2) := by
  induction db with
  | nil => simp [lookupLoc] at h
  | cons p rest ih =>
    obtain ⟨k, g⟩ := p
    have hwg := (hw.2 k g (by simp)).2
    have hwrest : WF rest := by
      refine ⟨?_, fun k' g' hm => hw.2 k' g' (List.mem_cons_of_mem _ hm)⟩
      have := hw.1; simp only [keys, List.map_cons, List.nodup_cons] at this; exact this.2
    unfold lookupLoc at h
    cases hl : lookupInGroup q g with
    | ok r0 =>
      simp only [hl, Except.ok.injEq] at h; subst h
      obtain ⟨s1, s2, s3⟩ := lookupInGroup_sound k g q r0 hwg hl
      exact ⟨mem_allLocations (List.mem_cons_self) s1, s2, s3⟩
    | error e =>
      have := lookupInGroup_error k g q e hwg hl
      subst this
      simp only [hl] at h
      obtain ⟨s1, s2, s3⟩ := ih hwrest h
      refine ⟨?_, s2, s3⟩
      rw [allLocations_eq] at s1 ⊢
      simp only [List.flatMap_cons, List.mem_append]
      exact Or.inr s1

/-- **C17 lookup soundness**: whatever `lookup` returns as a location is a stored record with
    the queried name and (if given) region, in any letter case / space-underscore spelling
    (the query and the stored fields are compared after sanitising) -/
theorem lookup_sound (db : Db α) (q : Str) (r : Rec α) (hw : WF db)
    (h : lookup q db = .ok (.loc r)) :
    r ∈ allLocations db ∧ sanitize r.name = (parseQuery q).1
      ∧ ((parseQuery q).2 = [] ∨ sanitize r.region = (parseQuery q).2) := by
  unfold lookup at h
  cases hg : assocGet (sanitize q) db with
  | some g => simp [hg] at h
  | none =>
    simp only [hg] at h
    cases hl : lookupLoc q db with
    | ok r0 =>
      simp only [hl, Except.map, Except.ok.injEq, LookupResult.loc.injEq] at h
      subst h
      exact lookupLoc_sound db q r0 hw hl
    | error e => simp [hl, Except.map] at h

theorem lookupLoc_complete (db : Db α) (q : Str) (r : Rec α) (hw : WF db)
    (hr : r ∈ allLocations db) (hn : sanitize r.name = (parseQuery q).1)
    (hreg : (parseQuery q).2 = [] ∨ sanitize r.region = (parseQuery q).2) :
    ∃ r', lookupLoc q db = .ok r' := by
  induction db with
  | nil => simp [allLocations] at hr
  | cons p rest ih =>
    obtain ⟨k, g⟩ := p
    have hwg := (hw.2 k g (by simp)).2
    have hwrest : WF rest := by
      refine ⟨?_, fun k' g' hm => hw.2 k' g' (List.mem_cons_of_mem _ hm)⟩
      have := hw.1; simp only [keys, List.map_cons, List.nodup_cons] at this; exact this.2
    unfold lookupLoc
    cases hl : lookupInGroup q g with
    | ok r0 => exact ⟨r0, rfl⟩
    | error e =>
      have := lookupInGroup_error k g q e hwg hl
      subst this
      simp only
      rw [allLocations_eq] at hr
      simp only [List.flatMap_cons, List.mem_append] at hr
      rcases hr with hr | hr
      · obtain ⟨r', h'⟩ := lookupInGroup_complete k g q r hwg hr hn hreg
        rw [hl] at h'; cases h'
      · exact ih hwrest (by rw [allLocations_eq]; exact hr)

/-- **C17 lookup completeness**: if a record with the queried name and region is stored (and
    the query is not itself a group name), `lookup` returns a stored record with that name
    and region; otherwise — nothing stored under that name/region — it raises KeyError. -/
theorem lookup_complete (db : Db α) (q : Str) (r : Rec α) (hw : WF db)
    (hng : assocGet (sanitize q) db = none)
    (hr : r ∈ allLocations db) (hn : sanitize r.name = (parseQuery q).1)
    (hreg : (parseQuery q).2 = [] ∨ sanitize r.region = (parseQuery q).2) :
    ∃ r', lookup q db = .ok (.loc r') ∧ r' ∈ allLocations db
      ∧ sanitize r'.name = (parseQuery q).1
      ∧ ((parseQuery q).2 = [] ∨ sanitize r'.region = (parseQuery q).2) := by
  obtain ⟨r', h'⟩ := lookupLoc_complete db q r hw hr hn hreg
  refine ⟨r', ?_, lookupLoc_sound db q r' hw h'⟩
  unfold lookup; simp [hng, h', Except.map]

theorem lookupLoc_unknown (db : Db α) (q : Str) (hw : WF db)
    (hnone : ∀ r ∈ allLocations db, ¬ (sanitize r.name = (parseQuery q).1
      ∧ ((parseQuery q).2 = [] ∨ sanitize r.region = (parseQuery q).2))) :
    lookupLoc q db = .error .keyError := by
  cases h : lookupLoc q db with
  | ok r => exact absurd (lookupLoc_sound db q r hw h).2 (hnone r (lookupLoc_sound db q r hw h).1)
  | error e =>
    -- every error of lookupLoc on a well-formed database is a KeyError
    induction db with
    | nil => simp [lookupLoc] at h; rw [h]
    | cons p rest ih =>
      obtain ⟨k, g⟩ := p
      have hwg := (hw.2 k g (by simp)).2
      have hwrest : WF rest := by
        refine ⟨?_, fun k' g' hm => hw.2 k' g' (List.mem_cons_of_mem _ hm)⟩
        have := hw.1; simp only [keys, List.map_cons, List.nodup_cons] at this; exact this.2
      unfold lookupLoc at h
      cases hl : lookupInGroup q g with
      | ok r0 => simp [hl] at h
      | error e0 =>
        have := lookupInGroup_error k g q e0 hwg hl
        subst this
        simp only [hl] at h
        apply ih hwrest _ h
        intro r hr
        apply hnone r
        rw [allLocations_eq] at hr ⊢
        simp only [List.flatMap_cons, List.mem_append]
        exact Or.inr hr

/-- **C17 unknown names**: no stored record with that name/region and no such group → KeyError -/
theorem lookup_unknown (db : Db α) (q : Str) (hw : WF db)
    (hng : assocGet (sanitize q) db = none)
    (hnone : ∀ r ∈ allLocations db, ¬ (sanitize r.name = (parseQuery q).1
      ∧ ((parseQuery q).2 = [] ∨ sanitize r.region = (parseQuery q).2))) :
    lookup q db = .error .keyError := by
  unfold lookup
  simp [hng, lookupLoc_unknown db q hw hnone, Except.map]

end

/-! ### Spelling: letter case and spaces/underscores do not matter -/

theorem sanitize_idem (s : Str) : sanitize (sanitize s) = sanitize s := by
  unfold sanitize
  rw [List.map_map]
  apply List.map_congr_left
  intro c _
  simp only [Function.comp, lowerAscii]
  split_ifs <;> omega

/-- two query strings that differ only in ASCII letter case and space/underscore denote the
    same (name, region) -/
theorem parseQuery_spelling (q1 q2 : Str) (h : sanitize q1 = sanitize q2) :
    parseQuery q1 = parseQuery q2 := by
  unfold parseQuery; simp only [h]

/-! ### Non-vacuity -/

/-- a concrete history: two records with one name in two groups, looked up by name,region -/
example :
    let r1 : Rec Nat := ⟨[75], [74], [65, 47, 66], 0, 0⟩     -- "K","J","A/B"
    let r2 : Rec Nat := ⟨[107], [85], [67, 47, 68], 1, 1⟩    -- "k","U","C/D"
    let db := [r1, r2].foldl addRec []
    WF db ∧ (match lookup [75, 44, 117] db with    -- "K,u"
             | .ok (.loc r) => r.lat == 1
             | _ => false) = true := by
  refine ⟨wf_addMany _ _ wf_empty, ?_⟩
  decide

end Astral.C17
