/- GENERATED on every run by harness/effects.py from the AST of /repo/src/astral/*.py.
   Do not edit.  Row i describes function `names[i]`. -/
namespace Astral.Gen

inductive Eff | writesGlobal | mutatesParam | hiddenState | readsEnv | readsClock | io | unknownCall
  deriving DecidableEq, Repr

structure FnRow where
  effects : List Eff
  calls : List Nat
  deriving Repr

def effectTable : List FnRow := [
  ⟨[], []⟩,  -- 0 astral.<module>
  ⟨[], [7]⟩,  -- 1 astral.LocationInfo.__setattr__
  ⟨[], []⟩,  -- 2 astral.LocationInfo.observer
  ⟨[], []⟩,  -- 3 astral.LocationInfo.timezone_group
  ⟨[], []⟩,  -- 4 astral.LocationInfo.tzinfo
  ⟨[], [7]⟩,  -- 5 astral.Observer.__setattr__
  ⟨[.readsClock, .io], [124]⟩,  -- 6 astral.__main__.<module>
  ⟨[], []⟩,  -- 7 astral.dms_to_float
  ⟨[], []⟩,  -- 8 astral.geocoder.<module>
  ⟨[.mutatesParam], [12, 15]⟩,  -- 9 astral.geocoder._add_location_to_db  (store through db)
  ⟨[.mutatesParam], [9, 11, 13]⟩,  -- 10 astral.geocoder._add_locations_from_list
  ⟨[.mutatesParam], [9, 14]⟩,  -- 11 astral.geocoder._add_locations_from_str
  ⟨[], []⟩,  -- 12 astral.geocoder._get_group
  ⟨[], [7]⟩,  -- 13 astral.geocoder._locationinfo_from_indexable
  ⟨[], [7]⟩,  -- 14 astral.geocoder._locationinfo_from_str
  ⟨[], []⟩,  -- 15 astral.geocoder._sanitize_key
  ⟨[.mutatesParam], [10, 11]⟩,  -- 16 astral.geocoder.add_locations
  ⟨[], []⟩,  -- 17 astral.geocoder.all_locations
  ⟨[], [11]⟩,  -- 18 astral.geocoder.database
  ⟨[], [15]⟩,  -- 19 astral.geocoder.group
  ⟨[], [15, 21]⟩,  -- 20 astral.geocoder.lookup
  ⟨[], [15]⟩,  -- 21 astral.geocoder.lookup_in_group
  ⟨[], []⟩,  -- 22 astral.hours_to_time
  ⟨[], []⟩,  -- 23 astral.julian.<module>
  ⟨[], []⟩,  -- 24 astral.julian.day_fraction_to_time
  ⟨[], []⟩,  -- 25 astral.julian.juliancentury_to_julianday
  ⟨[], [27]⟩,  -- 26 astral.julian.julianday
  ⟨[], []⟩,  -- 27 astral.julian.julianday._time_to_seconds
  ⟨[], [26]⟩,  -- 28 astral.julian.julianday_2000
  ⟨[], []⟩,  -- 29 astral.julian.julianday_modified
  ⟨[], []⟩,  -- 30 astral.julian.julianday_to_datetime
  ⟨[], []⟩,  -- 31 astral.julian.julianday_to_juliancentury
  ⟨[], []⟩,  -- 32 astral.location.<module>
  ⟨[], []⟩,  -- 33 astral.location.Location.__eq__
  ⟨[.mutatesParam], []⟩,  -- 34 astral.location.Location.__init__  (store through self; store through self; store through self)
  ⟨[], [42, 44, 50, 56, 67]⟩,  -- 35 astral.location.Location.__repr__
  ⟨[], [42, 44, 67, 69, 71, 106]⟩,  -- 36 astral.location.Location.blue_hour
  ⟨[], [42, 44, 59, 67, 69, 71, 107]⟩,  -- 37 astral.location.Location.dawn
  ⟨[], [42, 44, 67, 69, 71, 108]⟩,  -- 38 astral.location.Location.daylight
  ⟨[], [42, 44, 59, 67, 69, 71, 109]⟩,  -- 39 astral.location.Location.dusk
  ⟨[], [42, 44, 67, 69, 71, 115]⟩,  -- 40 astral.location.Location.golden_hour
  ⟨[], [42, 44, 50, 56, 67]⟩,  -- 41 astral.location.Location.info
  ⟨[], []⟩,  -- 42 astral.location.Location.latitude
  ⟨[.mutatesParam], [7]⟩,  -- 43 astral.location.Location.latitude.setter  (store through self)
  ⟨[], []⟩,  -- 44 astral.location.Location.longitude
  ⟨[.mutatesParam], [7]⟩,  -- 45 astral.location.Location.longitude.setter  (store through self)
  ⟨[], [42, 44, 67, 69, 71, 118]⟩,  -- 46 astral.location.Location.midnight
  ⟨[], [69, 87]⟩,  -- 47 astral.location.Location.moon_phase
  ⟨[], [42, 44, 67, 69, 71, 85]⟩,  -- 48 astral.location.Location.moonrise
  ⟨[], [42, 44, 67, 69, 71, 86]⟩,  -- 49 astral.location.Location.moonset
  ⟨[], []⟩,  -- 50 astral.location.Location.name
  ⟨[.mutatesParam], []⟩,  -- 51 astral.location.Location.name.setter  (store through self)
  ⟨[], [42, 44, 67, 69, 71, 120]⟩,  -- 52 astral.location.Location.night
  ⟨[], [42, 44, 67, 69, 71, 121]⟩,  -- 53 astral.location.Location.noon
  ⟨[], [42, 44]⟩,  -- 54 astral.location.Location.observer
  ⟨[], [42, 44, 67, 69, 71, 123]⟩,  -- 55 astral.location.Location.rahukaalam
  ⟨[], []⟩,  -- 56 astral.location.Location.region
  ⟨[.mutatesParam], []⟩,  -- 57 astral.location.Location.region.setter  (store through self)
  ⟨[], [42, 44, 71, 94, 105]⟩,  -- 58 astral.location.Location.solar_azimuth
  ⟨[], []⟩,  -- 59 astral.location.Location.solar_depression
  ⟨[.mutatesParam], []⟩,  -- 60 astral.location.Location.solar_depression.setter  (store through self; store through self; store through self)
  ⟨[], [42, 44, 71, 94, 111]⟩,  -- 61 astral.location.Location.solar_elevation
  ⟨[], [61]⟩,  -- 62 astral.location.Location.solar_zenith
  ⟨[], [42, 44, 59, 67, 69, 71, 124]⟩,  -- 63 astral.location.Location.sun
  ⟨[], [42, 44, 67, 69, 71, 132]⟩,  -- 64 astral.location.Location.sunrise
  ⟨[], [42, 44, 67, 69, 71, 133]⟩,  -- 65 astral.location.Location.sunset
  ⟨[], [42, 44, 67, 69, 71, 134]⟩,  -- 66 astral.location.Location.time_at_elevation
  ⟨[], []⟩,  -- 67 astral.location.Location.timezone
  ⟨[.mutatesParam], []⟩,  -- 68 astral.location.Location.timezone.setter  (store through self)
  ⟨[], [71, 143]⟩,  -- 69 astral.location.Location.today
  ⟨[], [42, 44, 67, 69, 71, 136]⟩,  -- 70 astral.location.Location.twilight
  ⟨[], []⟩,  -- 71 astral.location.Location.tzinfo
  ⟨[], []⟩,  -- 72 astral.moon.<module>
  ⟨[], [26]⟩,  -- 73 astral.moon._phase_asfloat
  ⟨[], [28, 82, 94, 98]⟩,  -- 74 astral.moon.azimuth
  ⟨[], [28, 82, 94, 98]⟩,  -- 75 astral.moon.elevation
  ⟨[], []⟩,  -- 76 astral.moon.interpolate
  ⟨[], [78, 81]⟩,  -- 77 astral.moon.longitude_lunar_ascending_node
  ⟨[], []⟩,  -- 78 astral.moon.moon_argument_of_latitude
  ⟨[], []⟩,  -- 79 astral.moon.moon_mean_anomoly
  ⟨[], []⟩,  -- 80 astral.moon.moon_mean_elongation_from_sun
  ⟨[], []⟩,  -- 81 astral.moon.moon_mean_longitude
  ⟨[], [77, 78, 79, 80, 81, 83, 90, 91, 92]⟩,  -- 82 astral.moon.moon_position
  ⟨[], []⟩,  -- 83 astral.moon.moon_position._calc_value
  ⟨[.mutatesParam], [89]⟩,  -- 84 astral.moon.moon_transit_event  (store through window; store through window; store through window)
  ⟨[], [88, 143]⟩,  -- 85 astral.moon.moonrise
  ⟨[], [88, 143]⟩,  -- 86 astral.moon.moonset
  ⟨[], [73, 143]⟩,  -- 87 astral.moon.phase
  ⟨[], [28, 76, 82, 84, 89, 98]⟩,  -- 88 astral.moon.riseset
  ⟨[], []⟩,  -- 89 astral.moon.sgn
  ⟨[], []⟩,  -- 90 astral.moon.sun_mean_anomoly
  ⟨[], []⟩,  -- 91 astral.moon.sun_mean_longitude
  ⟨[], []⟩,  -- 92 astral.moon.venus_mean_longitude
  ⟨[], [75]⟩,  -- 93 astral.moon.zenith
  ⟨[.readsClock], []⟩,  -- 94 astral.now
  ⟨[], []⟩,  -- 95 astral.refraction_at_zenith
  ⟨[], []⟩,  -- 96 astral.sidereal.<module>
  ⟨[], [28]⟩,  -- 97 astral.sidereal.gmst
  ⟨[], [97]⟩,  -- 98 astral.sidereal.lmst
  ⟨[], []⟩,  -- 99 astral.sun.<module>
  ⟨[], [26, 31, 112]⟩,  -- 100 astral.sun._midnight_utc
  ⟨[], [26, 31, 112]⟩,  -- 101 astral.sun._noon_utc
  ⟨[], []⟩,  -- 102 astral.sun.adjust_to_horizon
  ⟨[], []⟩,  -- 103 astral.sun.adjust_to_obscuring_feature
  ⟨[], [102, 103]⟩,  -- 104 astral.sun.adjustment_for_elevation
  ⟨[], [94, 139]⟩,  -- 105 astral.sun.azimuth
  ⟨[], [134, 143]⟩,  -- 106 astral.sun.blue_hour
  ⟨[], [135, 143]⟩,  -- 107 astral.sun.dawn
  ⟨[], [132, 133, 143]⟩,  -- 108 astral.sun.daylight
  ⟨[], [135, 143]⟩,  -- 109 astral.sun.dusk
  ⟨[], []⟩,  -- 110 astral.sun.eccentric_location_earth_orbit
  ⟨[], [94, 138]⟩,  -- 111 astral.sun.elevation
  ⟨[], [110, 113, 114, 137]⟩,  -- 112 astral.sun.eq_of_time
  ⟨[], []⟩,  -- 113 astral.sun.geom_mean_anomaly_sun
  ⟨[], []⟩,  -- 114 astral.sun.geom_mean_long_sun
  ⟨[], [134, 143]⟩,  -- 115 astral.sun.golden_hour
  ⟨[], []⟩,  -- 116 astral.sun.hour_angle
  ⟨[], []⟩,  -- 117 astral.sun.mean_obliquity_of_ecliptic
  ⟨[], [100, 143]⟩,  -- 118 astral.sun.midnight
  ⟨[], []⟩,  -- 119 astral.sun.minutes_to_timedelta
  ⟨[], [107, 109, 143]⟩,  -- 120 astral.sun.night
  ⟨[], [101, 143]⟩,  -- 121 astral.sun.noon
  ⟨[], [117]⟩,  -- 122 astral.sun.obliquity_correction
  ⟨[], [132, 133, 143]⟩,  -- 123 astral.sun.rahukaalam
  ⟨[], [107, 109, 121, 132, 133, 143]⟩,  -- 124 astral.sun.sun
  ⟨[], [131]⟩,  -- 125 astral.sun.sun_apparent_long
  ⟨[], [122, 125]⟩,  -- 126 astral.sun.sun_declination
  ⟨[], [113]⟩,  -- 127 astral.sun.sun_eq_of_center
  ⟨[], [110, 130]⟩,  -- 128 astral.sun.sun_rad_vector
  ⟨[], [122, 125]⟩,  -- 129 astral.sun.sun_rt_ascension
  ⟨[], [113, 127]⟩,  -- 130 astral.sun.sun_true_anomoly
  ⟨[], [114, 127]⟩,  -- 131 astral.sun.sun_true_long
  ⟨[], [104, 121, 135, 138, 143]⟩,  -- 132 astral.sun.sunrise
  ⟨[], [104, 121, 135, 138, 143]⟩,  -- 133 astral.sun.sunset
  ⟨[], [135, 143]⟩,  -- 134 astral.sun.time_at_elevation
  ⟨[], [26, 31, 95, 102, 103, 112, 116, 119, 126]⟩,  -- 135 astral.sun.time_of_transit
  ⟨[], [107, 109, 132, 133, 143]⟩,  -- 136 astral.sun.twilight
  ⟨[], [122]⟩,  -- 137 astral.sun.var_y
  ⟨[], [94, 139]⟩,  -- 138 astral.sun.zenith
  ⟨[], [26, 31, 95, 112, 126]⟩,  -- 139 astral.sun.zenith_and_azimuth
  ⟨[], []⟩,  -- 140 astral.table4.<module>
  ⟨[], []⟩,  -- 141 astral.time_to_hours
  ⟨[], [141]⟩,  -- 142 astral.time_to_seconds
  ⟨[], [94]⟩  -- 143 astral.today
]

/-- the public sun and moon functions (sun.__all__, moon.__all__, moon angles) -/
def publicFns : List Nat := [124, 107, 132, 121, 118, 133, 109, 108, 120, 136, 106, 115, 123, 138, 105, 111, 134, 85, 86, 87, 74, 75, 93, 0, 99, 72, 23, 96]

/-- the public geocoder functions (module-level, not underscore-prefixed) -/
def geoFns : List Nat := [0, 8, 16, 17, 18, 19, 20, 21]

/-- the functions of astral.julian and the time-unit helpers of astral/__init__ -/
def julianFns : List Nat := [0, 22, 23, 24, 25, 26, 27, 28, 29, 30, 31, 141, 142]

/-- every method of `Location` that is a query: not `__init__`, not a property setter -/
def locationQueryFns : List Nat := [32, 33, 35, 36, 37, 38, 39, 40, 41, 42, 44, 46, 47, 48, 49, 50, 52, 53, 54, 55, 56, 58, 59, 61, 62, 63, 64, 65, 66, 67, 69, 70, 71]

/-- the coordinate front end: dms_to_float and the validating `__setattr__`s -/
def coordFns : List Nat := [0, 1, 2, 3, 4, 5, 7]

end Astral.Gen
