/- GENERATED on every run by harness/effects.py from the AST of /repo/src/astral/*.py.
   Do not edit.  Row i describes function `names[i]`. -/
namespace Astral.Gen

inductive Eff | writesGlobal | mutatesParam | hiddenState | readsEnv | readsClock | io | unknownCall
  deriving DecidableEq, Repr

structure FnRow where
  effects : List Eff
  calls : List Nat
  deriving Repr

def effectTable : List FnRow := [
  ⟨[], []⟩,  -- 0 astral.<module>
  ⟨[], [7]⟩,  -- 1 astral.LocationInfo.__setattr__
  ⟨[], []⟩,  -- 2 astral.LocationInfo.observer
  ⟨[], []⟩,  -- 3 astral.LocationInfo.timezone_group
  ⟨[], []⟩,  -- 4 astral.LocationInfo.tzinfo
  ⟨[], [7]⟩,  -- 5 astral.Observer.__setattr__
  ⟨[.readsClock, .io], [125]⟩,  -- 6 astral.__main__.<module>
  ⟨[], []⟩,  -- 7 astral.dms_to_float
  ⟨[], []⟩,  -- 8 astral.geocoder.<module>
  ⟨[.mutatesParam], [12, 15]⟩,  -- 9 astral.geocoder._add_location_to_db  (store through db)
  ⟨[.mutatesParam], [9, 11, 13]⟩,  -- 10 astral.geocoder._add_locations_from_list
  ⟨[.mutatesParam], [9, 14]⟩,  -- 11 astral.geocoder._add_locations_from_str
  ⟨[], []⟩,  -- 12 astral.geocoder._get_group
  ⟨[], [7]⟩,  -- 13 astral.geocoder._locationinfo_from_indexable
  ⟨[], [7]⟩,  -- 14 astral.geocoder._locationinfo_from_str
  ⟨[], []⟩,  -- 15 astral.geocoder._sanitize_key
  ⟨[.mutatesParam], [10, 11]⟩,  -- 16 astral.geocoder.add_locations
  ⟨[], []⟩,  -- 17 astral.geocoder.all_locations
  ⟨[], [11]⟩,  -- 18 astral.geocoder.database
  ⟨[], [15]⟩,  -- 19 astral.geocoder.group
  ⟨[], [15, 21]⟩,  -- 20 astral.geocoder.lookup
  ⟨[], [15]⟩,  -- 21 astral.geocoder.lookup_in_group
  ⟨[], []⟩,  -- 22 astral.hours_to_time
  ⟨[], []⟩,  -- 23 astral.julian.<module>
  ⟨[], []⟩,  -- 24 astral.julian.day_fraction_to_time
  ⟨[], []⟩,  -- 25 astral.julian.juliancentury_to_julianday
  ⟨[], [27]⟩,  -- 26 astral.julian.julianday
  ⟨[], []⟩,  -- 27 astral.julian.julianday._time_to_seconds
  ⟨[], [26]⟩,  -- 28 astral.julian.julianday_2000
  ⟨[], []⟩,  -- 29 astral.julian.julianday_modified
  ⟨[], []⟩,  -- 30 astral.julian.julianday_to_datetime
  ⟨[], []⟩,  -- 31 astral.julian.julianday_to_juliancentury
  ⟨[], []⟩,  -- 32 astral.location.<module>
  ⟨[], []⟩,  -- 33 astral.location.Location.__eq__
  ⟨[.mutatesParam], []⟩,  -- 34 astral.location.Location.__init__  (store through self; store through self; store through self)
  ⟨[], [42, 44, 50, 56, 67]⟩,  -- 35 astral.location.Location.__repr__
  ⟨[], [42, 44, 67, 69, 71, 107]⟩,  -- 36 astral.location.Location.blue_hour
  ⟨[], [42, 44, 59, 67, 69, 71, 108]⟩,  -- 37 astral.location.Location.dawn
  ⟨[], [42, 44, 67, 69, 71, 109]⟩,  -- 38 astral.location.Location.daylight
  ⟨[], [42, 44, 59, 67, 69, 71, 110]⟩,  -- 39 astral.location.Location.dusk
  ⟨[], [42, 44, 67, 69, 71, 116]⟩,  -- 40 astral.location.Location.golden_hour
  ⟨[], [42, 44, 50, 56, 67]⟩,  -- 41 astral.location.Location.info
  ⟨[], []⟩,  -- 42 astral.location.Location.latitude
  ⟨[.mutatesParam], [7]⟩,  -- 43 astral.location.Location.latitude.setter  (store through self)
  ⟨[], []⟩,  -- 44 astral.location.Location.longitude
  ⟨[.mutatesParam], [7]⟩,  -- 45 astral.location.Location.longitude.setter  (store through self)
  ⟨[], [42, 44, 67, 69, 71, 119]⟩,  -- 46 astral.location.Location.midnight
  ⟨[], [69, 88]⟩,  -- 47 astral.location.Location.moon_phase
  ⟨[], [42, 44, 67, 69, 71, 86]⟩,  -- 48 astral.location.Location.moonrise
  ⟨[], [42, 44, 67, 69, 71, 87]⟩,  -- 49 astral.location.Location.moonset
  ⟨[], []⟩,  -- 50 astral.location.Location.name
  ⟨[.mutatesParam], []⟩,  -- 51 astral.location.Location.name.setter  (store through self)
  ⟨[], [42, 44, 67, 69, 71, 121]⟩,  -- 52 astral.location.Location.night
  ⟨[], [42, 44, 67, 69, 71, 122]⟩,  -- 53 astral.location.Location.noon
  ⟨[], [42, 44]⟩,  -- 54 astral.location.Location.observer
  ⟨[], [42, 44, 67, 69, 71, 124]⟩,  -- 55 astral.location.Location.rahukaalam
  ⟨[], []⟩,  -- 56 astral.location.Location.region
  ⟨[.mutatesParam], []⟩,  -- 57 astral.location.Location.region.setter  (store through self)
  ⟨[], [42, 44, 71, 95, 106]⟩,  -- 58 astral.location.Location.solar_azimuth
  ⟨[], []⟩,  -- 59 astral.location.Location.solar_depression
  ⟨[.mutatesParam], []⟩,  -- 60 astral.location.Location.solar_depression.setter  (store through self; store through self; store through self)
  ⟨[], [42, 44, 71, 95, 112]⟩,  -- 61 astral.location.Location.solar_elevation
  ⟨[], [61]⟩,  -- 62 astral.location.Location.solar_zenith
  ⟨[], [42, 44, 59, 67, 69, 71, 125]⟩,  -- 63 astral.location.Location.sun
  ⟨[], [42, 44, 67, 69, 71, 133]⟩,  -- 64 astral.location.Location.sunrise
  ⟨[], [42, 44, 67, 69, 71, 134]⟩,  -- 65 astral.location.Location.sunset
  ⟨[], [42, 44, 67, 69, 71, 135]⟩,  -- 66 astral.location.Location.time_at_elevation
  ⟨[], []⟩,  -- 67 astral.location.Location.timezone
  ⟨[.mutatesParam], []⟩,  -- 68 astral.location.Location.timezone.setter  (store through self)
  ⟨[], [71, 144]⟩,  -- 69 astral.location.Location.today
  ⟨[], [42, 44, 67, 69, 71, 137]⟩,  -- 70 astral.location.Location.twilight
  ⟨[], []⟩,  -- 71 astral.location.Location.tzinfo
  ⟨[], []⟩,  -- 72 astral.moon.<module>
  ⟨[], []⟩,  -- 73 astral.moon._days_since_j2000
  ⟨[], [26]⟩,  -- 74 astral.moon._phase_asfloat
  ⟨[], [73, 83, 95, 99]⟩,  -- 75 astral.moon.azimuth
  ⟨[], [73, 83, 95, 99]⟩,  -- 76 astral.moon.elevation
  ⟨[], []⟩,  -- 77 astral.moon.interpolate
  ⟨[], [79, 82]⟩,  -- 78 astral.moon.longitude_lunar_ascending_node
  ⟨[], []⟩,  -- 79 astral.moon.moon_argument_of_latitude
  ⟨[], []⟩,  -- 80 astral.moon.moon_mean_anomoly
  ⟨[], []⟩,  -- 81 astral.moon.moon_mean_elongation_from_sun
  ⟨[], []⟩,  -- 82 astral.moon.moon_mean_longitude
  ⟨[], [78, 79, 80, 81, 82, 84, 91, 92, 93]⟩,  -- 83 astral.moon.moon_position
  ⟨[], []⟩,  -- 84 astral.moon.moon_position._calc_value
  ⟨[.mutatesParam], [90]⟩,  -- 85 astral.moon.moon_transit_event  (store through window; store through window; store through window)
  ⟨[], [89, 144]⟩,  -- 86 astral.moon.moonrise
  ⟨[], [89, 144]⟩,  -- 87 astral.moon.moonset
  ⟨[], [74, 144]⟩,  -- 88 astral.moon.phase
  ⟨[], [28, 77, 83, 85, 90, 99]⟩,  -- 89 astral.moon.riseset
  ⟨[], []⟩,  -- 90 astral.moon.sgn
  ⟨[], []⟩,  -- 91 astral.moon.sun_mean_anomoly
  ⟨[], []⟩,  -- 92 astral.moon.sun_mean_longitude
  ⟨[], []⟩,  -- 93 astral.moon.venus_mean_longitude
  ⟨[], [76]⟩,  -- 94 astral.moon.zenith
  ⟨[.readsClock], []⟩,  -- 95 astral.now
  ⟨[], []⟩,  -- 96 astral.refraction_at_zenith
  ⟨[], []⟩,  -- 97 astral.sidereal.<module>
  ⟨[], [28]⟩,  -- 98 astral.sidereal.gmst
  ⟨[], [98]⟩,  -- 99 astral.sidereal.lmst
  ⟨[], []⟩,  -- 100 astral.sun.<module>
  ⟨[], [26, 31, 113]⟩,  -- 101 astral.sun._midnight_utc
  ⟨[], [26, 31, 113]⟩,  -- 102 astral.sun._noon_utc
  ⟨[], []⟩,  -- 103 astral.sun.adjust_to_horizon
  ⟨[], []⟩,  -- 104 astral.sun.adjust_to_obscuring_feature
  ⟨[], [103, 104]⟩,  -- 105 astral.sun.adjustment_for_elevation
  ⟨[], [95, 140]⟩,  -- 106 astral.sun.azimuth
  ⟨[], [135, 144]⟩,  -- 107 astral.sun.blue_hour
  ⟨[], [136, 144]⟩,  -- 108 astral.sun.dawn
  ⟨[], [133, 134, 144]⟩,  -- 109 astral.sun.daylight
  ⟨[], [136, 144]⟩,  -- 110 astral.sun.dusk
  ⟨[], []⟩,  -- 111 astral.sun.eccentric_location_earth_orbit
  ⟨[], [95, 139]⟩,  -- 112 astral.sun.elevation
  ⟨[], [111, 114, 115, 138]⟩,  -- 113 astral.sun.eq_of_time
  ⟨[], []⟩,  -- 114 astral.sun.geom_mean_anomaly_sun
  ⟨[], []⟩,  -- 115 astral.sun.geom_mean_long_sun
  ⟨[], [135, 144]⟩,  -- 116 astral.sun.golden_hour
  ⟨[], []⟩,  -- 117 astral.sun.hour_angle
  ⟨[], []⟩,  -- 118 astral.sun.mean_obliquity_of_ecliptic
  ⟨[], [101, 144]⟩,  -- 119 astral.sun.midnight
  ⟨[], []⟩,  -- 120 astral.sun.minutes_to_timedelta
  ⟨[], [108, 110, 144]⟩,  -- 121 astral.sun.night
  ⟨[], [102, 144]⟩,  -- 122 astral.sun.noon
  ⟨[], [118]⟩,  -- 123 astral.sun.obliquity_correction
  ⟨[], [133, 134, 144]⟩,  -- 124 astral.sun.rahukaalam
  ⟨[], [108, 110, 122, 133, 134, 144]⟩,  -- 125 astral.sun.sun
  ⟨[], [132]⟩,  -- 126 astral.sun.sun_apparent_long
  ⟨[], [123, 126]⟩,  -- 127 astral.sun.sun_declination
  ⟨[], [114]⟩,  -- 128 astral.sun.sun_eq_of_center
  ⟨[], [111, 131]⟩,  -- 129 astral.sun.sun_rad_vector
  ⟨[], [123, 126]⟩,  -- 130 astral.sun.sun_rt_ascension
  ⟨[], [114, 128]⟩,  -- 131 astral.sun.sun_true_anomoly
  ⟨[], [115, 128]⟩,  -- 132 astral.sun.sun_true_long
  ⟨[], [105, 122, 136, 139, 144]⟩,  -- 133 astral.sun.sunrise
  ⟨[], [105, 122, 136, 139, 144]⟩,  -- 134 astral.sun.sunset
  ⟨[], [136, 144]⟩,  -- 135 astral.sun.time_at_elevation
  ⟨[], [26, 31, 96, 103, 104, 113, 117, 120, 127]⟩,  -- 136 astral.sun.time_of_transit
  ⟨[], [108, 110, 133, 134, 144]⟩,  -- 137 astral.sun.twilight
  ⟨[], [123]⟩,  -- 138 astral.sun.var_y
  ⟨[], [95, 140]⟩,  -- 139 astral.sun.zenith
  ⟨[], [26, 31, 96, 113, 127]⟩,  -- 140 astral.sun.zenith_and_azimuth
  ⟨[], []⟩,  -- 141 astral.table4.<module>
  ⟨[], []⟩,  -- 142 astral.time_to_hours
  ⟨[], [142]⟩,  -- 143 astral.time_to_seconds
  ⟨[], [95]⟩  -- 144 astral.today
]

/-- the public sun and moon functions (sun.__all__, moon.__all__, moon angles) -/
def publicFns : List Nat := [125, 108, 133, 122, 119, 134, 110, 109, 121, 137, 107, 116, 124, 139, 106, 112, 135, 86, 87, 88, 75, 76, 94]

/-- the public geocoder functions (module-level, not underscore-prefixed) -/
def geoFns : List Nat := [16, 17, 18, 19, 20, 21]

/-- the functions of astral.julian and the time-unit helpers of astral/__init__ -/
def julianFns : List Nat := [22, 24, 25, 26, 27, 28, 29, 30, 31, 142, 143]

/-- every method of `Location` that is a query: not `__init__`, not a property setter -/
def locationQueryFns : List Nat := [33, 35, 36, 37, 38, 39, 40, 41, 42, 44, 46, 47, 48, 49, 50, 52, 53, 54, 55, 56, 58, 59, 61, 62, 63, 64, 65, 66, 67, 69, 70, 71]

/-- the coordinate front end: dms_to_float and the validating `__setattr__`s -/
def coordFns : List Nat := [1, 2, 3, 4, 5, 7]

end Astral.Gen
