/- GENERATED on every run by harness/effects.py from the AST of /repo/src/astral/*.py.
   Do not edit.  Row i describes function `names[i]`. -/
namespace Astral.Gen

inductive Eff | writesGlobal | mutatesParam | hiddenState | readsEnv | readsClock | io | unknownCall
  deriving DecidableEq, Repr

structure FnRow where
  effects : List Eff
  calls : List Nat
  deriving Repr

def effectTable : List FnRow := [
  ⟨[], []⟩,  -- 0 astral.<module>
  ⟨[], [7]⟩,  -- 1 astral.LocationInfo.__setattr__
  ⟨[], []⟩,  -- 2 astral.LocationInfo.observer
  ⟨[], []⟩,  -- 3 astral.LocationInfo.timezone_group
  ⟨[], []⟩,  -- 4 astral.LocationInfo.tzinfo
  ⟨[], [7]⟩,  -- 5 astral.Observer.__setattr__
  ⟨[.readsClock, .io], [117]⟩,  -- 6 astral.__main__.<module>
  ⟨[], []⟩,  -- 7 astral.dms_to_float
  ⟨[], []⟩,  -- 8 astral.geocoder.<module>
  ⟨[.mutatesParam], [12, 15]⟩,  -- 9 astral.geocoder._add_location_to_db  (store through db)
  ⟨[.mutatesParam], [9, 11, 13]⟩,  -- 10 astral.geocoder._add_locations_from_list
  ⟨[.mutatesParam], [9, 14]⟩,  -- 11 astral.geocoder._add_locations_from_str
  ⟨[], []⟩,  -- 12 astral.geocoder._get_group
  ⟨[], [7]⟩,  -- 13 astral.geocoder._locationinfo_from_indexable
  ⟨[], [7]⟩,  -- 14 astral.geocoder._locationinfo_from_str
  ⟨[], []⟩,  -- 15 astral.geocoder._sanitize_key
  ⟨[.mutatesParam], [10, 11]⟩,  -- 16 astral.geocoder.add_locations
  ⟨[], []⟩,  -- 17 astral.geocoder.all_locations
  ⟨[], [11]⟩,  -- 18 astral.geocoder.database
  ⟨[], [15]⟩,  -- 19 astral.geocoder.group
  ⟨[], [15, 21]⟩,  -- 20 astral.geocoder.lookup
  ⟨[], [15]⟩,  -- 21 astral.geocoder.lookup_in_group
  ⟨[], []⟩,  -- 22 astral.hours_to_time
  ⟨[], []⟩,  -- 23 astral.julian.<module>
  ⟨[], []⟩,  -- 24 astral.julian.day_fraction_to_time
  ⟨[], []⟩,  -- 25 astral.julian.juliancentury_to_julianday
  ⟨[], [27]⟩,  -- 26 astral.julian.julianday
  ⟨[], []⟩,  -- 27 astral.julian.julianday._time_to_seconds
  ⟨[], [26]⟩,  -- 28 astral.julian.julianday_2000
  ⟨[], []⟩,  -- 29 astral.julian.julianday_modified
  ⟨[], []⟩,  -- 30 astral.julian.julianday_to_datetime
  ⟨[], []⟩,  -- 31 astral.julian.julianday_to_juliancentury
  ⟨[], []⟩,  -- 32 astral.location.<module>
  ⟨[], []⟩,  -- 33 astral.location.Location.__eq__
  ⟨[.mutatesParam], []⟩,  -- 34 astral.location.Location.__init__  (store through self; store through self; store through self)
  ⟨[], []⟩,  -- 35 astral.location.Location.__repr__
  ⟨[.unknownCall], [99]⟩,  -- 36 astral.location.Location.blue_hour  (call .today on self)
  ⟨[.unknownCall], [100]⟩,  -- 37 astral.location.Location.dawn  (call .today on self)
  ⟨[.unknownCall], [101]⟩,  -- 38 astral.location.Location.daylight  (call .today on self)
  ⟨[.unknownCall], [102]⟩,  -- 39 astral.location.Location.dusk  (call .today on self)
  ⟨[.unknownCall], [108]⟩,  -- 40 astral.location.Location.golden_hour  (call .today on self)
  ⟨[], []⟩,  -- 41 astral.location.Location.info
  ⟨[.mutatesParam], [7]⟩,  -- 42 astral.location.Location.latitude  (store through self)
  ⟨[.mutatesParam], [7]⟩,  -- 43 astral.location.Location.longitude  (store through self)
  ⟨[.unknownCall], [111]⟩,  -- 44 astral.location.Location.midnight  (call .today on self)
  ⟨[.unknownCall], [81]⟩,  -- 45 astral.location.Location.moon_phase  (call .today on self)
  ⟨[.unknownCall], [79]⟩,  -- 46 astral.location.Location.moonrise  (call .today on self)
  ⟨[.unknownCall], [80]⟩,  -- 47 astral.location.Location.moonset  (call .today on self)
  ⟨[.mutatesParam], []⟩,  -- 48 astral.location.Location.name  (store through self)
  ⟨[.unknownCall], [113]⟩,  -- 49 astral.location.Location.night  (call .today on self)
  ⟨[.unknownCall], [114]⟩,  -- 50 astral.location.Location.noon  (call .today on self)
  ⟨[], []⟩,  -- 51 astral.location.Location.observer
  ⟨[.unknownCall], [116]⟩,  -- 52 astral.location.Location.rahukaalam  (call .today on self)
  ⟨[.mutatesParam], []⟩,  -- 53 astral.location.Location.region  (store through self)
  ⟨[.unknownCall], [98]⟩,  -- 54 astral.location.Location.solar_azimuth  (call .now on astral)
  ⟨[.mutatesParam], []⟩,  -- 55 astral.location.Location.solar_depression  (store through self; store through self; store through self)
  ⟨[.unknownCall], [104]⟩,  -- 56 astral.location.Location.solar_elevation  (call .now on astral)
  ⟨[.unknownCall], []⟩,  -- 57 astral.location.Location.solar_zenith  (call .solar_elevation on self)
  ⟨[.unknownCall], [117]⟩,  -- 58 astral.location.Location.sun  (call .today on self)
  ⟨[.unknownCall], [125]⟩,  -- 59 astral.location.Location.sunrise  (call .today on self)
  ⟨[.unknownCall], [126]⟩,  -- 60 astral.location.Location.sunset  (call .today on self)
  ⟨[.unknownCall], [127]⟩,  -- 61 astral.location.Location.time_at_elevation  (call .today on self)
  ⟨[.mutatesParam], []⟩,  -- 62 astral.location.Location.timezone  (store through self)
  ⟨[], [136]⟩,  -- 63 astral.location.Location.today
  ⟨[.unknownCall], [129]⟩,  -- 64 astral.location.Location.twilight  (call .today on self)
  ⟨[], []⟩,  -- 65 astral.location.Location.tzinfo
  ⟨[], []⟩,  -- 66 astral.moon.<module>
  ⟨[], [26]⟩,  -- 67 astral.moon._phase_asfloat
  ⟨[], [28, 76, 88, 92]⟩,  -- 68 astral.moon.azimuth
  ⟨[], [28, 76, 88, 92]⟩,  -- 69 astral.moon.elevation
  ⟨[], []⟩,  -- 70 astral.moon.interpolate
  ⟨[], [72, 75]⟩,  -- 71 astral.moon.longitude_lunar_ascending_node
  ⟨[], []⟩,  -- 72 astral.moon.moon_argument_of_latitude
  ⟨[], []⟩,  -- 73 astral.moon.moon_mean_anomoly
  ⟨[], []⟩,  -- 74 astral.moon.moon_mean_elongation_from_sun
  ⟨[], []⟩,  -- 75 astral.moon.moon_mean_longitude
  ⟨[], [71, 72, 73, 74, 75, 77, 84, 85, 86]⟩,  -- 76 astral.moon.moon_position
  ⟨[], []⟩,  -- 77 astral.moon.moon_position._calc_value
  ⟨[.mutatesParam], [83]⟩,  -- 78 astral.moon.moon_transit_event  (store through window; store through window; store through window)
  ⟨[], [82, 136]⟩,  -- 79 astral.moon.moonrise
  ⟨[], [82, 136]⟩,  -- 80 astral.moon.moonset
  ⟨[], [67, 136]⟩,  -- 81 astral.moon.phase
  ⟨[], [28, 70, 76, 78, 83, 92]⟩,  -- 82 astral.moon.riseset
  ⟨[], []⟩,  -- 83 astral.moon.sgn
  ⟨[], []⟩,  -- 84 astral.moon.sun_mean_anomoly
  ⟨[], []⟩,  -- 85 astral.moon.sun_mean_longitude
  ⟨[], []⟩,  -- 86 astral.moon.venus_mean_longitude
  ⟨[], [69]⟩,  -- 87 astral.moon.zenith
  ⟨[.readsClock], []⟩,  -- 88 astral.now
  ⟨[], []⟩,  -- 89 astral.refraction_at_zenith
  ⟨[], []⟩,  -- 90 astral.sidereal.<module>
  ⟨[], [28]⟩,  -- 91 astral.sidereal.gmst
  ⟨[], [91]⟩,  -- 92 astral.sidereal.lmst
  ⟨[], []⟩,  -- 93 astral.sun.<module>
  ⟨[], [26, 31, 105]⟩,  -- 94 astral.sun._midnight_utc
  ⟨[], [26, 31, 105]⟩,  -- 95 astral.sun._noon_utc
  ⟨[], []⟩,  -- 96 astral.sun.adjust_to_horizon
  ⟨[], []⟩,  -- 97 astral.sun.adjust_to_obscuring_feature
  ⟨[], [88, 132]⟩,  -- 98 astral.sun.azimuth
  ⟨[], [127, 136]⟩,  -- 99 astral.sun.blue_hour
  ⟨[], [128, 136]⟩,  -- 100 astral.sun.dawn
  ⟨[], [125, 126, 136]⟩,  -- 101 astral.sun.daylight
  ⟨[], [128, 136]⟩,  -- 102 astral.sun.dusk
  ⟨[], []⟩,  -- 103 astral.sun.eccentric_location_earth_orbit
  ⟨[], [88, 131]⟩,  -- 104 astral.sun.elevation
  ⟨[], [103, 106, 107, 130]⟩,  -- 105 astral.sun.eq_of_time
  ⟨[], []⟩,  -- 106 astral.sun.geom_mean_anomaly_sun
  ⟨[], []⟩,  -- 107 astral.sun.geom_mean_long_sun
  ⟨[], [127, 136]⟩,  -- 108 astral.sun.golden_hour
  ⟨[], []⟩,  -- 109 astral.sun.hour_angle
  ⟨[], []⟩,  -- 110 astral.sun.mean_obliquity_of_ecliptic
  ⟨[], [94, 136]⟩,  -- 111 astral.sun.midnight
  ⟨[], []⟩,  -- 112 astral.sun.minutes_to_timedelta
  ⟨[], [100, 102, 136]⟩,  -- 113 astral.sun.night
  ⟨[], [95, 136]⟩,  -- 114 astral.sun.noon
  ⟨[], [110]⟩,  -- 115 astral.sun.obliquity_correction
  ⟨[], [125, 126, 136]⟩,  -- 116 astral.sun.rahukaalam
  ⟨[], [100, 102, 114, 125, 126, 136]⟩,  -- 117 astral.sun.sun
  ⟨[], [124]⟩,  -- 118 astral.sun.sun_apparent_long
  ⟨[], [115, 118]⟩,  -- 119 astral.sun.sun_declination
  ⟨[], [106]⟩,  -- 120 astral.sun.sun_eq_of_center
  ⟨[], [103, 123]⟩,  -- 121 astral.sun.sun_rad_vector
  ⟨[], [115, 118]⟩,  -- 122 astral.sun.sun_rt_ascension
  ⟨[], [106, 120]⟩,  -- 123 astral.sun.sun_true_anomoly
  ⟨[], [107, 120]⟩,  -- 124 astral.sun.sun_true_long
  ⟨[], [114, 128, 131, 136]⟩,  -- 125 astral.sun.sunrise
  ⟨[], [114, 128, 131, 136]⟩,  -- 126 astral.sun.sunset
  ⟨[], [128, 136]⟩,  -- 127 astral.sun.time_at_elevation
  ⟨[.writesGlobal], [26, 31, 89, 96, 97, 105, 109, 112, 119]⟩,  -- 128 astral.sun.time_of_transit  (_TRANSIT_CACHE.pop(...); store through _TRANSIT_CACHE)
  ⟨[], [100, 102, 125, 126, 136]⟩,  -- 129 astral.sun.twilight
  ⟨[], [115]⟩,  -- 130 astral.sun.var_y
  ⟨[], [88, 132]⟩,  -- 131 astral.sun.zenith
  ⟨[], [26, 31, 89, 105, 119]⟩,  -- 132 astral.sun.zenith_and_azimuth
  ⟨[], []⟩,  -- 133 astral.table4.<module>
  ⟨[], []⟩,  -- 134 astral.time_to_hours
  ⟨[], [134]⟩,  -- 135 astral.time_to_seconds
  ⟨[], [88]⟩  -- 136 astral.today
]

/-- the public sun and moon functions (sun.__all__, moon.__all__, moon angles) -/
def publicFns : List Nat := [117, 100, 125, 114, 111, 126, 102, 101, 113, 129, 99, 108, 116, 131, 98, 104, 127, 79, 80, 81, 68, 69, 87]

/-- the public geocoder functions (module-level, not underscore-prefixed) -/
def geoFns : List Nat := [16, 17, 18, 19, 20, 21]

/-- the functions of astral.julian and the time-unit helpers of astral/__init__ -/
def julianFns : List Nat := [22, 24, 25, 26, 27, 28, 29, 30, 31, 134, 135]

end Astral.Gen
