import Astral.Model.Num
import Mathlib.Analysis.SpecialFunctions.Trigonometric.Inverse
import Mathlib.Analysis.SpecialFunctions.Trigonometric.Arctan
import Mathlib.Analysis.SpecialFunctions.Complex.Arg
import Mathlib.Analysis.SpecialFunctions.Sqrt
/-
  The proof instance: Mathlib's real numbers.  Same model definitions, exact arithmetic.
-/
namespace Astral

noncomputable instance instTrigReal : Trig ℝ where
  sin := Real.sin
  cos := Real.cos
  tan := Real.tan
  asin := Real.arcsin
  acos := Real.arccos
  atan2 := fun y x => Complex.arg ⟨x, y⟩
  sqrt := Real.sqrt
  hypot := fun x y => Real.sqrt (x * x + y * y)
  pi := Real.pi
  floor := fun x => ⌊x⌋
  trunc := fun x => if 0 ≤ x then ⌊x⌋ else ⌈x⌉
  ofInt := fun n => (n : ℝ)
  pymod := fun x m => x - m * (⌊x / m⌋ : ℝ)
  powi := fun x n => x ^ n

@[simp] theorem trig_sin (x : ℝ) : Trig.sin x = Real.sin x := rfl
@[simp] theorem trig_cos (x : ℝ) : Trig.cos x = Real.cos x := rfl
@[simp] theorem trig_tan (x : ℝ) : Trig.tan x = Real.tan x := rfl
@[simp] theorem trig_asin (x : ℝ) : Trig.asin x = Real.arcsin x := rfl
@[simp] theorem trig_acos (x : ℝ) : Trig.acos x = Real.arccos x := rfl
@[simp] theorem trig_sqrt (x : ℝ) : Trig.sqrt x = Real.sqrt x := rfl
@[simp] theorem trig_pi : (Trig.pi : ℝ) = Real.pi := rfl
@[simp] theorem trig_ofInt (n : Int) : (Trig.ofInt n : ℝ) = (n : ℝ) := rfl
@[simp] theorem trig_floor (x : ℝ) : Trig.floor x = ⌊x⌋ := rfl
theorem trig_trunc (x : ℝ) : Trig.trunc x = if 0 ≤ x then ⌊x⌋ else ⌈x⌉ := rfl
theorem trig_pymod (x m : ℝ) : Trig.pymod x m = x - m * (⌊x / m⌋ : ℝ) := rfl
@[simp] theorem trig_powi (x : ℝ) (n : Nat) : Trig.powi x n = x ^ n := rfl
theorem trig_hypot (x y : ℝ) : Trig.hypot x y = Real.sqrt (x * x + y * y) := rfl
theorem trig_atan2 (y x : ℝ) : Trig.atan2 y x = Complex.arg ⟨x, y⟩ := rfl

theorem radians_eq (x : ℝ) : radians x = x * (Real.pi / 180) := by
  unfold radians; norm_num
theorem degrees_eq (x : ℝ) : degrees x = x * (180 / Real.pi) := by
  unfold degrees; norm_num

theorem degrees_radians (x : ℝ) : degrees (radians x) = x := by
  rw [radians_eq, degrees_eq]; field_simp
theorem radians_degrees (x : ℝ) : radians (degrees x) = x := by
  rw [radians_eq, degrees_eq]; field_simp

theorem trunc_of_nonneg {x : ℝ} (h : 0 ≤ x) : Trig.trunc x = ⌊x⌋ := by
  rw [trig_trunc, if_pos h]
theorem trunc_of_neg {x : ℝ} (h : x < 0) : Trig.trunc x = ⌈x⌉ := by
  rw [trig_trunc, if_neg (not_le.mpr h)]

end Astral
