import Astral.Model.Proto
import Astral.Model.Julian
open Astral Astral.Proto

abbrev F := Float

def exc {β} (f : β → String) : Except Err β → String
  | .ok v => f v
  | .error e => tokE e

def hms (x : Int × Int × Int) : String := s!"{tokI x.1} {tokI x.2.1} {tokI x.2.2}"

def calOf (i : Int) : CalendarKind := if i == 2 then .julian else .gregorian

def handle (fn : String) (a : Array String) : Option String := do
  match fn with
  | "julianday_date" =>
      let d ← getI a[0]!; let c ← getI a[1]!
      pure (tokF (julianDayDate (α := F) d (calOf c)))
  | "julianday_dt" =>
      let w ← getI a[0]!; let c ← getI a[1]!
      pure (tokF (julianDayWall (α := F) w (calOf c)))
  | "julianday_modified" =>
      let w ← getI a[0]!
      pure (tokF (julianDayModified (α := F) w))
  | "julianday_to_datetime" =>
      let x ← getF a[0]!
      pure (exc tokI (julianDayToDateTime x))
  | "jd_to_jc" => let x ← getF a[0]!; pure (tokF (julianDayToCentury x))
  | "jc_to_jd" => let x ← getF a[0]!; pure (tokF (julianCenturyToDay x))
  | "jd2000_date" => let d ← getI a[0]!; pure (tokF (julianDay2000Date (α := F) d))
  | "day_fraction_to_time" => let x ← getF a[0]!; pure (exc hms (dayFractionToTime x))
  | "hours_to_time" =>
      let x ← getF a[0]!
      pure (exc (fun (h, m, s, us) => s!"{tokI h} {tokI m} {tokI s} {tokI us}") (hoursToTime x))
  | "time_to_hours" =>
      let h ← getI a[0]!; let m ← getI a[1]!; let s ← getI a[2]!; let us ← getI a[3]!
      pure (tokF (timeToHours (α := F) h m s us))
  | "time_to_seconds" =>
      let h ← getI a[0]!; let m ← getI a[1]!; let s ← getI a[2]!; let us ← getI a[3]!
      pure (tokF (timeToSeconds (α := F) h m s us))
  | "minutes_to_timedelta" => let x ← getF a[0]!; pure (tokI (minutesToTimedelta x))
  | "ord_to_ymd" =>
      let d ← getI a[0]!
      pure (hms (ordToYMD d))
  | "ymd_to_ord" =>
      let y ← getI a[0]!; let m ← getI a[1]!; let d ← getI a[2]!
      pure (exc tokI (mkDate? y m d))
  | "weekday" => let d ← getI a[0]!; pure (tokI (weekday d))
  | _ => none

def processLine (line : String) : String :=
  let toks := (line.trimAscii.toString.splitOn " ").filter (· ≠ "")
  match toks with
  | [] => ""
  | fn :: args =>
    let a := args.toArray
    -- pad so that a[i]! on a short line yields a token no getter accepts
    let a := a ++ Array.replicate 16 "?"
    match handle fn a with
    | some r => r
    | none => tokE .badRequest

partial def loop (h : IO.FS.Stream) (out : IO.FS.Stream) : IO Unit := do
  let line ← h.getLine
  if line.isEmpty then return ()
  out.putStrLn (processLine line)
  loop h out

def main : IO Unit := do
  let stdin ← IO.getStdin
  let stdout ← IO.getStdout
  loop stdin stdout
  stdout.flush
