import Astral.Model.Proto
import Astral.Model.Julian
import Astral.Model.Sun
import Astral.Model.Moon
import Astral.Model.Geocoder
import Astral.Model.Location
import Astral.Model.Norm
import Std.Data.HashMap
open Astral Astral.Proto

abbrev F := Float

def exc {β} (f : β → String) : Except Err β → String
  | .ok v => f v
  | .error e => tokE e

def hms (x : Int × Int × Int) : String := s!"{tokI x.1} {tokI x.2.1} {tokI x.2.2}"

def calOf (i : Int) : CalendarKind := if i == 2 then .julian else .gregorian

/-- step function from a sorted table of (start, offset); the first entry covers -∞ -/
def stepLookup (tab : Array (Int × Int)) (t : Int) : Int := Id.run do
  if tab.size == 0 then return 0
  let mut lo := 0
  let mut hi := tab.size
  -- invariant: tab[lo].1 ≤ t (or lo = 0), tab[hi].1 > t (or hi = size)
  while lo + 1 < hi do
    let mid := (lo + hi) / 2
    if tab[mid]!.1 ≤ t then lo := mid else hi := mid
  return tab[lo]!.2

abbrev Zones := Std.HashMap Int TZ

def parsePairs (a : Array String) (start n : Nat) : Option (Array (Int × Int)) := do
  let mut out : Array (Int × Int) := #[]
  for i in [0:n] do
    let t ← getI a[start + 2 * i]!
    let o ← getI a[start + 2 * i + 1]!
    out := out.push (t, o)
  return out

/-- `zone I<id> I<k> (I<t> I<off>)*k I<m> (I<w> I<off>)*m` -/
def parseZone (a : Array String) : Option (Int × TZ) := do
  let id ← getI a[0]!
  let k ← getI a[1]!
  let u ← parsePairs a 2 k.toNat
  let m ← getI a[2 + 2 * k.toNat]!
  let l ← parsePairs a (3 + 2 * k.toNat) m.toNat
  return (id, ⟨stepLookup u, stepLookup l⟩)

def getObs (a : Array String) (i : Nat) : Option (Obs F) := do
  let lat ← getF a[i]!; let lon ← getF a[i+1]!
  let k ← getI a[i+2]!; let x ← getF a[i+3]!; let y ← getF a[i+4]!
  return ⟨lat, lon, if k == 0 then .flt x else .tup x y⟩

def getDir (t : String) : Option Dir := do
  let i ← getI t
  return (if i == 1 then .rising else .setting)

def getZ (zs : Zones) (t : String) : Option TZ := do
  let i ← getI t
  zs.get? i

def getOff (t : String) : Option (Option Int) :=
  if t == "N" then some none else (getI t).map some

def pair (x : Int × Int) : String := s!"{tokI x.1} {tokI x.2}"
def fpair (x : F × F) : String := s!"{tokF x.1} {tokF x.2}"

def handleSun (zs : Zones) (fn : String) (a : Array String) : Option String := do
  match fn with
  | "refraction_at_zenith" => let x ← getF a[0]!; pure (tokF (refractionAtZenith x))
  | "geom_mean_long_sun" => let x ← getF a[0]!; pure (tokF (geomMeanLongSun x))
  | "geom_mean_anomaly_sun" => let x ← getF a[0]!; pure (tokF (geomMeanAnomalySun x))
  | "eccentric_location_earth_orbit" => let x ← getF a[0]!; pure (tokF (eccentricLocationEarthOrbit x))
  | "sun_eq_of_center" => let x ← getF a[0]!; pure (tokF (sunEqOfCenter x))
  | "sun_true_long" => let x ← getF a[0]!; pure (tokF (sunTrueLong x))
  | "sun_true_anomoly" => let x ← getF a[0]!; pure (tokF (sunTrueAnomaly x))
  | "sun_rad_vector" => let x ← getF a[0]!; pure (tokF (sunRadVector x))
  | "sun_apparent_long" => let x ← getF a[0]!; pure (tokF (sunApparentLong x))
  | "mean_obliquity_of_ecliptic" => let x ← getF a[0]!; pure (tokF (meanObliquityOfEcliptic x))
  | "obliquity_correction" => let x ← getF a[0]!; pure (tokF (obliquityCorrection x))
  | "sun_rt_ascension" => let x ← getF a[0]!; pure (tokF (sunRtAscension x))
  | "sun_declination" => let x ← getF a[0]!; pure (tokF (sunDeclination x))
  | "var_y" => let x ← getF a[0]!; pure (tokF (varY x))
  | "eq_of_time" => let x ← getF a[0]!; pure (tokF (eqOfTime x))
  | "hour_angle" =>
      let l ← getF a[0]!; let d ← getF a[1]!; let z ← getF a[2]!; let dir ← getDir a[3]!
      pure (exc tokF (hourAngle l d z dir))
  | "adjust_to_horizon" => let x ← getF a[0]!; pure (tokF (adjustToHorizon x))
  | "adjust_to_obscuring_feature" =>
      let x ← getF a[0]!; let y ← getF a[1]!
      pure (exc tokF (adjustToObscuringFeature x y))
  | "time_of_transit" =>
      let o ← getObs a 0; let d ← getI a[5]!; let z ← getF a[6]!; let dir ← getDir a[7]!
      let r ← getB a[8]!
      pure (exc tokI (timeOfTransit o d z dir r))
  | "time_at_elevation" =>
      let o ← getObs a 0; let e ← getF a[5]!; let d ← getI a[6]!; let dir ← getDir a[7]!
      let tz ← getZ zs a[8]!; let r ← getB a[9]!
      pure (exc tokI (timeAtElevation o e d dir tz r))
  | "noon" =>
      let o ← getObs a 0; let d ← getI a[5]!; let tz ← getZ zs a[6]!
      pure (exc tokI (noon o d tz))
  | "midnight" =>
      let o ← getObs a 0; let d ← getI a[5]!; let tz ← getZ zs a[6]!
      pure (exc tokI (midnight o d tz))
  | "zenith_and_azimuth" =>
      let o ← getObs a 0; let w ← getI a[5]!; let off ← getOff a[6]!; let r ← getB a[7]!
      pure (fpair (zenithAndAzimuth o w off r))
  | "zenith" =>
      let o ← getObs a 0; let w ← getI a[5]!; let off ← getOff a[6]!; let r ← getB a[7]!
      pure (tokF (sunZenith o w off r))
  | "azimuth" =>
      let o ← getObs a 0; let w ← getI a[5]!; let off ← getOff a[6]!
      pure (tokF (sunAzimuth o w off))
  | "elevation" =>
      let o ← getObs a 0; let w ← getI a[5]!; let off ← getOff a[6]!; let r ← getB a[7]!
      pure (tokF (sunElevation o w off r))
  | "dawn" =>
      let o ← getObs a 0; let d ← getI a[5]!; let dep ← getF a[6]!; let tz ← getZ zs a[7]!
      pure (exc tokI (dawn o d dep tz))
  | "dusk" =>
      let o ← getObs a 0; let d ← getI a[5]!; let dep ← getF a[6]!; let tz ← getZ zs a[7]!
      pure (exc tokI (dusk o d dep tz))
  | "sunrise" =>
      let o ← getObs a 0; let d ← getI a[5]!; let tz ← getZ zs a[6]!
      pure (exc tokI (sunrise o d tz))
  | "sunset" =>
      let o ← getObs a 0; let d ← getI a[5]!; let tz ← getZ zs a[6]!
      pure (exc tokI (sunset o d tz))
  | "daylight" =>
      let o ← getObs a 0; let d ← getI a[5]!; let tz ← getZ zs a[6]!
      pure (exc pair (daylight o d tz))
  | "night" =>
      let o ← getObs a 0; let d ← getI a[5]!; let tz ← getZ zs a[6]!
      pure (exc pair (night o d tz))
  | "twilight" =>
      let o ← getObs a 0; let d ← getI a[5]!; let dir ← getDir a[6]!; let tz ← getZ zs a[7]!
      pure (exc pair (twilight o d dir tz))
  | "golden_hour" =>
      let o ← getObs a 0; let d ← getI a[5]!; let dir ← getDir a[6]!; let tz ← getZ zs a[7]!
      pure (exc pair (goldenHour o d dir tz))
  | "blue_hour" =>
      let o ← getObs a 0; let d ← getI a[5]!; let dir ← getDir a[6]!; let tz ← getZ zs a[7]!
      pure (exc pair (blueHour o d dir tz))
  | "rahukaalam" =>
      let o ← getObs a 0; let d ← getI a[5]!; let day ← getB a[6]!; let tz ← getZ zs a[7]!
      pure (exc pair (rahukaalam o d day tz))
  | "sun" =>
      let o ← getObs a 0; let d ← getI a[5]!; let dep ← getF a[6]!; let tz ← getZ zs a[7]!
      pure (exc (fun (s : SunTimes) =>
        s!"{tokI s.dawn} {tokI s.sunrise} {tokI s.noon} {tokI s.sunset} {tokI s.dusk}")
        (sunBundle o d dep tz))
  | _ => none

def optI : Option Int → String
  | some t => tokI t
  | none => "N"

def handleMoon (zs : Zones) (fn : String) (a : Array String) : Option String := do
  match fn with
  | "moon_position" =>
      let x ← getF a[0]!
      pure (exc (fun (p : BodyPos F) => s!"{tokF p.ra} {tokF p.dec} {tokF p.dist}") (moonPosition x))
  | "gmst_jd2000" => let x ← getF a[0]!; pure (tokF (gmstOfJd2000 x))
  | "gmst_date" => let d ← getI a[0]!; pure (tokF (gmstOfJd2000 (julianDay2000Date (α := F) d)))
  | "gmst_dt" => let w ← getI a[0]!; pure (tokF (gmstOfJd2000 (julianDay2000Wall (α := F) w)))
  | "lmst_date" =>
      let d ← getI a[0]!; let lon ← getF a[1]!
      pure (tokF (lmstOfJd2000 (julianDay2000Date (α := F) d) lon))
  | "interpolate" =>
      let f0 ← getF a[0]!; let f1 ← getF a[1]!; let f2 ← getF a[2]!; let p ← getF a[3]!
      pure (tokF (interpolate f0 f1 f2 p))
  | "riseset" =>
      let d ← getI a[0]!; let lat ← getF a[1]!; let lon ← getF a[2]!
      pure (exc (fun (r : Option Int × Option Int) => s!"{optI r.1} {optI r.2}") (riseset d lat lon))
  | "moonrise" =>
      let lat ← getF a[0]!; let lon ← getF a[1]!; let d ← getI a[2]!; let tz ← getZ zs a[3]!
      pure (exc optI (moonrise lat lon d tz))
  | "moonset" =>
      let lat ← getF a[0]!; let lon ← getF a[1]!; let d ← getI a[2]!; let tz ← getZ zs a[3]!
      pure (exc optI (moonset lat lon d tz))
  | "moon_azimuth" =>
      let lat ← getF a[0]!; let lon ← getF a[1]!; let w ← getI a[2]!
      pure (exc tokF (moonAzimuth lat lon w))
  | "moon_elevation" =>
      let lat ← getF a[0]!; let lon ← getF a[1]!; let w ← getI a[2]!
      pure (exc tokF (moonElevation lat lon w))
  | "moon_zenith" =>
      let lat ← getF a[0]!; let lon ← getF a[1]!; let w ← getI a[2]!
      pure (exc tokF (moonZenith lat lon w))
  | "phase_asfloat" => let d ← getI a[0]!; pure (tokF (phaseAsFloat (α := F) d))
  | "phase" => let d ← getI a[0]!; pure (tokF (phase (α := F) d))
  | "phase_dt" => let w ← getI a[0]!; pure (tokF (phaseWall (α := F) w))
  | _ => none

/-- `F<hex>` | `S<cps>` | `O` -/
def getArg (t : String) : Option (Arg F) :=
  if t == "O" then some .other
  else if t.startsWith "F" then (getF t).map .num
  else if t.startsWith "S" then (getS t).map .str
  else none

def getLimit (t : String) : Option (Option F) :=
  if t == "N" then some none else (getF t).map some

/-- `one:<arg>` | `pair:<arg>;<arg>` -/
def getElevArg (t : String) : Option (ElevArg F) :=
  if t.startsWith "one:" then (getArg (t.drop 4).toString).map .one
  else if t.startsWith "pair:" then
    match (t.drop 5).toString.splitOn ";" with
    | [x, y] => do let a ← getArg x; let b ← getArg y; pure (.pair a b)
    | _ => none
  else none

def tokElev : Elev F → String
  | .flt h => s!"I0 {tokF h} {tokF 0.0}"
  | .tup a b => s!"I1 {tokF a} {tokF b}"

def tokRec (r : Rec F) : String :=
  s!"{tokS r.name} {tokS r.region} {tokS r.tz} {tokF r.lat} {tokF r.lon}"

def tokGroup (g : Group F) : String :=
  let parts := g.map (fun (k, l) =>
    s!"{tokS k} {tokI l.length} " ++ " ".intercalate (l.map tokRec))
  s!"G {tokI g.length} " ++ " ".intercalate parts

def getItem (t : String) : Option (Item F) :=
  if t.startsWith "L:" then (getS (t.drop 2).toString).map .line
  else if t.startsWith "F:" then
    let body := (t.drop 2).toString
    if body.isEmpty then some (.fields [])
    else ((body.splitOn "|").mapM getS).map .fields
  else if t.startsWith "T:" then
    match (t.drop 2).toString.splitOn "|" with
    | [n, r, z, la, lo] => do
      let n ← getS n; let r ← getS r; let z ← getS z
      let la ← getArg la; let lo ← getArg lo
      pure (.tuple n r z la lo)
    | _ => none
  else none

def optErr : Option Err → String
  | none => "N"
  | some e => tokE e

structure St where
  zones : Zones := {}
  dbs : Std.HashMap Int (Db F) := {}

def handleGeo (st : St) (fn : String) (a : Array String) : Option (St × String) := do
  match fn with
  | "dms_to_float" =>
      let x ← getArg a[0]!; let l ← getLimit a[1]!
      pure (st, exc tokF (dmsToFloat x l))
  | "obs_run" =>
      -- obs_run <lat> <lon> <elev> I<k> (<field> <val>)*k
      let la ← getArg a[0]!; let lo ← getArg a[1]!; let el ← getElevArg a[2]!
      let k ← getI a[3]!
      match Obs.mk? la lo el with
      | .error e => pure (st, tokE e)
      | .ok o0 =>
        let mut o := o0
        let mut outs : List String := []
        for i in [0:k.toNat] do
          let f := a[4 + 2 * i]!
          let v := a[5 + 2 * i]!
          let (fld, val) ← (match f with
            | "lat" => (getArg v).map (fun x => (ObsField.latitude, ObsVal.coord x))
            | "lon" => (getArg v).map (fun x => (ObsField.longitude, ObsVal.coord x))
            | "elev" => (getElevArg v).map (fun x => (ObsField.elevation, ObsVal.elev x))
            | _ => none)
          match o.set fld val with
          | .ok o' => o := o'; outs := outs ++ ["N"]
          | .error e => outs := outs ++ [tokE e]
        pure (st, s!"{tokF o.lat} {tokF o.lon} {tokElev o.elev} " ++ " ".intercalate outs)
  | "coords_run" =>
      -- coords_run <lat> <lon> I<k> (<field> <arg>)*k  (LocationInfo / Location setters)
      let la ← getArg a[0]!; let lo ← getArg a[1]!
      let k ← getI a[2]!
      match (do let x ← dmsToFloat la (some 90.0); let y ← dmsToFloat lo (some 180.0);
                pure (⟨x, y⟩ : Coords F)) with
      | .error e => pure (st, tokE e)
      | .ok c0 =>
        let mut c := c0
        let mut outs : List String := []
        for i in [0:k.toNat] do
          let f := a[3 + 2 * i]!
          let v ← getArg a[4 + 2 * i]!
          let fld ← (match f with
            | "lat" => some CoordField.latitude | "lon" => some CoordField.longitude | _ => none)
          match c.set fld v with
          | .ok c' => c := c'; outs := outs ++ ["N"]
          | .error e => outs := outs ++ [tokE e]
        pure (st, s!"{tokF c.lat} {tokF c.lon} " ++ " ".intercalate outs)
  | "db_new" =>
      let h ← getI a[0]!
      pure ({ st with dbs := st.dbs.insert h [] }, "ok")
  | "db_add_text" =>
      let h ← getI a[0]!; let s ← getS a[1]!
      let db ← st.dbs.get? h
      let (db', e) := addStr db s
      pure ({ st with dbs := st.dbs.insert h db' }, optErr e)
  | "db_add_list" =>
      let h ← getI a[0]!; let k ← getI a[1]!
      let db ← st.dbs.get? h
      let items ← (List.range k.toNat).mapM (fun i => getItem a[2 + i]!)
      let (db', e) := addItems db items
      pure ({ st with dbs := st.dbs.insert h db' }, optErr e)
  | "db_lookup" =>
      let h ← getI a[0]!; let s ← getS a[1]!
      let db ← st.dbs.get? h
      pure (st, exc (fun r => match r with
        | LookupResult.group g => tokGroup g
        | LookupResult.loc r => "R " ++ tokRec r) (lookup s db))
  | "db_group" =>
      let h ← getI a[0]!; let s ← getS a[1]!
      let db ← st.dbs.get? h
      pure (st, exc tokGroup (groupLookup s db))
  | "db_lookup_in_group" =>
      let h ← getI a[0]!; let g ← getS a[1]!; let s ← getS a[2]!
      let db ← st.dbs.get? h
      pure (st, exc (fun r => "R " ++ tokRec r) (do
        let grp ← groupLookup g db
        lookupInGroup s grp))
  | "db_all" =>
      let h ← getI a[0]!
      let db ← st.dbs.get? h
      let l := allLocations db
      pure (st, s!"{tokI l.length} " ++ " ".intercalate (l.map tokRec))
  | "db_keys" =>
      let h ← getI a[0]!
      let db ← st.dbs.get? h
      pure (st, " ".intercalate (db.map (fun (k, g) => s!"{tokS k} {tokI g.length}")))
  | "sanitize" => let s ← getS a[0]!; pure (st, tokS (sanitize s))
  | _ => none

def getMethod (t : String) : Option Method :=
  match t with
  | "sun" => some .sun | "dawn" => some .dawn | "sunrise" => some .sunrise | "noon" => some .noon
  | "sunset" => some .sunset | "dusk" => some .dusk | "midnight" => some .midnight
  | "daylight" => some .daylight | "night" => some .night | "twilight" => some .twilight
  | "moonrise" => some .moonrise | "moonset" => some .moonset
  | "time_at_elevation" => some .timeAtElevation | "rahukaalam" => some .rahukaalam
  | "golden_hour" => some .goldenHour | "blue_hour" => some .blueHour
  | "solar_azimuth" => some .solarAzimuth | "solar_elevation" => some .solarElevation
  | "solar_zenith" => some .solarZenith | "moon_phase" => some .moonPhase
  | _ => none

def tokZone : ZoneArg → String
  | .named t => tokS t
  | .omitted => "U"

def tokDateArg : DateArg → String
  | .given d => tokI d
  | .today z => "today:" ++ tokZone z

def tokOpt {β : Type} (f : β → String) : Option β → String
  | some x => f x
  | none => "N"

def tokDir : Dir → String
  | .rising => "I1"
  | .setting => "I-1"

def tokCall (c : Call F) : String :=
  let elev : String := match c.elev with
    | none => tokElev (.flt 0.0)
    | some e => match elevOfArg e with
      | .ok v => tokElev v
      | .error er => tokE er
  s!"{c.target.tag} {tokF c.lat} {tokF c.lon} {elev} {tokOpt tokDateArg c.date} " ++
  s!"{tokOpt tokF c.dep} {tokOpt tokZone c.zone} {tokOpt tokDir c.dir} {tokOpt tokF c.elevationArg}"

def handleLoc (fn : String) (a : Array String) : Option String := do
  match fn with
  | "loc_call" =>
      -- loc_call <lat> <lon> <tz> <dep> <method> <date|N> <local> <obsElev|N> <dir> <elevation|N>
      let lat ← getF a[0]!; let lon ← getF a[1]!; let tz ← getS a[2]!; let dep ← getF a[3]!
      let m ← getMethod a[4]!
      let date ← (if a[5]! == "N" then some none else (getI a[5]!).map some)
      let loc ← getB a[6]!
      let oe ← (if a[7]! == "N" then some none else (getElevArg a[7]!).map some)
      let dir ← getDir a[8]!
      let el ← (if a[9]! == "N" then some none else (getF a[9]!).map some)
      let st : LocState F := ⟨lat, lon, tz, dep⟩
      pure (tokCall (Location.call st m ⟨date, loc, oe, dir, el⟩))
  | "set_depression" =>
      let t := a[0]!
      let d : DepArg F ← (if t == "civil" then some DepArg.civil
        else if t == "nautical" then some DepArg.nautical
        else if t == "astronomical" then some DepArg.astronomical
        else if t.startsWith "name:" then (getS (t.drop 5).toString).map DepArg.name
        else (getArg t).map DepArg.num)
      pure (exc tokF (setDepression d))
  | "set_timezone" =>
      -- set_timezone <current zone> <assigned name> <known B> → zone afterwards, outcome
      let cur ← getS a[0]!; let nm ← getS a[1]!; let known ← getB a[2]!
      let st : LocState F := ⟨0.0, 0.0, cur, 6.0⟩
      let (st', e) := setTimezone st nm known
      pure (tokS st'.tz ++ " " ++ (match e with | none => "ok" | some err => tokE err))
  | "cli_run" =>
      -- cli_run <name> <region> <date|N> <tz|N> <lat> <lon> <elev>
      let n ← getS a[0]!; let r ← getS a[1]!
      let date ← (if a[2]! == "N" then some none else (getI a[2]!).map some)
      let tz ← (if a[3]! == "N" then some none else (getS a[3]!).map some)
      let lat ← getF a[4]!; let lon ← getF a[5]!; let el ← getF a[6]!
      let o := Cli.run (⟨n, r, date, tz, lat, lon, el⟩ : CliArgs F)
      pure (s!"{tokCall o.call} {tokB o.utcSuffix} {tokS o.timezoneLabel} {tokS o.locationLabel}")
  | _ => none

def getTzArg (zs : Zones) (t : String) : Option TzArg :=
  if t.startsWith "Zobj:" then ((t.drop 5).toString.toInt?).bind (fun i => (zs.get? i).map TzArg.obj)
  else if t.startsWith "Zname:" then ((t.drop 6).toString.toInt?).map (fun i => TzArg.name i.toNat)
  else none

def getDateSpec (zs : Zones) (t : String) : Option DateSpec :=
  if t == "N" then some .omitted
  else if t.startsWith "I" then (getI t).map DateSpec.date
  else if t.startsWith "W" then ((t.drop 1).toString.toInt?).map DateSpec.naive
  else if t.startsWith "A" then
    match (t.drop 1).toString.splitOn ":" with
    | [w, z] => do
      let w ← w.toInt?; let z ← z.toInt?; let tz ← zs.get? z
      pure (.aware w tz)
    | _ => none
  else none

def getDepSpec (t : String) : Option (DepSpec F) :=
  if t == "civil" then some .civil else if t == "nautical" then some .nautical
  else if t == "astronomical" then some .astronomical else (getF t).map DepSpec.num

def getOptI (t : String) : Option (Option Int) :=
  if t == "N" then some none else (getI t).map some

def resolveIn (zs : Zones) (n : Nat) : TZ := (zs.get? (n : Int)).getD TZ.UTC

def handleNorm (zs : Zones) (fn : String) (a : Array String) : Option String := do
  match fn with
  | "pub_event" =>
      -- pub_event <dawn|dusk|sunrise|sunset> <obs×5> <datespec> <depspec> <tzarg> <now>
      let f ← (match a[0]! with
        | "dawn" => some SunFn.dawn | "dusk" => some SunFn.dusk
        | "sunrise" => some SunFn.sunrise | "sunset" => some SunFn.sunset | _ => none)
      let o ← getObs a 1; let ds ← getDateSpec zs a[6]!; let dep ← getDepSpec a[7]!
      let tz ← getTzArg zs a[8]!; let now ← getI a[9]!
      pure (exc (fun (r : Int × TZ) => s!"{tokI r.1} {tokI (r.2.utc r.1)}")
        (sunEventPublic (resolveIn zs) now f o ds dep tz))
  | "pub_tae" =>
      let o ← getObs a 0; let e ← getF a[5]!; let d ← getOptI a[6]!; let dir ← getDir a[7]!
      let tz ← getTzArg zs a[8]!; let r ← getB a[9]!; let now ← getI a[10]!
      pure (exc tokI (timeAtElevationPublic (resolveIn zs) now o e d dir tz r))
  | "pub_noon" =>
      let o ← getObs a 0; let d ← getOptI a[5]!; let tz ← getTzArg zs a[6]!; let now ← getI a[7]!
      pure (exc tokI (noonPublic (resolveIn zs) now o d tz))
  | "pub_midnight" =>
      let o ← getObs a 0; let d ← getOptI a[5]!; let tz ← getTzArg zs a[6]!; let now ← getI a[7]!
      pure (exc tokI (midnightPublic (resolveIn zs) now o d tz))
  | "pub_midnight_dt" =>
      let o ← getObs a 0; let ds ← getDateSpec zs a[5]!; let tz ← getTzArg zs a[6]!; let now ← getI a[7]!
      pure (exc tokI (midnightPublicSpec (resolveIn zs) now o ds tz))
  | "pub_period" =>
      -- pub_period <fn> <obs…5> <date|N> <dir> <tz> <now>
      let fn ← (match a[0]! with
        | "daylight" => some PeriodFn.daylight | "night" => some .night | "twilight" => some .twilight
        | "golden_hour" => some .goldenHour | "blue_hour" => some .blueHour
        | "rahu_day" => some .rahuDay | "rahu_night" => some .rahuNight | _ => none)
      let o ← getObs a 1; let d ← getOptI a[6]!; let dir ← getDir a[7]!
      let tz ← getTzArg zs a[8]!; let now ← getI a[9]!
      pure (exc pair (periodPublic (resolveIn zs) now fn o d dir tz))
  | "pub_daynight" =>
      -- pub_daynight <night B> <obs…5> <datespec> <tz> <now>
      let isNight ← getB a[0]!; let o ← getObs a 1; let ds ← getDateSpec zs a[6]!
      let tz ← getTzArg zs a[7]!; let now ← getI a[8]!
      pure (exc (fun (r : (Int × TZ) × (Int × TZ)) =>
        s!"{tokI r.1.1} {tokI (r.1.2.utc r.1.1)} {tokI r.2.1} {tokI (r.2.2.utc r.2.1)}")
        (dayNightPublic (resolveIn zs) now isNight o ds tz))
  | "pub_sun" =>
      -- pub_sun <obs…5> <date|N> <dep> <tz> <now>
      let o ← getObs a 0; let d ← getOptI a[5]!
      let dep ← getDepSpec a[6]!
      let tz ← getTzArg zs a[7]!; let now ← getI a[8]!
      pure (exc (fun (s : SunTimes) =>
        s!"{tokI s.dawn} {tokI s.sunrise} {tokI s.noon} {tokI s.sunset} {tokI s.dusk}")
        (sunBundlePublic (resolveIn zs) now o d dep tz))
  | "pub_moon" =>
      let rise ← getB a[0]!; let lat ← getF a[1]!; let lon ← getF a[2]!
      let ds ← getDateSpec zs a[3]!; let tz ← getTzArg zs a[4]!; let now ← getI a[5]!
      pure (exc optI (moonPublic (resolveIn zs) now rise lat lon ds tz))
  | _ => none

def handle (fn : String) (a : Array String) : Option String := do
  match fn with
  | "julianday_date" =>
      let d ← getI a[0]!; let c ← getI a[1]!
      pure (tokF (julianDayDate (α := F) d (calOf c)))
  | "julianday_dt" =>
      let w ← getI a[0]!; let c ← getI a[1]!
      pure (tokF (julianDayWall (α := F) w (calOf c)))
  | "julianday_modified" =>
      let w ← getI a[0]!
      pure (tokF (julianDayModified (α := F) w))
  | "julianday_to_datetime" =>
      let x ← getF a[0]!
      pure (exc tokI (julianDayToDateTime x))
  | "jd_to_jc" => let x ← getF a[0]!; pure (tokF (julianDayToCentury x))
  | "jc_to_jd" => let x ← getF a[0]!; pure (tokF (julianCenturyToDay x))
  | "jd2000_date" => let d ← getI a[0]!; pure (tokF (julianDay2000Date (α := F) d))
  | "day_fraction_to_time" => let x ← getF a[0]!; pure (exc hms (dayFractionToTime x))
  | "hours_to_time" =>
      let x ← getF a[0]!
      pure (exc (fun (h, m, s, us) => s!"{tokI h} {tokI m} {tokI s} {tokI us}") (hoursToTime x))
  | "time_to_hours" =>
      let h ← getI a[0]!; let m ← getI a[1]!; let s ← getI a[2]!; let us ← getI a[3]!
      pure (tokF (timeToHours (α := F) h m s us))
  | "time_to_seconds" =>
      let h ← getI a[0]!; let m ← getI a[1]!; let s ← getI a[2]!; let us ← getI a[3]!
      pure (tokF (timeToSeconds (α := F) h m s us))
  | "minutes_to_timedelta" => let x ← getF a[0]!; pure (tokI (minutesToTimedelta x))
  | "ord_to_ymd" =>
      let d ← getI a[0]!
      pure (hms (ordToYMD d))
  | "ymd_to_ord" =>
      let y ← getI a[0]!; let m ← getI a[1]!; let d ← getI a[2]!
      pure (exc tokI (mkDate? y m d))
  | "weekday" => let d ← getI a[0]!; pure (tokI (weekday d))
  | _ => none

def processLine (st : St) (line : String) : St × String :=
  let toks := (line.trimAscii.toString.splitOn " ").filter (· ≠ "")
  match toks with
  | [] => (st, "")
  | fn :: args =>
    let a := args.toArray
    -- pad so that a[i]! on a short line yields a token no getter accepts
    let a := a ++ Array.replicate 16 "?"
    if fn == "zone" then
      match parseZone a with
      | some (id, tz) => ({ st with zones := st.zones.insert id tz }, "ok")
      | none => (st, tokE .badRequest)
    else
      match (handle fn a <|> handleSun st.zones fn a <|> handleMoon st.zones fn a <|> handleLoc fn a <|> handleNorm st.zones fn a) with
      | some r => (st, r)
      | none =>
        match handleGeo st fn a with
        | some (st', r) => (st', r)
        | none => (st, tokE .badRequest)

partial def loop (h : IO.FS.Stream) (out : IO.FS.Stream) (st : St) : IO Unit := do
  let line ← h.getLine
  if line.isEmpty then return ()
  let (st, r) := processLine st line
  out.putStrLn r
  loop h out st

def main : IO Unit := do
  let stdin ← IO.getStdin
  let stdout ← IO.getStdout
  loop stdin stdout {}
  stdout.flush
